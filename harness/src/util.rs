//! PRNG, wire formats (ids, blobs), payload classes.
use uuid::Uuid;

#[derive(Clone)]
pub struct Rng(pub u64);
impl Rng {
    pub fn new(seed: u64) -> Self {
        Rng(seed ^ 0x5DEECE66D)
    }
    pub fn next(&mut self) -> u64 {
        self.0 = self.0.wrapping_add(0x9E3779B97F4A7C15);
        let mut z = self.0;
        z = (z ^ (z >> 30)).wrapping_mul(0xBF58476D1CE4E5B9);
        z = (z ^ (z >> 27)).wrapping_mul(0x94D049BB133111EB);
        z ^ (z >> 31)
    }
    pub fn below(&mut self, n: usize) -> usize {
        if n == 0 {
            0
        } else {
            (self.next() % n as u64) as usize
        }
    }
    pub fn chance(&mut self, num: usize, den: usize) -> bool {
        self.below(den) < num
    }
    pub fn uuid(&mut self) -> Uuid {
        // keep the v4 shape so that the text never looks special
        let v = ((self.next() as u128) << 64) | self.next() as u128;
        uuid::Builder::from_random_bytes(v.to_be_bytes()).into_uuid()
    }
    pub fn fork(&mut self) -> Rng {
        Rng(self.next())
    }
    pub fn pick<'a, T>(&mut self, xs: &'a [T]) -> &'a T {
        &xs[self.below(xs.len())]
    }
    /// weighted choice: returns index
    pub fn weighted(&mut self, w: &[usize]) -> usize {
        let tot: usize = w.iter().sum();
        let mut x = self.below(tot.max(1));
        for (i, wi) in w.iter().enumerate() {
            if x < *wi {
                return i;
            }
            x -= wi;
        }
        w.len() - 1
    }
}

pub fn hex(b: &[u8]) -> String {
    let mut s = String::with_capacity(b.len() * 2);
    for x in b {
        s.push_str(&format!("{x:02x}"));
    }
    s
}

pub fn fnv64(b: &[u8]) -> u64 {
    let mut h: u64 = 0xcbf29ce484222325;
    for x in b {
        h ^= *x as u64;
        h = h.wrapping_mul(0x100000001b3);
    }
    h
}

/// Full-content blob: `-` (empty) | `hex:…` | `rle:<bytehex>*<n>,…` (when it has few runs)
pub fn blob(b: &[u8]) -> String {
    if b.is_empty() {
        return "-".into();
    }
    if b.len() > 64 {
        // try run-length encoding
        let mut runs: Vec<(u8, usize)> = vec![];
        for x in b {
            match runs.last_mut() {
                Some((y, n)) if *y == *x => *n += 1,
                _ => {
                    if runs.len() > 256 {
                        break;
                    }
                    runs.push((*x, 1))
                }
            }
        }
        if runs.len() <= 256 {
            return format!(
                "rle:{}",
                runs.iter().map(|(x, n)| format!("{x:02x}*{n}")).collect::<Vec<_>>().join(",")
            );
        }
    }
    format!("hex:{}", hex(b))
}

/// Short form used inside dumps: full content up to 32 bytes, else length and FNV-1a hash.
pub fn blob_short(b: &[u8]) -> String {
    if b.is_empty() {
        "-".into()
    } else if b.len() <= 32 {
        format!("hex:{}", hex(b))
    } else {
        format!("fnv:{}:{:016x}", b.len(), fnv64(b))
    }
}

pub fn unix_now() -> i64 {
    std::time::SystemTime::now().duration_since(std::time::UNIX_EPOCH).unwrap().as_secs() as i64
}

/// Deterministic payloads by class.
#[derive(Clone, Debug)]
pub struct PayloadSpec {
    pub kind: u8,
    pub len: usize,
    pub seed: u64,
}
pub const PAYLOAD_KINDS: [&str; 8] =
    ["random", "zeros", "ff", "digits", "badutf8", "text", "numeric-looking", "sqlish"];
impl PayloadSpec {
    pub fn bytes(&self) -> Vec<u8> {
        let mut r = Rng(self.seed);
        let n = self.len;
        match self.kind {
            0 => (0..n).map(|_| r.next() as u8).collect(),
            1 => vec![0u8; n],
            2 => vec![0xffu8; n],
            3 => (0..n).map(|i| b'0' + (i % 10) as u8).collect(),
            4 => (0..n).map(|i| [0xc3u8, 0x28, 0xa0, 0xa1, 0xe2, 0x28, 0xf0, 0x80][i % 8]).collect(),
            5 => (0..n).map(|i| b"the quick brown fox "[i % 20]).collect(),
            6 => {
                let t = b"1e5";
                let u = b"123456789";
                if n <= 3 {
                    t[..n].to_vec()
                } else {
                    (0..n).map(|i| u[i % 9]).collect()
                }
            }
            _ => (0..n).map(|i| b"'; DROP TABLE versions; --\0"[i % 27]).collect(),
        }
    }
    pub fn small(r: &mut Rng) -> Self {
        PayloadSpec { kind: r.below(8) as u8, len: 1 + r.below(12), seed: r.next() }
    }
}

pub fn urg_of_header(v: Option<&str>) -> String {
    match v {
        None => "-".into(),
        Some("urgency=low") => "low".into(),
        Some("urgency=high") => "high".into(),
        Some(o) => format!("other:{}", hex(o.as_bytes())),
    }
}
