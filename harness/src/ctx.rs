//! The system under test: real storages, real `Server`, real actix app (in process).
use crate::util::*;
use actix_web::dev::{Payload, Service};
use actix_web::error::PayloadError;
use actix_web::http::header::{HeaderName, HeaderValue};
use actix_web::http::Method;
use actix_web::web::Bytes;
use actix_web::{test, App};
use futures::future::LocalBoxFuture;
use futures::FutureExt;
use std::collections::HashSet;
use std::panic::AssertUnwindSafe;
use std::path::PathBuf;
use std::rc::Rc;
use std::sync::Arc;
use taskchampion_sync_server::WebServer;
use taskchampion_sync_server_core::*;
use taskchampion_sync_server_storage_sqlite::SqliteStorage;
use uuid::Uuid;

/// Delegating wrapper so that the library `Server`, the web server and the harness share one storage object.
pub struct Shared(pub Arc<dyn Storage>);
impl Storage for Shared {
    fn txn(&self, c: Uuid) -> anyhow::Result<Box<dyn StorageTxn + '_>> {
        self.0.txn(c)
    }
}

#[derive(Clone, Debug)]
pub struct ReqSpec {
    pub method: String,
    pub path: String,
    pub headers: Vec<(String, Vec<u8>)>,
    pub chunks: Vec<Vec<u8>>,
}

#[derive(Clone, Debug, Default)]
pub struct HttpObs {
    pub status: u16,
    pub vid: Option<String>,
    pub pvid: Option<String>,
    pub sr: Option<String>,
    pub ct: Option<String>,
    pub cc: Option<String>,
    pub body: Vec<u8>,
    pub panicked: bool,
}
impl HttpObs {
    pub fn wire(&self) -> String {
        if self.panicked {
            return "panic".into();
        }
        let o = |x: &Option<String>| x.clone().map(|s| if s.is_empty() { "hex:".to_string() } else { s }).unwrap_or("-".into());
        let enc = |x: &Option<String>| x.as_ref().map(|s| format!("hex:{}", hex(s.as_bytes()))).unwrap_or("-".into());
        format!(
            "{} vid={} pvid={} sr={} ct={} cc={} body={}",
            self.status,
            o(&self.vid),
            o(&self.pvid),
            urg_of_header(self.sr.as_deref()),
            enc(&self.ct),
            enc(&self.cc),
            blob(&self.body)
        )
    }
}

/// set by a scenario: the next HTTP request with a body delivers its last chunk only after two hours of *virtual* time
/// (the runtime's clock is paused and jumps to the next timer when idle), so any time-dependent handling of a slow
/// upload shows, whatever its constant
pub static STALL_ALL: std::sync::atomic::AtomicBool = std::sync::atomic::AtomicBool::new(false);
/// per-chunk delays (virtual milliseconds before each chunk) for the NEXT request, read when the call is made (not when
/// its future is first polled), so that two requests can be prepared one after the other and then run concurrently,
/// their chunks interleaving as on a real socket; the scenario that sets it pauses the clock itself
pub static DELAYS_NEXT: std::sync::Mutex<Option<Vec<u64>>> = std::sync::Mutex::new(None);
pub static STALL_NEXT: std::sync::atomic::AtomicBool = std::sync::atomic::AtomicBool::new(false);

pub type Caller = Box<dyn Fn(ReqSpec) -> LocalBoxFuture<'static, HttpObs>>;

pub async fn make_caller(web: WebServer) -> Caller {
    let app = Rc::new(test::init_service(App::new().configure(move |c| web.config(c))).await);
    Box::new(move |spec: ReqSpec| {
        let app = app.clone();
        let delays: Option<Vec<u64>> = DELAYS_NEXT.lock().unwrap().take();
        Box::pin(async move {
            let fut = async {
                let m = Method::from_bytes(spec.method.as_bytes()).unwrap();
                let mut r = test::TestRequest::default().method(m).uri(&spec.path);
                for (k, v) in &spec.headers {
                    r = r.append_header((HeaderName::from_bytes(k.as_bytes()).unwrap(), HeaderValue::from_bytes(v).unwrap()));
                }
                let req = r.to_request();
                let mut raw: Vec<Vec<u8>> = spec.chunks.clone();
                let mut stall = STALL_NEXT.swap(false, std::sync::atomic::Ordering::SeqCst);
                if stall && raw.len() == 1 && raw[0].len() >= 2 {
                    let half = raw[0].len() / 2;
                    let tail = raw[0].split_off(half);
                    raw.push(tail);
                }
                stall = stall && raw.len() >= 2;
                let nchunks = raw.len();
                let chunks: Vec<Result<Bytes, PayloadError>> = raw.into_iter().map(|c| Ok(Bytes::from(c))).collect();
                let s: std::pin::Pin<Box<dyn futures::Stream<Item = Result<Bytes, PayloadError>>>> = if let Some(delays) = delays {
                    use futures::StreamExt;
                    Box::pin(futures::stream::iter(chunks.into_iter().enumerate()).then(move |(i, c)| {
                        let d = delays.get(i).cloned().unwrap_or(1);
                        async move {
                            tokio::time::sleep(std::time::Duration::from_millis(d)).await;
                            c
                        }
                    }))
                } else if stall {
                    use futures::StreamExt;
                    tokio::time::pause();
                    Box::pin(futures::stream::iter(chunks.into_iter().enumerate()).then(move |(i, c)| async move {
                        if i + 1 == nchunks {
                            tokio::time::sleep(std::time::Duration::from_secs(7200)).await;
                        }
                        c
                    }))
                } else {
                    Box::pin(futures::stream::iter(chunks))
                };
                let (req, _) = req.replace_payload(Payload::Stream { payload: s });
                let called = app.call(req).await;
                if stall {
                    tokio::time::resume();
                }
                match called {
                    Ok(resp) => {
                        let h = |n: &str| resp.headers().get(n).map(|v| String::from_utf8_lossy(v.as_bytes()).to_string());
                        let mut o = HttpObs {
                            status: resp.status().as_u16(),
                            vid: h("X-Version-Id"),
                            pvid: h("X-Parent-Version-Id"),
                            sr: h("X-Snapshot-Request"),
                            ct: h("Content-Type"),
                            cc: h("Cache-Control"),
                            ..Default::default()
                        };
                        o.body = test::read_body(resp).await.to_vec();
                        o
                    }
                    Err(e) => HttpObs { status: e.as_response_error().status_code().as_u16(), ..Default::default() },
                }
            };
            match AssertUnwindSafe(fut).catch_unwind().await {
                Ok(o) => o,
                Err(_) => HttpObs { panicked: true, ..Default::default() },
            }
        })
    })
}

#[derive(Clone, Copy, PartialEq, Eq, Debug)]
pub enum BackendKind {
    Mem,
    Sql,
}

pub struct Sut {
    pub kind: BackendKind,
    pub dir: Option<PathBuf>,
    _tmp: Option<tempfile::TempDir>,
    pub storage: Arc<dyn Storage>,
    pub days: i64,
    pub versions: u32,
    pub allow: Option<Vec<Uuid>>,
    pub lib: Server,
    pub call: Caller,
}

impl Sut {
    pub async fn new(kind: BackendKind, days: i64, versions: u32, allow: Option<Vec<Uuid>>) -> Sut {
        let (storage, tmp): (Arc<dyn Storage>, Option<tempfile::TempDir>) = match kind {
            BackendKind::Mem => (Arc::new(InMemoryStorage::new()), None),
            BackendKind::Sql => {
                let base = std::env::var("VERIF_SCRATCH").unwrap_or_else(|_| "/dev/shm".into());
                let t = tempfile::Builder::new().prefix("tcsv").tempdir_in(&base).or_else(|_| tempfile::TempDir::new()).unwrap();
                (Arc::new(SqliteStorage::new(t.path()).unwrap()), Some(t))
            }
        };
        let dir = tmp.as_ref().map(|t| t.path().to_path_buf());
        Self::build(kind, dir, tmp, storage, days, versions, allow).await
    }
    /// Open an existing directory with the current code.
    pub async fn open_dir(dir: PathBuf, days: i64, versions: u32, allow: Option<Vec<Uuid>>) -> anyhow::Result<Sut> {
        let storage: Arc<dyn Storage> = Arc::new(SqliteStorage::new(&dir)?);
        Ok(Self::build(BackendKind::Sql, Some(dir), None, storage, days, versions, allow).await)
    }
    async fn build(kind: BackendKind, dir: Option<PathBuf>, tmp: Option<tempfile::TempDir>, storage: Arc<dyn Storage>, days: i64, versions: u32, allow: Option<Vec<Uuid>>) -> Sut {
        let lib = Server::new(ServerConfig { snapshot_days: days, snapshot_versions: versions }, Shared(storage.clone()));
        let web = WebServer::new(
            ServerConfig { snapshot_days: days, snapshot_versions: versions },
            allow.clone().map(|v| v.into_iter().collect::<HashSet<_>>()),
            Shared(storage.clone()),
        );
        let call = make_caller(web).await;
        Sut { kind, dir, _tmp: tmp, storage, days, versions, allow, lib, call }
    }
    /// Drop the storage object and construct a new one on the same directory (SQLite only).
    pub async fn reopen(&mut self) {
        if self.kind != BackendKind::Sql {
            return;
        }
        let dir = self.dir.clone().unwrap();
        let storage: Arc<dyn Storage> = Arc::new(SqliteStorage::new(&dir).unwrap());
        self.storage = storage.clone();
        self.lib = Server::new(ServerConfig { snapshot_days: self.days, snapshot_versions: self.versions }, Shared(storage.clone()));
        let web = WebServer::new(
            ServerConfig { snapshot_days: self.days, snapshot_versions: self.versions },
            self.allow.clone().map(|v| v.into_iter().collect::<HashSet<_>>()),
            Shared(storage),
        );
        self.call = make_caller(web).await;
    }
    /// Replace the storage the servers use by a wrapper around the current one.
    pub async fn wrap_storage<F: FnOnce(Arc<dyn Storage>) -> Arc<dyn Storage>>(&mut self, f: F) {
        let storage = f(self.storage.clone());
        self.lib = Server::new(ServerConfig { snapshot_days: self.days, snapshot_versions: self.versions }, Shared(storage.clone()));
        let web = WebServer::new(
            ServerConfig { snapshot_days: self.days, snapshot_versions: self.versions },
            self.allow.clone().map(|v| v.into_iter().collect::<HashSet<_>>()),
            Shared(storage),
        );
        self.call = make_caller(web).await;
    }

    /// Protocol-visible state of one client, read through the storage API in one transaction, probing `ids`.
    pub fn dump_client(&self, c: Uuid, ids: &[Uuid]) -> String {
        let r = std::panic::catch_unwind(AssertUnwindSafe(|| -> anyhow::Result<String> {
            let mut txn = self.storage.txn(c)?;
            let cl = txn.get_client()?;
            let mut s = String::new();
            match &cl {
                None => s.push_str("latest=none snap=- data=none"),
                Some(cl) => {
                    s.push_str(&format!("latest={}", cl.latest_version_id));
                    match &cl.snapshot {
                        None => s.push_str(" snap=-"),
                        Some(sn) => s.push_str(&format!(" snap={},{},{}", sn.version_id, sn.timestamp.timestamp(), sn.versions_since)),
                    }
                    let d = match &cl.snapshot {
                        Some(sn) => match txn.get_snapshot_data(sn.version_id) {
                            Ok(Some(d)) => blob_short(&d),
                            Ok(None) => "none".into(),
                            Err(_) => "err".into(),
                        },
                        None => "none".into(),
                    };
                    s.push_str(&format!(" data={d}"));
                }
            }
            for id in ids {
                if let Some(v) = txn.get_version(*id)? {
                    s.push_str(&format!(" V:{}={}/{}/{}", id, v.version_id, v.parent_version_id, blob_short(&v.history_segment)));
                }
            }
            for id in ids {
                if let Some(v) = txn.get_version_by_parent(*id)? {
                    s.push_str(&format!(" P:{}={}", id, v.version_id));
                }
            }
            Ok(s)
        }));
        match r {
            Ok(Ok(s)) => s,
            Ok(Err(_)) => "err".into(),
            Err(_) => "panic".into(),
        }
    }

    /// All rows of both tables, straight from the database file (SQLite only).
    pub fn raw_dump(&self) -> Option<String> {
        let dir = self.dir.as_ref()?;
        let con = rusqlite::Connection::open(dir.join("taskchampion-sync-server.sqlite3")).ok()?;
        let mut out = String::new();
        let txt = |v: rusqlite::types::Value| -> String {
            match v {
                rusqlite::types::Value::Null => "NULL".into(),
                rusqlite::types::Value::Integer(i) => format!("{i}"),
                rusqlite::types::Value::Real(f) => format!("real:{f}"),
                rusqlite::types::Value::Text(t) => t,
                rusqlite::types::Value::Blob(b) => blob_short(&b),
            }
        };
        let mut q = con
            .prepare("SELECT client_id, latest_version_id, snapshot_version_id, versions_since_snapshot, snapshot_timestamp, snapshot FROM clients ORDER BY client_id")
            .ok()?;
        let rows = q
            .query_map([], |r| Ok((0..6).map(|i| r.get::<_, rusqlite::types::Value>(i)).collect::<Result<Vec<_>, _>>()?))
            .ok()?;
        for r in rows {
            let r = r.ok()?;
            out.push_str(&format!(" C:{}", r.into_iter().map(txt).collect::<Vec<_>>().join(",")));
        }
        let mut q = con.prepare("SELECT version_id, client_id, parent_version_id, history_segment FROM versions ORDER BY version_id").ok()?;
        let rows = q
            .query_map([], |r| Ok((0..4).map(|i| r.get::<_, rusqlite::types::Value>(i)).collect::<Result<Vec<_>, _>>()?))
            .ok()?;
        for r in rows {
            let r = r.ok()?;
            out.push_str(&format!(" V:{}", r.into_iter().map(txt).collect::<Vec<_>>().join(",")));
        }
        Some(out.trim_start().to_string())
    }
}
