//! C19: data directories written by the PINNED release.
//!  `mkfixture`  (run once, from a harness built against a scratch worktree of the pinned commit): generate a
//!               history, leave the data directory behind, record the expected logical content.
//!  `fixture`    (every check run, built against /repo's current tree): open a copy of each committed
//!               directory with the current code, dump it, export the raw rows straight from the file, append
//!               one version per client and walk the chains.
use crate::ctx::*;
use crate::exec::*;
use crate::gen::*;
use crate::scen::sched::SutLite;
use crate::util::*;
use crate::Args;
use std::io::{BufWriter, Write};
use std::path::{Path, PathBuf};
use uuid::Uuid;

fn copy_dir(src: &Path, dst: &Path) {
    std::fs::create_dir_all(dst).unwrap();
    for e in std::fs::read_dir(src).unwrap().flatten() {
        if e.path().is_file() {
            std::fs::copy(e.path(), dst.join(e.file_name())).unwrap();
        }
    }
}

pub fn make(args: &Args) -> i32 {
    let seed = args.num("seed", 0);
    let name = args.get("name", "fx");
    let outdir = PathBuf::from(args.get("outdir", "/tmp/fixtures"));
    let live_wal = args.get("livewal", "0") == "1";
    let big = args.get("big", "0") == "1";
    let nops = args.num("nops", 40) as usize;
    let fx = outdir.join(&name);
    let _ = std::fs::remove_dir_all(&fx);
    let data = fx.join("data");
    std::fs::create_dir_all(&data).unwrap();
    actix_rt::System::new().block_on(async {
        let mut r = Rng::new(seed);
        let g = GenCfg { nclients: (3, 4), nops: (nops, nops), final_walks: false, w_ops: [56, 4, 32, 6, 2, 0], av_latest_pct: 88, nonnil_base_pct: 50, big_payload_pct: if big { 25 } else { 5 }, ..GenCfg::default() };
        let mut hist = gen_history(&mut r, &g);
        if big {
            let mut k = 0;
            for op in hist.ops.iter_mut() {
                if let AOp::Av { payload, .. } | AOp::As { payload, .. } = op {
                    k += 1;
                    if k % 9 == 0 {
                        *payload = PayloadSpec { kind: 0, len: 200_000 + r.below(900_000), seed: r.next() };
                    }
                }
            }
        }
        let mut sut = Sut::open_dir(data.clone(), 14, 3, None).await.expect("open");
        // a reader that stays open keeps the write-ahead log from being checkpointed and deleted
        let reader = if live_wal {
            let c = rusqlite::Connection::open(data.join("taskchampion-sync-server.sqlite3")).unwrap();
            c.execute_batch("BEGIN; SELECT count(*) FROM clients;").unwrap();
            Some(c)
        } else {
            None
        };
        let mut sink: Vec<u8> = vec![];
        let mut out = Out { w: &mut sink, nlines: 0 };
        let mut known = Known::new(hist.clients.clone());
        for c in &hist.clients {
            known.note(*c);
        }
        let mut rn = Runner { sut: &mut sut, entry: if seed % 2 == 0 { Entry::Http } else { Entry::Lib }, known, out: &mut out, dump_every_op: false, honour_reopen: true, opidx: 0, dead: false, resolved: vec![] };
        for op in &hist.ops {
            rn.run_op(op).await;
        }
        let pool = rn.known.pool.clone();
        let clients = hist.clients.clone();
        let chains: Vec<Vec<Uuid>> = rn.known.chain.clone();
        // expected logical content, through the pinned code's own storage API
        let mut exp = String::new();
        exp.push_str(&format!("clients {}\n", clients.iter().map(|c| c.to_string()).collect::<Vec<_>>().join(",")));
        exp.push_str(&format!("pool {}\n", pool.iter().map(|c| c.to_string()).collect::<Vec<_>>().join(",")));
        for (i, c) in clients.iter().enumerate() {
            exp.push_str(&format!("chain {c} {}\n", if chains[i].is_empty() { "-".to_string() } else { chains[i].iter().map(|u| u.to_string()).collect::<Vec<_>>().join(",") }));
            exp.push_str(&format!("dump {c} => {}\n", sut.dump_client(*c, &pool)));
        }
        if live_wal {
            // copy the directory as a crash would leave it: main file + live -wal (+ -shm), while connections are open
            let snap = fx.join("data-live");
            copy_dir(&data, &snap);
            drop(reader);
            drop(sut);
            std::fs::remove_dir_all(&data).unwrap();
            std::fs::rename(&snap, &data).unwrap();
        } else {
            drop(sut);
        }
        std::fs::write(fx.join("expected.txt"), exp).unwrap();
        let files: Vec<String> = std::fs::read_dir(&data).unwrap().flatten().map(|e| format!("{}:{}", e.file_name().to_string_lossy(), e.metadata().map(|m| m.len()).unwrap_or(0))).collect();
        std::fs::write(fx.join("meta.txt"), format!("seed={seed} livewal={} big={} nops={nops} files={}\n", live_wal as u8, big as u8, files.join(","))).unwrap();
    });
    0
}

/// every row of both tables with FULL payloads, straight from the database file
fn raw_export(dir: &Path) -> Option<String> {
    let con = rusqlite::Connection::open(dir.join("taskchampion-sync-server.sqlite3")).ok()?;
    let txt = |v: rusqlite::types::Value| -> String {
        match v {
            rusqlite::types::Value::Null => "NULL".into(),
            rusqlite::types::Value::Integer(i) => format!("{i}"),
            rusqlite::types::Value::Real(f) => format!("real:{f}"),
            rusqlite::types::Value::Text(t) => format!("t:{}", hex(t.as_bytes())),
            rusqlite::types::Value::Blob(b) => blob(&b),
        }
    };
    let mut out = String::new();
    let mut q = con.prepare("SELECT client_id, latest_version_id, snapshot_version_id, versions_since_snapshot, snapshot_timestamp, snapshot FROM clients ORDER BY rowid").ok()?;
    for r in q.query_map([], |r| Ok((0..6).map(|i| r.get::<_, rusqlite::types::Value>(i)).collect::<Result<Vec<_>, _>>()?)).ok()?.flatten() {
        out.push_str(&format!(" C:{}", r.into_iter().map(txt).collect::<Vec<_>>().join(",")));
    }
    let mut q = con.prepare("SELECT version_id, client_id, parent_version_id, history_segment FROM versions ORDER BY rowid").ok()?;
    for r in q.query_map([], |r| Ok((0..4).map(|i| r.get::<_, rusqlite::types::Value>(i)).collect::<Result<Vec<_>, _>>()?)).ok()?.flatten() {
        out.push_str(&format!(" V:{}", r.into_iter().map(txt).collect::<Vec<_>>().join(",")));
    }
    Some(if out.is_empty() { "empty".into() } else { out.trim_start().to_string() })
}

pub fn main(args: &Args) -> i32 {
    let fxdir = PathBuf::from(args.get("fixtures", "/verif/fixtures"));
    let f = std::fs::File::create(args.get("out", "/dev/stdout")).expect("cannot create output file");
    let mut w = BufWriter::new(f);
    let base = std::env::var("VERIF_SCRATCH").unwrap_or_else(|_| "/dev/shm".into());
    let mut names: Vec<String> = std::fs::read_dir(&fxdir).map(|d| d.flatten().filter(|e| e.path().join("expected.txt").exists()).map(|e| e.file_name().to_string_lossy().to_string()).collect()).unwrap_or_default();
    names.sort();
    let shard = args.num("first", 0) as usize;
    let nshards = args.num("shards", 1) as usize;
    actix_rt::System::new().block_on(async {
        for (hi, name) in names.iter().enumerate() {
            if hi % nshards != shard {
                continue;
            }
            let fx = fxdir.join(name);
            let exp = std::fs::read_to_string(fx.join("expected.txt")).unwrap();
            let mut clients: Vec<Uuid> = vec![];
            let mut pool: Vec<Uuid> = vec![];
            let mut chains: Vec<(Uuid, Vec<Uuid>)> = vec![];
            let mut expdump: Vec<(Uuid, String)> = vec![];
            for l in exp.lines() {
                if let Some(r) = l.strip_prefix("clients ") {
                    clients = r.split(',').filter_map(|s| Uuid::parse_str(s).ok()).collect();
                } else if let Some(r) = l.strip_prefix("pool ") {
                    pool = r.split(',').filter_map(|s| Uuid::parse_str(s).ok()).collect();
                } else if let Some(r) = l.strip_prefix("chain ") {
                    let (c, ids) = r.split_once(' ').unwrap();
                    chains.push((Uuid::parse_str(c).unwrap(), ids.split(',').filter_map(|s| Uuid::parse_str(s).ok()).collect()));
                } else if let Some(r) = l.strip_prefix("dump ") {
                    let (c, d) = r.split_once(" => ").unwrap();
                    expdump.push((Uuid::parse_str(c).unwrap(), d.to_string()));
                }
            }
            let work = tempfile::Builder::new().prefix("tcsfx").tempdir_in(&base).unwrap();
            let dir = work.path().join("data");
            copy_dir(&fx.join("data"), &dir);
            let mut o = Out { w: &mut w, nlines: 0 };
            o.line(&format!("run h={hi} setup=fixture:{name} backend=sql entry=http fixture={name} days=14 versions=3 clients={}", clients.iter().map(|c| c.to_string()).collect::<Vec<_>>().join(",")));
            // open with the CURRENT code
            let sut = match Sut::open_dir(dir.clone(), 14, 3, None).await {
                Ok(s) => s,
                Err(e) => {
                    o.line(&format!("open {name} => error:{}", format!("{e:#}").replace(' ', "_")));
                    o.line(&format!("end h={hi} dead=1"));
                    continue;
                }
            };
            let integ = rusqlite::Connection::open(dir.join("taskchampion-sync-server.sqlite3")).and_then(|c| c.query_row("PRAGMA integrity_check", [], |r| r.get::<_, String>(0))).unwrap_or_else(|e| format!("error:{e}"));
            o.line(&format!("open {name} => ok integrity={}", integ.replace(' ', "_")));
            // the rows as they are in the file, for the model's decoder
            o.line(&format!("rawload {}", raw_export(&dir).unwrap_or("error".into())));
            o.line("# i=0 op=fixture-dump");
            let idl = pool.iter().map(|u| u.to_string()).collect::<Vec<_>>().join(",");
            for (c, want) in &expdump {
                o.line(&format!("expect {c} {}", want.replace(' ', ";")));
                o.line(&format!("dump {c} {idl} => {}", sut.dump_client(*c, &pool)));
            }
            if let Some(rd) = sut.raw_dump() {
                o.line(&format!("rawdump => {}", if rd.is_empty() { "empty" } else { &rd }));
            }
            // serve the history: walk every chain, fetch the snapshot, then append one version per client and walk again
            let mut sut = sut;
            let mut known = Known::new(clients.clone());
            known.pool = pool.clone();
            for (i, (_, ch)) in chains.iter().enumerate() {
                known.chain[i] = ch.clone();
            }
            // the base of each chain: parent of its first version, read through the storage API
            for (i, (c, ch)) in chains.iter().enumerate() {
                if let Some(first) = ch.first() {
                    let sl = SutLite { storage: sut.storage.clone(), dir: None };
                    let d = sl.dump(*c, &[*first]);
                    if let Some(p) = d.split(' ').find_map(|w| w.strip_prefix(&format!("V:{first}=")).map(|x| x.split('/').nth(1).unwrap_or("").to_string())) {
                        known.base[i] = Uuid::parse_str(&p).ok();
                        let mut parents = vec![known.base[i].unwrap_or(Uuid::nil())];
                        parents.extend(ch.iter().take(ch.len() - 1).cloned());
                        known.parents[i] = parents;
                    }
                }
            }
            let mut rn = Runner { sut: &mut sut, entry: Entry::Http, known, out: &mut o, dump_every_op: false, honour_reopen: false, opidx: 1, dead: false, resolved: vec![] };
            for ci in 0..clients.len() {
                rn.run_op(&AOp::Walk { ci }).await;
                rn.run_op(&AOp::SnapWalk { ci }).await;
                rn.run_op(&AOp::Av { ci, p: IdRef::Latest, payload: PayloadSpec { kind: 5, len: 9, seed: 1 }, cuts: 0 }).await;
                rn.run_op(&AOp::Av { ci, p: IdRef::Anc(1, Uuid::nil()), payload: PayloadSpec { kind: 5, len: 4, seed: 2 }, cuts: 0 }).await;
                rn.run_op(&AOp::Walk { ci }).await;
            }
            rn.dump_all();
            o.line(&format!("end h={hi} dead=0"));
        }
    });
    w.flush().unwrap();
    0
}
