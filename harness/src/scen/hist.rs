//! Random (or profile-shaped) request histories, each executed on several set-ups.
use crate::ctx::*;
use crate::exec::*;
use crate::gen::*;
use crate::util::*;
use crate::Args;
use std::io::{BufWriter, Write};

#[derive(Clone, Debug)]
pub struct Setup {
    pub name: String,
    pub kind: BackendKind,
    pub entry: Entry,
    pub reopen: bool,
}

pub fn parse_setups(s: &str) -> Vec<Setup> {
    s.split(',')
        .filter(|x| !x.is_empty())
        .map(|x| {
            let (b, e) = x.split_once(':').unwrap_or((x, "lib"));
            Setup {
                name: x.to_string(),
                kind: if b == "mem" { BackendKind::Mem } else { BackendKind::Sql },
                entry: if e == "http" { Entry::Http } else { Entry::Lib },
                reopen: b == "sqlre",
            }
        })
        .collect()
}

pub fn profile(name: &str) -> GenCfg {
    let mut g = GenCfg::default();
    match name {
        "c07" => {
            g.reread_every = 6;
            g.w_ops = [45, 8, 20, 5, 6, 4];
        }
        "c07deep" => {
            g.reread_every = 1;
            g.nops = (10, 60);
        }
        "c08" => {
            g.w_ops = [25, 10, 12, 3, 2, 48];
        }
        "c09" => {
            g.cross_prefix_pct = 50;
            g.nclients = (3, 4);
            g.w_ops = [40, 14, 28, 12, 2, 4];
            g.nonnil_base_pct = 20;
        }
        "c10" => {
            g.nclients = (1, 2);
            g.w_ops = [48, 2, 44, 4, 1, 1];
            g.av_latest_pct = 90;
            g.nops = (20, 60);
        }
        "c11" => {
            g.snapwalk_after_write = true;
            g.w_ops = [45, 4, 40, 6, 3, 2];
            g.av_latest_pct = 85;
        }
        "c13" => {
            g.w_ops = [42, 14, 22, 10, 8, 4];
        }
        "c06" => {
            g.big_payload_pct = 30;
            g.nops = (6, 16);
            g.nclients = (1, 2);
            g.w_ops = [45, 10, 30, 15, 0, 0];
            g.av_latest_pct = 90;
        }
        "mid" => {
            // request bodies around the default limits of actix-web's extractors (256 KiB), far below the protocol's 100 MB
            g.big_payload_pct = 45;
            g.mid_payloads = true;
            g.nops = (5, 9);
            g.nclients = (1, 2);
            g.w_ops = [45, 10, 30, 15, 0, 0];
            g.av_latest_pct = 90;
            g.final_walks = false;
        }
        "long" => {
            g.nops = (60, 200);
        }
        _ => {}
    }
    g
}

pub fn main(args: &Args) -> i32 {
    let seed = args.num("seed", 0);
    let n = args.num("n", 20) as usize;
    let setups = parse_setups(&args.get("setups", "mem:lib,sql:lib"));
    let g = profile(&args.get("profile", "default"));
    let dump = args.get("dump", "1") == "1";
    let out_path = args.get("out", "/dev/stdout");
    let first = args.num("first", 0) as usize;
    let cfgs = args.get("cfgs", "mixed");
    let proj = args.get("proj", "0") == "1";
    // stall=1: every HTTP upload delivers the last chunk of its body two (virtual) hours after the rest
    crate::ctx::STALL_ALL.store(args.get("stall", "0") == "1", std::sync::atomic::Ordering::SeqCst);
    let f = std::fs::File::create(&out_path).expect("cannot create output file");
    let mut w = BufWriter::new(f);
    let code = actix_rt::System::new().block_on(async {
        for hi in first..first + n {
            let mut r = Rng::new(seed.wrapping_mul(1_000_003).wrapping_add(hi as u64));
            let (days, versions): (i64, u32) = if cfgs == "default" {
                (14, 100)
            } else {
                (*r.pick(&[14i64, 14, 1, 0, 3]), *r.pick(&[1u32, 2, 3, 5, 100, 0]))
            };
            let mut hist = gen_history(&mut r, &g);
            // shrinking: keep only the operations with the given indices (state-relative operations stay meaningful)
            if let Some(keep) = args.kv.get("keep") {
                let ks: std::collections::HashSet<usize> = keep.split(',').filter_map(|x| x.parse().ok()).collect();
                hist.ops = hist.ops.iter().cloned().enumerate().filter(|(i, _)| ks.contains(i)).map(|(_, o)| o).collect();
            }
            for su in &setups {
                let mut sut = Sut::new(su.kind, days, versions, None).await;
                let mut out = Out { w: &mut w, nlines: 0 };
                out.line(&format!(
                    "run h={hi} setup={} backend={} entry={} days={days} versions={versions} clients={}",
                    su.name,
                    if su.kind == BackendKind::Mem { "mem" } else { "sql" },
                    if su.entry == Entry::Http { "http" } else { "lib" },
                    hist.clients.iter().map(|c| c.to_string()).collect::<Vec<_>>().join(",")
                ));
                let mut known = Known::new(hist.clients.clone());
                for c in &hist.clients {
                    known.note(*c);
                }
                let mut rn = Runner { sut: &mut sut, entry: su.entry, known, out: &mut out, dump_every_op: dump, honour_reopen: su.reopen, opidx: 0, dead: false, resolved: vec![] };
                if dump {
                    rn.dump_all();
                }
                for op in &hist.ops {
                    rn.run_op(op).await;
                }
                if !dump && !rn.dead {
                    rn.dump_all();
                }
                let dead = rn.dead;
                let resolved = rn.resolved.clone();
                out.line(&format!("end h={hi} setup={} dead={}", su.name, dead as u8));
                if proj && !dead {
                    // two-run non-interference: each client's projection alone on a fresh backend,
                    // quoting the same concrete foreign ids as in the full run
                    for (ci, c) in hist.clients.iter().enumerate() {
                        let mut sut = Sut::new(su.kind, days, versions, None).await;
                        out.line(&format!(
                            "run h={hi} setup={} proj={ci} backend={} entry={} days={days} versions={versions} clients={}",
                            su.name,
                            if su.kind == BackendKind::Mem { "mem" } else { "sql" },
                            if su.entry == Entry::Http { "http" } else { "lib" },
                            hist.clients.iter().map(|c| c.to_string()).collect::<Vec<_>>().join(",")
                        ));
                        let _ = c;
                        let mut known = Known::new(hist.clients.clone());
                        for c in &hist.clients {
                            known.note(*c);
                        }
                        let mut rn = Runner { sut: &mut sut, entry: su.entry, known, out: &mut out, dump_every_op: false, honour_reopen: false, opidx: 0, dead: false, resolved: vec![] };
                        for (i, op) in hist.ops.iter().enumerate() {
                            if op.client() != Some(ci) {
                                continue;
                            }
                            let conc = resolved.iter().find(|(k, _)| *k == i).map(|(_, u)| *u);
                            rn.opidx = i;
                            rn.run_op(&op.pinned(conc)).await;
                        }
                        let dead = rn.dead;
                        out.line(&format!("end h={hi} setup={} proj={ci} dead={}", su.name, dead as u8));
                    }
                }
            }
        }
        0
    });
    w.flush().unwrap();
    code
}
