//! C03 / C11: 2-3 real requests on OS threads under a controlled scheduler. Every storage call and
//! every transaction begin/end of the REAL storage is a yield point; the scheduler grants one turn at
//! a time, so the interleaving is exactly the recorded event order. After the concurrent run every
//! real-time-compatible sequential order of the same requests is executed on a fresh backend, for the
//! linearizability oracle.
use crate::ctx::*;
use crate::exec::*;
use crate::util::*;
use crate::Args;
use actix_web::{test, App};
use std::collections::HashMap;
use std::io::{BufWriter, Write};
use std::sync::{Arc, Condvar, Mutex};
use std::time::Duration;
use taskchampion_sync_server::WebServer;
use taskchampion_sync_server_core::*;
use taskchampion_sync_server_storage_sqlite::SqliteStorage;
use uuid::Uuid;

thread_local! { static TID: std::cell::Cell<usize> = std::cell::Cell::new(usize::MAX); }

#[derive(Default)]
struct Book {
    turn: Option<usize>,
    waiting: HashMap<usize, String>,
    open: Option<usize>,
    in_begin: Vec<usize>,
    done: Vec<usize>,
    trace: Vec<String>,
    illegal: Vec<String>,
    /// the holder has committed: its transaction is over for the database (SQLite releases the write lock at COMMIT)
    /// although the transaction object still exists until its `end`
    after_commit: Option<usize>,
    /// `begun` events of threads that got the lock between the holder's COMMIT and its `end`; written after that `end`
    deferred: Vec<String>,
}
struct Ctl {
    m: Mutex<Book>,
    cv: Condvar,
}
impl Ctl {
    fn yield_at(&self, label: &str) {
        let tid = TID.with(|t| t.get());
        if tid == usize::MAX {
            return;
        }
        let mut b = self.m.lock().unwrap();
        b.waiting.insert(tid, label.to_string());
        if b.turn == Some(tid) {
            b.turn = None;
        }
        self.cv.notify_all();
        while b.turn != Some(tid) {
            b = self.cv.wait(b).unwrap();
        }
        b.waiting.remove(&tid);
    }
}
struct Sched {
    inner: Arc<dyn Storage>,
    ctl: Arc<Ctl>,
}
struct STxn<'a> {
    inner: Option<Box<dyn StorageTxn + 'a>>,
    ctl: Arc<Ctl>,
}
impl Storage for Sched {
    fn txn(&self, client_id: Uuid) -> anyhow::Result<Box<dyn StorageTxn + '_>> {
        let tid = TID.with(|t| t.get());
        if tid == usize::MAX {
            return self.inner.txn(client_id);
        }
        self.ctl.yield_at("want-begin");
        {
            let mut b = self.ctl.m.lock().unwrap();
            b.in_begin.push(tid);
        }
        let t = self.inner.txn(client_id);
        {
            let mut b = self.ctl.m.lock().unwrap();
            b.in_begin.retain(|x| *x != tid);
            let mut defer = false;
            if let Some(o) = b.open {
                if o != tid {
                    if b.after_commit == Some(o) {
                        // not a violation of exclusion: the holder's transaction ended with its COMMIT; only its
                        // `end` (dropping the object) is still to come. The event is written after that `end`, so
                        // that the trace reads as the model's steps (commit; end; begin).
                        defer = true;
                    } else {
                        let m = format!("t{tid} began a transaction while t{o} holds one");
                        b.illegal.push(m);
                    }
                }
            }
            if t.is_ok() {
                if defer {
                    b.deferred.push(format!("{tid} begun"));
                    b.deferred.push(format!("open:{tid}"));
                } else {
                    b.open = Some(tid);
                    b.trace.push(format!("{tid} begun"));
                }
            } else {
                b.trace.push(format!("{tid} begin-failed"));
            }
            self.ctl.cv.notify_all();
        }
        Ok(Box::new(STxn { inner: Some(t?), ctl: self.ctl.clone() }))
    }
}
macro_rules! fwd {
    ($s:ident, $l:expr, $e:expr) => {{
        $s.ctl.yield_at($l);
        $e
    }};
}
impl StorageTxn for STxn<'_> {
    fn get_client(&mut self) -> anyhow::Result<Option<Client>> { fwd!(self, "call:get_client", self.inner.as_mut().unwrap().get_client()) }
    fn new_client(&mut self, l: Uuid) -> anyhow::Result<()> { fwd!(self, "call:new_client", self.inner.as_mut().unwrap().new_client(l)) }
    fn set_snapshot(&mut self, s: Snapshot, d: Vec<u8>) -> anyhow::Result<()> { fwd!(self, "call:set_snapshot", self.inner.as_mut().unwrap().set_snapshot(s, d)) }
    fn get_snapshot_data(&mut self, v: Uuid) -> anyhow::Result<Option<Vec<u8>>> { fwd!(self, "call:get_snapshot_data", self.inner.as_mut().unwrap().get_snapshot_data(v)) }
    fn get_version_by_parent(&mut self, p: Uuid) -> anyhow::Result<Option<Version>> { fwd!(self, "call:get_version_by_parent", self.inner.as_mut().unwrap().get_version_by_parent(p)) }
    fn get_version(&mut self, v: Uuid) -> anyhow::Result<Option<Version>> { fwd!(self, "call:get_version", self.inner.as_mut().unwrap().get_version(v)) }
    fn add_version(&mut self, v: Uuid, p: Uuid, h: Vec<u8>) -> anyhow::Result<()> { fwd!(self, "call:add_version", self.inner.as_mut().unwrap().add_version(v, p, h)) }
    fn commit(&mut self) -> anyhow::Result<()> {
        self.ctl.yield_at("call:commit");
        let r = self.inner.as_mut().unwrap().commit();
        if r.is_ok() {
            let tid = TID.with(|t| t.get());
            let mut b = self.ctl.m.lock().unwrap();
            if b.open == Some(tid) {
                b.after_commit = Some(tid);
            }
        }
        r
    }
}
impl Drop for STxn<'_> {
    fn drop(&mut self) {
        let tid = TID.with(|t| t.get());
        if tid != usize::MAX {
            self.ctl.yield_at("end");
        }
        // The book is cleared BEFORE the real lock is released: a thread waiting inside the real `txn()` (probe mode)
        // acquires the lock the instant the inner transaction is dropped and then consults the book; clearing it
        // afterwards made that thread see a stale "open" entry - a false "not exclusive" (seen in the thorough tier).
        // While the inner transaction is alive the real lock is still held, so no legitimate begin can slip in here.
        {
            let mut b = self.ctl.m.lock().unwrap();
            if b.open == Some(tid) {
                b.open = None;
            }
            if b.after_commit == Some(tid) {
                b.after_commit = None;
            }
            // begins that happened between this transaction's COMMIT and its end
            let d: Vec<String> = b.deferred.drain(..).collect();
            for e in d {
                if let Some(t) = e.strip_prefix("open:") {
                    b.open = t.parse().ok();
                } else {
                    b.trace.push(e);
                }
            }
        }
        // an in-memory transaction that wrote without committing panics on drop: contain it
        let inner = self.inner.take();
        let _ = std::panic::catch_unwind(std::panic::AssertUnwindSafe(move || drop(inner)));
        self.ctl.cv.notify_all();
    }
}

#[derive(Clone, Debug)]
pub enum Rq {
    Av { c: Uuid, p: Uuid, body: Vec<u8> },
    Gcv { c: Uuid, p: Uuid },
    As { c: Uuid, v: Uuid, body: Vec<u8> },
    Gs { c: Uuid },
}
impl Rq {
    fn spec(&self) -> ReqSpec {
        match self {
            Rq::Av { c, p, body } => ReqSpec { method: "POST".into(), path: format!("/v1/client/add-version/{p}"), headers: vec![("content-type".into(), HS_CT.into()), ("x-client-id".into(), c.to_string().into_bytes())], chunks: vec![body.clone()] },
            Rq::Gcv { c, p } => ReqSpec { method: "GET".into(), path: format!("/v1/client/get-child-version/{p}"), headers: vec![("x-client-id".into(), c.to_string().into_bytes())], chunks: vec![] },
            Rq::As { c, v, body } => ReqSpec { method: "POST".into(), path: format!("/v1/client/add-snapshot/{v}"), headers: vec![("content-type".into(), SNAP_CT.into()), ("x-client-id".into(), c.to_string().into_bytes())], chunks: vec![body.clone()] },
            Rq::Gs { c } => ReqSpec { method: "GET".into(), path: "/v1/client/snapshot".into(), headers: vec![("x-client-id".into(), c.to_string().into_bytes())], chunks: vec![] },
        }
    }
}

fn make_storage(kind: &str, dir: &std::path::Path) -> Arc<dyn Storage> {
    if kind == "mem" {
        Arc::new(InMemoryStorage::new())
    } else {
        Arc::new(SqliteStorage::new(dir).unwrap())
    }
}

/// populate a client with `k` versions (and optionally a snapshot) before the concurrent phase; returns the chain
fn prefill(st: &Arc<dyn Storage>, c: Uuid, k: usize, snap_at: Option<usize>) -> Vec<Uuid> {
    let srv = Server::new(ServerConfig::default(), Shared(st.clone()));
    let mut chain = vec![];
    if k == 0 {
        return chain;
    }
    {
        let mut t = st.txn(c).unwrap();
        if t.get_client().unwrap().is_none() {
            t.new_client(Uuid::nil()).unwrap();
            t.commit().unwrap();
        }
    }
    let mut p = Uuid::nil();
    for i in 0..k {
        if let Ok((AddVersionResult::Ok(v), _)) = srv.add_version(c, p, vec![0xA0, i as u8]) {
            chain.push(v);
            p = v;
        }
    }
    if let Some(i) = snap_at {
        if i < chain.len() {
            let _ = srv.add_snapshot(c, chain[i], vec![0x5A, i as u8]);
        }
    }
    chain
}

struct Outcome {
    obs: Vec<HttpObs>,
    trace: Vec<String>,
    illegal: Vec<String>,
}

/// run the requests concurrently under `schedule` (then round-robin); `storages[i]` is thread i's storage object
/// schedule entries: (tid, -1) = one turn; (tid, k) = turns until the thread has ended k transactions (or finished)
fn run_conc(storages: Vec<Arc<dyn Storage>>, reqs: &[Rq], schedule: &[(usize, i64)], probe_lock: bool) -> Outcome {
    let ctl = Arc::new(Ctl { m: Mutex::new(Book::default()), cv: Condvar::new() });
    let results: Arc<Mutex<HashMap<usize, HttpObs>>> = Arc::new(Mutex::new(HashMap::new()));
    let mut hs = vec![];
    for (tid, rq) in reqs.iter().cloned().enumerate() {
        let ctl = ctl.clone();
        let results = results.clone();
        let st = storages[tid % storages.len()].clone();
        hs.push(std::thread::spawn(move || {
            TID.with(|t| t.set(tid));
            ctl.yield_at("start");
            let ctl2 = ctl.clone();
            let out = std::panic::catch_unwind(std::panic::AssertUnwindSafe(move || {
                actix_rt::System::new().block_on(async move {
                    let web = WebServer::new(ServerConfig::default(), None, Sched { inner: st, ctl: ctl2 });
                    let call = make_caller(web).await;
                    call(rq.spec()).await
                })
            }))
            .unwrap_or(HttpObs { panicked: true, ..Default::default() });
            results.lock().unwrap().insert(tid, out);
            let mut b = ctl.m.lock().unwrap();
            b.done.push(tid);
            b.trace.push(format!("{tid} finish"));
            if b.turn == Some(tid) {
                b.turn = None;
            }
            ctl.cv.notify_all();
        }));
    }
    let n = reqs.len();
    let mut si = 0usize;
    let mut rr = 0usize;
    let mut ends: Vec<i64> = vec![0; n];
    let grace = Duration::from_millis(120);
    loop {
        let mut b = ctl.m.lock().unwrap();
        // wait until the running thread parked, finished, or is stuck inside begin
        loop {
            if b.turn.is_none() {
                break;
            }
            let t = b.turn.unwrap();
            let (nb, to) = ctl.cv.wait_timeout(b, grace).unwrap();
            b = nb;
            if to.timed_out() && b.turn == Some(t) && b.in_begin.contains(&t) {
                b.trace.push(format!("{t} blocked"));
                b.turn = None;
                break;
            }
        }
        if b.done.len() == n {
            break;
        }
        // threads that can be given a turn: parked at a yield point
        let parked: Vec<usize> = (0..n).filter(|t| b.waiting.contains_key(t) && !b.done.contains(t)).collect();
        if parked.is_empty() {
            drop(b);
            std::thread::sleep(Duration::from_millis(2));
            continue;
        }
        // do not start a second transaction while one is open (it would only block), unless probing the lock
        let eligible: Vec<usize> = parked.iter().cloned().filter(|t| !(b.waiting[t] == "want-begin" && b.open.is_some() && (!probe_lock || b.after_commit.is_some()))).collect();
        if eligible.is_empty() {
            drop(b);
            std::thread::sleep(Duration::from_millis(2));
            continue;
        }
        let pick = if si < schedule.len() {
            let (p, k) = (schedule[si].0 % n, schedule[si].1);
            if k < 0 {
                si += 1;
            } else if ends[p] >= k || b.done.contains(&p) {
                si += 1;
                continue;
            }
            if eligible.contains(&p) {
                p
            } else {
                if k >= 0 {
                    si += 1;
                }
                continue;
            }
        } else {
            rr += 1;
            eligible[rr % eligible.len()]
        };
        let label = b.waiting[&pick].clone();
        if label == "end" {
            ends[pick] += 1;
        }
        b.trace.push(format!("{pick} {label}"));
        b.turn = Some(pick);
        ctl.cv.notify_all();
    }
    for h in hs {
        let _ = h.join();
    }
    let b = ctl.m.lock().unwrap();
    let r = results.lock().unwrap();
    Outcome { obs: (0..n).map(|t| r.get(&t).cloned().unwrap_or_default()).collect(), trace: b.trace.clone(), illegal: b.illegal.clone() }
}

fn rq_line(rq: &Rq, o: &HttpObs) -> String {
    let nid = if o.status == 200 { o.vid.clone().unwrap_or("-".into()) } else { "-".into() };
    let nid = if matches!(rq, Rq::Av { .. }) { nid } else { "-".into() };
    http_line(&rq.spec(), &nid, unix_now())
}

fn permutations(n: usize) -> Vec<Vec<usize>> {
    fn go(cur: &mut Vec<usize>, used: &mut Vec<bool>, n: usize, out: &mut Vec<Vec<usize>>) {
        if cur.len() == n {
            out.push(cur.clone());
            return;
        }
        for i in 0..n {
            if !used[i] {
                used[i] = true;
                cur.push(i);
                go(cur, used, n, out);
                cur.pop();
                used[i] = false;
            }
        }
    }
    let mut out = vec![];
    go(&mut vec![], &mut vec![false; n], n, &mut out);
    out
}

pub fn main(args: &Args) -> i32 {
    let seed = args.num("seed", 0);
    let n = args.num("n", 10) as usize;
    let first = args.num("first", 0) as usize;
    let kinds = args.get("kinds", "mem,sql,sqlmulti");
    let corpus = args.get("corpus", "1") == "1";
    let probe = args.get("probe", "0") == "1";
    // request mix: all four operations, AddVersion only (C02), GetChildVersion against AddVersion (C08), snapshots (C10)
    let minprefill = args.num("minprefill", 0) as usize; // > 0: the client exists with that many versions at least
    let mix = args.get("mix", "all");
    let weights: [usize; 4] = match mix.as_str() { "av" => [100, 0, 0, 0], "gcvav" => [50, 50, 0, 0], "asav" => [30, 0, 55, 15], _ => [50, 15, 22, 13] };
    let f = std::fs::File::create(args.get("out", "/dev/stdout")).expect("cannot create output file");
    let mut w = BufWriter::new(f);
    let kinds: Vec<&str> = kinds.split(',').collect();
    for hi in first..first + n {
        let mut r = Rng::new(seed.wrapping_mul(5_000_011).wrapping_add(hi as u64));
        let kind = kinds[hi % kinds.len()];
        let base = std::env::var("VERIF_SCRATCH").unwrap_or_else(|_| "/dev/shm".into());
        let c = r.uuid();
        // scenario: client state before, and the 2-3 concurrent requests
        let prefill_k = if corpus && hi / kinds.len() < 2 { 0 } else { *r.pick(&[0usize, 0, 1, 3, 6]).max(&minprefill) };
        let snap_at = if prefill_k > 0 && r.chance(1, 2) { Some(r.below(prefill_k)) } else { None };
        let nreq = if corpus && hi / kinds.len() < 2 { if hi / kinds.len() == 0 { 2 } else { 3 } } else { 2 + r.below(2) };
        let mk = |storages: &mut Vec<Arc<dyn Storage>>, dir: &std::path::Path| -> Vec<Uuid> {
            let st0 = make_storage(kind, dir);
            let chain = prefill(&st0, c, prefill_k, snap_at);
            storages.clear();
            if kind == "sqlmulti" {
                for _ in 0..nreq {
                    storages.push(make_storage("sql", dir));
                }
            } else {
                storages.push(st0);
            }
            chain
        };
        let dir = tempfile::Builder::new().prefix("tcsv").tempdir_in(&base).unwrap();
        let mut storages: Vec<Arc<dyn Storage>> = vec![];
        let chain = mk(&mut storages, dir.path());
        let latest = chain.last().cloned().unwrap_or(Uuid::nil());
        let pick_id = |r: &mut Rng| -> Uuid {
            match r.below(6) {
                0 => Uuid::nil(),
                1 | 2 | 3 => latest,
                4 if chain.len() > 1 => chain[chain.len() - 2],
                _ => r.uuid(),
            }
        };
        let mut reqs: Vec<Rq> = vec![];
        let mut schedule: Vec<(usize, i64)> = (0..60).map(|_| (r.below(nreq), -1)).collect();
        if corpus && hi / kinds.len() == 0 {
            // D1: two first AddVersion requests for a new client; A: T1, B: T1, A: T2 T3, B: T2 T3
            reqs = vec![Rq::Av { c, p: Uuid::nil(), body: vec![65] }, Rq::Av { c, p: Uuid::nil(), body: vec![66] }];
            schedule = vec![(0, 1), (1, 1), (0, 99), (1, 99)];
        } else if corpus && hi / kinds.len() == 1 {
            // F3: X = AddVersion runs T1 (no such client) and T2 (create) and stalls; B = AddSnapshot completes; Y = AddVersion completes; X resumes
            reqs = vec![Rq::Av { c, p: Uuid::nil(), body: vec![65] }, Rq::As { c, v: r.uuid(), body: vec![9] }, Rq::Av { c, p: Uuid::nil(), body: vec![67] }];
            schedule = vec![(0, 2), (1, 99), (2, 99), (0, 99)];
        } else {
            for t in 0..nreq {
                let rq = match r.weighted(&weights) {
                    0 => Rq::Av { c, p: pick_id(&mut r), body: vec![65 + t as u8, r.next() as u8] },
                    1 => Rq::Gcv { c, p: pick_id(&mut r) },
                    2 => {
                        // snapshots mix: mostly versions inside the acceptance window, so that overlapping AddSnapshots
                        // are both acceptable and their order matters
                        let v = if mix == "asav" && !chain.is_empty() && r.chance(4, 5) { chain[chain.len() - 1 - r.below(chain.len().min(4))] } else { pick_id(&mut r) };
                        Rq::As { c, v, body: vec![0x53, t as u8] }
                    }
                    _ => Rq::Gs { c },
                };
                reqs.push(rq);
            }
        }
        let known_ids: Vec<Uuid> = {
            let mut v = vec![Uuid::nil(), c];
            v.extend(chain.iter().cloned());
            for rq in &reqs {
                match rq {
                    Rq::Av { p, .. } | Rq::Gcv { p, .. } => v.push(*p),
                    Rq::As { v: x, .. } => v.push(*x),
                    _ => {}
                }
            }
            v
        };
        let out = run_conc(storages.clone(), &reqs, &schedule, probe);
        let mut o = Out { w: &mut w, nlines: 0 };
        o.line(&format!("run h={hi} setup=sched:{kind} backend={} entry=http conc=1 days=14 versions=100 clients={c} prefill={prefill_k} snapat={}", if kind == "mem" { "mem" } else { "sql" }, snap_at.map(|x| x as i64).unwrap_or(-1)));
        o.line(&format!("# i=0 op=conc nreq={nreq} kinds={}", reqs.iter().map(|r| match r { Rq::Av { .. } => "av", Rq::Gcv { .. } => "gcv", Rq::As { .. } => "as", Rq::Gs { .. } => "gs" }).collect::<Vec<_>>().join("+")));
        // the pre-state is rebuilt by the model from the same prefill operations
        o.line(&format!("prefill {c} {prefill_k} {} {} {}", snap_at.map(|x| x as i64).unwrap_or(-1), unix_now(), if chain.is_empty() { "-".to_string() } else { chain.iter().map(|u| u.to_string()).collect::<Vec<_>>().join(",") }));
        for (t, rq) in reqs.iter().enumerate() {
            o.line(&format!("req {t} {}", rq_line(rq, &out.obs[t])));
        }
        for e in &out.trace {
            o.line(&format!("ev {e} => ok"));
        }
        for m in &out.illegal {
            o.line(&format!("illegal {}", m.replace(' ', "_")));
        }
        for (t, ob) in out.obs.iter().enumerate() {
            o.line(&format!("res {t} => {}", ob.wire()));
        }
        // final state
        let mut ids = known_ids.clone();
        for ob in &out.obs {
            if let Some(v) = ob.vid.as_ref().and_then(|s| Uuid::parse_str(s).ok()) {
                ids.push(v);
            }
        }
        {
            let st = make_storage(if kind == "mem" { "mem" } else { "sql" }, dir.path());
            let st = if kind == "mem" { storages[0].clone() } else { st };
            let sut = SutLite { storage: st, dir: if kind == "mem" { None } else { Some(dir.path().to_path_buf()) } };
            // ids unknown to the harness (versions committed by requests that were answered with an error) are found through the latest pointer and the tables
            let extra = sut.discover(c);
            for e in extra {
                if !ids.contains(&e) {
                    ids.push(e);
                }
            }
            o.line(&format!("dump {c} {} => {}", ids.iter().map(|u| u.to_string()).collect::<Vec<_>>().join(","), sut.dump(c, &ids)));
        }
        // every sequential order, on a fresh backend with the same prefill (implementation-vs-implementation oracle)
        for perm in permutations(nreq) {
            let d2 = tempfile::Builder::new().prefix("tcsv").tempdir_in(&base).unwrap();
            let mut sts: Vec<Arc<dyn Storage>> = vec![];
            let ch2 = mk(&mut sts, d2.path());
            // ids of the prefill differ between runs: translate request arguments by chain position
            let tr = |u: Uuid| -> Uuid { chain.iter().position(|x| *x == u).and_then(|i| ch2.get(i).cloned()).unwrap_or(u) };
            let mut obs = vec![HttpObs::default(); nreq];
            let st = sts[0].clone();
            for &t in &perm {
                let rq = match &reqs[t] {
                    Rq::Av { c, p, body } => Rq::Av { c: *c, p: tr(*p), body: body.clone() },
                    Rq::Gcv { c, p } => Rq::Gcv { c: *c, p: tr(*p) },
                    Rq::As { c, v, body } => Rq::As { c: *c, v: tr(*v), body: body.clone() },
                    Rq::Gs { c } => Rq::Gs { c: *c },
                };
                let st2 = st.clone();
                obs[t] = std::panic::catch_unwind(std::panic::AssertUnwindSafe(move || {
                    actix_rt::System::new().block_on(async move {
                        let web = WebServer::new(ServerConfig::default(), None, Shared(st2));
                        let call = make_caller(web).await;
                        call(rq.spec()).await
                    })
                }))
                .unwrap_or(HttpObs { panicked: true, ..Default::default() });
            }
            let sut = SutLite { storage: st, dir: if kind == "mem" { None } else { Some(d2.path().to_path_buf()) } };
            let mut ids2: Vec<Uuid> = known_ids.iter().map(|u| tr(*u)).collect();
            for ob in &obs {
                if let Some(v) = ob.vid.as_ref().and_then(|s| Uuid::parse_str(s).ok()) {
                    ids2.push(v);
                }
            }
            for e in sut.discover(c) {
                if !ids2.contains(&e) {
                    ids2.push(e);
                }
            }
            o.line(&format!(
                "seq {} | {} | {}",
                perm.iter().map(|x| x.to_string()).collect::<Vec<_>>().join(","),
                obs.iter().map(|ob| ob.wire().replace(' ', ";")).collect::<Vec<_>>().join(" "),
                sut.dump(c, &ids2).replace(' ', ";")
            ));
        }
        o.line(&format!("end h={hi} dead=0"));
    }
    w.flush().unwrap();
    0
}

/// dump helper that does not need the actix machinery
pub struct SutLite {
    pub storage: Arc<dyn Storage>,
    pub dir: Option<std::path::PathBuf>,
}
impl SutLite {
    /// version ids reachable through the API from the latest pointer, plus (SQLite) every row of the client
    pub fn discover(&self, c: Uuid) -> Vec<Uuid> {
        let mut out = vec![];
        if let Ok(mut t) = self.storage.txn(c) {
            if let Ok(Some(cl)) = t.get_client() {
                let mut v = cl.latest_version_id;
                for _ in 0..64 {
                    if v.is_nil() {
                        break;
                    }
                    out.push(v);
                    match t.get_version(v) {
                        Ok(Some(x)) => v = x.parent_version_id,
                        _ => break,
                    }
                }
            }
        }
        if let Some(d) = &self.dir {
            if let Ok(con) = rusqlite::Connection::open(d.join("taskchampion-sync-server.sqlite3")) {
                if let Ok(mut q) = con.prepare("SELECT version_id FROM versions WHERE client_id = ?") {
                    if let Ok(rows) = q.query_map([c.to_string()], |r| r.get::<_, String>(0)) {
                        for s in rows.flatten() {
                            if let Ok(u) = Uuid::parse_str(&s) {
                                out.push(u);
                            }
                        }
                    }
                }
            }
        }
        out
    }
    pub fn dump(&self, c: Uuid, ids: &[Uuid]) -> String {
        let r = std::panic::catch_unwind(std::panic::AssertUnwindSafe(|| -> anyhow::Result<String> {
            let mut txn = self.storage.txn(c)?;
            let cl = txn.get_client()?;
            let mut s = String::new();
            match &cl {
                None => s.push_str("latest=none snap=- data=none"),
                Some(cl) => {
                    s.push_str(&format!("latest={}", cl.latest_version_id));
                    match &cl.snapshot {
                        None => s.push_str(" snap=-"),
                        Some(sn) => s.push_str(&format!(" snap={},{},{}", sn.version_id, sn.timestamp.timestamp(), sn.versions_since)),
                    }
                    let d = match &cl.snapshot {
                        Some(sn) => match txn.get_snapshot_data(sn.version_id) {
                            Ok(Some(d)) => blob_short(&d),
                            Ok(None) => "none".into(),
                            Err(_) => "err".into(),
                        },
                        None => "none".into(),
                    };
                    s.push_str(&format!(" data={d}"));
                }
            }
            for id in ids {
                if let Some(v) = txn.get_version(*id)? {
                    s.push_str(&format!(" V:{}={}/{}/{}", id, v.version_id, v.parent_version_id, blob_short(&v.history_segment)));
                }
            }
            for id in ids {
                if let Some(v) = txn.get_version_by_parent(*id)? {
                    s.push_str(&format!(" P:{}={}", id, v.version_id));
                }
            }
            Ok(s)
        }));
        match r {
            Ok(Ok(s)) => s,
            Ok(Err(_)) => "err".into(),
            Err(_) => "panic".into(),
        }
    }
}
