pub mod grammar;
pub mod hist;
