pub mod crash;
pub mod fault;
pub mod fixture;
pub mod grammar;
pub mod hist;
pub mod sched;
pub mod urgency;
