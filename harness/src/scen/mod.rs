pub mod hist;
