pub mod crash;
pub mod fault;
pub mod fixture;
pub mod grammar;
pub mod hist;
pub mod maxrow;
pub mod sched;
pub mod urgency;
