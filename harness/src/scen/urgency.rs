//! C12: configuration ladder x measure points for the snapshot urgency, reached through the public API:
//! a snapshot record with chosen timestamp / versions_since is written through `StorageTxn::set_snapshot`
//! (as the unit tests do), then a real AddVersion reports the urgency.
use crate::ctx::*;
use crate::exec::*;
use crate::gen::*;
use crate::util::*;
use crate::Args;
use std::io::{BufWriter, Write};
use taskchampion_sync_server_core::*;
use uuid::Uuid;

fn ladder_u32() -> Vec<u32> {
    let mut v = vec![0u32, 1, 2, 3, 7, 14, 99, 100, 101, 1 << 16, (1u32 << 31) - 1, 1u32 << 31, (1u32 << 31) + 1, u32::MAX / 3, u32::MAX / 3 + 1, u32::MAX / 3 * 2 + 1, u32::MAX - 1, u32::MAX];
    v.dedup();
    v
}
fn ladder_i64() -> Vec<i64> {
    vec![0, 1, 2, 3, 7, 14, 99, 100, 101, 1 << 31, i64::MAX / 3, i64::MAX / 3 + 1, i64::MAX / 2, i64::MAX]
}
fn points(t: u128, max: u128) -> Vec<u128> {
    let h = t * 3 / 2;
    let mut v: Vec<u128> = vec![0, t.saturating_sub(1), t, t + 1, h.saturating_sub(1), h, h + 1, 2 * t, max];
    v.retain(|x| *x <= max);
    v.sort();
    v.dedup();
    v
}

pub fn main(args: &Args) -> i32 {
    let seed = args.num("seed", 0);
    let dense = args.get("dense", "0") == "1";
    let shard = args.num("first", 0) as usize;
    let nshards = args.num("shards", 1) as usize;
    let f = std::fs::File::create(args.get("out", "/dev/stdout")).expect("cannot create output file");
    let mut w = BufWriter::new(f);
    let mut r = Rng::new(seed);
    // (days, versions, age_days or None, since, offset) cases: the snapshot's timestamp is now - age days - offset seconds
    let mut cases: Vec<(i64, u32, Option<i64>, u32, i64)> = vec![];
    let mut lu = ladder_u32();
    let mut li = ladder_i64();
    if dense {
        for k in 1..32 {
            lu.extend([(1u32 << k) - 1, 1u32 << k, (1u32 << k) + 1]);
        }
        for k in 1..63 {
            li.extend([(1i64 << k) - 1, 1i64 << k]);
        }
        lu.sort();
        lu.dedup();
        li.sort();
        li.dedup();
    }
    for tv in &lu {
        for s in points(*tv as u128, (u32::MAX - 3) as u128) {
            cases.push((14, *tv, Some(1), s as u32, 3600));
        }
    }
    for td in &li {
        // ages representable by chrono: up to ~ 90 million days
        for d in points(*td as u128, 90_000_000) {
            cases.push((*td, 100, Some(d as i64), 0, 3600));
            // a minute short of `d` whole days: `d - 1` days old, although the calendar dates are `d` apart
            cases.push((*td, 100, Some(d as i64), 0, -60));
        }
    }
    // both measures at once, small values
    for _ in 0..(if dense { 300 } else { 60 }) {
        let td = *r.pick(&[1i64, 2, 3, 7, 14]);
        let tv = *r.pick(&[1u32, 2, 3, 7, 100]);
        cases.push((td, tv, Some(r.below(3 * td as usize + 2) as i64), r.below(3 * tv as usize + 2) as u32, *r.pick(&[3600i64, -60, -43_200, 43_200, 86_399])));
    }
    // no snapshot at all
    cases.push((14, 100, None, 0, 0));
    cases.push((i64::MAX, u32::MAX, None, 0, 0));
    actix_rt::System::new().block_on(async {
        for (k, (td, tv, age, since, offset)) in cases.iter().enumerate() {
            if k % nshards != shard {
                continue;
            }
            for (kind, entry) in [(BackendKind::Mem, Entry::Lib), (BackendKind::Sql, Entry::Lib), (BackendKind::Sql, Entry::Http), (BackendKind::Mem, Entry::Http)] {
                if !dense && k % 4 != [(BackendKind::Mem, Entry::Lib), (BackendKind::Sql, Entry::Lib), (BackendKind::Sql, Entry::Http), (BackendKind::Mem, Entry::Http)].iter().position(|x| *x == (kind, entry)).unwrap() && k % 7 != 0 {
                    continue;
                }
                let mut sut = Sut::new(kind, *td, *tv, None).await;
                let c = r.uuid();
                let mut out = Out { w: &mut w, nlines: 0 };
                out.line(&format!(
                    "run h={k} setup={}:{} backend={} entry={} days={td} versions={tv} clients={c}",
                    if kind == BackendKind::Mem { "mem" } else { "sql" },
                    if entry == Entry::Http { "http" } else { "lib" },
                    if kind == BackendKind::Mem { "mem" } else { "sql" },
                    if entry == Entry::Http { "http" } else { "lib" }
                ));
                let mut known = Known::new(vec![c]);
                known.note(c);
                let mut rn = Runner { sut: &mut sut, entry, known, out: &mut out, dump_every_op: true, honour_reopen: false, opidx: 0, dead: false, resolved: vec![] };
                rn.run_op(&AOp::Av { ci: 0, p: IdRef::Nil, payload: PayloadSpec { kind: 1, len: 1, seed: 0 }, cuts: 0 }).await;
                if let Some(age) = age {
                    let vid = rn.known.chain[0].last().cloned().unwrap_or(Uuid::nil());
                    let ts = unix_now() - age * 86400 - offset;
                    let res: anyhow::Result<()> = (|| {
                        let mut t = rn.sut.storage.txn(c)?;
                        t.set_snapshot(Snapshot { version_id: vid, timestamp: chrono::TimeZone::timestamp_opt(&chrono::Utc, ts, 0).single().ok_or_else(|| anyhow::anyhow!("ts"))?, versions_since: *since }, vec![1, 2, 3])?;
                        t.commit()?;
                        Ok(())
                    })();
                    rn.out.line(&format!("# i=1 op=set_snapshot age={age} since={since} offset={offset}"));
                    rn.out.line(&format!("set_snapshot {c} {vid} {ts} {since} hex:010203 => {}", if res.is_ok() { "ok" } else { "err" }));
                    rn.known.snap[0] = Some(vid);
                    rn.dump_all();
                    rn.opidx = 2;
                }
                rn.run_op(&AOp::Av { ci: 0, p: IdRef::Latest, payload: PayloadSpec { kind: 1, len: 2, seed: 0 }, cuts: 0 }).await;
                rn.run_op(&AOp::Av { ci: 0, p: IdRef::Latest, payload: PayloadSpec { kind: 1, len: 3, seed: 0 }, cuts: 0 }).await;
                let dead = rn.dead;
                out.line(&format!("end h={k} dead={}", dead as u8));
            }
        }
    });
    w.flush().unwrap();
    0
}
