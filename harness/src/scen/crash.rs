//! C04: crash images. A child process runs a request history on a fresh data directory under the
//! LD_PRELOAD recorder (tools/iorec.c); the parent materialises, for every recorded file-system
//! operation, the process-crash image (all writes so far) and power-loss images (each file as of its
//! last sync plus a subset of later writes), opens each with the REAL `SqliteStorage::new`, runs
//! `PRAGMA integrity_check`, and dumps the recovered state.
use crate::ctx::*;
use crate::exec::*;
use crate::gen::*;
use crate::scen::sched::SutLite;
use crate::util::*;
use crate::Args;
use std::collections::BTreeMap;
use std::io::{BufWriter, Write};
use std::path::{Path, PathBuf};
use std::sync::Arc;
use taskchampion_sync_server_core::*;
use taskchampion_sync_server_storage_sqlite::SqliteStorage;
use uuid::Uuid;

fn mark(text: &str) {
    let _ = std::fs::remove_file(format!("/tcsmark/{text}"));
}

/// child: run the history over HTTP (in process) on `dir`, marking request boundaries in the I/O log
pub fn child(args: &Args) -> i32 {
    let seed = args.num("seed", 0);
    let hi = args.num("h", 0);
    let dir = PathBuf::from(args.get("dir", "/nonexistent"));
    let big = args.get("big", "0") == "1";
    let f = std::fs::File::create(args.get("out", "/dev/stdout")).expect("cannot create output file");
    let mut w = BufWriter::new(f);
    actix_rt::System::new().block_on(async {
        let mut r = Rng::new(seed.wrapping_mul(3_000_017).wrapping_add(hi));
        let g = GenCfg { nclients: (2, 2), nops: (5, 9), final_walks: false, w_ops: [55, 5, 34, 6, 0, 0], av_latest_pct: 88, nonnil_base_pct: 30, big_payload_pct: if big { 40 } else { 8 }, ..GenCfg::default() };
        let mut hist = gen_history(&mut r, &g);
        if big {
            // payloads of MiB size: transactions spanning hundreds of pages, crossing the auto-checkpoint threshold
            for op in hist.ops.iter_mut() {
                if let AOp::Av { payload, .. } = op {
                    if r.chance(1, 3) {
                        *payload = PayloadSpec { kind: 0, len: 300_000 + r.below(2_500_000), seed: r.next() };
                    }
                }
            }
        }
        mark("open");
        let mut sut = Sut::open_dir(dir.clone(), 14, 3, None).await.expect("open");
        mark("opened");
        // every second history runs with another connection to the database held open for its whole length (as a
        // second server instance on the same directory would): then closing a request's connection does not
        // checkpoint, and durability of an acknowledged request rests on the commit's own sync of the WAL
        let hold = match args.get("hold", "auto").as_str() { "1" => true, "0" => false, _ => hi % 2 == 1 };
        let _held = if hold {
            let db = std::fs::read_dir(&dir).ok().and_then(|rd| rd.filter_map(|e| e.ok()).map(|e| e.path()).find(|p| p.extension().map(|x| x == "sqlite3").unwrap_or(false)));
            db.and_then(|p| rusqlite::Connection::open(p).ok()).map(|c| {
                let _: Result<i64, _> = c.query_row("SELECT count(*) FROM clients", [], |r| r.get(0));
                c
            })
        } else {
            None
        };
        let mut out = Out { w: &mut w, nlines: 0 };
        out.line(&format!("run h={hi} setup=crash:sql backend=sql entry=http days=14 versions=3 held={} clients={}", _held.is_some() as u8, hist.clients.iter().map(|c| c.to_string()).collect::<Vec<_>>().join(",")));
        let mut known = Known::new(hist.clients.clone());
        for c in &hist.clients {
            known.note(*c);
        }
        let mut rn = Runner { sut: &mut sut, entry: Entry::Http, known, out: &mut out, dump_every_op: false, honour_reopen: false, opidx: 0, dead: false, resolved: vec![] };
        let mut j = 0usize;
        for op in &hist.ops {
            if op.client().is_none() {
                continue;
            }
            mark(&format!("start {j}"));
            rn.run_op(op).await;
            mark(&format!("ack {j}"));
            // the reference state after request j, read WITHOUT the recorder noticing anything relevant (reads only)
            rn.out.line(&format!("# i={j} op=refdump"));
            rn.dump_all();
            j += 1;
        }
        let pool = rn.known.pool.iter().map(|u| u.to_string()).collect::<Vec<_>>().join(",");
        out.line(&format!("pool {pool}"));
        out.line(&format!("end h={hi} dead=0"));
    });
    mark("exit");
    w.flush().unwrap();
    0
}

#[derive(Clone, Debug)]
struct Rec {
    op: u8,
    path: String,
    off: u64,
    len: u64,
    data: Vec<u8>,
}

fn read_log(p: &Path) -> Vec<Rec> {
    let b = std::fs::read(p).unwrap_or_default();
    let mut i = 0usize;
    let mut out = vec![];
    while i + 23 <= b.len() && &b[i..i + 4] == b"IOR1" {
        let op = b[i + 4];
        let off = u64::from_le_bytes(b[i + 5..i + 13].try_into().unwrap());
        let len = u64::from_le_bytes(b[i + 13..i + 21].try_into().unwrap());
        let pl = u16::from_le_bytes(b[i + 21..i + 23].try_into().unwrap()) as usize;
        let path = String::from_utf8_lossy(&b[i + 23..i + 23 + pl]).to_string();
        let dl = if op == 1 { len as usize } else { 0 };
        if i + 23 + pl + dl > b.len() {
            break;
        }
        let data = b[i + 23 + pl..i + 23 + pl + dl].to_vec();
        if !path.ends_with("-shm") {
            out.push(Rec { op, path, off, len, data });
        }
        i += 23 + pl + dl;
    }
    out
}

type Files = BTreeMap<String, Vec<u8>>;

fn apply(files: &mut Files, r: &Rec) {
    match r.op {
        1 => {
            let f = files.entry(r.path.clone()).or_default();
            let end = r.off as usize + r.data.len();
            if f.len() < end {
                f.resize(end, 0);
            }
            f[r.off as usize..end].copy_from_slice(&r.data);
        }
        2 => {
            let f = files.entry(r.path.clone()).or_default();
            f.resize(r.len as usize, 0);
        }
        4 => {
            files.remove(&r.path);
        }
        5 => {
            if let Some((a, b)) = r.path.split_once('\n') {
                if let Some(v) = files.remove(a) {
                    files.insert(b.to_string(), v);
                }
            }
        }
        _ => {}
    }
}

fn materialise(files: &Files, orig: &Path, target: &Path) {
    let _ = std::fs::remove_dir_all(target);
    std::fs::create_dir_all(target).unwrap();
    for (p, data) in files {
        if p.ends_with("-shm") {
            continue; // shared memory index: rebuilt on open, never needed for recovery
        }
        if let Ok(rel) = Path::new(p).strip_prefix(orig) {
            let _ = std::fs::write(target.join(rel), data);
        }
    }
}

/// open an image with the real code, check integrity, dump every client
fn inspect(target: &Path, clients: &[Uuid], pool: &[Uuid]) -> String {
    let st: Arc<dyn Storage> = match std::panic::catch_unwind(|| SqliteStorage::new(target)) {
        Ok(Ok(s)) => Arc::new(s),
        Ok(Err(e)) => return format!("open-error:{}", format!("{e:#}").replace(' ', "_")),
        Err(_) => return "open-panic".into(),
    };
    let integ = rusqlite::Connection::open(target.join("taskchampion-sync-server.sqlite3"))
        .and_then(|c| c.query_row("PRAGMA integrity_check", [], |r| r.get::<_, String>(0)))
        .unwrap_or_else(|e| format!("error:{e}"));
    let sl = SutLite { storage: st, dir: Some(target.to_path_buf()) };
    let mut s = format!("integrity={}", integ.replace(' ', "_"));
    for c in clients {
        let mut ids = pool.to_vec();
        for e in sl.discover(*c) {
            if !ids.contains(&e) {
                ids.push(e);
            }
        }
        s.push_str(&format!(" | {c} {}", sl.dump(*c, &ids)));
    }
    s
}

pub fn main(args: &Args) -> i32 {
    let seed = args.num("seed", 0);
    let n = args.num("n", 2) as usize;
    let first = args.num("first", 0) as usize;
    let big = args.get("big", "0");
    let max_subsets = args.num("subsets", 6) as usize;
    // histories with MiB payloads have thousands of file-system operations and images of tens of MB: explore every
    // sync / unlink / request boundary and its neighbours, and of the remaining writes a sample of about `points`
    let points = args.num("points", if big == "1" { 500 } else { 0 }) as usize;
    let exe = std::env::current_exe().unwrap();
    let so = args.get("so", "/verif/.cache/iorec.so");
    let out_path = args.get("out", "/dev/stdout");
    let f = std::fs::File::create(&out_path).expect("cannot create output file");
    let mut w = BufWriter::new(f);
    let base = std::env::var("VERIF_SCRATCH").unwrap_or_else(|_| "/dev/shm".into());
    for hi in first..first + n {
        let work = tempfile::Builder::new().prefix("tcscrash").tempdir_in(&base).unwrap();
        let dir = work.path().join("data");
        std::fs::create_dir_all(&dir).unwrap();
        let log = work.path().join("io.log");
        let child_out = work.path().join("child.lines");
        let st = std::process::Command::new(&exe)
            .args(["crashchild", "--seed", &seed.to_string(), "--h", &hi.to_string(), "--dir", dir.to_str().unwrap(), "--out", child_out.to_str().unwrap(), "--big", &big])
            .env("LD_PRELOAD", &so)
            .env("IOREC_LOG", &log)
            .env("IOREC_DIR", dir.to_str().unwrap())
            .status();
        if !matches!(st, Ok(s) if s.success()) {
            eprintln!("crash child failed: {st:?}");
            return 3;
        }
        let text = std::fs::read_to_string(&child_out).unwrap();
        let mut clients: Vec<Uuid> = vec![];
        let mut pool: Vec<Uuid> = vec![];
        for l in text.lines() {
            if l.starts_with("end ") {
                continue;
            }
            if let Some(rest) = l.strip_prefix("pool ") {
                pool = rest.split(',').filter_map(|s| Uuid::parse_str(s).ok()).collect();
                continue;
            }
            if l.starts_with("run ") {
                if let Some(cs) = l.split(' ').find_map(|w| w.strip_prefix("clients=")) {
                    clients = cs.split(',').filter_map(|s| Uuid::parse_str(s).ok()).collect();
                }
            }
            writeln!(w, "{l}").unwrap();
        }
        let recs = read_log(&log);
        let nwrites = recs.iter().filter(|r| r.op != 6).count();
        writeln!(w, "# i=9000 op=crashlog records={} fsops={nwrites}", recs.len()).unwrap();
        // replay
        let mut files: Files = BTreeMap::new();
        let mut synced: Files = BTreeMap::new(); // content as of each file's last sync
        let mut pending: Vec<usize> = vec![];
        let mut last_unlinked: Option<(String, Vec<u8>)> = None; // indices of fs ops not yet covered by a sync of their file
        let (mut acked, mut started): (i64, i64) = (-1, -1);
        let mut opened = false;
        let target = work.path().join("image");
        let mut rng = Rng::new(seed ^ (hi as u64) << 20);
        let mut k = 0usize;
        let mut last_sig = String::new();
        let stride = if points > 0 && nwrites > points { nwrites / points } else { 1 };
        let (mut boundary, mut explored, mut skipped) = (true, 0usize, 0usize);
        for (idx, r) in recs.iter().enumerate() {
            if r.op == 6 {
                boundary = true;
                let ws: Vec<&str> = r.path.split(' ').collect();
                match ws[0] {
                    "start" => started = ws[1].parse().unwrap_or(started),
                    "ack" => acked = ws[1].parse().unwrap_or(acked),
                    "opened" => opened = true,
                    _ => {}
                }
                continue;
            }
            let before_unlink = if r.op == 4 { files.get(&r.path).cloned() } else { None };
            apply(&mut files, r);
            if r.op == 3 {
                // fsync of a file: everything written to it so far is durable
                if let Some(v) = files.get(&r.path) {
                    synced.insert(r.path.clone(), v.clone());
                }
                pending.retain(|i| recs[*i].path != r.path);
            } else if r.op == 4 {
                // the file is gone: its unsynced writes no longer matter; the deletion itself may or may not survive a power loss
                pending.retain(|i| recs[*i].path != r.path);
                last_unlinked = before_unlink.map(|c| (r.path.clone(), synced.get(&r.path).cloned().unwrap_or(c)));
                synced.remove(&r.path);
            } else {
                pending.push(idx);
                if last_unlinked.as_ref().map(|(p, _)| *p == r.path).unwrap_or(false) {
                    last_unlinked = None; // the file was re-created
                }
            }
            k += 1;
            if !opened {
                continue; // crashes during the very first schema creation: nothing acknowledged yet; covered by the first image after "opened"
            }
            let selected = stride == 1 || boundary || r.op == 3 || r.op == 4 || k % stride == 0 || rng.below(stride) == 0;
            boundary = r.op == 3 || r.op == 4; // the operation after a sync / unlink is explored too
            if !selected {
                skipped += 1;
                continue;
            }
            explored += 1;
            let inflight = if started > acked { started } else { -1 };
            // (a) process crash: all writes so far reached the files
            materialise(&files, &dir, &target);
            let obs = inspect(&target, &clients, &pool);
            let sig = format!("{acked}/{inflight}/{obs}");
            if sig != last_sig {
                writeln!(w, "crash {k} process acked={acked} inflight={inflight} op={} => {obs}", r.op).unwrap();
                last_sig = sig;
            } else {
                writeln!(w, "crash {k} process acked={acked} inflight={inflight} op={} => same", r.op).unwrap();
            }
            // (b) power loss: each file as of its last sync, plus a subset of the later operations, in order
            if !pending.is_empty() || last_unlinked.is_some() {
                let np = pending.len();
                let mut masks: Vec<u64> = vec![];
                if np <= max_subsets {
                    masks.extend(0..(1u64 << np)); // every subset (with the files as of their last sync)
                } else {
                    masks.push(0);
                    for j in 1..np.min(if stride > 1 { 8 } else { 40 }) {
                        masks.push((1u64 << j) - 1); // prefixes
                        masks.push(((1u64 << np.min(63)) - 1) & !((1u64 << j) - 1)); // suffixes
                    }
                    for _ in 0..6 {
                        masks.push(rng.next() & ((1u64 << np.min(63)) - 1));
                    }
                }
                masks.sort();
                masks.dedup();
                let mut seen: Vec<String> = vec![];
                for m in masks {
                    let mut img = synced.clone();
                    for (bit, pi) in pending.iter().enumerate() {
                        if bit < 63 && (m >> bit) & 1 == 1 {
                            apply(&mut img, &recs[*pi]);
                        }
                    }
                    for undo_unlink in [false, true] {
                        let mut img2 = img.clone();
                        if undo_unlink {
                            match &last_unlinked {
                                Some((p, c)) if !img2.contains_key(p) => {
                                    img2.insert(p.clone(), c.clone());
                                }
                                _ => continue,
                            }
                        }
                        materialise(&img2, &dir, &target);
                        let obs = inspect(&target, &clients, &pool);
                        if seen.contains(&obs) {
                            continue;
                        }
                        seen.push(obs.clone());
                        writeln!(w, "crash {k} power:{m:x}/{np}{} acked={acked} inflight={inflight} op={} => {obs}", if undo_unlink { "+stale" } else { "" }, r.op).unwrap();
                    }
                }
            }
        }
        writeln!(w, "# i=9001 op=crashpoints explored={explored} skipped={skipped} stride={stride}").unwrap();
        writeln!(w, "end h={hi} dead=0").unwrap();
    }
    w.flush().unwrap();
    0
}
