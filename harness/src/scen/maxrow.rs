//! C13 at the size limit: the same two-request history (AddVersion with a payload of the protocol's maximum size, then
//! GetChildVersion) on the in-memory and the SQLite backend, through the HTTP handlers; outcomes are written as digests
//! (`xcmp` lines, judged by the oracle alone: the model is not asked to carry 100 MiB payloads through the line protocol).
use crate::ctx::*;
use crate::Args;
use crate::util::*;
use std::io::{BufWriter, Write};
use uuid::Uuid;

const MAX: usize = 100 * 1024 * 1024;

fn digest(b: &[u8]) -> String {
    // FNV-1a 64 over the bytes, with the length
    let mut h: u64 = 0xcbf29ce484222325;
    for x in b {
        h ^= *x as u64;
        h = h.wrapping_mul(0x100000001b3);
    }
    format!("len={} fnv={h:016x}", b.len())
}

pub fn main(args: &Args) -> i32 {
    let seed = args.num("seed", 0);
    let first = args.num("first", 0) as usize;
    let n = args.num("n", 1) as usize;
    let f = std::fs::File::create(args.get("out", "/dev/stdout")).expect("cannot create output file");
    let mut w = BufWriter::new(f);
    let sizes = [MAX, MAX - 100, MAX - 4096, MAX / 2 + 1];
    actix_rt::System::new().block_on(async {
        for hi in first..first + n {
            let mut r = Rng::new(seed.wrapping_mul(7_000_003).wrapping_add(hi as u64));
            let size = sizes[hi % sizes.len()];
            let c = r.uuid();
            writeln!(w, "run h={hi} setup=maxrow backend=both entry=http days=14 versions=100 clients={c}").unwrap();
            writeln!(w, "# i=0 op=maxrow size={size}").unwrap();
            let fill = (r.next() % 251) as u8;
            let body: Vec<u8> = (0..size).map(|i| fill.wrapping_add((i % 13) as u8)).collect();
            for kind in [BackendKind::Mem, BackendKind::Sql] {
                let sut = Sut::new(kind, 14, 100, None).await;
                let k = body.len() / 3;
                let spec = ReqSpec {
                    method: "POST".into(),
                    path: format!("/v1/client/add-version/{}", Uuid::nil()),
                    headers: vec![("content-type".into(), b"application/vnd.taskchampion.history-segment".to_vec()), ("x-client-id".into(), c.to_string().into_bytes())],
                    chunks: vec![body[..k].to_vec(), body[k..2 * k].to_vec(), body[2 * k..].to_vec()],
                };
                let o = (sut.call)(spec).await;
                let av = format!("{}{}", o.status, if o.vid.is_some() { " vid" } else { "" });
                let spec2 = ReqSpec { method: "GET".into(), path: format!("/v1/client/get-child-version/{}", Uuid::nil()), headers: vec![("x-client-id".into(), c.to_string().into_bytes())], chunks: vec![] };
                let g = (sut.call)(spec2).await;
                let same = g.body == body;
                writeln!(w, "xcmp maxrow {} => av={av} gcv={} {} roundtrip={}", if kind == BackendKind::Mem { "mem" } else { "sql" }, g.status, digest(&g.body), if g.status == 200 { same as u8 } else { 2 }).unwrap();
            }
            writeln!(w, "end h={hi} dead=0").unwrap();
        }
    });
    w.flush().unwrap();
    0
}
