//! Grammar-generated HTTP requests (well-formed and malformed) against a server holding non-trivial
//! state, with a spying storage that counts transactions, for C15 / C16 / C20 (and C14's encoding table).
use crate::ctx::*;
use crate::exec::*;
use crate::gen::*;
use crate::util::*;
use crate::Args;
use std::io::{BufWriter, Write};
use std::sync::atomic::{AtomicUsize, Ordering};
use std::sync::Arc;
use taskchampion_sync_server_core::*;
use uuid::Uuid;

pub struct Spy {
    pub inner: Arc<dyn Storage>,
    pub txns: Arc<AtomicUsize>,
}
impl Storage for Spy {
    fn txn(&self, c: Uuid) -> anyhow::Result<Box<dyn StorageTxn + '_>> {
        self.txns.fetch_add(1, Ordering::SeqCst);
        self.inner.txn(c)
    }
}

const MAX: usize = 100 * 1024 * 1024;

struct G<'a> {
    r: &'a mut Rng,
    listed: Vec<Uuid>,
    unlisted: Vec<Uuid>,
    allow: Option<Vec<Uuid>>,
    big: bool,
}

fn upper(s: &str) -> String {
    s.to_uppercase()
}

/// returns (header list, defects, form name, client id if it parses)
fn client_id_headers(g: &mut G) -> (Vec<(String, Vec<u8>)>, Vec<&'static str>, &'static str, Option<Uuid>) {
    let pick_listed = g.unlisted.is_empty() || g.r.chance(60, 100);
    let (id, unl) = if pick_listed && !g.listed.is_empty() { (*g.r.pick(&g.listed.clone()), false) } else if !g.unlisted.is_empty() { (*g.r.pick(&g.unlisted.clone()), true) } else { (g.r.uuid(), g.allow.is_some()) };
    let unl_def: Vec<&'static str> = if unl { vec!["unlisted"] } else { vec![] };
    let h = |v: Vec<u8>| vec![("x-client-id".to_string(), v)];
    let w = [50usize, 5, 4, 4, 3, 3, 5, 5, 5, 5, 3, 3, 3, 2];
    match g.r.weighted(&w) {
        0 => (h(id.to_string().into_bytes()), unl_def, "hyphenated", Some(id)),
        1 => (vec![], vec!["cid"], "absent", None),
        2 => (h(vec![]), vec!["cid"], "empty", None),
        3 => (h(vec![0xff, 0xfe, 0x80]), vec!["cid"], "nonascii", None),
        4 => (h(id.to_string()[..35].as_bytes().to_vec()), vec!["cid"], "len35", None),
        5 => (h(format!("{id}0").into_bytes()), vec!["cid"], "len37", None),
        6 => (h(id.simple().to_string().into_bytes()), unl_def, "simple", Some(id)),
        7 => (h(id.braced().to_string().into_bytes()), unl_def, "braced", Some(id)),
        8 => (h(id.urn().to_string().into_bytes()), unl_def, "urn", Some(id)),
        9 => (h(upper(&id.to_string()).into_bytes()), unl_def, "upper", Some(id)),
        10 => (vec![("x-client-id".to_string(), b"zz".to_vec()), ("x-client-id".to_string(), id.to_string().into_bytes())], vec!["cid"], "dup-bad-first", None),
        11 => (vec![("x-client-id".to_string(), id.to_string().into_bytes()), ("x-client-id".to_string(), b"zz".to_vec())], unl_def, "dup-good-first", Some(id)),
        12 => (h(format!(" {id} ").into_bytes()), vec!["cid"], "padded", None),
        _ => (h(id.to_string().replace('-', "_").into_bytes()), vec!["cid"], "underscores", None),
    }
}

fn path_id(g: &mut G, id: Uuid) -> (String, Vec<&'static str>, &'static str) {
    let w = [60usize, 5, 5, 5, 4, 4, 4, 4, 4, 3, 2];
    match g.r.weighted(&w) {
        0 => (format!("/{id}"), vec![], "hyphenated"),
        1 => (format!("/{}", id.simple()), vec![], "simple"),
        2 => (format!("/%7B{id}%7D"), vec![], "braced-pct"),
        3 => (format!("/{}", upper(&id.to_string())), vec![], "upper"),
        4 => ("/".to_string(), vec!["pathid"], "empty-seg"),
        5 => (String::new(), vec!["pathid"], "missing"),
        6 => (format!("/{}", &id.to_string()[..35]), vec!["pathid"], "len35"),
        7 => (format!("/{id}/x"), vec!["pathid"], "extra-seg"),
        8 => (format!("/{id}/"), vec!["pathid"], "trailing-slash"),
        9 => {
            // one character that is certainly not a hex digit (a replacement of particular digits would leave a
            // server-drawn id that happens not to contain them valid - a false "defect")
            let mut t = id.to_string().into_bytes();
            t[0] = b'g';
            (format!("/{}", String::from_utf8(t).unwrap()), vec!["pathid"], "nonhex")
        }
        _ => (format!("/{id}?x=1"), vec![], "query"),
    }
}

fn content_type(g: &mut G, right: &str, other: &str) -> (Vec<(String, Vec<u8>)>, Vec<&'static str>, &'static str) {
    let h = |v: Vec<u8>| vec![("content-type".to_string(), v)];
    let w = [60usize, 6, 5, 5, 6, 6, 5, 3, 5, 3];
    match g.r.weighted(&w) {
        // near misses: the accepted type is a proper prefix of the one sent / the one sent a proper prefix of it
        8 => (h(format!("{right}{}", g.r.pick(&["-v2", "+json", "s", ".gz", "x", "/2"])).into_bytes()), vec!["ctype"], "suffixed"),
        9 => (h(right.as_bytes()[..right.len() - 1 - g.r.below(3)].to_vec()), vec!["ctype"], "truncated"),
        0 => (h(right.as_bytes().to_vec()), vec![], "exact"),
        1 => (h(format!("{right}; charset=utf-8").into_bytes()), vec![], "params"),
        2 => (h(format!("  {right} ;q=1").into_bytes()), vec![], "spaces"),
        3 => (h(upper(right).into_bytes()), vec!["ctype"], "upper"),
        4 => (vec![], vec!["ctype"], "absent"),
        5 => (h(b"text/plain".to_vec()), vec!["ctype"], "other"),
        6 => (h(other.as_bytes().to_vec()), vec!["ctype"], "swapped"),
        _ => (h(vec![0xe9, 0x80]), vec!["ctype"], "nonascii"),
    }
}

fn body(g: &mut G) -> (Vec<Vec<u8>>, Vec<&'static str>, String) {
    body2(g, false)
}

fn body2(g: &mut G, force_big: bool) -> (Vec<Vec<u8>>, Vec<&'static str>, String) {
    if force_big || (g.big && g.r.chance(1, 12)) {
        // around the limit; content is run-length friendly
        match g.r.below(8) {
            0 => (vec![vec![7u8; MAX - 1]], vec![], "limit-1".into()),
            1 => (vec![vec![7u8; MAX]], vec![], "limit".into()),
            2 => (vec![vec![7u8; MAX + 1]], vec!["toolarge"], "limit+1".into()),
            3 => (vec![vec![1u8; MAX / 2], vec![], vec![2u8; MAX - MAX / 2]], vec![], "limit-2chunks".into()),
            4 => (vec![vec![1u8; MAX / 2], vec![2u8; MAX / 2], vec![3u8; 1]], vec!["toolarge"], "limit+1-3chunks".into()),
            // the LAST chunk is the one that crosses the limit
            5 => (vec![vec![1u8; MAX], vec![3u8; 1]], vec!["toolarge"], "limit+1-lastchunk".into()),
            // ... and the body goes on after crossing it
            6 => (vec![vec![1u8; MAX - 5], vec![2u8; 9], vec![3u8; 4]], vec!["toolarge"], "limit+8-goeson".into()),
            _ => (vec![vec![1u8; MAX - 3], vec![2u8; 3], vec![]], vec![], "limit-exact-then-empty".into()),
        }
    } else {
        match g.r.below(10) {
            0 => (vec![], vec!["emptybody"], "0".into()),
            1 => (vec![vec![], vec![]], vec!["emptybody"], "0-2chunks".into()),
            2 => (vec![vec![g.r.next() as u8]], vec![], "1".into()),
            _ => {
                let p = PayloadSpec::small(g.r).bytes();
                let c = cut_chunks(&p, g.r.next());
                let n = c.len();
                (c, vec![], format!("small-{n}chunks"))
            }
        }
    }
}

pub fn main(args: &Args) -> i32 {
    let seed = args.num("seed", 0);
    let n = args.num("n", 4) as usize; // number of servers (each: history + many requests)
    let first = args.num("first", 0) as usize;
    let per = args.num("per", 150) as usize;
    let big = args.get("big", "0") == "1";
    let backends = args.get("backends", "mem,sql");
    let lists = args.get("lists", "none,one,many,empty");
    let only_wf = args.get("wf", "0") == "1";
    let f = std::fs::File::create(args.get("out", "/dev/stdout")).expect("cannot create output file");
    let mut w = BufWriter::new(f);
    actix_rt::System::new().block_on(async {
        for si in first..first + n {
            let mut r = Rng::new(seed.wrapping_mul(7_000_003).wrapping_add(si as u64));
            let bks: Vec<&str> = backends.split(',').collect();
            let kind = if bks[si % bks.len()] == "sql" { BackendKind::Sql } else { BackendKind::Mem };
            let ls: Vec<&str> = lists.split(',').collect();
            let list_kind = ls[(si / bks.len()) % ls.len()];
            // four clients with a history from phase 1, and a fifth the server has never seen (a refused request under its id must not create it)
            let clients: Vec<Uuid> = (0..5).map(|_| r.uuid()).collect();
            let allow: Option<Vec<Uuid>> = match list_kind {
                "none" => None,
                "empty" => Some(vec![]),
                "one" => Some(vec![clients[0]]),
                _ => Some(vec![clients[0], clients[1], clients[2], r.uuid(), r.uuid(), r.uuid(), r.uuid()]),
            };
            let (days, versions) = (14i64, *r.pick(&[2u32, 3, 100]));
            // phase 1: build state through the library, without any allow-list (data from before the list existed)
            let mut sut = Sut::new(kind, days, versions, allow.clone()).await;
            let txns = Arc::new(AtomicUsize::new(0));
            let t2 = txns.clone();
            sut.wrap_storage(move |s| Arc::new(Spy { inner: s, txns: t2 })).await;
            let mut out = Out { w: &mut w, nlines: 0 };
            out.line(&format!(
                "run h={si} setup=grammar:{}:{list_kind} backend={} entry=http spy=1 days={days} versions={versions} allow={} clients={}",
                if kind == BackendKind::Mem { "mem" } else { "sql" },
                if kind == BackendKind::Mem { "mem" } else { "sql" },
                match &allow { None => "none".to_string(), Some(v) if v.is_empty() => "empty".to_string(), Some(v) => v.iter().map(|c| c.to_string()).collect::<Vec<_>>().join(",") },
                clients.iter().map(|c| c.to_string()).collect::<Vec<_>>().join(",")
            ));
            let mut known = Known::new(clients.clone());
            for c in &clients {
                known.note(*c);
            }
            let g0 = GenCfg { nclients: (4, 4), nops: (14, 30), final_walks: false, w_ops: [55, 5, 30, 5, 0, 5], av_latest_pct: 85, ..GenCfg::default() };
            let mut hist = gen_history(&mut r, &g0);
            hist.clients = clients.clone();
            let mut rn = Runner { sut: &mut sut, entry: Entry::Lib, known, out: &mut out, dump_every_op: false, honour_reopen: false, opidx: 0, dead: false, resolved: vec![] };
            for op in &hist.ops {
                rn.run_op(op).await;
            }
            rn.dump_all();
            let mut known = rn.known.clone();
            txns.store(0, Ordering::SeqCst);
            // phase 2: grammar requests over HTTP
            let listed: Vec<Uuid> = match &allow { None => clients.clone(), Some(v) => v.iter().filter(|c| clients.contains(c)).cloned().collect() };
            let unlisted: Vec<Uuid> = match &allow { None => vec![], Some(v) => clients.iter().filter(|c| !v.contains(c)).cloned().collect() };
            for qi in 0..per {
                let mut g = G { r: &mut r, listed: listed.clone(), unlisted: unlisted.clone(), allow: allow.clone(), big };
                let bigcase = big && g.r.chance(2, 3);
                let only_wf = only_wf || bigcase;
                let route = if bigcase { 2 * g.r.below(2) } else if only_wf { g.r.below(4) } else { g.r.weighted(&[28, 22, 22, 14, 5, 9]) };
                let right_method = ["POST", "GET", "POST", "GET", "GET", "GET"][route];
                let mut defects: Vec<&'static str> = vec![];
                let method = if only_wf || g.r.chance(90, 100) { right_method.to_string() } else {
                    let m = *g.r.pick(&["GET", "POST", "PUT", "DELETE", "HEAD", "PATCH"]);
                    if m != right_method { defects.push("method"); }
                    m.to_string()
                };
                let (mut hs, cdef, cform, cid) = if only_wf { let id = *g.r.pick(&g.listed.clone()); (vec![("x-client-id".to_string(), id.to_string().into_bytes())], vec![], "hyphenated", Some(id)) } else { client_id_headers(&mut g) };
                // id argument relative to the state of the addressed (or any) client
                let ci = cid.and_then(|c| clients.iter().position(|x| *x == c)).unwrap_or(0);
                let idref = gen_idref(g.r, route == 2);
                let arg = known.resolve(ci, &idref);
                let mut forms = format!("cid={cform}");
                let (path, chunks): (String, Vec<Vec<u8>>) = match route {
                    0 | 2 => {
                        let (seg, pdef, pform) = if only_wf { (format!("/{arg}"), vec![], "hyphenated") } else { path_id(&mut g, arg) };
                        let (right, other) = if route == 0 { (HS_CT, SNAP_CT) } else { (SNAP_CT, HS_CT) };
                        let (ct, tdef, tform) = if only_wf { (vec![("content-type".to_string(), right.as_bytes().to_vec())], vec![], "exact") } else { content_type(&mut g, right, other) };
                        let (b, bdef, bform) = if bigcase { body2(&mut g, true) } else if only_wf { (vec![PayloadSpec::small(g.r).bytes()], vec![], "small".to_string()) } else { body(&mut g) };
                        defects.extend(pdef);
                        if !defects.contains(&"method") {
                            defects.extend(tdef);
                            defects.extend(cdef.clone());
                            defects.extend(bdef);
                        }
                        hs.extend(ct);
                        forms.push_str(&format!(",path={pform},ct={tform},body={bform}"));
                        (format!("/v1/client/{}{seg}", if route == 0 { "add-version" } else { "add-snapshot" }), b)
                    }
                    1 => {
                        let (seg, pdef, pform) = if only_wf { (format!("/{arg}"), vec![], "hyphenated") } else { path_id(&mut g, arg) };
                        defects.extend(pdef);
                        if !defects.contains(&"method") {
                            defects.extend(cdef.clone());
                        }
                        forms.push_str(&format!(",path={pform}"));
                        let b = if g.r.chance(1, 10) { vec![b"zz".to_vec()] } else { vec![] };
                        (format!("/v1/client/get-child-version{seg}"), b)
                    }
                    3 => {
                        let p = *g.r.pick(&["/v1/client/snapshot", "/v1/client/snapshot", "/v1/client/snapshot", "/v1/client/snapshot?x=1", "/v1/client/snapshot/", "/V1/client/snapshot"]);
                        if p.ends_with('/') || p.starts_with("/V1") {
                            defects.push("route");
                        } else if !defects.contains(&"method") {
                            defects.extend(cdef.clone());
                        }
                        (p.to_string(), vec![])
                    }
                    4 => ("/".to_string(), vec![]),
                    _ => {
                        defects.push("route");
                        (g.r.pick(&["/v2/nothing", "//", "/v1", "/v1/client", "/v1/client/add-version", "/index.html", "/v1/client/get-child-version/"]).to_string(), vec![])
                    }
                };
                if !bigcase && g.r.chance(1, 9) {
                    let v = *g.r.pick(&["104857601", "104857600", "0", "18446744073709551615", "7", "abc"]);
                    hs.push(("content-length".to_string(), v.as_bytes().to_vec()));
                    forms.push_str(&format!(",cl={v}"));
                }
                let spec = ReqSpec { method: method.clone(), path, headers: hs, chunks };
                let dstr = if defects.is_empty() { "-".to_string() } else { defects.join("+") };
                out.line(&format!("# i={qi} op=http route={} defects={dstr} form={forms} class={}", ["av", "gcv", "as", "gs", "index", "unknown"][route], idref.class()));
                let before: Vec<Option<Uuid>> = clients.iter().map(|c| snap_vid_pub(&sut, *c)).collect();
                let now = unix_now();
                let o = (sut.call)(spec.clone()).await;
                let nt = txns.swap(0, Ordering::SeqCst);
                let mut nid = "-".to_string();
                if route == 0 && o.status == 200 {
                    if let (Some(v), Some(c)) = (o.vid.as_ref().and_then(|s| Uuid::parse_str(s).ok()), cid) {
                        if let Some(ci) = clients.iter().position(|x| *x == c) {
                            known.accepted(ci, arg, v);
                        }
                        nid = v.to_string();
                    }
                }
                let mut acc = String::new();
                if spec.path.contains("/add-snapshot/") {
                    let after: Vec<Option<Uuid>> = clients.iter().map(|c| snap_vid_pub(&sut, *c)).collect();
                    let a = before != after;
                    if a {
                        if let Some(c) = cid {
                            if let Some(ci) = clients.iter().position(|x| *x == c) {
                                known.snap[ci] = Some(arg);
                            }
                        }
                    }
                    acc = format!(" acc={}", a as u8);
                }
                out.line(&format!("{} => {}{acc} txns={nt}", http_line(&spec, &nid, now), o.wire()));
                // state after
                for c in &clients {
                    let ids = known.pool.clone();
                    let d = sut.dump_client(*c, &ids);
                    let idl = ids.iter().map(|u| u.to_string()).collect::<Vec<_>>().join(",");
                    out.line(&format!("dump {c} {idl} => {d}"));
                }
                if let Some(rd) = sut.raw_dump() {
                    out.line(&format!("rawdump => {}", if rd.is_empty() { "empty" } else { &rd }));
                }
                txns.store(0, Ordering::SeqCst);
                if o.panicked {
                    break;
                }
            }
            out.line(&format!("end h={si} setup=grammar dead=0"));
        }
    });
    w.flush().unwrap();
    0
}

pub fn snap_vid_pub(sut: &Sut, c: Uuid) -> Option<Uuid> {
    std::panic::catch_unwind(std::panic::AssertUnwindSafe(|| {
        let mut t = sut.storage.txn(c).ok()?;
        t.get_client().ok()?.and_then(|cl| cl.snapshot).map(|s| s.version_id)
    }))
    .ok()
    .flatten()
}
