//! C06 under overlap: two (or three) uploads for different clients run CONCURRENTLY on the one in-process service, their body
//! chunks interleaved at chosen (virtual) times, as happens on one worker of the real server when two clients upload at
//! once; then every version and snapshot is read back. Requests of different clients are independent, so the lines are
//! written as if the requests had run one after the other and the sequential model follows them.
use crate::ctx::*;
use crate::exec::*;
use crate::util::*;
use crate::Args;
use std::io::Write;
use std::sync::atomic::{AtomicU64, Ordering};
use std::sync::Arc;
use uuid::Uuid;

const HS: &str = "application/vnd.taskchampion.history-segment";
const SN: &str = "application/vnd.taskchampion.snapshot";

pub fn main(args: &Args) -> i32 {
    let seed = args.num("seed", 0);
    let first = args.num("first", 0) as usize;
    let n = args.num("n", 4) as usize;
    let out_path = args.get("out", "/dev/stdout");
    // unbuffered: if overlapping requests never complete (a handler that holds a storage transaction while it awaits its
    // body blocks the single-threaded executor for good), the watchdog below ends the run and says so in the trace
    let mut w = std::fs::File::create(&out_path).expect("cannot create output file");
    let progress = Arc::new(AtomicU64::new(0));
    {
        let (progress, out_path) = (progress.clone(), out_path.clone());
        std::thread::spawn(move || {
            let mut last = (0u64, std::time::Instant::now());
            loop {
                std::thread::sleep(std::time::Duration::from_millis(500));
                let p = progress.load(Ordering::SeqCst);
                if p == u64::MAX {
                    return;
                }
                if p != last.0 {
                    last = (p, std::time::Instant::now());
                } else if last.1.elapsed().as_secs() >= 30 {
                    if let Ok(mut f) = std::fs::OpenOptions::new().append(true).open(&out_path) {
                        let _ = writeln!(f, "# i=9999 op=deadlock");
                        let _ = writeln!(f, "xcmp deadlock overlap => the overlapping requests did not complete within 30 s");
                        let _ = writeln!(f, "end h=0 dead=1");
                    }
                    std::process::exit(0);
                }
            }
        });
    }
    actix_rt::System::new().block_on(async {
        for hi in first..first + n {
            let mut r = Rng::new(seed.wrapping_mul(9_000_011).wrapping_add(hi as u64));
            let kind = if hi % 2 == 0 { BackendKind::Mem } else { BackendKind::Sql };
            let sut = Sut::new(kind, 14, 100, None).await;
            let nc = 2 + r.below(2);
            let clients: Vec<Uuid> = (0..nc).map(|_| r.uuid()).collect();
            let bk = if kind == BackendKind::Mem { "mem" } else { "sql" };
            writeln!(w, "run h={hi} setup=overlap:{bk} backend={bk} entry=http days=14 versions=100 clients={}", clients.iter().map(|c| c.to_string()).collect::<Vec<_>>().join(",")).unwrap();
            let mut latest: Vec<Uuid> = vec![Uuid::nil(); nc];
            let mut opi = 0usize;
            for round in 0..3 {
                // round 0, 1: overlapping AddVersions; round 2: overlapping AddSnapshots at the latest versions
                let mut specs: Vec<ReqSpec> = vec![];
                let mut futs = vec![];
                tokio::time::pause();
                for (ci, c) in clients.iter().enumerate() {
                    let len = *r.pick(&[2usize, 7, 64, 1000, 6000]) + r.below(5);
                    let b = (r.next() % 200) as u8;
                    let body: Vec<u8> = (0..len).map(|i| b.wrapping_add(ci as u8 * 50).wrapping_add((i % 7) as u8)).collect();
                    let nchunks = 2 + r.below(3);
                    let step = (len / nchunks).max(1);
                    let mut chunks: Vec<Vec<u8>> = body.chunks(step).map(|x| x.to_vec()).collect();
                    if chunks.len() < 2 {
                        chunks.push(vec![]);
                    }
                    let (path, ct) = if round < 2 { (format!("/v1/client/add-version/{}", latest[ci]), HS) } else { (format!("/v1/client/add-snapshot/{}", latest[ci]), SN) };
                    let spec = ReqSpec { method: "POST".into(), path, headers: vec![("content-type".into(), ct.as_bytes().to_vec()), ("x-client-id".into(), c.to_string().into_bytes())], chunks: chunks.clone() };
                    // client ci delivers its k-th chunk at time 10 k + 3 ci (+ jitter): the uploads interleave chunk by chunk
                    let delays: Vec<u64> = (0..chunks.len()).map(|k| if k == 0 { 1 + 3 * ci as u64 + r.below(3) as u64 } else { 10 }).collect();
                    *DELAYS_NEXT.lock().unwrap() = Some(delays);
                    futs.push((sut.call)(spec.clone()));
                    specs.push(spec);
                }
                progress.fetch_add(1, Ordering::SeqCst);
                let obs = futures::future::join_all(futs).await;
                progress.fetch_add(1, Ordering::SeqCst);
                tokio::time::resume();
                let now = unix_now();
                for (ci, (spec, o)) in specs.iter().zip(obs.iter()).enumerate() {
                    let mut nid = "-".to_string();
                    if round < 2 && o.status == 200 {
                        if let Some(v) = o.vid.as_ref().and_then(|s| Uuid::parse_str(s).ok()) {
                            latest[ci] = v;
                            nid = v.to_string();
                        }
                    }
                    writeln!(w, "# i={opi} op={} ci={ci} overlap={round}", if round < 2 { "av" } else { "as" }).unwrap();
                    let acc = if round == 2 { format!(" acc={}", (o.status == 200) as u8) } else { String::new() };
                    writeln!(w, "{} => {}{acc}", http_line(spec, &nid, now), o.wire()).unwrap();
                    opi += 1;
                }
            }
            // read everything back, one request at a time
            for (ci, c) in clients.iter().enumerate() {
                let mut p = Uuid::nil();
                for _ in 0..3 {
                    let spec = ReqSpec { method: "GET".into(), path: format!("/v1/client/get-child-version/{p}"), headers: vec![("x-client-id".into(), c.to_string().into_bytes())], chunks: vec![] };
                    let o = (sut.call)(spec.clone()).await;
                    writeln!(w, "# i={opi} op=gcv ci={ci} readback=1").unwrap();
                    writeln!(w, "{} => {}", http_line(&spec, "-", unix_now()), o.wire()).unwrap();
                    opi += 1;
                    match o.vid.as_ref().and_then(|s| Uuid::parse_str(s).ok()) {
                        Some(v) if o.status == 200 => p = v,
                        _ => break,
                    }
                }
                let spec = ReqSpec { method: "GET".into(), path: "/v1/client/snapshot".into(), headers: vec![("x-client-id".into(), c.to_string().into_bytes())], chunks: vec![] };
                let o = (sut.call)(spec.clone()).await;
                writeln!(w, "# i={opi} op=gs ci={ci} readback=1").unwrap();
                writeln!(w, "{} => {}", http_line(&spec, "-", unix_now()), o.wire()).unwrap();
                opi += 1;
            }
            writeln!(w, "end h={hi} dead=0").unwrap();
        }
    });
    progress.store(u64::MAX, Ordering::SeqCst);
    w.flush().unwrap();
    0
}
