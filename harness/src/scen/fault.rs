//! C05: every request of a history is attempted with a storage fault injected at every call index
//! (transaction begin, each read, each write, commit), failing before or after the call takes effect.
use crate::ctx::*;
use crate::exec::*;
use crate::gen::*;
use crate::util::*;
use crate::Args;
use std::io::{BufWriter, Write};
use std::sync::{Arc, Mutex};
use taskchampion_sync_server_core::*;
use uuid::Uuid;

#[derive(Clone, Copy, PartialEq, Debug)]
pub enum Kind {
    Before,
    After,
}
#[derive(Default)]
pub struct Plan {
    pub counter: usize,
    pub fail: Vec<(usize, Kind)>,
    pub consumed: usize,
    pub names: Vec<String>,
}
pub struct FaultStorage {
    pub inner: Arc<dyn Storage>,
    pub plan: Arc<Mutex<Plan>>,
}
pub struct FaultTxn<'a> {
    inner: Box<dyn StorageTxn + 'a>,
    plan: Arc<Mutex<Plan>>,
}
fn decide(plan: &Arc<Mutex<Plan>>, name: &str) -> Option<Kind> {
    let mut p = plan.lock().unwrap();
    let i = p.counter;
    p.counter += 1;
    p.names.push(name.to_string());
    let k = p.fail.iter().find(|(j, _)| *j == i).map(|(_, k)| *k);
    if k.is_some() {
        p.consumed += 1;
    }
    k
}
impl Storage for FaultStorage {
    fn txn(&self, c: Uuid) -> anyhow::Result<Box<dyn StorageTxn + '_>> {
        match decide(&self.plan, "begin") {
            Some(Kind::Before) => Err(anyhow::anyhow!("injected fault before begin")),
            Some(Kind::After) => {
                let t = self.inner.txn(c)?;
                drop(t);
                Err(anyhow::anyhow!("injected fault after begin"))
            }
            None => Ok(Box::new(FaultTxn { inner: self.inner.txn(c)?, plan: self.plan.clone() })),
        }
    }
}
macro_rules! faulty {
    ($s:ident, $name:expr, $call:expr) => {{
        match decide(&$s.plan, $name) {
            Some(Kind::Before) => Err(anyhow::anyhow!("injected fault before {}", $name)),
            Some(Kind::After) => {
                let _ = $call;
                Err(anyhow::anyhow!("injected fault after {}", $name))
            }
            None => $call,
        }
    }};
}
impl StorageTxn for FaultTxn<'_> {
    fn get_client(&mut self) -> anyhow::Result<Option<Client>> { faulty!(self, "get_client", self.inner.get_client()) }
    fn new_client(&mut self, l: Uuid) -> anyhow::Result<()> { faulty!(self, "new_client", self.inner.new_client(l)) }
    fn set_snapshot(&mut self, s: Snapshot, d: Vec<u8>) -> anyhow::Result<()> { faulty!(self, "set_snapshot", self.inner.set_snapshot(s, d)) }
    fn get_snapshot_data(&mut self, v: Uuid) -> anyhow::Result<Option<Vec<u8>>> { faulty!(self, "get_snapshot_data", self.inner.get_snapshot_data(v)) }
    fn get_version_by_parent(&mut self, p: Uuid) -> anyhow::Result<Option<Version>> { faulty!(self, "get_version_by_parent", self.inner.get_version_by_parent(p)) }
    fn get_version(&mut self, v: Uuid) -> anyhow::Result<Option<Version>> { faulty!(self, "get_version", self.inner.get_version(v)) }
    fn add_version(&mut self, v: Uuid, p: Uuid, h: Vec<u8>) -> anyhow::Result<()> { faulty!(self, "add_version", self.inner.add_version(v, p, h)) }
    fn commit(&mut self) -> anyhow::Result<()> { faulty!(self, "commit", self.inner.commit()) }
}

fn latest_of(sut: &Sut, c: Uuid) -> Option<Uuid> {
    let mut t = sut.storage.txn(c).ok()?;
    t.get_client().ok()?.map(|cl| cl.latest_version_id)
}
fn snapv_of(sut: &Sut, c: Uuid) -> Option<Uuid> {
    let mut t = sut.storage.txn(c).ok()?;
    t.get_client().ok()?.and_then(|cl| cl.snapshot).map(|s| s.version_id)
}

pub fn main(args: &Args) -> i32 {
    let seed = args.num("seed", 0);
    let n = args.num("n", 4) as usize;
    let first = args.num("first", 0) as usize;
    let double = args.get("double", "0") == "1";
    let f = std::fs::File::create(args.get("out", "/dev/stdout")).expect("cannot create output file");
    let mut w = BufWriter::new(f);
    actix_rt::System::new().block_on(async {
        for hi in first..first + n {
            let mut r = Rng::new(seed.wrapping_mul(9_000_011).wrapping_add(hi as u64));
            let entry = if hi % 2 == 0 { Entry::Lib } else { Entry::Http };
            let g = GenCfg { nclients: (2, 2), nops: (6, 12), final_walks: false, w_ops: [46, 12, 30, 12, 0, 0], av_latest_pct: 75, nonnil_base_pct: 30, ..GenCfg::default() };
            let hist = gen_history(&mut r, &g);
            let versions = *r.pick(&[1u32, 2, 100]);
            let mut sut = Sut::new(BackendKind::Sql, 14, versions, None).await;
            let plan = Arc::new(Mutex::new(Plan::default()));
            let p2 = plan.clone();
            sut.wrap_storage(move |s| Arc::new(FaultStorage { inner: s, plan: p2 })).await;
            let mut out = Out { w: &mut w, nlines: 0 };
            out.line(&format!(
                "run h={hi} setup=fault:sql:{} backend=sql entry={} faults=1 days=14 versions={versions} clients={}",
                if entry == Entry::Http { "http" } else { "lib" },
                if entry == Entry::Http { "http" } else { "lib" },
                hist.clients.iter().map(|c| c.to_string()).collect::<Vec<_>>().join(",")
            ));
            let mut known = Known::new(hist.clients.clone());
            for c in &hist.clients {
                known.note(*c);
            }
            let mut rn = Runner { sut: &mut sut, entry, known, out: &mut out, dump_every_op: false, honour_reopen: false, opidx: 0, dead: false, resolved: vec![] };
            if entry == Entry::Lib {
                // library entry: clients are registered up front (the handler's creation step is exercised by the HTTP entry)
                for c in &hist.clients {
                    let res: anyhow::Result<()> = (|| {
                        let mut t = rn.sut.storage.txn(*c)?;
                        if t.get_client()?.is_none() {
                            t.new_client(Uuid::nil())?;
                            t.commit()?;
                        }
                        Ok(())
                    })();
                    rn.out.line(&format!("create {c} => {}", if res.is_ok() { "ok" } else { "err" }));
                }
            }
            rn.dump_all();
            for (j, op) in hist.ops.iter().enumerate() {
                let ci = match op.client() { Some(c) => c, None => continue };
                let c = hist.clients[ci];
                // enumerate fault points until an attempt consumes no fault (that attempt is the ordinary execution)
                let mut i = 0usize;
                'points: loop {
                    for kind in [Kind::Before, Kind::After] {
                        let mut fails = vec![(i, kind)];
                        if double && r.chance(1, 3) {
                            fails.push((i + 1 + r.below(3), if r.chance(1, 2) { Kind::Before } else { Kind::After }));
                        }
                        {
                            let mut p = plan.lock().unwrap();
                            *p = Plan { counter: 0, fail: fails.clone(), consumed: 0, names: vec![] };
                        }
                        let lat0 = latest_of(rn.sut, c);
                        let sn0 = snapv_of(rn.sut, c);
                        rn.opidx = j;
                        // run the operation through the ordinary executor, capturing its lines so that the
                        // drawn id of a committed-but-unacknowledged version can be filled in afterwards
                        let mut buf: Vec<u8> = vec![];
                        {
                            let mut o2 = Out { w: &mut buf, nlines: 0 };
                            let known = std::mem::take(&mut rn.known);
                            let mut sub = Runner { sut: &mut *rn.sut, entry, known, out: &mut o2, dump_every_op: false, honour_reopen: false, opidx: j, dead: false, resolved: vec![] };
                            // the library entry retries after creating the client; here each attempt is ONE request
                            match op {
                                AOp::GcvThenAv { ci, p, payload } => sub.run_op(&AOp::Av { ci: *ci, p: p.clone(), payload: payload.clone(), cuts: 0 }).await,
                                AOp::Walk { ci } | AOp::SnapWalk { ci } | AOp::Reread { ci } => sub.run_op(&AOp::Gs { ci: *ci }).await,
                                o => sub.run_op(o).await,
                            }
                            rn.known = std::mem::take(&mut sub.known);
                            if sub.dead {
                                rn.dead = true;
                            }
                        }
                        let (consumed, names, fault_line) = {
                            let p = plan.lock().unwrap();
                            // a fault is identified by the call it hit (name and occurrence within the request), so that the
                            // model injects it at the same call even when its own sequence of reads differs
                            let ident = |i: usize| -> String {
                                match p.names.get(i) {
                                    Some(n) => format!(" {n}#{}", p.names[..=i].iter().filter(|x| *x == n).count()),
                                    None => String::new(),
                                }
                            };
                            let fl = format!("fault {}", fails.iter().map(|(i, k)| format!("{i} {}{}", if *k == Kind::Before { "before" } else { "after" }, ident(*i))).collect::<Vec<_>>().join(" "));
                            (p.consumed, p.names.join(","), fl)
                        };
                        {
                            // disarm for the harness's own reads
                            let mut p = plan.lock().unwrap();
                            p.fail.clear();
                        }
                        let lat1 = latest_of(rn.sut, c);
                        let sn1 = snapv_of(rn.sut, c);
                        // a version committed without acknowledgement: learn its id from the latest pointer
                        let mut text = String::from_utf8(buf).unwrap();
                        if lat1 != lat0 {
                            if let Some(v) = lat1 {
                                if !rn.known.chain[ci].contains(&v) {
                                    let parent = text.lines().filter(|l| !l.starts_with('#')).next().map(|l| {
                                        let ws: Vec<&str> = l.split(' ').collect();
                                        if ws[0] == "av" { Uuid::parse_str(ws[2]).unwrap_or(Uuid::nil()) } else {
                                            ws[2].rsplit('/').next().and_then(|s| Uuid::parse_str(s).ok()).unwrap_or(Uuid::nil())
                                        }
                                    }).unwrap_or(Uuid::nil());
                                    rn.known.accepted(ci, parent, v);
                                    // fill the drawn id into the operation line (field "newid")
                                    text = text
                                        .lines()
                                        .map(|l| {
                                            if l.starts_with('#') || !l.contains(" => ") {
                                                return l.to_string();
                                            }
                                            let (lhs, rhs) = l.split_once(" => ").unwrap();
                                            let mut ws: Vec<String> = lhs.split(' ').map(|x| x.to_string()).collect();
                                            let k = ws.len();
                                            if k >= 2 && ws[k - 2] == "-" && (ws[0] == "av" || (ws[0] == "http" && ws[2].contains("/add-version/"))) {
                                                ws[k - 2] = v.to_string();
                                            }
                                            format!("{} => {}", ws.join(" "), rhs)
                                        })
                                        .collect::<Vec<_>>()
                                        .join("\n");
                                }
                            }
                        }
                        if sn1 != sn0 {
                            rn.known.snap[ci] = sn1;
                        }
                        for l in text.lines() {
                            if l.starts_with('#') {
                                rn.out.line(&format!("{l} fault={i}:{} consumed={consumed} calls={names}", if kind == Kind::Before { "before" } else { "after" }));
                                rn.out.line(&fault_line);
                            } else if l.contains(" => ") {
                                rn.out.line(&format!("{l} consumed={consumed}"));
                            } else {
                                rn.out.line(l);
                            }
                        }
                        rn.dump_all();
                        if rn.dead {
                            break 'points;
                        }
                        if consumed == 0 {
                            break 'points;
                        }
                    }
                    i += 1;
                    if i > 40 {
                        break;
                    }
                }
                if rn.dead {
                    break;
                }
            }
            let dead = rn.dead;
            out.line(&format!("end h={hi} dead={}", dead as u8));
        }
    });
    w.flush().unwrap();
    0
}
