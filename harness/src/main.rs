//! tcs-harness: drives the REAL taskchampion-sync-server code (path dependencies on /repo) and
//! writes one protocol line per operation with the implementation's answer.
mod ctx;
mod exec;
mod gen;
mod scen;
mod util;

use std::collections::HashMap;

pub struct Args {
    pub cmd: String,
    pub kv: HashMap<String, String>,
}
impl Args {
    pub fn get(&self, k: &str, d: &str) -> String {
        self.kv.get(k).cloned().unwrap_or_else(|| d.to_string())
    }
    pub fn num(&self, k: &str, d: u64) -> u64 {
        self.kv.get(k).and_then(|s| s.parse().ok()).unwrap_or(d)
    }
}

fn main() {
    let mut a = std::env::args().skip(1);
    let cmd = a.next().unwrap_or_else(|| "help".into());
    let mut kv = HashMap::new();
    let rest: Vec<String> = a.collect();
    let mut i = 0;
    while i < rest.len() {
        if let Some(k) = rest[i].strip_prefix("--") {
            let v = rest.get(i + 1).cloned().unwrap_or_default();
            kv.insert(k.to_string(), v);
            i += 2;
        } else {
            i += 1;
        }
    }
    let args = Args { cmd: cmd.clone(), kv };
    // quiet panics: they are caught and reported as observations
    if std::env::var("VERIF_PANIC_TRACE").is_err() {
        std::panic::set_hook(Box::new(|_| {}));
    }
    let code = match cmd.as_str() {
        "hist" => scen::hist::main(&args),
        "grammar" => scen::grammar::main(&args),
        "urgency" => scen::urgency::main(&args),
        "fault" => scen::fault::main(&args),
        "sched" => scen::sched::main(&args),
        "crash" => scen::crash::main(&args),
        "fixture" => scen::fixture::main(&args),
        "maxrow" => scen::maxrow::main(&args),
        "overlap" => scen::overlap::main(&args),
        "mkfixture" => scen::fixture::make(&args),
        "crashchild" => scen::crash::child(&args),
        _ => {
            eprintln!("usage: tcs-harness <hist|…> --out FILE [--seed N] …");
            2
        }
    };
    std::process::exit(code);
}
