fn main(){}
