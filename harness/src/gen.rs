//! Abstract histories: operations whose id arguments are *references relative to the state*
//! (latest, ancestor by distance, base, snapshot version, foreign, fresh), so that the same history
//! can be executed on several set-ups whose server-drawn ids differ.
use crate::util::*;
use uuid::Uuid;

#[derive(Clone, Debug)]
pub enum IdRef {
    Nil,
    /// latest version of the client; when the chain is empty: nil
    Latest,
    /// latest, or (empty chain) the given id: gives chains with a non-nil base
    LatestOr(Uuid),
    /// d-th ancestor of the latest (1 = parent of latest); falls back to the given id
    Anc(usize, Uuid),
    /// the parent id the chain started from
    Base(Uuid),
    /// current snapshot version (as known to the harness)
    Snap(Uuid),
    Fresh(Uuid),
    /// ids belonging to the k-th other client
    ForeignLatest(usize, Uuid),
    ForeignAnc(usize, usize, Uuid),
    ForeignSnap(usize, Uuid),
    /// the client id itself used as a version id
    ClientId,
}
impl IdRef {
    pub fn is_foreign(&self) -> bool {
        matches!(self, IdRef::ForeignLatest(..) | IdRef::ForeignAnc(..) | IdRef::ForeignSnap(..))
    }
    pub fn class(&self) -> &'static str {
        match self {
            IdRef::Nil => "nil",
            IdRef::Latest | IdRef::LatestOr(_) => "latest",
            IdRef::Anc(..) => "ancestor",
            IdRef::Base(_) => "base",
            IdRef::Snap(_) => "snapvid",
            IdRef::Fresh(_) => "fresh",
            IdRef::ForeignLatest(..) | IdRef::ForeignAnc(..) | IdRef::ForeignSnap(..) => "foreign",
            IdRef::ClientId => "clientid",
        }
    }
}

#[derive(Clone, Debug)]
pub enum AOp {
    Av { ci: usize, p: IdRef, payload: PayloadSpec, cuts: u64 },
    Gcv { ci: usize, p: IdRef },
    As { ci: usize, v: IdRef, payload: PayloadSpec, cuts: u64 },
    Gs { ci: usize },
    Reopen,
    /// follow child versions from the first accepted parent until something other than `found`
    Walk { ci: usize },
    /// fetch the snapshot and follow child versions from its version
    SnapWalk { ci: usize },
    /// re-read every version accepted so far by its parent
    Reread { ci: usize },
    /// GetChildVersion(p) immediately followed by AddVersion(p) on the same state
    GcvThenAv { ci: usize, p: IdRef, payload: PayloadSpec },
}

impl AOp {
    pub fn client(&self) -> Option<usize> {
        match self {
            AOp::Av { ci, .. } | AOp::Gcv { ci, .. } | AOp::As { ci, .. } | AOp::Gs { ci } | AOp::Walk { ci } | AOp::SnapWalk { ci } | AOp::Reread { ci } | AOp::GcvThenAv { ci, .. } => Some(*ci),
            AOp::Reopen => None,
        }
    }
    /// the same operation with a foreign reference replaced by the concrete id it resolved to in another run
    pub fn pinned(&self, concrete: Option<Uuid>) -> AOp {
        let pin = |r: &IdRef| -> IdRef {
            match (r.is_foreign(), concrete) {
                (true, Some(u)) => IdRef::Fresh(u),
                _ => r.clone(),
            }
        };
        match self {
            AOp::Av { ci, p, payload, cuts } => AOp::Av { ci: *ci, p: pin(p), payload: payload.clone(), cuts: *cuts },
            AOp::Gcv { ci, p } => AOp::Gcv { ci: *ci, p: pin(p) },
            AOp::As { ci, v, payload, cuts } => AOp::As { ci: *ci, v: pin(v), payload: payload.clone(), cuts: *cuts },
            AOp::GcvThenAv { ci, p, payload } => AOp::GcvThenAv { ci: *ci, p: pin(p), payload: payload.clone() },
            o => o.clone(),
        }
    }
}

/// What the harness knows about one run (from the implementation's own answers).
#[derive(Clone, Default)]
pub struct Known {
    pub clients: Vec<Uuid>,
    pub chain: Vec<Vec<Uuid>>,
    pub parents: Vec<Vec<Uuid>>,
    pub base: Vec<Option<Uuid>>,
    pub snap: Vec<Option<Uuid>>,
    pub pool: Vec<Uuid>,
}
impl Known {
    pub fn new(clients: Vec<Uuid>) -> Self {
        let n = clients.len();
        Known { clients, chain: vec![vec![]; n], parents: vec![vec![]; n], base: vec![None; n], snap: vec![None; n], pool: vec![Uuid::nil()] }
    }
    pub fn note(&mut self, id: Uuid) {
        if !self.pool.contains(&id) {
            self.pool.push(id);
        }
    }
    pub fn resolve(&mut self, ci: usize, r: &IdRef) -> Uuid {
        let n = self.clients.len();
        // the k-th OTHER client (never the client itself)
        let other = |k: &usize| -> usize { if n < 2 { ci } else { (ci + 1 + (*k % (n - 1))) % n } };
        let id = match r {
            IdRef::Nil => Uuid::nil(),
            IdRef::Latest => self.chain[ci].last().cloned().unwrap_or(Uuid::nil()),
            IdRef::LatestOr(u) => self.chain[ci].last().cloned().unwrap_or(*u),
            IdRef::Anc(d, fb) => {
                let ch = &self.chain[ci];
                if ch.len() > *d {
                    ch[ch.len() - 1 - d]
                } else if ch.len() == *d && !ch.is_empty() {
                    self.base[ci].unwrap_or(*fb)
                } else {
                    *fb
                }
            }
            IdRef::Base(fb) => self.base[ci].unwrap_or(*fb),
            IdRef::Snap(fb) => self.snap[ci].unwrap_or(*fb),
            IdRef::Fresh(u) => *u,
            IdRef::ForeignLatest(k, fb) => if n < 2 { *fb } else { self.chain[other(k)].last().cloned().unwrap_or(*fb) },
            IdRef::ForeignAnc(k, d, fb) => {
                let ch = &self.chain[other(k)];
                if n >= 2 && ch.len() > *d {
                    ch[ch.len() - 1 - d]
                } else {
                    *fb
                }
            }
            IdRef::ForeignSnap(k, fb) => if n < 2 { *fb } else { self.snap[other(k)].unwrap_or(*fb) },
            IdRef::ClientId => self.clients[ci],
        };
        self.note(id);
        id
    }
    pub fn accepted(&mut self, ci: usize, parent: Uuid, id: Uuid) {
        if self.chain[ci].is_empty() {
            self.base[ci] = Some(parent);
        }
        self.chain[ci].push(id);
        self.parents[ci].push(parent);
        self.note(id);
        self.note(parent);
    }
}

#[derive(Clone, Debug)]
pub struct GenCfg {
    pub nclients: (usize, usize),
    pub nops: (usize, usize),
    /// weights: av, gcv, as, gs, reopen, gcv-then-av
    pub w_ops: [usize; 6],
    /// probability (percent) that an AddVersion uses the latest as parent
    pub av_latest_pct: usize,
    /// probability (percent) that the first version of a client has a non-nil parent
    pub nonnil_base_pct: usize,
    pub big_payload_pct: usize,
    /// big payloads of the sizes where HTTP frameworks put their default body limits (256 KiB, 1 MiB, 2 MiB) instead of 4 – 70 kB
    pub mid_payloads: bool,
    pub final_walks: bool,
    pub reread_every: usize,
    pub snapwalk_after_write: bool,
    /// percentage of histories that start with the scripted cross-client prefix (ids of one client quoted by another)
    pub cross_prefix_pct: usize,
}
impl Default for GenCfg {
    fn default() -> Self {
        GenCfg {
            nclients: (2, 4),
            nops: (10, 40),
            w_ops: [45, 15, 22, 8, 3, 7],
            av_latest_pct: 65,
            nonnil_base_pct: 40,
            big_payload_pct: 3,
            mid_payloads: false,
            final_walks: true,
            reread_every: 0,
            snapwalk_after_write: false,
            cross_prefix_pct: 10,
        }
    }
}

pub fn gen_idref(r: &mut Rng, for_snapshot: bool) -> IdRef {
    // classes: nil, latest, ancestors by distance (dense around the snapshot window), base, snapshot version, fresh, foreign, client id
    let w: [usize; 8] = if for_snapshot { [4, 14, 44, 8, 8, 6, 12, 1] } else { [8, 18, 30, 10, 8, 10, 14, 2] };
    match r.weighted(&w) {
        0 => IdRef::Nil,
        1 => IdRef::Latest,
        2 => IdRef::Anc(1 + r.below(8), r.uuid()),
        3 => IdRef::Base(r.uuid()),
        4 => IdRef::Snap(r.uuid()),
        5 => IdRef::Fresh(r.uuid()),
        6 => match r.below(3) {
            0 => IdRef::ForeignLatest(r.below(3), r.uuid()),
            1 => IdRef::ForeignAnc(r.below(3), 1 + r.below(4), r.uuid()),
            _ => IdRef::ForeignSnap(r.below(3), r.uuid()),
        },
        _ => IdRef::ClientId,
    }
}

pub fn gen_payload(r: &mut Rng, g: &GenCfg) -> PayloadSpec {
    if r.chance(g.big_payload_pct, 100) {
        let lens = if g.mid_payloads { [262_143usize, 262_144, 262_145, 300_001, 1_048_577, 2_097_153] } else { [4095usize, 4096, 4097, 65535, 65536, 70000] };
        PayloadSpec { kind: if g.mid_payloads { 0 } else { 1 + r.below(7) as u8 }, len: *r.pick(&lens), seed: r.next() }
    } else {
        PayloadSpec::small(r)
    }
}

pub struct History {
    pub clients: Vec<Uuid>,
    pub ops: Vec<AOp>,
}

pub fn gen_history(r: &mut Rng, g: &GenCfg) -> History {
    let nc = g.nclients.0 + r.below(g.nclients.1 - g.nclients.0 + 1);
    let clients: Vec<Uuid> = (0..nc).map(|_| r.uuid()).collect();
    let nops = g.nops.0 + r.below(g.nops.1 - g.nops.0 + 1);
    let nonnil: Vec<bool> = (0..nc).map(|_| r.chance(g.nonnil_base_pct, 100)).collect();
    let bases: Vec<Uuid> = (0..nc).map(|_| r.uuid()).collect();
    let mut ops = vec![];
    if nc >= 2 && r.chance(g.cross_prefix_pct, 100) {
        // B builds a chain and snapshots its latest; A then starts ITS chain on B's latest id and snapshots at that base
        let (a, b) = (0usize, 1usize);
        for _ in 0..2 + r.below(3) {
            ops.push(AOp::Av { ci: b, p: IdRef::Latest, payload: PayloadSpec::small(r), cuts: r.next() });
        }
        // B snapshots at the version before its latest (a walk of one step back through B's chain), then at its latest
        ops.push(AOp::As { ci: b, v: IdRef::Anc(1, r.uuid()), payload: PayloadSpec::small(r), cuts: r.next() });
        ops.push(AOp::As { ci: b, v: IdRef::Latest, payload: PayloadSpec::small(r), cuts: r.next() });
        ops.push(AOp::Av { ci: a, p: IdRef::ForeignLatest(0, r.uuid()), payload: PayloadSpec::small(r), cuts: r.next() });
        // first at the version BEFORE that base in B's chain (within the window, if the walk back from A's latest did not
        // stop at the end of A's own chain), then at the base itself
        ops.push(AOp::As { ci: a, v: IdRef::ForeignAnc(0, 1, r.uuid()), payload: PayloadSpec::small(r), cuts: r.next() });
        ops.push(AOp::As { ci: a, v: IdRef::Base(r.uuid()), payload: PayloadSpec::small(r), cuts: r.next() });
        ops.push(AOp::Gs { ci: b });
        ops.push(AOp::Gs { ci: a });
        ops.push(AOp::Av { ci: a, p: IdRef::Latest, payload: PayloadSpec::small(r), cuts: r.next() });
        ops.push(AOp::As { ci: a, v: IdRef::Latest, payload: PayloadSpec::small(r), cuts: r.next() });
        ops.push(AOp::Gs { ci: b });
        // a restart right here (set-ups that reopen the database; a no-op elsewhere): B's latest version is, at this moment, the
        // parent of a version of A and of no version of B
        ops.push(AOp::Reopen);
        ops.push(AOp::Gcv { ci: b, p: IdRef::Latest });
        ops.push(AOp::Walk { ci: b });
    }
    if nc >= 2 && r.chance(g.cross_prefix_pct, 100) {
        // twins: two clients upload byte-identical segments on identical parents (both start at nil): nothing about
        // one client's versions may depend on another client having stored the same bytes
        let (a, b) = (nc - 1, nc - 2);
        for _ in 0..1 + r.below(3) {
            let pl = PayloadSpec::small(r);
            ops.push(AOp::Av { ci: a, p: IdRef::Latest, payload: pl.clone(), cuts: r.next() });
            ops.push(AOp::Av { ci: b, p: IdRef::Latest, payload: pl, cuts: r.next() });
        }
        ops.push(AOp::Walk { ci: a });
        ops.push(AOp::Walk { ci: b });
    }
    for i in 0..nops {
        let ci = r.below(nc);
        match r.weighted(&g.w_ops) {
            0 => {
                let p = if r.chance(g.av_latest_pct, 100) {
                    if nonnil[ci] {
                        IdRef::LatestOr(bases[ci])
                    } else {
                        IdRef::Latest
                    }
                } else {
                    gen_idref(r, false)
                };
                let (payload, cuts) = (gen_payload(r, g), r.next());
                ops.push(AOp::Av { ci, p, payload: payload.clone(), cuts });
                if cuts % 16 == 7 {
                    // a client that lost the answer sends the request again: same parent (by now the latest's parent, if the
                    // first was accepted), byte-identical payload. No extra draw from the generator, so the rest of the
                    // history is the one this seed always produced. (seeded C02-7: a "repeated request" shortcut answered 200)
                    ops.push(AOp::Av { ci, p: IdRef::Anc(1, Uuid::from_u64_pair(cuts, !cuts)), payload, cuts });
                }
                if g.snapwalk_after_write {
                    ops.push(AOp::SnapWalk { ci });
                }
            }
            1 => ops.push(AOp::Gcv { ci, p: gen_idref(r, false) }),
            2 => {
                ops.push(AOp::As { ci, v: gen_idref(r, true), payload: gen_payload(r, g), cuts: r.next() });
                if g.snapwalk_after_write {
                    ops.push(AOp::SnapWalk { ci });
                }
            }
            3 => ops.push(AOp::Gs { ci }),
            4 => ops.push(AOp::Reopen),
            _ => ops.push(AOp::GcvThenAv { ci, p: gen_idref(r, false), payload: PayloadSpec::small(r) }),
        }
        if g.reread_every > 0 && (i + 1) % g.reread_every == 0 {
            for c in 0..nc {
                ops.push(AOp::Reread { ci: c });
            }
        }
    }
    if g.final_walks {
        for c in 0..nc {
            ops.push(AOp::Walk { ci: c });
            ops.push(AOp::SnapWalk { ci: c });
            ops.push(AOp::Reread { ci: c });
        }
    }
    History { clients, ops }
}

/// Split a body into chunks according to a 64-bit choice word.
pub fn cut_chunks(body: &[u8], cuts: u64) -> Vec<Vec<u8>> {
    let mut r = Rng(cuts);
    match cuts % 5 {
        0 => vec![body.to_vec()],
        1 if body.len() <= 64 => body.iter().map(|b| vec![*b]).collect(),
        2 => {
            // empty chunks interleaved
            let mid = if body.is_empty() { 0 } else { r.below(body.len() + 1) };
            vec![vec![], body[..mid].to_vec(), vec![], vec![], body[mid..].to_vec(), vec![]]
        }
        _ => {
            let mut out = vec![];
            let mut i = 0;
            while i < body.len() {
                let step = 1 + r.below((body.len() / 3).max(1));
                let j = (i + step).min(body.len());
                out.push(body[i..j].to_vec());
                i = j;
            }
            if out.is_empty() {
                out.push(vec![]);
            }
            out
        }
    }
}
