//! Execute abstract operations against the real code (library or HTTP entry) and emit protocol lines.
use crate::ctx::*;
use crate::gen::*;
use crate::util::*;
use std::io::Write;
use std::panic::AssertUnwindSafe;
use taskchampion_sync_server_core::*;
use uuid::Uuid;

pub const HS_CT: &str = "application/vnd.taskchampion.history-segment";
pub const SNAP_CT: &str = "application/vnd.taskchampion.snapshot";

#[derive(Clone, Copy, PartialEq, Eq, Debug)]
pub enum Entry {
    Lib,
    Http,
}

pub struct Out<'a> {
    pub w: &'a mut dyn Write,
    pub nlines: usize,
}
impl Out<'_> {
    pub fn line(&mut self, s: &str) {
        writeln!(self.w, "{s}").unwrap();
        self.nlines += 1;
    }
}

pub fn hdr_fmt(h: &[(String, Vec<u8>)]) -> String {
    let mut s = format!("{}", h.len());
    for (k, v) in h {
        s.push_str(&format!(" {}={}", k, if v.is_empty() { "-".to_string() } else { hex(v) }));
    }
    s
}
pub fn chunks_fmt(c: &[Vec<u8>]) -> String {
    let mut s = format!("{}", c.len());
    for x in c {
        s.push(' ');
        s.push_str(&blob(x));
    }
    s
}

pub fn http_line(spec: &ReqSpec, newid: &str, now: i64) -> String {
    format!("http {} {} {} {} {} {}", spec.method, spec.path, hdr_fmt(&spec.headers), chunks_fmt(&spec.chunks), newid, now)
}

fn snap_vid(sut: &Sut, c: Uuid) -> Option<Option<Uuid>> {
    std::panic::catch_unwind(AssertUnwindSafe(|| {
        let mut t = sut.storage.txn(c).ok()?;
        Some(t.get_client().ok()?.and_then(|cl| cl.snapshot).map(|s| s.version_id))
    }))
    .ok()
    .flatten()
}

pub struct Runner<'a, 'b> {
    pub sut: &'a mut Sut,
    pub entry: Entry,
    pub known: Known,
    pub out: &'a mut Out<'b>,
    pub dump_every_op: bool,
    pub honour_reopen: bool,
    pub opidx: usize,
    pub dead: bool,
    /// concrete id each operation's reference resolved to (by op index)
    pub resolved: Vec<(usize, Uuid)>,
}

impl Runner<'_, '_> {
    pub fn dump_all(&mut self) {
        for i in 0..self.known.clients.len() {
            let c = self.known.clients[i];
            let ids = self.known.pool.clone();
            let d = self.sut.dump_client(c, &ids);
            let idl = ids.iter().map(|u| u.to_string()).collect::<Vec<_>>().join(",");
            self.out.line(&format!("dump {c} {idl} => {d}"));
        }
        if let Some(r) = self.sut.raw_dump() {
            self.out.line(&format!("rawdump => {}", if r.is_empty() { "empty" } else { &r }));
        }
    }

    pub async fn add_version(&mut self, ci: usize, p: Uuid, body: Vec<u8>, cuts: u64) {
        self.add_version_inner(ci, p, body, cuts, false).await
    }
    async fn add_version_inner(&mut self, ci: usize, p: Uuid, body: Vec<u8>, cuts: u64, retried: bool) {
        let c = self.known.clients[ci];
        let now = unix_now();
        match self.entry {
            Entry::Lib => {
                let r = std::panic::catch_unwind(AssertUnwindSafe(|| self.sut.lib.add_version(c, p, body.clone())));
                let (obs, nid) = match r {
                    Ok(Ok((AddVersionResult::Ok(v), u))) => {
                        self.known.accepted(ci, p, v);
                        (format!("ok {} {}", v, match u { SnapshotUrgency::None => "none", SnapshotUrgency::Low => "low", SnapshotUrgency::High => "high" }), v.to_string())
                    }
                    Ok(Ok((AddVersionResult::ExpectedParentVersion(l), _))) => {
                        self.known.note(l);
                        (format!("conflict {l}"), "-".into())
                    }
                    Ok(Err(ServerError::NoSuchClient)) => ("nsc".into(), "-".into()),
                    Ok(Err(_)) => ("err".into(), "-".into()),
                    Err(_) => {
                        self.dead = true;
                        ("panic".into(), "-".into())
                    }
                };
                self.out.line(&format!("av {c} {p} {} {nid} {now} => {obs}", blob(&body)));
                if obs == "nsc" && !retried {
                    // what the HTTP handler does: create the client in its own transaction, then retry
                    let r: anyhow::Result<()> = (|| {
                        let mut t = self.sut.storage.txn(c)?;
                        if t.get_client()?.is_none() {
                            t.new_client(Uuid::nil())?;
                            t.commit()?;
                        }
                        Ok(())
                    })();
                    self.out.line(&format!("create {c} => {}", if r.is_ok() { "ok" } else { "err" }));
                    return Box::pin(self.add_version_inner(ci, p, body, cuts, true)).await;
                }
            }
            Entry::Http => {
                let spec = ReqSpec {
                    method: "POST".into(),
                    path: format!("/v1/client/add-version/{p}"),
                    headers: vec![("content-type".into(), HS_CT.into()), ("x-client-id".into(), c.to_string().into_bytes())],
                    chunks: cut_chunks(&body, cuts),
                };
                if crate::ctx::STALL_ALL.load(std::sync::atomic::Ordering::SeqCst) {
                    crate::ctx::STALL_NEXT.store(true, std::sync::atomic::Ordering::SeqCst);
                }
                let o = (self.sut.call)(spec.clone()).await;
                let mut nid = "-".to_string();
                if o.panicked {
                    self.dead = true;
                }
                if o.status == 200 {
                    if let Some(v) = o.vid.as_ref().and_then(|s| Uuid::parse_str(s).ok()) {
                        self.known.accepted(ci, p, v);
                        nid = v.to_string();
                    }
                }
                if let Some(l) = o.pvid.as_ref().and_then(|s| Uuid::parse_str(s).ok()) {
                    self.known.note(l);
                }
                self.out.line(&format!("{} => {}", http_line(&spec, &nid, now), o.wire()));
            }
        }
    }

    /// returns the found version id, if any
    pub async fn get_child(&mut self, ci: usize, p: Uuid) -> Option<Uuid> {
        let c = self.known.clients[ci];
        match self.entry {
            Entry::Lib => {
                let r = std::panic::catch_unwind(AssertUnwindSafe(|| self.sut.lib.get_child_version(c, p)));
                let mut found = None;
                let obs = match r {
                    Ok(Ok(GetVersionResult::Success { version_id, parent_version_id, history_segment })) => {
                        found = Some(version_id);
                        self.known.note(version_id);
                        format!("found {version_id} {parent_version_id} {}", blob(&history_segment))
                    }
                    Ok(Ok(GetVersionResult::NotFound)) => "notfound".into(),
                    Ok(Ok(GetVersionResult::Gone)) => "gone".into(),
                    Ok(Err(ServerError::NoSuchClient)) => "nsc".into(),
                    Ok(Err(_)) => "err".into(),
                    Err(_) => {
                        self.dead = true;
                        "panic".into()
                    }
                };
                self.out.line(&format!("gcv {c} {p} => {obs}"));
                found
            }
            Entry::Http => {
                let spec = ReqSpec {
                    method: "GET".into(),
                    path: format!("/v1/client/get-child-version/{p}"),
                    headers: vec![("x-client-id".into(), c.to_string().into_bytes())],
                    chunks: vec![],
                };
                let o = (self.sut.call)(spec.clone()).await;
                if o.panicked {
                    self.dead = true;
                }
                self.out.line(&format!("{} => {}", http_line(&spec, "-", 0), o.wire()));
                if o.status == 200 {
                    let v = o.vid.as_ref().and_then(|s| Uuid::parse_str(s).ok());
                    if let Some(v) = v {
                        self.known.note(v);
                    }
                    v
                } else {
                    None
                }
            }
        }
    }

    pub async fn add_snapshot(&mut self, ci: usize, v: Uuid, body: Vec<u8>, cuts: u64) {
        let c = self.known.clients[ci];
        let before = snap_vid(self.sut, c);
        let now = unix_now();
        match self.entry {
            Entry::Lib => {
                let r = std::panic::catch_unwind(AssertUnwindSafe(|| self.sut.lib.add_snapshot(c, v, body.clone())));
                let after = snap_vid(self.sut, c);
                let obs = match r {
                    Ok(Ok(())) => {
                        let acc = before != after && after == Some(Some(v));
                        if acc {
                            self.known.snap[ci] = Some(v);
                        }
                        format!("ok acc={}", acc as u8)
                    }
                    Ok(Err(ServerError::NoSuchClient)) => "nsc".into(),
                    Ok(Err(_)) => "err".into(),
                    Err(_) => {
                        self.dead = true;
                        "panic".into()
                    }
                };
                self.out.line(&format!("as {c} {v} {} {now} => {obs}", blob(&body)));
            }
            Entry::Http => {
                let spec = ReqSpec {
                    method: "POST".into(),
                    path: format!("/v1/client/add-snapshot/{v}"),
                    headers: vec![("content-type".into(), SNAP_CT.into()), ("x-client-id".into(), c.to_string().into_bytes())],
                    chunks: cut_chunks(&body, cuts),
                };
                if crate::ctx::STALL_ALL.load(std::sync::atomic::Ordering::SeqCst) {
                    crate::ctx::STALL_NEXT.store(true, std::sync::atomic::Ordering::SeqCst);
                }
                let o = (self.sut.call)(spec.clone()).await;
                if o.panicked {
                    self.dead = true;
                }
                let after = snap_vid(self.sut, c);
                let acc = before != after && after == Some(Some(v));
                if acc {
                    self.known.snap[ci] = Some(v);
                }
                self.out.line(&format!("{} => {} acc={}", http_line(&spec, "-", now), o.wire(), acc as u8));
            }
        }
    }

    /// returns the snapshot version id, if any
    pub async fn get_snapshot(&mut self, ci: usize) -> Option<Uuid> {
        let c = self.known.clients[ci];
        match self.entry {
            Entry::Lib => {
                let r = std::panic::catch_unwind(AssertUnwindSafe(|| self.sut.lib.get_snapshot(c)));
                let mut found = None;
                let obs = match r {
                    Ok(Ok(Some((v, d)))) => {
                        found = Some(v);
                        format!("some {v} {}", blob(&d))
                    }
                    Ok(Ok(None)) => "none".into(),
                    Ok(Err(ServerError::NoSuchClient)) => "nsc".into(),
                    Ok(Err(_)) => "err".into(),
                    Err(_) => {
                        self.dead = true;
                        "panic".into()
                    }
                };
                self.out.line(&format!("gs {c} => {obs}"));
                found
            }
            Entry::Http => {
                let spec = ReqSpec {
                    method: "GET".into(),
                    path: "/v1/client/snapshot".into(),
                    headers: vec![("x-client-id".into(), c.to_string().into_bytes())],
                    chunks: vec![],
                };
                let o = (self.sut.call)(spec.clone()).await;
                if o.panicked {
                    self.dead = true;
                }
                self.out.line(&format!("{} => {}", http_line(&spec, "-", 0), o.wire()));
                if o.status == 200 {
                    o.vid.as_ref().and_then(|s| Uuid::parse_str(s).ok())
                } else {
                    None
                }
            }
        }
    }

    pub async fn walk_from(&mut self, ci: usize, start: Uuid, limit: usize) {
        let mut p = start;
        for _ in 0..limit {
            match self.get_child(ci, p).await {
                Some(v) => p = v,
                None => break,
            }
            if self.dead {
                break;
            }
        }
    }

    pub async fn run_op(&mut self, op: &AOp) {
        if self.dead {
            return;
        }
        match op {
            AOp::Av { ci, p, payload, cuts } => {
                let pid = self.known.resolve(*ci, p);
                self.resolved.push((self.opidx, pid));
                self.out.line(&format!("# i={} op=av ci={ci} class={} plen={} pkind={}", self.opidx, p.class(), payload.len, PAYLOAD_KINDS[payload.kind as usize]));
                self.add_version(*ci, pid, payload.bytes(), *cuts).await;
            }
            AOp::Gcv { ci, p } => {
                let pid = self.known.resolve(*ci, p);
                self.resolved.push((self.opidx, pid));
                self.out.line(&format!("# i={} op=gcv ci={ci} class={}", self.opidx, p.class()));
                self.get_child(*ci, pid).await;
            }
            AOp::As { ci, v, payload, cuts } => {
                let vid = self.known.resolve(*ci, v);
                self.resolved.push((self.opidx, vid));
                // position of v in the chain, counted from the latest (0 = latest), for the histogram
                let pos = self.known.chain[*ci].iter().rev().position(|x| *x == vid).map(|x| x as i64).unwrap_or(-1);
                self.out.line(&format!("# i={} op=as ci={ci} class={} pos={pos} chainlen={}", self.opidx, v.class(), self.known.chain[*ci].len()));
                self.add_snapshot(*ci, vid, payload.bytes(), *cuts).await;
            }
            AOp::Gs { ci } => {
                self.out.line(&format!("# i={} op=gs ci={ci}", self.opidx));
                self.get_snapshot(*ci).await;
            }
            AOp::Reopen => {
                if self.honour_reopen && self.sut.kind == BackendKind::Sql {
                    self.out.line(&format!("# i={} op=reopen", self.opidx));
                    self.sut.reopen().await;
                    self.out.line("reopen => ok");
                }
            }
            AOp::Walk { ci } => {
                self.out.line(&format!("# i={} op=walk ci={ci} chainlen={}", self.opidx, self.known.chain[*ci].len()));
                if let Some(b) = self.known.base[*ci] {
                    let lim = self.known.chain[*ci].len() + 2;
                    self.walk_from(*ci, b, lim).await;
                } else {
                    self.out.line(&format!("nowalk {} => empty", self.known.clients[*ci]));
                }
            }
            AOp::SnapWalk { ci } => {
                self.out.line(&format!("# i={} op=snapwalk ci={ci}", self.opidx));
                if let Some(v) = self.get_snapshot(*ci).await {
                    let lim = self.known.chain[*ci].len() + 2;
                    self.walk_from(*ci, v, lim).await;
                }
            }
            AOp::Reread { ci } => {
                self.out.line(&format!("# i={} op=reread ci={ci} n={}", self.opidx, self.known.parents[*ci].len()));
                for p in self.known.parents[*ci].clone() {
                    self.get_child(*ci, p).await;
                }
            }
            AOp::GcvThenAv { ci, p, payload } => {
                let pid = self.known.resolve(*ci, p);
                self.resolved.push((self.opidx, pid));
                self.out.line(&format!("# i={} op=gcv+av ci={ci} class={}", self.opidx, p.class()));
                self.get_child(*ci, pid).await;
                self.add_version(*ci, pid, payload.bytes(), 0).await;
            }
        }
        if self.dump_every_op && !self.dead {
            self.dump_all();
        }
        self.opidx += 1;
    }
}
