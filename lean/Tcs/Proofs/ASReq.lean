import Tcs.Proofs.ASRun
import Tcs.Proofs.ChainProofs
namespace Tcs

/-! Request level: under the invariant and freshness, every protocol request on the abstract
    storage completes without a storage error and computes `asStep`. -/

theorem run_of_runSt {σ α} (B : Backend σ) (mode : TxnMode) (cl : Uuid) (p : TxnM α) (s s' : σ) (r : Option α) (cm : Bool)
    (h : p.runSt B cl ⟨s, s, false⟩ = (r, ⟨s', s', cm⟩)) : p.run B mode cl s = (r, s') := by
  unfold TxnM.run
  rw [h]
  cases mode <;> rfl

def outOf {α} (f : α → Out) : Except SrvErr α → Out
  | .ok x => f x
  | .error _ => .noSuchClient
@[simp] theorem outOf_ok {α} (f : α → Out) (x : α) : outOf f (.ok x) = f x := rfl
@[simp] theorem outOf_error {α} (f : α → Out) (e : SrvErr) : outOf f (.error e) = .noSuchClient := rfl

theorem runC_one {α} (mode : TxnMode) (c : Uuid) (body : TxnM (Except SrvErr α)) (f : α → Out) (a a' : AS) (r : Except SrvErr α) (cm : Bool)
    (h : body.runSt ASB c ⟨a, a, false⟩ = (some r, ⟨a', a', cm⟩)) :
    (one c body f).runC ASB mode a = (outOf f r, a', true) := by
  unfold one
  simp only [ReqM.runC, run_of_runSt ASB mode c body a a' (some r) cm h]
  cases r with
  | ok x => rfl
  | error e => cases e; rfl

/-- a version may be appended exactly when the parent has no child: from the chain invariant -/
theorem no_child_of_accept (x : CSt) (hx : CInv x) (c : Client) (hc : x.client = some c) (p : Uuid)
    (h : ¬ (c.latest ≠ Uuid.nil ∧ p ≠ c.latest)) : x.versions.any (·.parent = p) = false := by
  have hwf : WF (baseOf x.versions) x.versions := ⟨hx.chain, hx.nodup⟩
  have hl := hx.latest c hc
  by_cases h1 : c.latest = Uuid.nil
  · -- no versions at all
    have : x.versions = [] := by
      rcases list_snoc_cases x.versions with h0 | ⟨xs, v, hv⟩
      · exact h0
      · exfalso
        have hm := lastId_mem_vids (baseOf x.versions) x.versions (by rw [hv]; simp)
        rw [← hl, h1] at hm
        exact hx.nonNil hm
    simp [this]
  · have h2 : p = c.latest := by
      by_cases h2 : p = c.latest
      · exact h2
      · exact absurd ⟨h1, h2⟩ h
    rw [h2, hl]
    exact any_parent_last _ _ hwf

theorem upd_upd (f : Uuid → CSt) (c : Uuid) (x y : CSt) : upd (upd f c x) c y = upd f c y := by
  funext d; by_cases h : d = c <;> simp [upd, h]

theorem upd_self (f : Uuid → CSt) (c : Uuid) : upd f c (f c) = f := by
  funext d; by_cases h : d = c <;> simp [upd, h]

/-- library-level AddVersion -/
theorem as_avLib (S : Sys) (mode : TxnMode) (c p : Uuid) (seg : Bytes) (newId : Uuid) (now : Int) (a : AS)
    (hx : CInv (a.st c)) (hid : newId ∉ a.ids) :
    ((Ev.avLib c p seg newId now).req S).runC ASB mode a =
      ((asStep S (.avLib c p seg newId now) a).1, (asStep S (.avLib c p seg newId now) a).2, true) := by
  simp only [Ev.req, asStep, Ev.client, cstep, cAddVersion]
  cases hc : (a.st c).client with
  | none =>
    rw [runC_one mode c _ avOut a a _ false (as_run_addVersion_nsc S.cfg c p seg newId now a hc)]
    simp [addedId, upd_self]
  | some cl =>
    by_cases h : cl.latest ≠ Uuid.nil ∧ p ≠ cl.latest
    · rw [runC_one mode c _ avOut a a _ false (as_run_addVersion_conflict S.cfg c p seg newId now a cl hc h)]
      simp [h.1, h.2, avOut, addedId, upd_self]
    · rw [runC_one mode c _ avOut a _ _ true (as_run_addVersion_ok S.cfg c p seg newId now a cl hc h hid (no_child_of_accept _ hx cl hc p h))]
      have h' : (cl.latest ≠ Uuid.nil && p ≠ cl.latest) = false := by
        by_cases h1 : cl.latest = Uuid.nil
        · simp [h1]
        · by_cases h2 : p = cl.latest
          · simp [h2]
          · exact absurd ⟨h1, h2⟩ h
      simp only [h', Bool.false_eq_true, ↓reduceIte, avOut, addedId, asAdded, cAdded, outOf_ok]

theorem as_gcv (S : Sys) (mode : TxnMode) (c p : Uuid) (a : AS) :
    ((Ev.gcv c p).req S).runC ASB mode a = ((asStep S (.gcv c p) a).1, (asStep S (.gcv c p) a).2, true) := by
  simp only [Ev.req, asStep, Ev.client, cstep, cGetChild]
  rw [runC_one mode c _ gcvOut a a _ false (as_run_getChild c p a)]
  simp only [addedId, List.append_nil, upd_self]
  cases (a.st c).client with
  | none => rfl
  | some cl =>
    cases (a.st c).versions.find? (·.parent = p) with
    | some v => rfl
    | none => simp only []; split <;> rfl

theorem as_gs (S : Sys) (mode : TxnMode) (c : Uuid) (a : AS) (hx : CInv (a.st c)) :
    ((Ev.gs c).req S).runC ASB mode a = ((asStep S (.gs c) a).1, (asStep S (.gs c) a).2, true) := by
  simp only [Ev.req, asStep, Ev.client, cstep, cGetSnapshot]
  rw [runC_one mode c _ gsOut a a _ false (as_run_getSnapshot c a (fun cl s h1 h2 => (hx.snapSome cl s h1 h2).1))]
  simp only [addedId, List.append_nil, upd_self]
  cases (a.st c).client with
  | none => rfl
  | some cl =>
    simp only []
    cases cl.snap with
    | none => rfl
    | some s => simp only []; cases (a.st c).data <;> rfl

theorem as_as (S : Sys) (mode : TxnMode) (c v : Uuid) (d : Bytes) (now : Int) (a : AS) :
    ((Ev.as c v d now).req S).runC ASB mode a = ((asStep S (.as c v d now) a).1, (asStep S (.as c v d now) a).2, true) := by
  simp only [Ev.req, asStep, Ev.client, cstep, cAddSnapshot]
  have h := as_run_addSnapshot S.params c v d now a
  cases hc : (a.st c).client with
  | none =>
    rw [hc] at h
    rw [runC_one mode c _ .asDone a a _ false h]
    simp [addedId, upd_self]
  | some cl =>
    rw [hc] at h
    by_cases h1 : some v = cl.snap.map (·.vid)
    · simp only [h1, ↓reduceIte] at h ⊢
      rw [runC_one mode c _ .asDone a a _ false h]
      simp [addedId, upd_self]
    · simp only [h1, ↓reduceIte] at h ⊢
      cases hw : walkBack (a.st c).versions v (cl.snap.map (·.vid)) S.params.searchLen cl.latest with
      | false =>
        simp only [hw, Bool.false_eq_true, ↓reduceIte] at h ⊢
        rw [runC_one mode c _ .asDone a a _ false h]
        simp [addedId, upd_self]
      | true =>
        simp only [hw, ↓reduceIte] at h ⊢
        rw [runC_one mode c _ .asDone a _ _ true h]
        simp [addedId, asSnapped, cSnapped]

theorem as_create (S : Sys) (hS : S.ensure = ensureClientFixed) (mode : TxnMode) (c : Uuid) (a : AS) :
    ((Ev.create c).req S).runC ASB mode a = ((asStep S (.create c) a).1, (asStep S (.create c) a).2, true) := by
  simp only [Ev.req, asStep, Ev.client, cstep, cCreate, hS]
  have h := as_run_ensure c a
  cases hc : (a.st c).client with
  | some cl =>
    rw [hc] at h
    simp only [ReqM.runC, run_of_runSt ASB mode c _ a a (some ()) false h]
    simp [addedId, upd_self]
  | none =>
    rw [hc] at h
    simp only [ReqM.runC, run_of_runSt ASB mode c _ a _ (some ()) true h]
    simp [addedId, asCreated, cCreated]

/-- the handler loop when the client already exists: one transaction, same answer as the library call -/
theorem as_avReq_some (cfg : Config) (ens : TxnM Unit) (mode : TxnMode) (c p : Uuid) (seg : Bytes) (newId : Uuid) (now : Int)
    (fuel : Nat) (a : AS) (cl : Client) (hc : (a.st c).client = some cl) (hx : CInv (a.st c)) (hid : newId ∉ a.ids) :
    (avReq cfg ens c p seg newId now (fuel + 1)).runC ASB mode a =
      ((cAddVersion cfg (a.st c) p seg newId now).1,
       ⟨upd a.st c (cAddVersion cfg (a.st c) p seg newId now).2,
        a.ids ++ (match (cAddVersion cfg (a.st c) p seg newId now).1 with | .avOk v _ => [v] | _ => [])⟩, true) := by
  simp only [avReq, cAddVersion, hc]
  by_cases h : cl.latest ≠ Uuid.nil ∧ p ≠ cl.latest
  · simp only [ReqM.runC, run_of_runSt ASB mode c _ a a _ false (as_run_addVersion_conflict cfg c p seg newId now a cl hc h)]
    simp [h.1, h.2, upd_self]
  · simp only [ReqM.runC, run_of_runSt ASB mode c _ a _ _ true (as_run_addVersion_ok cfg c p seg newId now a cl hc h hid (no_child_of_accept _ hx cl hc p h))]
    have h' : (cl.latest ≠ Uuid.nil && p ≠ cl.latest) = false := by
      by_cases h1 : cl.latest = Uuid.nil
      · simp [h1]
      · by_cases h2 : p = cl.latest
        · simp [h2]
        · exact absurd ⟨h1, h2⟩ h
    simp only [h', Bool.false_eq_true, ↓reduceIte, asAdded, cAdded, Bool.and_self, Option.isSome_some]

theorem cinv_created (x : CSt) (hx : CInv x) (hc : x.client = none) : CInv (cCreated x) := by
  obtain ⟨hv, hd⟩ := hx.noClient hc
  constructor <;> simp_all [cCreated, baseOf, vids, IsChain, lastId]
  rintro c sn rfl; simp

/-- AddVersion through the handler: creates an unknown client, then behaves like the library call -/
theorem as_av (S : Sys) (hS : S.ensure = ensureClientFixed) (mode : TxnMode) (c p : Uuid) (seg : Bytes) (newId : Uuid) (now : Int) (a : AS)
    (hx : CInv (a.st c)) (hid : newId ∉ a.ids) :
    ((Ev.av c p seg newId now).req S).runC ASB mode a =
      ((asStep S (.av c p seg newId now) a).1, (asStep S (.av c p seg newId now) a).2, true) := by
  simp only [Ev.req, asStep, Ev.client, cstep, cCreate]
  cases hc : (a.st c).client with
  | some cl =>
    rw [as_avReq_some S.cfg S.ensure mode c p seg newId now 2 a cl hc hx hid]
    simp only [addedId]
    cases (cAddVersion S.cfg (a.st c) p seg newId now).1 <;> rfl
  | none =>
    -- first transaction: no such client; second: create; third: the add
    have h1 := as_run_addVersion_nsc S.cfg c p seg newId now a hc
    have h2 := as_run_ensure c a
    rw [hc] at h2
    have hc' : ((asCreated a c).st c).client = some ⟨Uuid.nil, none⟩ := by simp [asCreated, cCreated]
    have hx' : CInv ((asCreated a c).st c) := by
      simp only [asCreated, upd_same]; exact cinv_created _ hx hc
    have h3 := as_avReq_some S.cfg S.ensure mode c p seg newId now 1 (asCreated a c) _ hc' hx' (by simpa [asCreated] using hid)
    rw [show (3 : Nat) = 2 + 1 from rfl, avReq]
    simp only [ReqM.runC, run_of_runSt ASB mode c _ a a _ false h1, hS, run_of_runSt ASB mode c _ a _ _ true h2]
    rw [hS] at h3
    rw [h3]
    simp only [asCreated, upd_same, upd_upd, cCreated, addedId, Bool.and_self, Option.isSome_some]
    have hv : (a.st c).versions = [] := (hx.noClient hc).1
    cases hcv : (cAddVersion S.cfg { client := some ⟨Uuid.nil, none⟩, data := (a.st c).data, versions := (a.st c).versions } p seg newId now).1 <;>
      simp_all [cAddVersion]

end Tcs
