import Tcs.Generated.SqlSrc
namespace Tcs

/-- a new connection executes no statement of its own: in particular no PRAGMA, so `synchronous` stays at its default
    (FULL) and the journal mode is the persistent one set when the database was created -/
theorem sqlSrc_conn_no_pragma : SqlSrc.connStmts = [] := rfl

end Tcs
