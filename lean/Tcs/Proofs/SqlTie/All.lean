import Tcs.Proofs.SqlTie.GetClient
import Tcs.Proofs.SqlTie.GetByParent
import Tcs.Proofs.SqlTie.GetVersion
import Tcs.Proofs.SqlTie.GetSnapshotData
import Tcs.Proofs.SqlTie.Commit
import Tcs.Proofs.SqlTie.NewClient
import Tcs.Proofs.SqlTie.SetSnapshot
import Tcs.Proofs.SqlTie.AddVersion
namespace Tcs

/-! **The tie between the SQL text in the source and the table model.** `SqlGen.exec` runs the statements GENERATED
    from /repo's current `sqlite/src/lib.rs`; `Sql.exec` is the hand-written table model every theorem about the
    SQLite backend rests on. They are the same function, call by call, on every database state. -/

/-- **the SQLite table model is what the SQL in the source says**: every storage call, every state -/
theorem sqlSrc_tie (cl : Uuid) (c : Call) (s : Sql) :
    SqlGen.exec cl c (encSql s) = ((Sql.exec cl c s).1, encSql (Sql.exec cl c s).2) := by
  cases c with
  | getClient => exact sqlSrc_getClient cl s
  | newClient l => exact sqlSrc_newClient cl l s
  | setSnapshot sn d => exact sqlSrc_setSnapshot cl sn d s
  | getSnapshotData v => exact sqlSrc_getSnapshotData cl v s
  | getByParent p => exact sqlSrc_getByParent cl p s
  | getVersion v => exact sqlSrc_getVersion cl v s
  | addVersion v p seg => exact sqlSrc_addVersion cl v p seg s
  | commit => exact sqlSrc_commit cl s

end Tcs
