import Tcs.Proofs.SqlTie.Lemmas
namespace Tcs

/-! source tie of one storage call: the statement(s) GENERATED from /repo's current sqlite/src/lib.rs, run by the
    miniature-SQL semantics, are the hand-written table model `Sql.exec` for this call, on every state -/

theorem sqlSrc_addVersion (cl v p : Uuid) (seg : Bytes) (s : Sql) :
    SqlGen.exec cl (.addVersion v p seg) (encSql s) =
      ((Sql.exec cl (.addVersion v p seg) s).1, encSql (Sql.exec cl (.addVersion v p seg) s).2) := by
  have hkey : ∀ r : VersionRow, sqlEq (encV r Col.version_id) (SqlVal.id v) = decide (r.versionId = v) := by
    intro r; simp [sqlEq, encV]
  simp only [SqlGen.exec, SqlSrc.addVersion, run1, execStmt, RowDb.get, RowDb.set, encSql, List.map_cons, List.map_nil, bindP, Sql.exec,
    pkOf]
  -- the inserted row, whatever the order in which the INSERT lists its columns
  generalize hnr : newRow _ _ _ = nr
  have hnr' : nr = encV ⟨v, cl, p, seg⟩ := by
    rw [← hnr]; funext c; cases c <;> simp [newRow, lookupCol, param, encV]
  subst hnr'
  have hk : encV ⟨v, cl, p, seg⟩ Col.version_id = SqlVal.id v := rfl
  rw [hk, any_map_enc encV s.versions _ (fun r => decide (r.versionId = v)) hkey]
  cases hany : s.versions.any (fun r => decide (r.versionId = v)) with
  | true => simp [errG]
  | false =>
    simp only [Bool.false_eq_true, ↓reduceIte, List.map_append, List.map_cons, List.map_nil, List.map_map]
    congr 2
    apply List.map_congr_left
    intro r _
    simp only [Function.comp]
    have hm : rowMatches [(Col.client_id, 1)] [SqlVal.id v, SqlVal.id cl] (encC r) = decide (r.clientId = cl) := by
      simp [rowMatches, sqlEq, param, encC]
    rw [hm]
    by_cases h : r.clientId = cl
    · simp only [h, decide_true, ↓reduceIte]
      funext c
      rcases r with ⟨cid, lat, sv, since, ts, snap⟩
      cases since <;> cases c <;> simp [updRow, lookupCol, param, plusN, encC, optId, optNat, optInt, optBlob] <;> exact h
    · simp [h]

end Tcs
