import Tcs.Proofs.SqlTie.Lemmas
namespace Tcs

/-! source tie of one storage call: the statement(s) GENERATED from /repo's current sqlite/src/lib.rs, run by the
    miniature-SQL semantics, are the hand-written table model `Sql.exec` for this call, on every state -/

theorem sqlSrc_commit (cl : Uuid) (s : Sql) :
    SqlGen.exec cl .commit (encSql s) = ((Sql.exec cl .commit s).1, encSql (Sql.exec cl .commit s).2) := by
  simp [SqlGen.exec, SqlSrc.commitStmts, Sql.exec]


end Tcs
