import Tcs.Proofs.SqlTie.Lemmas
namespace Tcs

/-! source tie of one storage call: the statement(s) GENERATED from /repo's current sqlite/src/lib.rs, run by the
    miniature-SQL semantics, are the hand-written table model `Sql.exec` for this call, on every state -/

theorem sqlSrc_getByParent (cl p : Uuid) (s : Sql) :
    SqlGen.exec cl (.getByParent p) (encSql s) = ((Sql.exec cl (.getByParent p) s).1, encSql (Sql.exec cl (.getByParent p) s).2) := by
  simp only [SqlGen.exec, SqlSrc.getByParent, run1, execStmt, RowDb.get, encSql, List.map_cons, List.map_nil, bindP, Sql.exec, selCols]
  rw [find_map_enc encV s.versions _ (fun r => decide (r.parent = p ∧ r.clientId = cl)) (by
    intro r; simp [rowMatches, sqlEq, param, encV])]
  cases h : s.versions.find? (fun r => decide (r.parent = p ∧ r.clientId = cl)) with
  | none => rfl
  | some r => simp [decodeVersion, encV, asId, asBlob, VersionRow.toVersion]

end Tcs
