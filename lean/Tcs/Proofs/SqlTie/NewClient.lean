import Tcs.Proofs.SqlTie.Lemmas
namespace Tcs

/-! source tie of one storage call: the statement(s) GENERATED from /repo's current sqlite/src/lib.rs, run by the
    miniature-SQL semantics, are the hand-written table model `Sql.exec` for this call, on every state -/

theorem sqlSrc_newClient (cl l : Uuid) (s : Sql) :
    SqlGen.exec cl (.newClient l) (encSql s) = ((Sql.exec cl (.newClient l) s).1, encSql (Sql.exec cl (.newClient l) s).2) := by
  have hkey : ∀ r : ClientRow, sqlEq (encC r Col.client_id) (SqlVal.id cl) = decide (r.clientId = cl) := by
    intro r; simp [sqlEq, encC]
  simp only [SqlGen.exec, SqlSrc.newClient, run1, execStmt, RowDb.get, RowDb.set, encSql, List.map_cons, List.map_nil, bindP, Sql.exec,
    pkOf]
  generalize hnr : newRow _ _ _ = nr
  have hnr' : nr = encC { clientId := cl, latest := l } := by
    rw [← hnr]; funext c; cases c <;> simp [newRow, lookupCol, param, encC, optId, optNat, optInt, optBlob]
  subst hnr'
  have hk : encC { clientId := cl, latest := l } Col.client_id = SqlVal.id cl := rfl
  rw [hk, any_map_enc encC s.clients _ (fun r => decide (r.clientId = cl)) hkey]
  have hfilt : (s.clients.map encC).filter (fun r => !sqlEq (r Col.client_id) (SqlVal.id cl)) =
      (s.clients.filter (fun r => decide (r.clientId ≠ cl))).map encC :=
    filter_map_enc encC s.clients _ _ (by intro r; rw [hkey]; simp)
  cases hany : s.clients.any (fun r => decide (r.clientId = cl)) with
  | true => simp [hfilt]
  | false =>
    have := filter_of_not_any s.clients (fun r => decide (r.clientId = cl)) hany
    simp [this]

end Tcs
