import Tcs.Proofs.SqlTie.Lemmas
namespace Tcs

/-! source tie of one storage call: the statement(s) GENERATED from /repo's current sqlite/src/lib.rs, run by the
    miniature-SQL semantics, are the hand-written table model `Sql.exec` for this call, on every state -/

theorem sqlSrc_getClient (cl : Uuid) (s : Sql) :
    SqlGen.exec cl .getClient (encSql s) = ((Sql.exec cl .getClient s).1, encSql (Sql.exec cl .getClient s).2) := by
  simp only [SqlGen.exec, SqlSrc.getClient, run1, execStmt, RowDb.get, encSql, List.map_cons, List.map_nil, bindP, Sql.exec, selCols]
  rw [find_map_enc encC s.clients _ (fun r => decide (r.clientId = cl)) (by
    intro r; simp [rowMatches, sqlEq, param, encC])]
  cases h : s.clients.find? (fun r => decide (r.clientId = cl)) with
  | none => rfl
  | some r =>
    simp only [Option.map_some]
    rcases r with ⟨cid, lat, sv, since, ts, snap⟩
    cases sv <;> cases since <;> cases ts <;>
      simp [decodeClient, encC, asId, asOptInt, asOptId, optId, optNat, optInt]

end Tcs
