import Tcs.Model.SqlGen
namespace Tcs

/-! list lemmas shared by the per-call source ties -/

theorem find_map_enc {α} (f : α → Row) (l : List α) (p : Row → Bool) (q : α → Bool) (h : ∀ a, p (f a) = q a) :
    (l.map f).find? p = (l.find? q).map f := by
  induction l with
  | nil => rfl
  | cons a as ih =>
    simp only [List.map_cons, List.find?_cons, h a]
    cases q a <;> simp [ih]

theorem any_map_enc {α} (f : α → Row) (l : List α) (p : Row → Bool) (q : α → Bool) (h : ∀ a, p (f a) = q a) :
    (l.map f).any p = l.any q := by
  induction l with
  | nil => rfl
  | cons a as ih => simp [List.any_cons, h a, ih]

theorem filter_map_enc {α} (f : α → Row) (l : List α) (p : Row → Bool) (q : α → Bool) (h : ∀ a, p (f a) = q a) :
    (l.map f).filter p = (l.filter q).map f := by
  induction l with
  | nil => rfl
  | cons a as ih =>
    simp only [List.map_cons, List.filter_cons, h a]
    cases q a <;> simp [ih]

theorem filter_of_not_any {α} (l : List α) (p : α → Bool) (h : l.any p = false) : l.filter (fun a => !p a) = l := by
  induction l with
  | nil => rfl
  | cons a as ih =>
    simp only [List.any_cons, Bool.or_eq_false_iff] at h
    simp [List.filter_cons, h.1, ih h.2]

end Tcs
