import Tcs.Generated.SqlSrc
namespace Tcs

/-- opening a data directory sets `journal_mode=WAL`, creates the two tables and the index only if absent, with exactly
    the columns of the pinned release, and does nothing else (so reopening changes nothing: C13; and a directory written
    by the pinned release has the schema the current code expects: C19) -/
theorem sqlSrc_open_statements :
    SqlSrc.openStmts = ["PRAGMA journal_mode=WAL",
      "CREATE TABLE IF NOT EXISTS clients ( client_id STRING PRIMARY KEY, latest_version_id STRING, snapshot_version_id STRING, versions_since_snapshot INTEGER, snapshot_timestamp INTEGER, snapshot BLOB)",
      "CREATE TABLE IF NOT EXISTS versions (version_id STRING PRIMARY KEY, client_id STRING, parent_version_id STRING, history_segment BLOB)",
      "CREATE INDEX IF NOT EXISTS versions_by_parent ON versions (parent_version_id)"] := rfl

end Tcs
