import Tcs.Proofs.SqlTie.Lemmas
namespace Tcs

/-! source tie of one storage call: the statement(s) GENERATED from /repo's current sqlite/src/lib.rs, run by the
    miniature-SQL semantics, are the hand-written table model `Sql.exec` for this call, on every state -/

theorem sqlSrc_setSnapshot (cl : Uuid) (sn : Snapshot) (d : Bytes) (s : Sql) :
    SqlGen.exec cl (.setSnapshot sn d) (encSql s) =
      ((Sql.exec cl (.setSnapshot sn d) s).1, encSql (Sql.exec cl (.setSnapshot sn d) s).2) := by
  simp only [SqlGen.exec, SqlSrc.setSnapshot, run1, execStmt, RowDb.get, RowDb.set, encSql, List.map_cons, List.map_nil, bindP, Sql.exec,
    List.map_map]
  congr 2
  apply List.map_congr_left
  intro r _
  simp only [Function.comp]
  have hm : rowMatches [(Col.client_id, 4)] [SqlVal.id sn.vid, SqlVal.int sn.ts, SqlVal.int ↑sn.since, SqlVal.blob d, SqlVal.id cl] (encC r) =
      decide (r.clientId = cl) := by simp [rowMatches, sqlEq, param, encC]
  rw [hm]
  by_cases h : r.clientId = cl
  · simp only [h, decide_true, ↓reduceIte]
    funext c
    cases c <;> simp [updRow, lookupCol, param, encC, optId, optNat, optInt, optBlob] <;> exact h
  · simp [h]

end Tcs
