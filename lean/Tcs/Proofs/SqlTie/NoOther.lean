import Tcs.Generated.SqlSrc
namespace Tcs

/-- no other SQL, and no connection setting through rusqlite's API, anywhere in the crate: no `Drop` handler that ends a
    transaction (an abandoned transaction is rolled back by closing its connection), no migration, no extra PRAGMA -/
theorem sqlSrc_no_other_sql : SqlSrc.unaccounted = [] := rfl

end Tcs
