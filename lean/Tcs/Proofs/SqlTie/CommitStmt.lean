import Tcs.Generated.SqlSrc
namespace Tcs

/-- `commit` executes exactly `COMMIT` -/
theorem sqlSrc_commit_stmt : SqlSrc.commitStmts = ["COMMIT"] := rfl

end Tcs
