import Tcs.Generated.SqlSrc
namespace Tcs

/-- every transaction is opened with `BEGIN IMMEDIATE` (the write lock is taken at once: what C03's exclusion assumption is about) -/
theorem sqlSrc_begin_immediate : SqlSrc.beginStmts = ["BEGIN IMMEDIATE"] := rfl

end Tcs
