import Tcs.Proofs.SqlTie.Lemmas
namespace Tcs

/-! source tie of one storage call: the statement(s) GENERATED from /repo's current sqlite/src/lib.rs, run by the
    miniature-SQL semantics, are the hand-written table model `Sql.exec` for this call, on every state -/

theorem sqlSrc_getSnapshotData (cl v : Uuid) (s : Sql) :
    SqlGen.exec cl (.getSnapshotData v) (encSql s) =
      ((Sql.exec cl (.getSnapshotData v) s).1, encSql (Sql.exec cl (.getSnapshotData v) s).2) := by
  simp only [SqlGen.exec, SqlSrc.getSnapshotData, run1, execStmt, RowDb.get, encSql, List.map_cons, List.map_nil, bindP, Sql.exec, selCols]
  rw [find_map_enc encC s.clients _ (fun r => decide (r.clientId = cl)) (by
    intro r; simp [rowMatches, sqlEq, param, encC])]
  cases h : s.clients.find? (fun r => decide (r.clientId = cl)) with
  | none => rfl
  | some r =>
    rcases r with ⟨cid, lat, sv, since, ts, snap⟩
    cases sv <;> cases snap <;> simp [encC, asId, asBlob, optId, optBlob, errG]
    split <;> simp_all

end Tcs
