import Tcs.Spec.Abs
namespace Tcs

/-! `Sql` (the SQLite table model) is simulated by the abstract storage `AS` through `Sql.abs`,
    under the representation invariant `Sql.Rep`. One lemma per storage call. -/

/-- An UPDATE that does not touch `client_id` commutes with the lookup by `client_id`. -/
theorem find_map_upd (l : List ClientRow) (f : ClientRow → ClientRow)
    (hf : ∀ r, (f r).clientId = r.clientId) (d : Uuid) :
    (l.map f).find? (fun r => decide (r.clientId = d)) =
      (l.find? (fun r => decide (r.clientId = d))).map f := by
  induction l with
  | nil => rfl
  | cons x xs ih =>
    simp only [List.map_cons, List.find?_cons, hf]
    split
    · rfl
    · exact ih

theorem find_clientId {l : List ClientRow} {d : Uuid} {r : ClientRow}
    (h : l.find? (fun r => decide (r.clientId = d)) = some r) : r.clientId = d := by
  have := List.find?_some h
  simpa using this

/-- `UPDATE … WHERE client_id = cl`: the row of `cl` is the updated old row. -/
theorem find_upd_same (l : List ClientRow) (g : ClientRow → ClientRow)
    (hg : ∀ r, (g r).clientId = r.clientId) (cl : Uuid) :
    (l.map fun r => if r.clientId = cl then g r else r).find? (fun r => decide (r.clientId = cl)) =
      (l.find? (fun r => decide (r.clientId = cl))).map g := by
  rw [find_map_upd _ _ (by intro r; split <;> simp [hg])]
  cases hf : l.find? (fun r => decide (r.clientId = cl)) with
  | none => rfl
  | some row => simp [find_clientId hf]

/-- `UPDATE … WHERE client_id = cl`: rows of other clients are unchanged. -/
theorem find_upd_other (l : List ClientRow) (g : ClientRow → ClientRow)
    (hg : ∀ r, (g r).clientId = r.clientId) (cl d : Uuid) (hd : d ≠ cl) :
    (l.map fun r => if r.clientId = cl then g r else r).find? (fun r => decide (r.clientId = d)) =
      l.find? (fun r => decide (r.clientId = d)) := by
  rw [find_map_upd _ _ (by intro r; split <;> simp [hg])]
  cases hf : l.find? (fun r => decide (r.clientId = d)) with
  | none => rfl
  | some row => simp [find_clientId hf, hd]

theorem AS.ext' {a b : AS} (h1 : ∀ d, a.st d = b.st d) (h2 : a.ids = b.ids) : a = b := by
  cases a; cases b
  simp only [AS.mk.injEq]
  exact ⟨funext h1, h2⟩

theorem CSt.ext' {a b : CSt} (h1 : a.client = b.client) (h2 : a.data = b.data)
    (h3 : a.versions = b.versions) : a = b := by
  cases a; cases b
  simp only [CSt.mk.injEq]
  exact ⟨h1, h2, h3⟩

/-! ### Reads -/

theorem sql_getClient (cl : Uuid) (s : Sql) (r : Option Client) (a' : AS) (hrep : Sql.Rep s)
    (h : AS.exec cl .getClient (Sql.abs s) = (.ok r, a')) :
    (Sql.exec cl .getClient s).1 = .ok r ∧ Sql.abs (Sql.exec cl .getClient s).2 = a' ∧
      Sql.Rep (Sql.exec cl .getClient s).2 := by
  simp only [AS.exec, Prod.mk.injEq, Except.ok.injEq] at h
  obtain ⟨h1, h2⟩ := h
  subst h1 h2
  exact ⟨rfl, rfl, hrep⟩

theorem sql_commit (cl : Uuid) (s : Sql) (r : Unit) (a' : AS) (hrep : Sql.Rep s)
    (h : AS.exec cl .commit (Sql.abs s) = (.ok r, a')) :
    (Sql.exec cl .commit s).1 = .ok r ∧ Sql.abs (Sql.exec cl .commit s).2 = a' ∧
      Sql.Rep (Sql.exec cl .commit s).2 := by
  simp only [AS.exec, Prod.mk.injEq] at h
  obtain ⟨_, h2⟩ := h
  subst h2
  exact ⟨rfl, rfl, hrep⟩

theorem sql_getByParent (cl : Uuid) (p : Uuid) (s : Sql) (r : Option Version) (a' : AS)
    (hrep : Sql.Rep s) (h : AS.exec cl (.getByParent p) (Sql.abs s) = (.ok r, a')) :
    (Sql.exec cl (.getByParent p) s).1 = .ok r ∧ Sql.abs (Sql.exec cl (.getByParent p) s).2 = a' ∧
      Sql.Rep (Sql.exec cl (.getByParent p) s).2 := by
  simp only [AS.exec, Prod.mk.injEq, Except.ok.injEq] at h
  obtain ⟨h1, h2⟩ := h
  subst h1 h2
  refine ⟨?_, rfl, hrep⟩
  simp only [Sql.exec, Sql.abs, List.find?_map, List.find?_filter]
  congr 2
  congr 1
  funext x
  simp [VersionRow.toVersion, And.comm]

theorem sql_getVersion (cl : Uuid) (v : Uuid) (s : Sql) (r : Option Version) (a' : AS)
    (hrep : Sql.Rep s) (h : AS.exec cl (.getVersion v) (Sql.abs s) = (.ok r, a')) :
    (Sql.exec cl (.getVersion v) s).1 = .ok r ∧ Sql.abs (Sql.exec cl (.getVersion v) s).2 = a' ∧
      Sql.Rep (Sql.exec cl (.getVersion v) s).2 := by
  simp only [AS.exec, Prod.mk.injEq, Except.ok.injEq] at h
  obtain ⟨h1, h2⟩ := h
  subst h1 h2
  refine ⟨?_, rfl, hrep⟩
  simp only [Sql.exec, Sql.abs, List.find?_map, List.find?_filter]
  congr 2
  congr 1
  funext x
  simp [VersionRow.toVersion, And.comm]

theorem sql_getSnapshotData (cl : Uuid) (v : Uuid) (s : Sql) (r : Option Bytes) (a' : AS)
    (hrep : Sql.Rep s) (h : AS.exec cl (.getSnapshotData v) (Sql.abs s) = (.ok r, a')) :
    (Sql.exec cl (.getSnapshotData v) s).1 = .ok r ∧
      Sql.abs (Sql.exec cl (.getSnapshotData v) s).2 = a' ∧
      Sql.Rep (Sql.exec cl (.getSnapshotData v) s).2 := by
  simp only [AS.exec, Sql.abs] at h
  simp only [Sql.exec]
  cases hf : s.clients.find? (fun r => decide (r.clientId = cl)) with
  | none => simp [hf] at h
  | some row =>
    obtain ⟨cid, lat, sv, sn, ts, sp⟩ := row
    simp only [hf, Option.map_some, Option.bind_some, ClientRow.toClient] at h
    cases sv <;> cases sn <;> cases ts <;> cases sp <;> simp at h ⊢
    all_goals
      split at h
      · rename_i hv
        first
          | (simp at h; done)
          | (simp only [Prod.mk.injEq, Except.ok.injEq] at h
             obtain ⟨h1, h2⟩ := h
             subst h1 h2
             rw [if_pos hv]
             exact ⟨rfl, rfl, hrep⟩)
      · simp at h

/-! ### Writes -/

theorem sql_newClient (cl : Uuid) (l : Uuid) (s : Sql) (r : Unit) (a' : AS)
    (hrep : Sql.Rep s) (h : AS.exec cl (.newClient l) (Sql.abs s) = (.ok r, a')) :
    (Sql.exec cl (.newClient l) s).1 = .ok r ∧
      Sql.abs (Sql.exec cl (.newClient l) s).2 = a' ∧
      Sql.Rep (Sql.exec cl (.newClient l) s).2 := by
  simp only [AS.exec] at h
  split at h
  · simp at h
  · rename_i heq
    simp only [Prod.mk.injEq] at h
    obtain ⟨_, h2⟩ := h
    subst h2
    have hnone : s.clients.find? (fun r => decide (r.clientId = cl)) = none := by
      simpa [Sql.abs] using heq
    have hfil : s.clients.filter (fun r => decide (r.clientId ≠ cl)) = s.clients := by
      rw [List.filter_eq_self]
      intro a ha
      have := List.find?_eq_none.mp hnone a ha
      simpa using this
    simp only [Sql.exec, hfil]
    refine ⟨trivial, ?_, ?_⟩
    · apply AS.ext'
      · intro d
        by_cases hd : d = cl
        · subst hd
          apply CSt.ext' <;> simp [Sql.abs, List.find?_append, hnone, ClientRow.toClient]
        · have hd' : ¬ cl = d := fun h => hd h.symm
          apply CSt.ext' <;> simp [Sql.abs, List.find?_append, upd, hd, hd']
      · rfl
    · intro row hrow
      rcases List.mem_append.mp hrow with hrow | hrow
      · exact hrep row hrow
      · simp only [List.mem_singleton] at hrow
        subst hrow
        simp

theorem sql_setSnapshot (cl : Uuid) (sn : Snapshot) (dat : Bytes) (s : Sql) (r : Unit) (a' : AS)
    (hrep : Sql.Rep s) (h : AS.exec cl (.setSnapshot sn dat) (Sql.abs s) = (.ok r, a')) :
    (Sql.exec cl (.setSnapshot sn dat) s).1 = .ok r ∧
      Sql.abs (Sql.exec cl (.setSnapshot sn dat) s).2 = a' ∧
      Sql.Rep (Sql.exec cl (.setSnapshot sn dat) s).2 := by
  simp only [AS.exec] at h
  split at h
  · simp at h
  · rename_i c heq
    simp only [Prod.mk.injEq] at h
    obtain ⟨_, h2⟩ := h
    subst h2
    have hrow : ∃ row, s.clients.find? (fun r => decide (r.clientId = cl)) = some row ∧
        row.toClient = c := by
      simpa [Sql.abs] using heq
    obtain ⟨row, hfind, hc⟩ := hrow
    subst hc
    simp only [Sql.exec]
    have hsame := find_upd_same s.clients (fun r =>
      { r with snapVid := some sn.vid, ts := some sn.ts, since := some sn.since, snap := some dat }) (fun _ => rfl) cl
    have hother := find_upd_other s.clients (fun r =>
      { r with snapVid := some sn.vid, ts := some sn.ts, since := some sn.since, snap := some dat }) (fun _ => rfl) cl
    refine ⟨trivial, ?_, ?_⟩
    · apply AS.ext'
      · intro d
        by_cases hd : d = cl
        · subst hd
          apply CSt.ext' <;>
            simp [-List.find?_map, Sql.abs, hsame, hfind, ClientRow.toClient]
        · apply CSt.ext' <;>
            simp [-List.find?_map, Sql.abs, hother d hd, upd, hd]
      · rfl
    · intro x hx
      simp only [List.mem_map] at hx
      obtain ⟨y, hy, hxy⟩ := hx
      subst hxy
      split
      · simp
      · exact hrep y hy

theorem sql_addVersion (cl : Uuid) (v p : Uuid) (seg : Bytes) (s : Sql) (r : Unit) (a' : AS)
    (hrep : Sql.Rep s) (h : AS.exec cl (.addVersion v p seg) (Sql.abs s) = (.ok r, a')) :
    (Sql.exec cl (.addVersion v p seg) s).1 = .ok r ∧
      Sql.abs (Sql.exec cl (.addVersion v p seg) s).2 = a' ∧
      Sql.Rep (Sql.exec cl (.addVersion v p seg) s).2 := by
  simp only [AS.exec] at h
  split at h
  · simp at h
  · rename_i c heq
    split at h
    · simp at h
    · rename_i hv
      split at h
      · simp at h
      · simp only [Prod.mk.injEq] at h
        obtain ⟨_, h2⟩ := h
        subst h2
        have hrow : ∃ row, s.clients.find? (fun r => decide (r.clientId = cl)) = some row ∧
            row.toClient = c := by
          simpa [Sql.abs] using heq
        obtain ⟨row, hfind, hc⟩ := hrow
        subst hc
        have hany : s.versions.any (fun r => decide (r.versionId = v)) = false := by
          rw [Bool.eq_false_iff]
          intro hany
          rw [List.any_eq_true] at hany
          obtain ⟨x, hx, hxv⟩ := hany
          apply hv
          simp only [Sql.abs, List.mem_map]
          exact ⟨x, hx, by simpa using hxv⟩
        simp only [Sql.exec, hany]
        have hsame := find_upd_same s.clients (fun r =>
          { r with latest := v, since := r.since.map (· + 1) }) (fun _ => rfl) cl
        have hother := find_upd_other s.clients (fun r =>
          { r with latest := v, since := r.since.map (· + 1) }) (fun _ => rfl) cl
        simp only [Bool.false_eq_true, if_false]
        refine ⟨trivial, ?_, ?_⟩
        · apply AS.ext'
          · intro d
            by_cases hd : d = cl
            · subst hd
              apply CSt.ext'
              · obtain ⟨cid, lat, sv, sn, ts, sp⟩ := row
                cases sv <;> cases sn <;> cases ts <;>
                  simp [-List.find?_map, Sql.abs, hsame, hfind, ClientRow.toClient, bump]
              · simp [-List.find?_map, Sql.abs, hsame, hfind]
              · simp [Sql.abs, List.filter_append, VersionRow.toVersion]
            · have hd' : ¬ cl = d := fun h => hd h.symm
              apply CSt.ext' <;>
                simp [-List.find?_map, Sql.abs, hother d hd, upd, hd, hd', List.filter_append]
          · simp [Sql.abs]
        · intro x hx
          simp only [List.mem_map] at hx
          obtain ⟨y, hy, hxy⟩ := hx
          subst hxy
          split
          · have := hrep y hy
            simpa using this
          · exact hrep y hy

/-! ### The simulation theorem -/

theorem sqlSim : Sim SqlB Sql.abs Sql.Rep := by
  constructor
  intro cl c s r a' hrep h
  cases c with
  | getClient => exact sql_getClient cl s r a' hrep h
  | newClient l => exact sql_newClient cl l s r a' hrep h
  | setSnapshot sn d => exact sql_setSnapshot cl sn d s r a' hrep h
  | getSnapshotData v => exact sql_getSnapshotData cl v s r a' hrep h
  | getByParent p => exact sql_getByParent cl p s r a' hrep h
  | getVersion v => exact sql_getVersion cl v s r a' hrep h
  | addVersion v p seg => exact sql_addVersion cl v p seg s r a' hrep h
  | commit => exact sql_commit cl s r a' hrep h

theorem sqlRep_init : Sql.Rep ({} : Sql) := by
  intro r hr
  cases hr

theorem sqlAbs_init : Sql.abs ({} : Sql) = ({} : AS) := by
  apply AS.ext'
  · intro d
    rfl
  · rfl

end Tcs
