import Tcs.Proofs.CliSrcTie
import Tcs.Proofs.CliWire
namespace Tcs

/-! The two halves of the C17 source tie composed: from the flags and the environment to what `main` constructs, with
    both the declarations and the wiring taken from the current source. -/

/-- what the source says `main` constructs from a command line and an environment: clap's rule on the generated
    declarations, then the generated wiring -/
def mainSrc (c : Cli) : Option Wired := (resolveSpec CliSrc.args c).bind (wire CliSrc.wiring)

/-- what the model says: `resolve`, then the server configuration `httpCfgOf`, the resolved directory, every resolved
    address bound (start-up fails otherwise) -/
def mainModel (c : Cli) : Option Wired :=
  (resolve c).map fun a => { cfg := httpCfgOf a, dir := a.dataDir, listen := a.listen, bindAll := true }

/-- **C17, source side**: for every command line and environment, the source and the model construct the same server
    (or both refuse to start with a usage error) -/
theorem cliSrc_main (c : Cli) : mainSrc c = mainModel c := by
  simp only [mainSrc, mainModel, cliSrc_resolve]
  cases resolve c with
  | none => rfl
  | some a => exact cliSrc_wire a

/-- non-vacuity: whenever the model resolves a configuration – e.g. `C17_defaults`: one `--listen` and nothing else – the
    source constructs the server on exactly the resolved values -/
theorem cliSrc_main_some (c : Cli) (a : ServerArgs) (h : resolve c = some a) :
    mainSrc c = some { cfg := httpCfgOf a, dir := a.dataDir, listen := a.listen, bindAll := true } := by
  rw [cliSrc_main, mainModel, h]; rfl

/-- and a usage error of the model is a usage error of the source -/
theorem cliSrc_main_none (c : Cli) (h : resolve c = none) : mainSrc c = none := by
  rw [cliSrc_main, mainModel, h]; rfl

/-- non-vacuity: with one or more `--listen` flags and nothing else, the source serves with the default targets, on the
    default directory, with no allow-list, and binds every address given -/
example (l : List String) (hl : l ≠ []) :
    mainSrc { listenFlag := l } =
      some { cfg := { cfg := ⟨14, 100⟩, allow := none }, dir := "/var/lib/taskchampion-sync-server",
             listen := l.flatMap (·.splitOn ","), bindAll := true } := by
  rw [cliSrc_main]
  simp [mainModel, httpCfgOf, resolve, versionsOf, daysOf, allowOf, single, rawValues, hl, DEFAULT_DATA_DIR, DEFAULT_VERSIONS, DEFAULT_DAYS]

end Tcs
