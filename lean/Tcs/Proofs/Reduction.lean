import Tcs.Model.Sem.Conc
namespace Tcs
variable {σ ρ : Type}

/-! Reduction theorem (C03): every interleaved execution is matched by an execution of the
    reduced semantics in which each transaction is one atomic step, taken when the real one ends. -/

theorem ThRel.change_db {B : Backend σ} {db db' : σ} {x y : Th σ ρ}
    (h : ThRel B db x y) (hx : x.isInTxn = false) : ThRel B db' x y := by
  cases h with
  | idle p => exact .idle p
  | outside p => exact .outside p
  | finished r => exact .finished r
  | inTxn => simp [Th.isInTxn] at hx

/-- the lock part of `Red`, on its own -/
def LockInv (lock : Option Nat) (ths : List (Th σ ρ)) : Prop :=
  (∀ t, lock = some t → ∃ h : t < ths.length, (ths[t]).isInTxn = true) ∧
  (∀ i (h : i < ths.length), (ths[i]).isInTxn = true → lock = some i)

theorem LockInv.set_same {lock : Option Nat} {ths : List (Th σ ρ)} (h : LockInv lock ths)
    (t : Nat) (ht : t < ths.length) (x : Th σ ρ) (hx : x.isInTxn = (ths[t]).isInTxn) :
    LockInv lock (ths.set t x) := by
  constructor
  · intro u hu
    obtain ⟨hu', hin⟩ := h.1 u hu
    refine ⟨by simpa using hu', ?_⟩
    rw [List.getElem_set]
    split
    · next heq => subst heq; rw [hx]; exact hin
    · exact hin
  · intro i hi hin
    have hi' : i < ths.length := by simpa using hi
    rw [List.getElem_set] at hin
    split at hin
    · next heq => subst heq; rw [hx] at hin; exact h.2 _ hi' hin
    · exact h.2 _ hi' hin

theorem LockInv.set_begin {ths : List (Th σ ρ)} (h : LockInv none ths)
    (t : Nat) (ht : t < ths.length) (x : Th σ ρ) (hx : x.isInTxn = true) :
    LockInv (some t) (ths.set t x) := by
  constructor
  · intro u hu
    cases hu
    refine ⟨by simpa using ht, ?_⟩
    rw [List.getElem_set_self]; exact hx
  · intro i hi hin
    have hi' : i < ths.length := by simpa using hi
    rw [List.getElem_set] at hin
    split at hin
    · next heq => subst heq; rfl
    · exact absurd (h.2 _ hi' hin) (by simp)

theorem LockInv.set_end {lock : Option Nat} {ths : List (Th σ ρ)} (h : LockInv lock ths)
    (t : Nat) (ht : t < ths.length) (hin : (ths[t]).isInTxn = true) (x : Th σ ρ)
    (hx : x.isInTxn = false) :
    LockInv none (ths.set t x) := by
  have hl : lock = some t := h.2 t ht hin
  constructor
  · intro u hu; cases hu
  · intro i hi hin'
    have hi' : i < ths.length := by simpa using hi
    rw [List.getElem_set] at hin'
    split at hin'
    · rw [hx] at hin'; cases hin'
    · next hne =>
      have := h.2 _ hi' hin'
      rw [hl] at this
      cases this
      exact absurd rfl hne

theorem Red.lockInv {B : Backend σ} {s : Conc σ ρ} {a : Atomic σ ρ} (h : Red B s a) :
    LockInv s.lock s.threads := ⟨h.lockHolder, h.lockOnly⟩

/-- both thread lists are updated at `t` -/
theorem rel_set_both {B : Backend σ} {db' : σ} {ss as : List (Th σ ρ)} (t : Nat) (x y : Th σ ρ)
    (hxy : ThRel B db' x y)
    (hothers : ∀ i (h1 : i < ss.length) (h2 : i < as.length), i ≠ t → ThRel B db' ss[i] as[i]) :
    ∀ i (h1 : i < (ss.set t x).length) (h2 : i < (as.set t y).length),
      ThRel B db' (ss.set t x)[i] (as.set t y)[i] := by
  intro i h1 h2
  rw [List.getElem_set, List.getElem_set]
  split
  · exact hxy
  · next hne => exact hothers i (by simpa using h1) (by simpa using h2) (fun e => hne e.symm)

/-- only the interleaved thread list is updated at `t` -/
theorem rel_set_left {B : Backend σ} {db' : σ} {ss as : List (Th σ ρ)} (t : Nat) (x : Th σ ρ)
    (hxy : ∀ (h2 : t < as.length), ThRel B db' x as[t])
    (hothers : ∀ i (h1 : i < ss.length) (h2 : i < as.length), i ≠ t → ThRel B db' ss[i] as[i]) :
    ∀ i (h1 : i < (ss.set t x).length) (h2 : i < as.length),
      ThRel B db' (ss.set t x)[i] as[i] := by
  intro i h1 h2
  rw [List.getElem_set]
  split
  · next heq => subst heq; exact hxy h2
  · next hne => exact hothers i (by simpa using h1) h2 (fun e => hne e.symm)

theorem red_step (B : Backend σ) (mode : TxnMode) (s : Conc σ ρ) (a : Atomic σ ρ) (h : Red B s a)
    (t : Nat) (s' : Conc σ ρ) (hs : stepSmall B mode s t = some s') :
    Red B s' a ∨ ∃ a', stepAtomic B mode a t = some a' ∧ Red B s' a' := by
  unfold stepSmall at hs
  cases hth : s.threads[t]? with
  | none => rw [hth] at hs; simp at hs
  | some th =>
    rw [hth] at hs
    obtain ⟨ht, hget⟩ := List.getElem?_eq_some_iff.mp hth
    have hta : t < a.threads.length := h.len ▸ ht
    have hrel := h.rel t ht hta
    have hath : a.threads[t]? = some a.threads[t] := List.getElem?_eq_getElem hta
    have hlock := h.lockInv
    have hothers : ∀ i (h1 : i < s.threads.length) (h2 : i < a.threads.length), i ≠ t →
        ThRel B s.db s.threads[i] a.threads[i] := fun i h1 h2 _ => h.rel i h1 h2
    rw [hget] at hrel
    generalize hy : a.threads[t] = y at hrel hath
    cases th with
    | idle p =>
      cases hrel
      simp only [Option.some.injEq] at hs
      subst hs
      right
      refine ⟨{ a with threads := a.threads.set t (.outside p) }, ?_, ?_⟩
      · unfold stepAtomic; rw [hath]
      · have hl := hlock.set_same t ht (.outside p) (by rw [hget]; rfl)
        exact ⟨h.db, by simp [h.len], rel_set_both t _ _ (.outside p) hothers, hl.1, hl.2⟩
    | finished r => simp at hs
    | outside p =>
      cases hrel
      cases p with
      | done r =>
        simp only [Option.some.injEq] at hs
        subst hs
        right
        refine ⟨{ a with threads := a.threads.set t (.finished r) }, ?_, ?_⟩
        · unfold stepAtomic; rw [hath]
        · have hl := hlock.set_same t ht (.finished r) (by rw [hget]; rfl)
          exact ⟨h.db, by simp [h.len], rel_set_both t _ _ (.finished r) hothers, hl.1, hl.2⟩
      | txn cl body k =>
        simp only at hs
        cases hlk : s.lock with
        | some u => rw [hlk] at hs; simp at hs
        | none =>
          rw [hlk] at hs
          simp only [Option.some.injEq] at hs
          subst hs
          left
          rw [hlk] at hlock
          have hl := hlock.set_begin t ht (.inTxn cl ⟨s.db, s.db, false⟩ body k) rfl
          refine ⟨h.db, by simp [h.len], rel_set_left t _ ?_ hothers, hl.1, hl.2⟩
          intro h2
          rw [hy]
          exact .inTxn cl _ body body k rfl
    | inTxn cl st body k =>
      have hin : (s.threads[t]).isInTxn = true := by rw [hget]; rfl
      have hnot : ∀ i (h1 : i < s.threads.length), i ≠ t → (s.threads[i]).isInTxn = false := by
        intro i h1 hne
        cases hb : (s.threads[i]).isInTxn with
        | false => rfl
        | true =>
          have e1 := hlock.2 i h1 hb
          have e2 := hlock.2 t ht hin
          rw [e1] at e2
          cases e2
          exact absurd rfl hne
      cases hrel with
      | inTxn _ _ _ body0 _ heq =>
      -- the end of the transaction, with result `res` and final transaction state `fin`
      have fin_case : ∀ (res : Option _) (fin : TxnSt σ), body.runSt B cl st = (res, fin) →
          ∃ a', stepAtomic B mode a t = some a' ∧
            Red B ⟨fin.finish mode, none, s.threads.set t (.outside (k res))⟩ a' := by
        intro res fin hrun
        rw [heq] at hrun
        have hrun' : body0.run B mode cl a.db = (res, fin.finish mode) := by
          unfold TxnM.run
          rw [← h.db, hrun]
        refine ⟨⟨fin.finish mode, a.threads.set t (.outside (k res))⟩, ?_, ?_⟩
        · unfold stepAtomic; rw [hath]; simp only [hrun']
        · have hl := hlock.set_end t ht hin (.outside (k res)) rfl
          refine ⟨rfl, by simp [h.len], rel_set_both t _ _ (.outside (k res)) ?_, hl.1, hl.2⟩
          intro i h1 h2 hne
          exact (h.rel i h1 h2).change_db (hnot i h1 hne)
      cases body with
      | ret x =>
        simp only [Option.some.injEq] at hs
        subst hs
        right
        exact fin_case (some x) st rfl
      | call c k' =>
        simp only at hs
        cases hstep : stepCall B cl c st with
        | abort st' =>
          rw [hstep] at hs
          simp only [Option.some.injEq] at hs
          subst hs
          right
          exact fin_case none st' (by rw [TxnM.runSt, hstep])
        | cont r st' =>
          rw [hstep] at hs
          simp only [Option.some.injEq] at hs
          subst hs
          left
          have hl := hlock.set_same t ht (.inTxn cl st' (k' r) k) (by rw [hget]; rfl)
          refine ⟨h.db, by simp [h.len], rel_set_left t _ ?_ hothers, hl.1, hl.2⟩
          intro h2
          rw [hy]
          refine .inTxn cl _ _ body0 k ?_
          rw [← heq, TxnM.runSt, hstep]

/-- the reduced schedule only uses steps of threads the interleaved schedule used (so real-time
    order of invocation and response steps is preserved): it is a sublist -/
theorem C03_reduction_sublist (B : Backend σ) (mode : TxnMode) (s : Conc σ ρ) (a : Atomic σ ρ)
    (h : Red B s a) (sched : List Nat) :
    ∃ sched', sched'.Sublist sched ∧ Red B (runSmall B mode s sched) (runAtomic B mode a sched') := by
  induction sched generalizing s a with
  | nil => exact ⟨[], List.Sublist.slnil, h⟩
  | cons t ts ih =>
    cases hst : stepSmall B mode s t with
    | none =>
      obtain ⟨sched', hsub, hred⟩ := ih s a h
      refine ⟨sched', hsub.cons t, ?_⟩
      rw [runSmall, hst]; exact hred
    | some s' =>
      rcases red_step B mode s a h t s' hst with h' | ⟨a', ha, h'⟩
      · obtain ⟨sched', hsub, hred⟩ := ih s' a h'
        refine ⟨sched', hsub.cons t, ?_⟩
        rw [runSmall, hst]; exact hred
      · obtain ⟨sched', hsub, hred⟩ := ih s' a' h'
        refine ⟨t :: sched', hsub.cons_cons t, ?_⟩
        rw [runSmall, hst, runAtomic, ha]; exact hred

/-- every interleaved execution (any schedule, any number of threads, any programs) is matched by
    a reduced execution -/
theorem C03_reduction (B : Backend σ) (mode : TxnMode) (s : Conc σ ρ) (a : Atomic σ ρ)
    (h : Red B s a) (sched : List Nat) :
    ∃ sched', Red B (runSmall B mode s sched) (runAtomic B mode a sched') :=
  let ⟨sched', _, hred⟩ := C03_reduction_sublist B mode s a h sched
  ⟨sched', hred⟩

/-- initially (nobody invoked yet) the two are related -/
theorem red_init (B : Backend σ) (db : σ) (progs : List (ReqM ρ)) :
    Red B ⟨db, none, progs.map Th.idle⟩ ⟨db, progs.map Th.idle⟩ := by
  refine ⟨rfl, rfl, ?_, ?_, ?_⟩
  · intro i h1 h2
    simp only [List.getElem_map]
    exact .idle _
  · intro t ht; cases ht
  · intro i hi hin
    simp only [List.getElem_map, Th.isInTxn] at hin
    cases hin

/-- related states show the same responses, thread by thread -/
theorem red_resp (B : Backend σ) (s : Conc σ ρ) (a : Atomic σ ρ) (h : Red B s a) :
    s.threads.map Th.resp = a.threads.map Th.resp := by
  apply List.ext_getElem
  · simp [h.len]
  · intro i h1 h2
    simp only [List.length_map] at h1 h2
    simp only [List.getElem_map]
    have hrel := h.rel i h1 h2
    generalize s.threads[i] = x at hrel
    generalize a.threads[i] = y at hrel
    cases hrel <;> rfl

/-- ... and the same database -/
theorem red_db (B : Backend σ) (s : Conc σ ρ) (a : Atomic σ ρ) (h : Red B s a) : s.db = a.db :=
  h.db


/-- every prefix of the interleaved schedule is matched by a prefix of the reduced one (so "this
    request had been answered before that one was invoked" means the same in both) -/
theorem C03_reduction_prefix (B : Backend σ) (mode : TxnMode) (s : Conc σ ρ) (a : Atomic σ ρ)
    (h : Red B s a) (sched : List Nat) :
    ∃ sched', sched'.Sublist sched ∧ Red B (runSmall B mode s sched) (runAtomic B mode a sched') ∧
      ∀ s1 s2, sched = s1 ++ s2 →
        ∃ s1' s2', sched' = s1' ++ s2' ∧ Red B (runSmall B mode s s1) (runAtomic B mode a s1') := by
  induction sched generalizing s a with
  | nil =>
    refine ⟨[], List.Sublist.slnil, h, ?_⟩
    intro s1 s2 hs
    have : s1 = [] := by cases s1 with | nil => rfl | cons x xs => simp at hs
    subst this
    exact ⟨[], [], rfl, h⟩
  | cons t ts ih =>
    cases hst : stepSmall B mode s t with
    | none =>
      obtain ⟨sched', hsub, hred, hpre⟩ := ih s a h
      refine ⟨sched', hsub.cons t, by rw [runSmall, hst]; exact hred, ?_⟩
      intro s1 s2 hs
      cases s1 with
      | nil => exact ⟨[], sched', rfl, h⟩
      | cons x s1r =>
        simp only [List.cons_append, List.cons.injEq] at hs
        obtain ⟨rfl, hts⟩ := hs
        obtain ⟨s1', s2', h1, h2⟩ := hpre s1r s2 hts
        exact ⟨s1', s2', h1, by rw [runSmall, hst]; exact h2⟩
    | some s' =>
      rcases red_step B mode s a h t s' hst with h' | ⟨a', ha, h'⟩
      · obtain ⟨sched', hsub, hred, hpre⟩ := ih s' a h'
        refine ⟨sched', hsub.cons t, by rw [runSmall, hst]; exact hred, ?_⟩
        intro s1 s2 hs
        cases s1 with
        | nil => exact ⟨[], sched', rfl, h⟩
        | cons x s1r =>
          simp only [List.cons_append, List.cons.injEq] at hs
          obtain ⟨rfl, hts⟩ := hs
          obtain ⟨s1', s2', h1, h2⟩ := hpre s1r s2 hts
          exact ⟨s1', s2', h1, by rw [runSmall, hst]; exact h2⟩
      · obtain ⟨sched', hsub, hred, hpre⟩ := ih s' a' h'
        refine ⟨t :: sched', hsub.cons_cons t, by rw [runSmall, hst, runAtomic, ha]; exact hred, ?_⟩
        intro s1 s2 hs
        cases s1 with
        | nil => exact ⟨[], t :: sched', rfl, h⟩
        | cons x s1r =>
          simp only [List.cons_append, List.cons.injEq] at hs
          obtain ⟨rfl, hts⟩ := hs
          obtain ⟨s1', s2', h1, h2⟩ := hpre s1r s2 hts
          exact ⟨t :: s1', s2', by rw [h1]; rfl, by rw [runSmall, hst, runAtomic, ha]; exact h2⟩

end Tcs
