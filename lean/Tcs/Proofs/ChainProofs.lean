import Tcs.Spec.Chain
namespace Tcs

/-! Proofs about version chains (`Tcs/Spec/Chain.lean`). Core-only. -/

/-- well-formed chain: a path from `b`, all of `b :: ids` distinct -/
def WF (b : Uuid) (vs : List Version) : Prop := IsChain b vs ∧ (b :: vids vs).Nodup

/-! ### basic unfolding lemmas -/

@[simp] theorem vids_nil : vids [] = [] := rfl
@[simp] theorem vids_cons (v : Version) (vs : List Version) : vids (v :: vs) = v.id :: vids vs := rfl
@[simp] theorem vids_append (xs ys : List Version) : vids (xs ++ ys) = vids xs ++ vids ys := by
  simp [vids]

/-- case split from the right (core has no `List.reverseRecOn`) -/
theorem list_snoc_cases {α : Type _} (l : List α) : l = [] ∨ ∃ xs x, l = xs ++ [x] := by
  rcases List.eq_nil_or_concat l with h | ⟨xs, x, h⟩
  · exact Or.inl h
  · exact Or.inr ⟨xs, x, by simpa using h⟩

theorem mem_vids_of_mem {v : Version} {vs : List Version} (h : v ∈ vs) : v.id ∈ vids vs :=
  List.mem_map.2 ⟨v, h, rfl⟩

theorem wf_nil (b : Uuid) : WF b [] := by simp [WF, IsChain]

theorem wf_cons (b : Uuid) (x : Version) (xs : List Version) :
    WF b (x :: xs) ↔ x.parent = b ∧ b ∉ x.id :: vids xs ∧ WF x.id xs := by
  simp only [WF, IsChain, vids_cons, List.nodup_cons]
  constructor
  · rintro ⟨⟨h1, h2⟩, h3, h4, h5⟩; exact ⟨h1, h3, h2, h4, h5⟩
  · rintro ⟨h1, h3, h2, h4, h5⟩; exact ⟨⟨h1, h2⟩, h3, h4, h5⟩

/-- chains split at any point -/
theorem isChain_append_gen (b : Uuid) (pre suf : List Version) :
    IsChain b (pre ++ suf) ↔ IsChain b pre ∧ IsChain (lastId b pre) suf := by
  induction pre generalizing b with
  | nil => simp [IsChain, lastId]
  | cons x xs ih => simp only [List.cons_append, IsChain, lastId, ih, and_assoc]

theorem lastId_append_gen (b : Uuid) (pre suf : List Version) :
    lastId b (pre ++ suf) = lastId (lastId b pre) suf := by
  induction pre generalizing b with
  | nil => rfl
  | cons x xs ih => simp only [List.cons_append, lastId, ih]

theorem isChain_append (b : Uuid) (vs : List Version) (v : Version) :
    IsChain b (vs ++ [v]) ↔ IsChain b vs ∧ v.parent = lastId b vs := by
  simp [isChain_append_gen, IsChain]

theorem lastId_append (b : Uuid) (vs : List Version) (v : Version) : lastId b (vs ++ [v]) = v.id := by
  simp [lastId_append_gen, lastId]

theorem lastId_mem (b : Uuid) (vs : List Version) : lastId b vs ∈ b :: vids vs := by
  induction vs generalizing b with
  | nil => simp [lastId]
  | cons x xs ih =>
    simp only [lastId, vids_cons]
    exact List.mem_cons_of_mem _ (ih x.id)

/-- for a non-empty list the last id is one of the version ids -/
theorem lastId_mem_vids (b : Uuid) (vs : List Version) (hne : vs ≠ []) : lastId b vs ∈ vids vs := by
  cases vs with
  | nil => exact absurd rfl hne
  | cons x xs => simpa [lastId] using lastId_mem x.id xs

theorem lastId_eq_base_iff (b : Uuid) (vs : List Version) (h : WF b vs) : lastId b vs = b ↔ vs = [] := by
  constructor
  · intro he
    cases hvs : vs with
    | nil => rfl
    | cons x xs =>
      exfalso
      have hm := lastId_mem_vids b vs (by simp [hvs])
      rw [he] at hm
      exact (List.nodup_cons.1 h.2).1 hm
  · rintro rfl; rfl

theorem baseOf_chain (b : Uuid) (vs : List Version) (h : IsChain b vs) (hne : vs ≠ []) : baseOf vs = b := by
  cases vs with
  | nil => exact absurd rfl hne
  | cons x xs => exact h.1

theorem parent_mem (b : Uuid) (vs : List Version) (h : IsChain b vs) : ∀ v ∈ vs, v.parent ∈ b :: vids vs := by
  induction vs generalizing b with
  | nil => intro v hv; cases hv
  | cons x xs ih =>
    intro v hv
    rcases List.mem_cons.1 hv with rfl | hv
    · rw [h.1]; exact List.mem_cons_self
    · exact List.mem_cons_of_mem _ (ih x.id h.2 v hv)

/-! ### well-formedness is preserved by splitting / extending -/

theorem wf_prefix (b : Uuid) (pre suf : List Version) (h : WF b (pre ++ suf)) : WF b pre := by
  refine ⟨((isChain_append_gen b pre suf).1 h.1).1, ?_⟩
  have h2 := h.2
  rw [vids_append, ← List.cons_append] at h2
  exact (List.nodup_append.1 h2).1

theorem wf_suffix (b : Uuid) (pre suf : List Version) (h : WF b (pre ++ suf)) : WF (lastId b pre) suf := by
  induction pre generalizing b with
  | nil => exact h
  | cons x xs ih =>
    rw [List.cons_append, wf_cons] at h
    exact ih x.id h.2.2

/-- adding a version on the latest keeps the chain well-formed iff its id is new -/
theorem wf_append (b : Uuid) (vs : List Version) (v : Version) (h : WF b vs) (hp : v.parent = lastId b vs)
    (hid : v.id ∉ b :: vids vs) : WF b (vs ++ [v]) := by
  refine ⟨(isChain_append b vs v).2 ⟨h.1, hp⟩, ?_⟩
  rw [vids_append, ← List.cons_append, List.nodup_append]
  refine ⟨h.2, by simp [vids], ?_⟩
  intro a ha c hc
  simp only [vids_cons, vids_nil, List.mem_singleton] at hc
  subst hc
  intro hac; subst hac
  exact hid ha

/-- converse of `wf_append` (the "iff" in its doc-string) -/
theorem wf_append_inv (b : Uuid) (vs : List Version) (v : Version) (h : WF b (vs ++ [v])) :
    WF b vs ∧ v.parent = lastId b vs ∧ v.id ∉ b :: vids vs := by
  refine ⟨wf_prefix b vs [v] h, ((isChain_append b vs v).1 h.1).2, ?_⟩
  have h2 := h.2
  rw [vids_append, ← List.cons_append, List.nodup_append] at h2
  intro hm
  exact h2.2.2 _ hm v.id (by simp) rfl

/-- the first version of an empty chain: any parent different from the id -/
theorem wf_singleton (v : Version) (h : v.id ≠ v.parent) : WF v.parent [v] := by
  refine ⟨⟨rfl, trivial⟩, ?_⟩
  simp only [vids_cons, vids_nil, List.nodup_cons, List.mem_singleton, List.not_mem_nil,
    not_false_eq_true, List.nodup_nil, and_true]
  exact fun he => h he.symm

/-! ### lookup by parent -/

theorem find_parent_none_of_not_mem (b p : Uuid) (vs : List Version) (h : IsChain b vs) (hp : p ∉ b :: vids vs) :
    vs.find? (·.parent = p) = none := by
  rw [List.find?_eq_none]
  intro v hv hq
  have hq' : v.parent = p := of_decide_eq_true hq
  exact hp (hq' ▸ parent_mem b vs h v hv)

/-- lookup by parent: every version is THE child of its parent -/
theorem find_parent_of_mem (b : Uuid) (vs : List Version) (h : WF b vs) (v : Version) (hv : v ∈ vs) :
    vs.find? (·.parent = v.parent) = some v := by
  induction vs generalizing b with
  | nil => cases hv
  | cons x xs ih =>
    obtain ⟨hxb, hb, hwf⟩ := (wf_cons b x xs).1 h
    rw [List.find?_cons]
    rcases List.mem_cons.1 hv with rfl | hv'
    · simp
    · have hne : x.parent ≠ v.parent := by
        intro he
        have := parent_mem x.id xs hwf.1 v hv'
        rw [← he, hxb] at this
        exact hb this
      simp only [hne, decide_false]
      exact ih x.id hwf hv'

/-- the latest version has no child -/
theorem find_parent_last (b : Uuid) (vs : List Version) (h : WF b vs) : vs.find? (·.parent = lastId b vs) = none := by
  induction vs generalizing b with
  | nil => rfl
  | cons x xs ih =>
    obtain ⟨hxb, hb, hwf⟩ := (wf_cons b x xs).1 h
    rw [List.find?_cons]
    have hne : x.parent ≠ lastId b (x :: xs) := by
      intro he
      simp only [lastId] at he
      rw [hxb] at he
      exact hb (he ▸ lastId_mem x.id xs)
    simp only [hne, decide_false]
    exact ih x.id hwf

theorem any_parent_last (b : Uuid) (vs : List Version) (h : WF b vs) : vs.any (·.parent = lastId b vs) = false := by
  have hf := find_parent_last b vs h
  rw [List.find?_eq_none] at hf
  rw [List.any_eq_false]
  exact hf

theorem no_shared_parent (b : Uuid) (vs : List Version) (h : WF b vs) (v w : Version) (hv : v ∈ vs) (hw : w ∈ vs)
    (hp : v.parent = w.parent) : v = w := by
  have h1 := find_parent_of_mem b vs h v hv
  have h2 := find_parent_of_mem b vs h w hw
  rw [hp, h2] at h1
  exact (Option.some.inj h1).symm

/-! ### lookup by id -/

theorem find_id_of_mem_nodup (vs : List Version) (h : (vids vs).Nodup) (v : Version) (hv : v ∈ vs) :
    vs.find? (·.id = v.id) = some v := by
  induction vs with
  | nil => cases hv
  | cons x xs ih =>
    rw [vids_cons, List.nodup_cons] at h
    rw [List.find?_cons]
    rcases List.mem_cons.1 hv with rfl | hv'
    · simp
    · have hne : x.id ≠ v.id := fun he => h.1 (he ▸ mem_vids_of_mem hv')
      simp only [hne, decide_false]
      exact ih h.2 hv'

theorem find_id_of_mem (b : Uuid) (vs : List Version) (h : WF b vs) (v : Version) (hv : v ∈ vs) :
    vs.find? (·.id = v.id) = some v :=
  find_id_of_mem_nodup vs (List.nodup_cons.1 h.2).2 v hv

theorem find_id_none (vs : List Version) (i : Uuid) (h : i ∉ vids vs) : vs.find? (·.id = i) = none := by
  rw [List.find?_eq_none]
  intro v hv hq
  have hq' : v.id = i := of_decide_eq_true hq
  exact h (hq' ▸ mem_vids_of_mem hv)

/-! ### the forward walk -/

/-- walking from any member's id (or the base) returns exactly the suffix after it -/
theorem walk_from (b : Uuid) (pre suf : List Version) (h : WF b (pre ++ suf)) (n : Nat) (hn : suf.length ≤ n) :
    walk (pre ++ suf) n (lastId b pre) = suf := by
  induction suf generalizing pre n with
  | nil =>
    cases n with
    | zero => rfl
    | succ n =>
      rw [List.append_nil] at h ⊢
      simp only [walk, find_parent_last b pre h]
  | cons x xs ih =>
    cases n with
    | zero => simp at hn
    | succ n =>
      have hxp : x.parent = lastId b pre := ((isChain_append_gen b pre (x :: xs)).1 h.1).2.1
      have hfind := find_parent_of_mem b (pre ++ x :: xs) h x (by simp)
      rw [hxp] at hfind
      simp only [walk, hfind]
      congr 1
      have h' : WF b ((pre ++ [x]) ++ xs) := by simpa using h
      have := ih (pre ++ [x]) h' n (by simpa using hn)
      rw [lastId_append] at this
      simpa using this

/-- the replica walk from the base returns the whole chain, in order
    (fuel ≥ length suffices; extra fuel changes nothing) -/
theorem walk_chain (b : Uuid) (vs : List Version) (h : WF b vs) (n : Nat) (hn : vs.length ≤ n) : walk vs n b = vs := by
  simpa [lastId] using walk_from b [] vs (by simpa using h) n hn

/-! ### ancestors -/

theorem ancestors_append (b : Uuid) (vs : List Version) (v : Version) : ancestors b (vs ++ [v]) = v.id :: ancestors b vs := by
  simp [ancestors]

@[simp] theorem ancestors_nil (b : Uuid) : ancestors b [] = [b] := rfl

theorem ancestors_head (b : Uuid) (vs : List Version) : (ancestors b vs).head? = some (lastId b vs) := by
  rcases list_snoc_cases vs with rfl | ⟨xs, x, rfl⟩
  · rfl
  · rw [ancestors_append, lastId_append]; rfl

/-! ### the backward (snapshot) walk -/

@[simp] theorem scan_nil (v : Uuid) (last : Option Uuid) (fuel : Nat) : scan v last fuel [] = false := by
  cases fuel <;> rfl

/-- generalisation of `walkBack_eq_scan` to an arbitrary split point of the store -/
theorem walkBack_eq_scan_gen (b : Uuid) (pre suf : List Version) (h : WF b (pre ++ suf)) (v : Uuid)
    (last : Option Uuid) (fuel : Nat) :
    walkBack (pre ++ suf) v last fuel (lastId b pre) = scan v last fuel (ancestors b pre) := by
  induction fuel generalizing pre suf with
  | zero => cases hp : ancestors b pre <;> rfl
  | succ fuel ih =>
    rcases list_snoc_cases pre with rfl | ⟨xs, x, rfl⟩
    · have hb : b ∉ vids suf := (List.nodup_cons.1 h.2).1
      have hf := find_id_none suf b hb
      show walkBack suf v last (fuel + 1) b = scan v last (fuel + 1) [b]
      simp only [walkBack, scan, scan_nil, hf]
    · have hfind := find_id_of_mem b (xs ++ [x] ++ suf) h x (by simp)
      have hxp : x.parent = lastId b xs :=
        ((isChain_append b xs x).1 (wf_prefix b (xs ++ [x]) suf h).1).2
      have h' : WF b (xs ++ x :: suf) := by simpa using h
      have hrec := ih xs (x :: suf) h'
      rw [lastId_append, ancestors_append]
      simp only [walkBack, scan, hfind, hxp]
      rw [show xs ++ [x] ++ suf = xs ++ x :: suf by simp, hrec]

/-- the snapshot search over the store equals the scan over the ancestor list -/
theorem walkBack_eq_scan (b : Uuid) (vs : List Version) (h : WF b vs) (v : Uuid) (last : Option Uuid) (fuel : Nat) :
    walkBack vs v last fuel (lastId b vs) = scan v last fuel (ancestors b vs) := by
  simpa using walkBack_eq_scan_gen b vs [] (by simpa using h) v last fuel

/-- characterisation of the scan: accepted iff v is non-nil, is the i-th ancestor for some i < fuel, and no newer
    one is `last` (nil can only be the base, i.e. the last element, so it never blocks an earlier position) -/
theorem scan_true_iff (v : Uuid) (last : Option Uuid) (fuel : Nat) (l : List Uuid)
    (hnil : ∀ i, i + 1 < l.length → l[i]? ≠ some Uuid.nil) :
    scan v last fuel l = true ↔
      v ≠ Uuid.nil ∧ ∃ i, i < fuel ∧ l[i]? = some v ∧
        ∀ j, j < i → ∀ u, l[j]? = some u → (u ≠ v ∧ some u ≠ last) := by
  induction fuel generalizing l with
  | zero =>
    have : scan v last 0 l = false := by cases l <;> rfl
    simp [this]
  | succ fuel ih =>
    cases l with
    | nil => simp
    | cons x rest =>
      have hnil' : ∀ i, i + 1 < rest.length → rest[i]? ≠ some Uuid.nil := by
        intro i hi
        have := hnil (i + 1) (by simpa using hi)
        simpa using this
      have ih' := ih rest hnil'
      simp only [scan]
      by_cases hxv : x = v ∧ v ≠ Uuid.nil
      · -- found at the head
        have hc : (decide (x = v) && decide (v ≠ Uuid.nil)) = true := by simp [hxv.1, hxv.2]
        rw [if_pos hc]
        simp only [true_iff]
        exact ⟨hxv.2, 0, Nat.succ_pos _, by simp [hxv.1], fun j hj => absurd hj (Nat.not_lt_zero _)⟩
      · have hc : ¬ (decide (x = v) && decide (v ≠ Uuid.nil)) = true := by
          intro hd
          simp only [Bool.and_eq_true, decide_eq_true_eq] at hd
          exact hxv hd
        rw [if_neg hc]
        constructor
        · intro hs
          split at hs
          · cases hs
          · split at hs
            · cases hs
            · rename_i hlast hstop
              obtain ⟨hv, i, hi, hget, hprev⟩ := ih'.1 hs
              refine ⟨hv, i + 1, Nat.succ_lt_succ hi, by simpa using hget, ?_⟩
              intro j hj u hu
              cases j with
              | zero =>
                simp only [List.getElem?_cons_zero, Option.some.injEq] at hu
                subst hu
                exact ⟨fun he => hxv ⟨he, hv⟩, hlast⟩
              | succ j =>
                exact hprev j (Nat.lt_of_succ_lt_succ hj) u (by simpa using hu)
        · rintro ⟨hv, i, hi, hget, hprev⟩
          cases i with
          | zero =>
            simp only [List.getElem?_cons_zero, Option.some.injEq] at hget
            exact absurd ⟨hget, hv⟩ hxv
          | succ i =>
            have hget' : rest[i]? = some v := by simpa using hget
            have hlen : i < rest.length := by
              rcases List.getElem?_eq_some_iff.1 hget' with ⟨hl, _⟩; exact hl
            have h0 := hprev 0 (Nat.succ_pos _) x (by simp)
            have hxnil : x ≠ Uuid.nil := by
              have := hnil 0 (by simp only [List.length_cons]; omega)
              simpa using this
            have hfuel : fuel ≠ 0 := by omega
            rw [if_neg h0.2, if_neg (by simp [hfuel, hxnil])]
            refine ih'.2 ⟨hv, i, Nat.lt_of_succ_lt_succ hi, hget', ?_⟩
            intro j hj u hu
            exact hprev (j + 1) (Nat.succ_lt_succ hj) u (by simpa using hu)

theorem scan_mem (v : Uuid) (last : Option Uuid) (fuel : Nat) (l : List Uuid) (h : scan v last fuel l = true) :
    v ∈ l ∧ v ≠ Uuid.nil := by
  induction fuel generalizing l with
  | zero => cases l <;> cases h
  | succ fuel ih =>
    cases l with
    | nil => simp at h
    | cons x rest =>
      simp only [scan] at h
      split at h
      · rename_i hc
        simp only [Bool.and_eq_true, decide_eq_true_eq] at hc
        exact ⟨by simp [hc.1], hc.2⟩
      · split at h
        · cases h
        · split at h
          · cases h
          · obtain ⟨hm, hv⟩ := ih rest h
            exact ⟨List.mem_cons_of_mem _ hm, hv⟩

end Tcs
