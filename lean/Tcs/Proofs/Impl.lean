import Tcs.Proofs.HistProofs
import Tcs.Proofs.SimGen
import Tcs.Proofs.SqlSim
import Tcs.Proofs.MemSim
namespace Tcs

/-! A storage backend together with what ties it to the abstract storage. Property theorems are
    stated for an arbitrary `Impl` and instantiated for the two backends shipped with the server. -/

structure Impl (σ : Type) where
  B : Backend σ
  mode : TxnMode
  abs : σ → AS
  Rep : σ → Prop
  sim : Sim B abs Rep
  init : σ
  rep_init : Rep init
  abs_init : abs init = {}

def sqlImpl : Impl Sql := ⟨SqlB, .snapshotCommit, Sql.abs, Sql.Rep, sqlSim, {}, sqlRep_init, sqlAbs_init⟩

theorem memAbs_init' : Mem.abs ({} : Mem) = ({} : AS) := by
  obtain ⟨h1, h2⟩ := memAbs_init
  show (⟨(Mem.abs {}).st, (Mem.abs {}).ids⟩ : AS) = _
  rw [h1, h2]

def memImpl : Impl Mem := ⟨MemB, .inPlace, Mem.abs, Mem.Rep, memSim, {}, memRep_init, memAbs_init'⟩

/-- a concrete state that represents an abstract state satisfying the invariant -/
structure Good {σ} (I : Impl σ) (s : σ) : Prop where
  rep : I.Rep s
  inv : Inv (I.abs s)
  seen : ∃ seen, Seen (I.abs s) seen

theorem good_init {σ} (I : Impl σ) : Good I I.init :=
  ⟨I.rep_init, by rw [I.abs_init]; exact inv_init, ⟨[], by rw [I.abs_init]; exact seen_init []⟩⟩

/-- one request on a good concrete state: same answer as the specification step, abstraction commutes, no storage error -/
theorem req_good {σ} (I : Impl σ) (S : Sys) (hS : S.ensure = ensureClientFixed) (e : Ev) (s : σ) (hg : Good I s)
    (hf : ∀ n, e.drawn = some n → n ∉ (I.abs s).ids) :
    ∃ s', (e.req S).runC I.B I.mode s = ((asStep S e (I.abs s)).1, s', true) ∧ I.abs s' = (asStep S e (I.abs s)).2 ∧ I.Rep s' :=
  sim_runC I.sim I.mode (e.req S) s hg.rep _ _ (as_req S hS I.mode e (I.abs s) hg.inv hf)

/-- reads (and any request that draws no id) need no freshness -/
theorem req_good_nodraw {σ} (I : Impl σ) (S : Sys) (hS : S.ensure = ensureClientFixed) (e : Ev) (s : σ) (hg : Good I s)
    (hd : e.drawn = none) :
    ∃ s', (e.req S).runC I.B I.mode s = ((asStep S e (I.abs s)).1, s', true) ∧ I.abs s' = (asStep S e (I.abs s)).2 ∧ I.Rep s' :=
  req_good I S hS e s hg (by intro n hn; rw [hd] at hn; cases hn)

/-- a whole fresh history from a good state -/
theorem hist_good {σ} (I : Impl σ) (S : Sys) (hS : S.ensure = ensureClientFixed) (h : List Ev) (s : σ) (seen : List Uuid)
    (hrep : I.Rep s) (hinv : Inv (I.abs s)) (hseen : Seen (I.abs s) seen) (hf : Fresh h seen) :
    ∃ s', runHC I.B I.mode S h s = ((asRunH S h (I.abs s)).1, s', true) ∧ I.abs s' = (asRunH S h (I.abs s)).2 ∧ Good I s' := by
  obtain ⟨h1, h2, h3⟩ := as_runHC S hS I.mode h (I.abs s) seen hinv hseen hf
  obtain ⟨s', hs1, hs2, hs3⟩ := sim_runHC I.sim I.mode S h s hrep _ _ h1
  exact ⟨s', hs1, hs2, ⟨hs3, by rw [hs2]; exact h2, by rw [hs2]; exact h3⟩⟩

/-- from the empty database -/
theorem hist_init {σ} (I : Impl σ) (S : Sys) (hS : S.ensure = ensureClientFixed) (h : List Ev) (hf : Fresh h []) :
    ∃ s', runHC I.B I.mode S h I.init = ((asRunH S h {}).1, s', true) ∧ I.abs s' = (asRunH S h {}).2 ∧ Good I s' := by
  have := hist_good I S hS h I.init [] I.rep_init (by rw [I.abs_init]; exact inv_init) (by rw [I.abs_init]; exact seen_init []) hf
  rw [I.abs_init] at this
  exact this

end Tcs
