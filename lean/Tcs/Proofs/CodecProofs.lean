import Tcs.Model.Codec
namespace Tcs

/-! Proofs about the UUID text codec (`hyphenated` / `parseUuid`). -/

theorem hexDigits_length (n k : Nat) : (hexDigits n k).length = k := by
  induction k generalizing n with
  | zero => rfl
  | succ k ih => simp [hexDigits, ih]

theorem hexVal_hexDigit_fin : ∀ d : Fin 16, hexVal (hexDigit d.val) = some d.val := by decide

theorem hexVal_hexDigit (d : Nat) (h : d < 16) : hexVal (hexDigit d) = some d :=
  hexVal_hexDigit_fin ⟨d, h⟩

theorem hexDigit_lower_fin : ∀ d : Fin 16,
    (48 ≤ hexDigit d.val ∧ hexDigit d.val ≤ 57) ∨ (97 ≤ hexDigit d.val ∧ hexDigit d.val ≤ 102) := by
  decide

theorem hexDigits_mem (n k : Nat) : ∀ b ∈ hexDigits n k, ∃ d, d < 16 ∧ b = hexDigit d := by
  induction k generalizing n with
  | zero => intro b hb; simp [hexDigits] at hb
  | succ k ih =>
    intro b hb
    simp only [hexDigits, List.mem_append, List.mem_singleton] at hb
    rcases hb with hb | hb
    · exact ih _ b hb
    · exact ⟨n % 16, Nat.mod_lt _ (by omega), hb⟩

theorem parseHex_append (a b : List UInt8) (acc : Nat) :
    parseHex (a ++ b) acc = (parseHex a acc).bind (parseHex b) := by
  induction a generalizing acc with
  | nil => simp [parseHex]
  | cons x xs ih =>
    simp only [List.cons_append, parseHex]
    cases hexVal x with
    | none => simp
    | some d => simp [ih]

theorem parseHex_hexDigits (n k acc : Nat) :
    parseHex (hexDigits n k) acc = some (acc * 16 ^ k + n % 16 ^ k) := by
  induction k generalizing n acc with
  | zero => simp [hexDigits, parseHex, Nat.mod_one]
  | succ k ih =>
    simp only [hexDigits, parseHex_append, ih, Option.bind_some, parseHex,
      hexVal_hexDigit (n % 16) (Nat.mod_lt _ (by omega))]
    congr 1
    have h1 : (16 : Nat) ^ (k + 1) = 16 * 16 ^ k := by rw [Nat.pow_succ, Nat.mul_comm]
    rw [h1, Nat.mod_mul, Nat.mul_left_comm acc 16 (16 ^ k)]
    generalize acc * 16 ^ k = r
    generalize n / 16 % 16 ^ k = q
    omega

/-- the 8-4-4-4-12 layout: the five groups and the four hyphens sit where `parseHyphenated` looks -/
theorem layout (a b c e f : List UInt8) (ha : a.length = 8) (hb : b.length = 4)
    (hc : c.length = 4) (he : e.length = 4) :
    let s := a ++ [45] ++ b ++ [45] ++ c ++ [45] ++ e ++ [45] ++ f
    s.take 8 = a ∧ (s.drop 9).take 4 = b ∧ (s.drop 14).take 4 = c ∧ (s.drop 19).take 4 = e ∧
      s.drop 24 = f ∧ s[8]? = some 45 ∧ s[13]? = some 45 ∧ s[18]? = some 45 ∧ s[23]? = some 45 := by
  intro s
  have da : ∀ k, 8 ≤ k → a.drop k = [] := fun k h => List.drop_eq_nil_of_le (by omega)
  have db : ∀ k, 4 ≤ k → b.drop k = [] := fun k h => List.drop_eq_nil_of_le (by omega)
  have dc : ∀ k, 4 ≤ k → c.drop k = [] := fun k h => List.drop_eq_nil_of_le (by omega)
  have de : ∀ k, 4 ≤ k → e.drop k = [] := fun k h => List.drop_eq_nil_of_le (by omega)
  simp [s, List.drop_append, List.getElem?_append, ha, hb, hc, he, da, db, dc, de]

theorem split5 (d : List UInt8) :
    d.take 8 ++ (d.drop 8).take 4 ++ (d.drop 12).take 4 ++ (d.drop 16).take 4 ++ d.drop 20 = d := by
  conv => rhs; rw [← List.take_append_drop 8 d, ← List.take_append_drop 4 (d.drop 8),
    ← List.take_append_drop 4 (List.drop 4 (d.drop 8)),
    ← List.take_append_drop 4 (List.drop 4 (List.drop 4 (d.drop 8)))]
  simp [List.drop_drop]

/-- the digit string behind `hyphenated u` -/
def digitsOf (u : Uuid) : List UInt8 := hexDigits (u.val % 2 ^ 128) 32

theorem digitsOf_length (u : Uuid) : (digitsOf u).length = 32 := hexDigits_length _ _

theorem hyphenated_eq (u : Uuid) :
    hyphenated u = (digitsOf u).take 8 ++ [45] ++ ((digitsOf u).drop 8).take 4 ++ [45]
      ++ ((digitsOf u).drop 12).take 4 ++ [45] ++ ((digitsOf u).drop 16).take 4 ++ [45]
      ++ (digitsOf u).drop 20 := rfl

theorem hyphenated_layout (u : Uuid) :
    let d := digitsOf u
    let s := hyphenated u
    s.take 8 = d.take 8 ∧ (s.drop 9).take 4 = (d.drop 8).take 4 ∧
      (s.drop 14).take 4 = (d.drop 12).take 4 ∧ (s.drop 19).take 4 = (d.drop 16).take 4 ∧
      s.drop 24 = d.drop 20 ∧
      s[8]? = some 45 ∧ s[13]? = some 45 ∧ s[18]? = some 45 ∧ s[23]? = some 45 := by
  have hd := digitsOf_length u
  exact layout ((digitsOf u).take 8) (((digitsOf u).drop 8).take 4) (((digitsOf u).drop 12).take 4)
    (((digitsOf u).drop 16).take 4) ((digitsOf u).drop 20) (by simp [hd]) (by simp [hd]) (by simp [hd]) (by simp [hd])

/-- the text form is 36 bytes with hyphens at 8, 13, 18, 23 -/
theorem hyphenated_length (u : Uuid) : (hyphenated u).length = 36 := by
  have hd := digitsOf_length u
  simp [hyphenated_eq, hd]

theorem hyphenated_hyphens (u : Uuid) :
    (hyphenated u)[8]? = some 45 ∧ (hyphenated u)[13]? = some 45 ∧
      (hyphenated u)[18]? = some 45 ∧ (hyphenated u)[23]? = some 45 :=
  (hyphenated_layout u).2.2.2.2.2

/-- every other byte is a lower-case hex digit -/
theorem hyphenated_lower (u : Uuid) :
    ∀ b ∈ hyphenated u, b = 45 ∨ (48 ≤ b ∧ b ≤ 57) ∨ (97 ≤ b ∧ b ≤ 102) := by
  intro b hb
  have key : ∀ b ∈ digitsOf u, (48 ≤ b ∧ b ≤ 57) ∨ (97 ≤ b ∧ b ≤ 102) := by
    intro b hb
    obtain ⟨d, hd, rfl⟩ := hexDigits_mem _ _ b hb
    exact hexDigit_lower_fin ⟨d, hd⟩
  simp only [hyphenated_eq, List.mem_append, List.mem_singleton] at hb
  rcases hb with ((((((((hb | hb) | hb) | hb) | hb) | hb) | hb) | hb) | hb)
  · exact Or.inr (key b (List.mem_of_mem_take hb))
  · exact Or.inl hb
  · exact Or.inr (key b (List.mem_of_mem_drop (List.mem_of_mem_take hb)))
  · exact Or.inl hb
  · exact Or.inr (key b (List.mem_of_mem_drop (List.mem_of_mem_take hb)))
  · exact Or.inl hb
  · exact Or.inr (key b (List.mem_of_mem_drop (List.mem_of_mem_take hb)))
  · exact Or.inl hb
  · exact Or.inr (key b (List.mem_of_mem_drop hb))

theorem pow_16_32 : (16 : Nat) ^ 32 = 2 ^ 128 := by decide

theorem parseSimple_digitsOf (u : Uuid) (h : u.val < 2 ^ 128) : parseSimple (digitsOf u) = some u := by
  unfold parseSimple
  rw [if_pos (digitsOf_length u)]
  unfold digitsOf
  rw [parseHex_hexDigits, pow_16_32, Nat.mod_mod, Nat.mod_eq_of_lt h]
  simp

theorem parseHyphenated_hyphenated (u : Uuid) (h : u.val < 2 ^ 128) :
    parseHyphenated (hyphenated u) = some u := by
  obtain ⟨h1, h2, h3, h4, h5, h6, h7, h8, h9⟩ := hyphenated_layout u
  unfold parseHyphenated
  rw [if_pos ⟨hyphenated_length u, h6, h7, h8, h9⟩, h1, h2, h3, h4, h5, split5]
  exact parseSimple_digitsOf u h

/-- round trip, for all 2^128 ids -/
theorem parse_hyphenated (u : Uuid) (h : u.val < 2 ^ 128) : parseUuid (hyphenated u) = some u := by
  unfold parseUuid
  rw [hyphenated_length]
  exact parseHyphenated_hyphenated u h

/-- the text form is injective on well-formed ids (corollary) -/
theorem hyphenated_inj (u v : Uuid) (hu : u.val < 2 ^ 128) (hv : v.val < 2 ^ 128)
    (h : hyphenated u = hyphenated v) : u = v := by
  have h1 := parse_hyphenated u hu
  rw [h, parse_hyphenated v hv] at h1
  exact (Option.some.inj h1).symm

theorem parseHex_lt (l : List UInt8) (acc n : Nat) (h : parseHex l acc = some n) :
    n < (acc + 1) * 16 ^ l.length := by
  induction l generalizing acc with
  | nil =>
    simp only [parseHex, Option.some.injEq] at h
    simp; omega
  | cons x xs ih =>
    simp only [parseHex] at h
    cases hx : hexVal x with
    | none => simp [hx] at h
    | some d =>
      rw [hx] at h
      have hd : d < 16 := by
        unfold hexVal at hx
        split at hx
        · rename_i h1; cases hx
          have : x.toNat ≤ 57 := UInt8.le_iff_toNat_le.mp h1.2
          omega
        · split at hx
          · rename_i h2; cases hx
            have : x.toNat ≤ 102 := UInt8.le_iff_toNat_le.mp h2.2
            omega
          · split at hx
            · rename_i h3; cases hx
              have : x.toNat ≤ 70 := UInt8.le_iff_toNat_le.mp h3.2
              omega
            · cases hx
      have := ih _ h
      calc n < (acc * 16 + d + 1) * 16 ^ xs.length := this
        _ ≤ ((acc + 1) * 16) * 16 ^ xs.length := Nat.mul_le_mul_right _ (by omega)
        _ = (acc + 1) * 16 ^ (x :: xs).length := by
          rw [List.length_cons, Nat.pow_succ, Nat.mul_assoc, Nat.mul_comm 16]

theorem parseSimple_lt (s : List UInt8) (u : Uuid) (h : parseSimple s = some u) : u.val < 2 ^ 128 := by
  unfold parseSimple at h
  split at h
  · rename_i hl
    cases hp : parseHex s 0 with
    | none => simp [hp] at h
    | some n =>
      have := parseHex_lt s 0 n hp
      rw [hl, pow_16_32] at this
      simp [hp] at h
      subst h
      simpa using this
  · cases h

theorem parseHyphenated_lt (s : List UInt8) (u : Uuid) (h : parseHyphenated s = some u) :
    u.val < 2 ^ 128 := by
  unfold parseHyphenated at h
  split at h
  · exact parseSimple_lt _ u h
  · cases h

/-- a parsed id is always < 2^128 -/
theorem parseUuid_lt (s : List UInt8) (u : Uuid) (h : parseUuid s = some u) : u.val < 2 ^ 128 := by
  unfold parseUuid at h
  split at h
  · exact parseSimple_lt _ u h
  · exact parseHyphenated_lt _ u h
  · split at h
    · exact parseHyphenated_lt _ u h
    · cases h
  · split at h
    · exact parseHyphenated_lt _ u h
    · cases h
  · cases h

end Tcs
