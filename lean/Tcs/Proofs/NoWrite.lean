import Tcs.Model.Seq
import Tcs.Model.History
namespace Tcs

/-! Table level: a transaction that returns a non-mutating outcome has executed only read calls, and
    read calls leave the backend's concrete state (tables / maps) exactly as it was. Purely
    syntactic: no invariant, no reachability, any state. -/

variable {σ : Type}

def Call.isRead : Call → Bool
  | .getClient | .getSnapshotData _ | .getByParent _ | .getVersion _ => true
  | _ => false

/-- read calls do not change the backend state -/
def ReadsPure (B : Backend σ) : Prop := ∀ (cl : Uuid) (c : Call) (s : σ), c.isRead = true → (B.exec cl c s).2 = s

theorem readsPure_sql : ReadsPure SqlB := by
  intro cl c s hc
  cases c <;> simp [Call.isRead] at hc <;> simp only [SqlB, Sql.exec]
  · split <;> (try split) <;> (try split) <;> rfl

theorem readsPure_mem : ReadsPure MemB := by
  intro cl c s hc
  cases c <;> simp [Call.isRead] at hc <;> simp only [MemB, Mem.exec]
  · split <;> (try split) <;> rfl
  · split <;> rfl

/-- values a program can return (syntactically) -/
inductive Returns {α : Type} : TxnM α → α → Prop
  | ret (a : α) : Returns (.ret a) a
  | call (c : Call) (k : c.Resp → TxnM α) (r : c.Resp) (a : α) (h : Returns (k r) a) : Returns (.call c k) a

/-- every path of the program consists of read calls only, until possibly a first other call after which only values
    satisfying `P` can be returned -/
inductive ReadOnlyUnless {α : Type} (P : α → Prop) : TxnM α → Prop
  | ret (a : α) : ReadOnlyUnless P (.ret a)
  | read (c : Call) (k : c.Resp → TxnM α) (hc : c.isRead = true) (h : ∀ r, ReadOnlyUnless P (k r)) : ReadOnlyUnless P (.call c k)
  | other (c : Call) (k : c.Resp → TxnM α) (h : ∀ r a, Returns (k r) a → P a) : ReadOnlyUnless P (.call c k)

theorem returns_of_runSt {α : Type} (B : Backend σ) (cl : Uuid) (p : TxnM α) (st st' : TxnSt σ) (a : α)
    (h : p.runSt B cl st = (some a, st')) : Returns p a := by
  induction p generalizing st with
  | ret x => simp only [TxnM.runSt, Prod.mk.injEq, Option.some.injEq] at h; rw [← h.1]; exact .ret x
  | call c k ih =>
    simp only [TxnM.runSt] at h
    split at h
    · cases h
    · next r st1 _ => exact .call c k r a (ih r st1 h)

theorem stepCall_read (B : Backend σ) (hB : ReadsPure B) (cl : Uuid) (c : Call) (hc : c.isRead = true) (st : TxnSt σ) :
    stepCall B cl c st = match (B.exec cl c st.working).1 with | .error _ => .abort st | .ok r => .cont r st := by
  have hw := hB cl c st.working hc
  cases c <;> simp [Call.isRead] at hc <;>
  · unfold stepCall
    simp only [hw]
    cases (B.exec cl _ st.working).1 <;> rfl

/-- a program that returned a value outside `P` has not changed the state -/
theorem runSt_readOnly {α : Type} (B : Backend σ) (hB : ReadsPure B) (cl : Uuid) (P : α → Prop) (p : TxnM α)
    (hp : ReadOnlyUnless P p) (st st' : TxnSt σ) (a : α) (h : p.runSt B cl st = (some a, st')) (ha : ¬ P a) : st' = st := by
  induction hp generalizing st with
  | ret x => simp only [TxnM.runSt, Prod.mk.injEq] at h; exact h.2.symm
  | read c k hc _ ih =>
    simp only [TxnM.runSt, stepCall_read B hB cl c hc st] at h
    cases hx : (B.exec cl c st.working).1 with
    | error e => simp [hx] at h
    | ok r => simp only [hx] at h; exact ih r st h
  | other c k hk =>
    exfalso
    simp only [TxnM.runSt] at h
    split at h
    · cases h
    · next r st1 _ => exact ha (hk r a (returns_of_runSt B cl (k r) st1 st' a h))

theorem run_readOnly {α : Type} (B : Backend σ) (hB : ReadsPure B) (mode : TxnMode) (cl : Uuid) (P : α → Prop) (p : TxnM α)
    (hp : ReadOnlyUnless P p) (s s' : σ) (a : α) (h : p.run B mode cl s = (some a, s')) (ha : ¬ P a) : s' = s := by
  unfold TxnM.run at h
  generalize hq : p.runSt B cl ⟨s, s, false⟩ = q at h
  obtain ⟨r, st1⟩ := q
  simp only [Prod.mk.injEq] at h
  obtain ⟨h1, h2⟩ := h
  subst h1
  have := runSt_readOnly B hB cl P p hp ⟨s, s, false⟩ st1 a hq ha
  subst this
  rw [← h2]; cases mode <;> rfl

theorem rou_bind {α β : Type} (P : β → Prop) (p : TxnM α) (f : α → TxnM β)
    (hp : ReadOnlyUnless (fun _ => False) p) (hf : ∀ a, ReadOnlyUnless P (f a)) : ReadOnlyUnless P (p.bind f) := by
  induction hp with
  | ret a => exact hf a
  | read c k hc _ ih => exact .read c _ hc ih
  | other c k hk =>
    refine .other c _ ?_
    intro r b hb
    exfalso
    -- a value returned by `(k r).bind f` comes from a value returned by `k r`
    have : ∀ (q : TxnM α), Returns (q.bind f) b → ∃ a, Returns q a := by
      intro q
      induction q with
      | ret a => intro _; exact ⟨a, .ret a⟩
      | call c' k' ih' =>
        intro h
        cases h with
        | call _ _ r' _ h' => obtain ⟨a, ha⟩ := ih' r' h'; exact ⟨a, .call c' k' r' a ha⟩
    obtain ⟨a, ha⟩ := this (k r) hb
    exact hk r a ha

/-! ### the four protocol operations -/

theorem rou_getChildVersion (p : Uuid) : ReadOnlyUnless (fun _ => False) (getChildVersion p) := by
  unfold getChildVersion
  refine .read .getClient _ rfl ?_
  intro r
  cases r with
  | none => exact .ret _
  | some client =>
    refine .read (.getByParent p) _ rfl ?_
    intro r2
    cases r2 with
    | some v => exact .ret _
    | none => show ReadOnlyUnless _ (if _ then _ else _); split <;> exact .ret _

theorem rou_getSnapshot : ReadOnlyUnless (fun _ => False) getSnapshot := by
  unfold getSnapshot
  refine .read .getClient _ rfl ?_
  intro r
  cases r with
  | none => exact .ret _
  | some client =>
    show ReadOnlyUnless _ (match client.snap with | none => _ | some s => _)
    cases client.snap with
    | none => exact .ret _
    | some s =>
      refine .read (.getSnapshotData s.vid) _ rfl ?_
      intro r2
      cases r2 <;> exact .ret _

theorem rou_addVersion (cfg : Config) (p : Uuid) (seg : Bytes) (newId : Uuid) (now : Int) :
    ReadOnlyUnless (fun a => ∃ v u, a = .ok (.ok v, u)) (addVersion cfg p seg newId now) := by
  unfold addVersion
  refine .read .getClient _ rfl ?_
  intro r
  cases r with
  | none => exact .ret _
  | some client =>
    show ReadOnlyUnless _ (if _ then _ else _)
    split
    · exact .ret _
    · refine .other _ _ ?_
      intro r a h
      cases h with
      | call _ _ r2 _ h2 => cases h2; exact ⟨_, _, rfl⟩

theorem rou_snapWalk (v : Uuid) (last : Option Uuid) (fuel : Nat) (vid : Uuid) :
    ReadOnlyUnless (fun _ => False) (snapWalk v last fuel vid) := by
  induction fuel generalizing vid with
  | zero => exact .ret _
  | succ n ih =>
    unfold snapWalk
    show ReadOnlyUnless _ (if _ then _ else _)
    split
    · exact .ret _
    · split
      · exact .ret _
      · split
        · exact .ret _
        · refine .read (.getVersion vid) _ rfl ?_
          intro r
          cases r with
          | none => exact .ret _
          | some ver => exact ih ver.parent

theorem rou_addSnapshot (P : Params) (v : Uuid) (data : Bytes) (now : Int) :
    ReadOnlyUnless (fun a => a = .ok true) (addSnapshot P v data now) := by
  unfold addSnapshot
  refine .read .getClient _ rfl ?_
  intro r
  cases r with
  | none => exact .ret _
  | some client =>
    show ReadOnlyUnless _ (if _ then _ else _)
    split
    · exact .ret _
    · refine rou_bind _ _ _ (rou_snapWalk v _ P.searchLen client.latest) ?_
      intro b
      cases b with
      | false => exact .ret _
      | true =>
        refine .other _ _ ?_
        intro r a h
        cases h with
        | call _ _ r2 _ h2 => cases h2; rfl

end Tcs
