import Tcs.Spec.CStep
namespace Tcs

/-! The transaction programs of `Server.lean`, run on the abstract storage, compute `cstep`. -/

@[simp] theorem runSt_ret {σ α} (B : Backend σ) (cl : Uuid) (a : α) (st : TxnSt σ) :
    (TxnM.ret a).runSt B cl st = (some a, st) := rfl

theorem runSt_call_cont {σ α} (B : Backend σ) (cl : Uuid) (c : Call) (k : c.Resp → TxnM α) (st st' : TxnSt σ) (r : c.Resp)
    (h : stepCall B cl c st = .cont r st') : (TxnM.call c k).runSt B cl st = (k r).runSt B cl st' := by
  rw [TxnM.runSt, h]

theorem runSt_call_abort {σ α} (B : Backend σ) (cl : Uuid) (c : Call) (k : c.Resp → TxnM α) (st st' : TxnSt σ)
    (h : stepCall B cl c st = .abort st') : (TxnM.call c k).runSt B cl st = (none, st') := by
  rw [TxnM.runSt, h]

/-- a successful non-commit call on the abstract storage -/
theorem as_step_ok (cl : Uuid) (c : Call) (st : TxnSt AS) (r : c.Resp) (w' : AS)
    (h : AS.exec cl c st.working = (.ok r, w')) (hc : c ≠ .commit) :
    stepCall ASB cl c st = .cont r { st with working := w' } := by
  unfold stepCall
  simp only [ASB, h]
  cases c <;> simp_all

theorem as_step_commit (cl : Uuid) (st : TxnSt AS) :
    stepCall ASB cl .commit st = .cont () { durable := st.working, working := st.working, committed := true } := by
  unfold stepCall
  simp [ASB, AS.exec]


/-- a read (state-preserving successful call) -/
theorem as_read (cl : Uuid) (c : Call) (a : AS) (d : AS) (cm : Bool) (r : c.Resp) {α} (k : c.Resp → TxnM α)
    (h : AS.exec cl c a = (.ok r, a)) (hc : c ≠ .commit) :
    (TxnM.call c k).runSt ASB cl ⟨d, a, cm⟩ = (k r).runSt ASB cl ⟨d, a, cm⟩ :=
  runSt_call_cont ASB cl c k _ _ r (as_step_ok cl c ⟨d, a, cm⟩ r a h hc)

theorem as_getClient (cl : Uuid) (a d : AS) (cm : Bool) {α} (k : Option Client → TxnM α) :
    (TxnM.call .getClient k).runSt ASB cl ⟨d, a, cm⟩ = (k (a.st cl).client).runSt ASB cl ⟨d, a, cm⟩ :=
  as_read cl .getClient a d cm _ k rfl (by simp)

theorem as_getByParent (cl p : Uuid) (a d : AS) (cm : Bool) {α} (k : Option Version → TxnM α) :
    (TxnM.call (.getByParent p) k).runSt ASB cl ⟨d, a, cm⟩ = (k ((a.st cl).versions.find? (·.parent = p))).runSt ASB cl ⟨d, a, cm⟩ :=
  as_read cl (.getByParent p) a d cm _ k rfl (by simp)

theorem as_getVersion (cl v : Uuid) (a d : AS) (cm : Bool) {α} (k : Option Version → TxnM α) :
    (TxnM.call (.getVersion v) k).runSt ASB cl ⟨d, a, cm⟩ = (k ((a.st cl).versions.find? (·.id = v))).runSt ASB cl ⟨d, a, cm⟩ :=
  as_read cl (.getVersion v) a d cm _ k rfl (by simp)

theorem as_commit (cl : Uuid) (a d : AS) (cm : Bool) {α} (k : Unit → TxnM α) :
    (TxnM.call .commit k).runSt ASB cl ⟨d, a, cm⟩ = (k ()).runSt ASB cl ⟨a, a, true⟩ :=
  runSt_call_cont ASB cl .commit k _ _ () (as_step_commit cl ⟨d, a, cm⟩)

/-- `getChildVersion` on the abstract storage -/
theorem as_run_getChild (cl p : Uuid) (a : AS) :
    (getChildVersion p).runSt ASB cl ⟨a, a, false⟩ =
      (some (match (a.st cl).client with
             | none => .error .noSuchClient
             | some c => match (a.st cl).versions.find? (·.parent = p) with
               | some v => .ok (.found v)
               | none => if c.latest = p || c.latest = Uuid.nil then .ok .notFound else .ok .gone), ⟨a, a, false⟩) := by
  simp only [getChildVersion, call, bind, TxnM.bind, pure]
  rw [as_getClient]
  cases (a.st cl).client with
  | none => rfl
  | some c =>
    rw [as_getByParent]
    cases (a.st cl).versions.find? (·.parent = p) with
    | none => simp only []; split <;> rfl
    | some v => rfl

/-- the abstract storage after an accepted version -/
def cAdded (x : CSt) (c : Client) (newId p : Uuid) (seg : Bytes) : CSt :=
  { client := some ⟨newId, c.snap.map bump⟩, data := x.data, versions := x.versions ++ [⟨newId, p, seg⟩] }

def asAdded (a : AS) (cl : Uuid) (c : Client) (newId p : Uuid) (seg : Bytes) : AS :=
  ⟨upd a.st cl (cAdded (a.st cl) c newId p seg), a.ids ++ [newId]⟩

theorem as_run_addVersion_nsc (cfg : Config) (cl p : Uuid) (seg : Bytes) (newId : Uuid) (now : Int) (a : AS)
    (hc : (a.st cl).client = none) :
    (addVersion cfg p seg newId now).runSt ASB cl ⟨a, a, false⟩ = (some (.error .noSuchClient), ⟨a, a, false⟩) := by
  simp only [addVersion, call, bind, TxnM.bind, pure]
  rw [as_getClient, hc]; rfl

theorem as_run_addVersion_conflict (cfg : Config) (cl p : Uuid) (seg : Bytes) (newId : Uuid) (now : Int) (a : AS) (c : Client)
    (hc : (a.st cl).client = some c) (h : c.latest ≠ Uuid.nil ∧ p ≠ c.latest) :
    (addVersion cfg p seg newId now).runSt ASB cl ⟨a, a, false⟩ = (some (.ok (.expected c.latest, .none)), ⟨a, a, false⟩) := by
  simp only [addVersion, call, bind, TxnM.bind, pure]
  rw [as_getClient, hc]
  simp [h.1, h.2, TxnM.bind]

theorem as_run_addVersion_ok (cfg : Config) (cl p : Uuid) (seg : Bytes) (newId : Uuid) (now : Int) (a : AS) (c : Client)
    (hc : (a.st cl).client = some c) (h : ¬ (c.latest ≠ Uuid.nil ∧ p ≠ c.latest))
    (hid : newId ∉ a.ids) (hch : (a.st cl).versions.any (·.parent = p) = false) :
    (addVersion cfg p seg newId now).runSt ASB cl ⟨a, a, false⟩ =
      (some (.ok (.ok newId, urgency cfg now c.snap)), ⟨asAdded a cl c newId p seg, asAdded a cl c newId p seg, true⟩) := by
  simp only [addVersion, call, bind, TxnM.bind, pure]
  rw [as_getClient, hc]
  have h' : (c.latest ≠ Uuid.nil && p ≠ c.latest) = false := by
    by_cases h1 : c.latest = Uuid.nil
    · simp [h1]
    · by_cases h2 : p = c.latest
      · simp [h2]
      · exact absurd ⟨h1, h2⟩ h
  simp only [h', Bool.false_eq_true, ↓reduceIte, TxnM.bind]
  have hex : AS.exec cl (.addVersion newId p seg) a = (.ok (), asAdded a cl c newId p seg) := by
    simp [AS.exec, hc, hid, hch, asAdded, cAdded]
  rw [runSt_call_cont ASB cl (.addVersion newId p seg) _ _ _ () (as_step_ok cl (.addVersion newId p seg) ⟨a, a, false⟩ () _ hex (by simp))]
  rw [as_commit]
  rfl

/-- the snapshot search, followed by any continuation, reads the store like `walkBack` -/
theorem as_snapWalk (cl v : Uuid) (last : Option Uuid) (a d : AS) (cm : Bool) {β} (f : Bool → TxnM β) (fuel : Nat) (vid : Uuid) :
    ((snapWalk v last fuel vid).bind f).runSt ASB cl ⟨d, a, cm⟩ =
      (f (walkBack (a.st cl).versions v last fuel vid)).runSt ASB cl ⟨d, a, cm⟩ := by
  induction fuel generalizing vid with
  | zero => simp [snapWalk, walkBack, TxnM.bind, pure]
  | succ n ih =>
    simp only [snapWalk, walkBack, call, bind, pure]
    by_cases h1 : (vid = v && v ≠ Uuid.nil) = true
    · simp only [h1, ↓reduceIte, TxnM.bind]
    · simp only [h1, Bool.false_eq_true, ↓reduceIte]
      by_cases h2 : some vid = last
      · simp only [h2, ↓reduceIte, TxnM.bind]
      · simp only [h2, ↓reduceIte]
        by_cases h3 : (n = 0 || vid = Uuid.nil) = true
        · simp only [h3, ↓reduceIte, TxnM.bind]
        · simp only [h3, Bool.false_eq_true, ↓reduceIte, TxnM.bind]
          rw [as_getVersion]
          cases (a.st cl).versions.find? (·.id = vid) with
          | none => simp only [TxnM.bind]
          | some ver => exact ih ver.parent

/-- the abstract storage after an accepted snapshot -/
def cSnapped (x : CSt) (c : Client) (v : Uuid) (now : Int) (data : Bytes) : CSt :=
  { client := some { c with snap := some ⟨v, now, 0⟩ }, data := some data, versions := x.versions }
def asSnapped (a : AS) (cl : Uuid) (c : Client) (v : Uuid) (now : Int) (data : Bytes) : AS :=
  ⟨upd a.st cl (cSnapped (a.st cl) c v now data), a.ids⟩

theorem as_run_addSnapshot (P : Params) (cl v : Uuid) (data : Bytes) (now : Int) (a : AS) :
    (addSnapshot P v data now).runSt ASB cl ⟨a, a, false⟩ =
      match (a.st cl).client with
      | none => (some (.error .noSuchClient), ⟨a, a, false⟩)
      | some c =>
        if some v = c.snap.map (·.vid) then (some (.ok false), ⟨a, a, false⟩)
        else if walkBack (a.st cl).versions v (c.snap.map (·.vid)) P.searchLen c.latest then
          (some (.ok true), ⟨asSnapped a cl c v now data, asSnapped a cl c v now data, true⟩)
        else (some (.ok false), ⟨a, a, false⟩) := by
  simp only [addSnapshot, call, bind, pure]
  simp only [TxnM.bind]
  rw [as_getClient]
  cases hc : (a.st cl).client with
  | none => rfl
  | some c =>
    simp only []
    by_cases h1 : some v = c.snap.map (·.vid)
    · simp [h1]
    · simp only [h1, ↓reduceIte]
      rw [as_snapWalk]
      cases hw : walkBack (a.st cl).versions v (c.snap.map (·.vid)) P.searchLen c.latest with
      | false => simp
      | true =>
        simp only [↓reduceIte, TxnM.bind]
        have hex : AS.exec cl (.setSnapshot ⟨v, now, 0⟩ data) a = (.ok (), asSnapped a cl c v now data) := by
          simp [AS.exec, hc, asSnapped, cSnapped]
        rw [runSt_call_cont ASB cl (.setSnapshot ⟨v, now, 0⟩ data) _ _ _ () (as_step_ok cl (.setSnapshot ⟨v, now, 0⟩ data) ⟨a, a, false⟩ () _ hex (by simp))]
        rw [as_commit]
        rfl

theorem as_run_getSnapshot (cl : Uuid) (a : AS)
    (hdata : ∀ c s, (a.st cl).client = some c → c.snap = some s → ∃ d, (a.st cl).data = some d) :
    getSnapshot.runSt ASB cl ⟨a, a, false⟩ =
      (some (match (a.st cl).client with
             | none => .error .noSuchClient
             | some c => match c.snap with
               | none => .ok none
               | some s => match (a.st cl).data with
                 | some d => .ok (some (s.vid, d))
                 | none => .ok none), ⟨a, a, false⟩) := by
  simp only [getSnapshot, call, bind, pure, TxnM.bind]
  rw [as_getClient]
  cases hc : (a.st cl).client with
  | none => rfl
  | some c =>
    simp only []
    cases hs : c.snap with
    | none => rfl
    | some sn =>
      obtain ⟨d, hd⟩ := hdata c sn hc hs
      simp only [TxnM.bind]
      have hex : AS.exec cl (.getSnapshotData sn.vid) a = (.ok (some d), a) := by
        simp [AS.exec, hc, hs, hd]
      rw [as_read cl (.getSnapshotData sn.vid) a a false (some d) _ hex (by simp)]
      simp [hd]

def cCreated (x : CSt) : CSt := { client := some ⟨Uuid.nil, none⟩, data := x.data, versions := x.versions }
def asCreated (a : AS) (cl : Uuid) : AS := ⟨upd a.st cl (cCreated (a.st cl)), a.ids⟩

theorem as_run_ensure (cl : Uuid) (a : AS) :
    ensureClientFixed.runSt ASB cl ⟨a, a, false⟩ =
      match (a.st cl).client with
      | some _ => (some (), ⟨a, a, false⟩)
      | none => (some (), ⟨asCreated a cl, asCreated a cl, true⟩) := by
  simp only [ensureClientFixed, call, bind, pure, TxnM.bind]
  rw [as_getClient]
  cases hc : (a.st cl).client with
  | some c => rfl
  | none =>
    simp only [TxnM.bind]
    have hex : AS.exec cl (.newClient Uuid.nil) a = (.ok (), asCreated a cl) := by
      simp [AS.exec, hc, asCreated, cCreated]
    rw [runSt_call_cont ASB cl (.newClient Uuid.nil) _ _ _ () (as_step_ok cl (.newClient Uuid.nil) ⟨a, a, false⟩ () _ hex (by simp))]
    rw [as_commit]
    rfl

end Tcs
