import Tcs.Model.Sem.Fault
namespace Tcs

/-! Fault safety of transaction bodies under the fault-injecting interpreter. -/

/-- One non-commit step from an uncommitted state either aborts with the durable state unchanged and
    still uncommitted, or (only when there is no fault) continues exactly as the plain step. -/
theorem stepCallF_cases {σ} (B : Backend σ) (cl : Uuid) (fk : FaultKind) (c : Call) (d w : σ)
    (hc : c ≠ .commit) :
    (∃ w', stepCallF B cl fk c ⟨d, w, false⟩ = .abort ⟨d, w', false⟩) ∨
    (∃ r w', fk = .ok ∧ stepCallF B cl fk c ⟨d, w, false⟩ = .cont r ⟨d, w', false⟩) := by
  have hstep : (∃ w', stepCall B cl c ⟨d, w, false⟩ = .abort ⟨d, w', false⟩) ∨
      (∃ r w', stepCall B cl c ⟨d, w, false⟩ = .cont r ⟨d, w', false⟩) := by
    unfold stepCall
    cases hx : B.exec cl c w with
    | mk r w' =>
      cases r with
      | error e => left; exact ⟨w', by cases c <;> simp_all⟩
      | ok a => right; exact ⟨a, w', by cases c <;> simp_all⟩
  cases fk with
  | ok =>
    rcases hstep with ⟨w', h⟩ | ⟨r, w', h⟩
    · exact .inl ⟨w', h⟩
    · exact .inr ⟨r, w', rfl, h⟩
  | failBefore => exact .inl ⟨w, rfl⟩
  | failAfter =>
    rcases hstep with ⟨w', h⟩ | ⟨r, w', h⟩
    · exact .inl ⟨w', by simp only [stepCallF, h]⟩
    · exact .inl ⟨w', by simp only [stepCallF, h]⟩

theorem stepCall_commit {σ} (B : Backend σ) (hB : CommitId B) (cl : Uuid) (st : TxnSt σ) :
    stepCall B cl .commit st = .cont () ⟨st.working, st.working, true⟩ := by
  simp [stepCall, hB cl st.working]

theorem stepCallF_commit {σ} (B : Backend σ) (hB : CommitId B) (cl : Uuid) (fk : FaultKind)
    (st : TxnSt σ) :
    stepCallF B cl fk .commit st =
      match fk with
      | .failBefore => .abort st
      | .failAfter => .abort ⟨st.working, st.working, true⟩
      | .ok => .cont () ⟨st.working, st.working, true⟩ := by
  cases fk <;> simp [stepCallF, stepCall_commit B hB]

/-- Generic fault safety of one transaction body. `d` = durable state at begin, `w` = working copy. -/
theorem fault_safety {σ α} (B : Backend σ) (hB : CommitId B) (cl : Uuid) (faults : Nat → FaultKind)
    (p : TxnM α) (hp : CommitLast p) (n : Nat) (d w : σ) :
    let r0 := p.runF B cl noFault n ⟨d, w, false⟩
    let r  := p.runF B cl faults  n ⟨d, w, false⟩
    -- the durable state is the old one or the one of the fault-free run
    (r.2.1.durable = d ∨ r.2.1.durable = r0.2.1.durable) ∧
    -- a value is returned only if the fault-free run returns the same value, with the same durable state
    (∀ a, r.1 = some a → r0.1 = some a ∧ r.2.1.durable = r0.2.1.durable) ∧
    -- any fault among the consumed call indices makes the outcome an error
    ((∃ i, n ≤ i ∧ i < r.2.2 ∧ faults i ≠ .ok) → r.1 = none) ∧
    -- a value is returned without commit only if nothing durable changed
    (∀ a, r.1 = some a → r.2.1.committed = false → r.2.1.durable = d) := by
  induction hp generalizing n w with
  | ret a =>
    intro r0 r
    refine ⟨.inl rfl, fun _ h => ⟨h, rfl⟩, ?_, fun _ _ _ => rfl⟩
    rintro ⟨i, h1, h2, _⟩
    have h2' : i < n := h2
    omega
  | commit k a h =>
    simp only [TxnM.runF, stepCallF_commit B hB, noFault, h]
    cases hf : faults n <;> simp
    intro i h1 h2
    have : i = n := by omega
    subst this; exact hf
  | call c k hc h ih =>
    simp only [TxnM.runF]
    rcases stepCallF_cases B cl (faults n) c d w hc with ⟨w', hab⟩ | ⟨r, w', hok, hco⟩
    · rw [hab]; simp
    · have hno : noFault n = faults n := by simp [noFault, hok]
      rw [hno, hco]
      have := ih r (n+1) w'
      refine ⟨this.1, this.2.1, ?_, this.2.2.2⟩
      rintro ⟨i, h1, h2, h3⟩
      apply this.2.2.1
      refine ⟨i, ?_, h2, h3⟩
      rcases Nat.lt_or_ge n i with hlt | hge
      · omega
      · have : i = n := by omega
        subst this; exact absurd hok h3

/-- the fault-free fault interpreter is the plain interpreter -/
theorem runF_noFault {σ α} (B : Backend σ) (cl : Uuid) (p : TxnM α) (n : Nat) (st : TxnSt σ) :
    (p.runF B cl noFault n st).1 = (p.runSt B cl st).1 ∧
    (p.runF B cl noFault n st).2.1 = (p.runSt B cl st).2 := by
  induction p generalizing n st with
  | ret a => exact ⟨rfl, rfl⟩
  | call c k ih =>
    simp only [TxnM.runF, TxnM.runSt, noFault, stepCallF]
    cases stepCall B cl c st with
    | abort st' => exact ⟨rfl, rfl⟩
    | cont r st' => exact ih r (n+1) st'

theorem commitId_sql : CommitId SqlB := fun _ _ => rfl
theorem commitId_mem : CommitId MemB := fun _ _ => rfl

/-- The body contains no `commit` call on any path. -/
inductive NoCommit {α} : TxnM α → Prop
  | ret (a) : NoCommit (.ret a)
  | call (c : Call) (k : c.Resp → TxnM α) (hc : c ≠ .commit) (h : ∀ r, NoCommit (k r)) :
      NoCommit (.call c k)

theorem commitLast_bind_noCommit {α β} (p : TxnM α) (hp : NoCommit p) (f : α → TxnM β)
    (hf : ∀ a, CommitLast (f a)) : CommitLast (p.bind f) := by
  induction hp with
  | ret a => exact hf a
  | call c k hc _ ih => exact CommitLast.call c _ hc ih

theorem noCommit_snapWalk (v : Uuid) (last : Option Uuid) (fuel : Nat) (vid : Uuid) :
    NoCommit (snapWalk v last fuel vid) := by
  induction fuel generalizing vid with
  | zero => exact NoCommit.ret _
  | succ fuel ih =>
    simp only [snapWalk, call, bind, TxnM.bind, pure]
    split
    · exact NoCommit.ret _
    · split
      · exact NoCommit.ret _
      · split
        · exact NoCommit.ret _
        · refine NoCommit.call _ _ (by simp) ?_
          intro r
          cases r with
          | none => exact NoCommit.ret _
          | some ver => exact ih ver.parent

theorem commitLast_getChildVersion (p : Uuid) : CommitLast (getChildVersion p) := by
  simp only [getChildVersion, call, bind, TxnM.bind, pure]
  refine CommitLast.call _ _ (by simp) ?_
  intro r
  cases r with
  | none => exact CommitLast.ret _
  | some client =>
    refine CommitLast.call _ _ (by simp) ?_
    intro r
    cases r with
    | some v => exact CommitLast.ret _
    | none => simp only []; split <;> exact CommitLast.ret _

theorem commitLast_addVersion (cfg : Config) (p : Uuid) (seg : Bytes) (newId : Uuid) (now : Int) :
    CommitLast (addVersion cfg p seg newId now) := by
  simp only [addVersion, call, bind, TxnM.bind, pure]
  refine CommitLast.call _ _ (by simp) ?_
  intro r
  cases r with
  | none => exact CommitLast.ret _
  | some client =>
    simp only []
    split
    · exact CommitLast.ret _
    · refine CommitLast.call _ _ (by simp) ?_
      intro _
      exact CommitLast.commit _ _ rfl

theorem commitLast_addSnapshot (P : Params) (v : Uuid) (data : Bytes) (now : Int) :
    CommitLast (addSnapshot P v data now) := by
  simp only [addSnapshot, call, bind, TxnM.bind, pure]
  refine CommitLast.call _ _ (by simp) ?_
  intro r
  cases r with
  | none => exact CommitLast.ret _
  | some client =>
    simp only []
    split
    · exact CommitLast.ret _
    · apply commitLast_bind_noCommit _ (noCommit_snapWalk _ _ _ _)
      intro b
      cases b with
      | false => exact CommitLast.ret _
      | true =>
        refine CommitLast.call _ _ (by simp) ?_
        intro _
        exact CommitLast.commit _ _ rfl

theorem commitLast_getSnapshot : CommitLast getSnapshot := by
  simp only [getSnapshot, call, bind, TxnM.bind, pure]
  refine CommitLast.call _ _ (by simp) ?_
  intro r
  cases r with
  | none => exact CommitLast.ret _
  | some client =>
    simp only []
    cases client.snap with
    | none => exact CommitLast.ret _
    | some s =>
      refine CommitLast.call _ _ (by simp) ?_
      intro r
      cases r <;> exact CommitLast.ret _

theorem commitLast_ensureFixed : CommitLast ensureClientFixed := by
  simp only [ensureClientFixed, call, bind, TxnM.bind, pure]
  refine CommitLast.call _ _ (by simp) ?_
  intro r
  cases r with
  | some _ => exact CommitLast.ret _
  | none =>
    refine CommitLast.call _ _ (by simp) ?_
    intro _
    exact CommitLast.commit _ _ rfl

theorem commitLast_ensurePinned : CommitLast ensureClientPinned := by
  simp only [ensureClientPinned, call, bind, TxnM.bind]
  refine CommitLast.call _ _ (by simp) ?_
  intro _
  exact CommitLast.commit _ _ rfl

end Tcs
