import Tcs.Generated.CliSrc
import Tcs.Model.Config
namespace Tcs

/-! The wiring map GENERATED from the binary's current source (`tools/clap2lean.py`, after its data-flow pass) is
    *interpreted* here: which resolved value reaches which constructor parameter of `main`. `cliSrc_wire` says that for every
    resolved configuration the interpretation is what the model of the running server assumes (`httpCfgOf`, the data
    directory, `startup`'s all-or-nothing binding of every listen address). Unlike `cliSrc_wiring` (equality of the map
    with a stated list) it depends only on the entries that matter and on what they mean. -/

inductive WVal
  | dir (s : String) | versions (n : Nat) | days (d : Int) | allow (o : Option (List Uuid)) | listen (l : List String)

def wlook (w : List (String × String)) (k : String) : Option String := (w.find? (·.1 == k)).map (·.2)

/-- the resolved value of a clap argument, named as `ServerArgs::new` names it in `matches.get_…("<name>")` -/
def argVal (a : ServerArgs) : String → Option WVal
  | "arg:data-dir" => some (.dir a.dataDir)
  | "arg:snapshot-versions" => some (.versions a.snapshotVersions)
  | "arg:snapshot-days" => some (.days a.snapshotDays)
  | "arg:allow-client-id" => some (.allow a.allow)
  | "arg:listen" => some (.listen a.listen)
  | _ => none

/-- the value of `server_args.<field>`: whatever `ServerArgs::new` put into that field, according to the wiring -/
def fieldVal (w : List (String × String)) (a : ServerArgs) : String → Option WVal
  | "server_args.data_dir" => (wlook w "ServerArgs.data_dir").bind (argVal a)
  | "server_args.snapshot_versions" => (wlook w "ServerArgs.snapshot_versions").bind (argVal a)
  | "server_args.snapshot_days" => (wlook w "ServerArgs.snapshot_days").bind (argVal a)
  | "server_args.client_id_allowlist" => (wlook w "ServerArgs.client_id_allowlist").bind (argVal a)
  | "server_args.listen_addresses" => (wlook w "ServerArgs.listen_addresses").bind (argVal a)
  | _ => none

/-- the field a `SqliteStorage::new(…)?` expression opens -/
def storageArg : String → Option String
  | "SqliteStorage::new(server_args.data_dir)?" => some "server_args.data_dir"
  | "SqliteStorage::new(server_args.snapshot_versions)?" => some "server_args.snapshot_versions"
  | "SqliteStorage::new(server_args.snapshot_days)?" => some "server_args.snapshot_days"
  | "SqliteStorage::new(server_args.client_id_allowlist)?" => some "server_args.client_id_allowlist"
  | "SqliteStorage::new(server_args.listen_addresses)?" => some "server_args.listen_addresses"
  | _ => none

/-- the field whose elements are bound one by one, and whether a failing bind ends start-up (`?`) -/
def bindArg : String → Option (String × Bool)
  | "each:server_args.listen_addresses:?" => some ("server_args.listen_addresses", true)
  | "each:server_args.listen_addresses:no-?" => some ("server_args.listen_addresses", false)
  | "each:server_args.data_dir:?" => some ("server_args.data_dir", true)
  | "each:server_args.client_id_allowlist:?" => some ("server_args.client_id_allowlist", true)
  | _ => none

/-- what `main` has constructed when it starts serving -/
structure Wired where
  cfg : HttpCfg
  dir : String
  listen : List String
  bindAll : Bool

def wire (w : List (String × String)) (a : ServerArgs) : Option Wired :=
  match (wlook w "ServerConfig.snapshot_days").bind (fieldVal w a),
        (wlook w "ServerConfig.snapshot_versions").bind (fieldVal w a),
        wlook w "WebServer::new.0",
        (wlook w "WebServer::new.1").bind (fieldVal w a),
        ((wlook w "WebServer::new.2").bind storageArg).bind (fieldVal w a),
        (wlook w "bind").bind bindArg with
  | some (.days d), some (.versions v), some "config", some (.allow al), some (.dir dir), some (f, q) =>
    match fieldVal w a f with
    | some (.listen l) => some { cfg := { cfg := ⟨d, v⟩, allow := al }, dir := dir, listen := l, bindAll := q }
    | _ => none
  | _, _, _, _, _, _ => none

/-- **the wiring read off the current source means what the model assumes**: for every resolved configuration, `main`
    serves with exactly the resolved snapshot targets and allow-list (`httpCfgOf`), on a database in the resolved
    directory, and binds every resolved listen address, start-up failing if one cannot be bound (`startup`) -/
theorem cliSrc_wire (a : ServerArgs) :
    wire CliSrc.wiring a = some { cfg := httpCfgOf a, dir := a.dataDir, listen := a.listen, bindAll := true } := by
  rfl

/-- the stated wiring with one entry replaced -/
def wiringWith (k v : String) : List (String × String) := CliSrc.wiring.map fun e => if e.1 == k then (k, v) else e

/-- the interpretation is not vacuous: a `main` that hands the versions target to the days field, opens the storage
    on another field, or drops the `?` of `bind`, is told apart (for every resolved configuration) -/
example (a : ServerArgs) : wire (wiringWith "ServerConfig.snapshot_days" "server_args.snapshot_versions") a = none := by rfl
example (a : ServerArgs) : wire (wiringWith "WebServer::new.2" "SqliteStorage::new(server_args.listen_addresses)?") a = none := by rfl
example (a : ServerArgs) : (wire (wiringWith "bind" "each:server_args.listen_addresses:no-?") a).map (·.bindAll) = some false := by rfl
/-- `ServerArgs::new` reading a field from the wrong argument: the days target would be whatever `--snapshot-versions` says -/
example (a : ServerArgs) : wire (wiringWith "ServerArgs.snapshot_days" "arg:snapshot-versions") a = none := by rfl

end Tcs
