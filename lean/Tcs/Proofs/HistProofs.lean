import Tcs.Proofs.InvProofs
namespace Tcs

/-! History level: a whole request history on the abstract storage is the fold of `asStep`,
    never meets a storage error, and keeps the invariant. -/

structure Seen (a : AS) (seen : List Uuid) : Prop where
  ids : ∀ i ∈ a.ids, i ∈ seen
  base : ∀ c, (a.st c).versions ≠ [] → baseOf (a.st c).versions ∈ seen


theorem inv_init : Inv ({} : AS) := ⟨fun _ => cinv_empty, fun _ v hv => by simp at hv⟩
theorem seen_init (seen : List Uuid) : Seen ({} : AS) seen := ⟨fun i hi => by simp at hi, fun c h => by simp at h⟩

/-- one request, at the request level -/
theorem as_req (S : Sys) (hS : S.ensure = ensureClientFixed) (mode : TxnMode) (e : Ev) (a : AS) (hinv : Inv a)
    (hf : ∀ n, e.drawn = some n → n ∉ a.ids) :
    (e.req S).runC ASB mode a = ((asStep S e a).1, (asStep S e a).2, true) := by
  cases e with
  | av c p seg newId now => exact as_av S hS mode c p seg newId now a (hinv.each c) (hf newId rfl)
  | avLib c p seg newId now => exact as_avLib S mode c p seg newId now a (hinv.each c) (hf newId rfl)
  | create c => exact as_create S hS mode c a
  | gcv c p => exact as_gcv S mode c p a
  | «as» c v d now => exact as_as S mode c v d now a
  | gs c => exact as_gs S mode c a (hinv.each c)
  | reopen => rfl

theorem drawn_client (e : Ev) (n : Uuid) (h : e.drawn = some n) : ∃ c, e.client = some c := by
  cases e <;> simp [Ev.drawn, Ev.client] at h ⊢

theorem asStep_other (S : Sys) (e : Ev) (a : AS) (c d : Uuid) (hc : e.client = some c) (hd : d ≠ c) :
    (asStep S e a).2.st d = a.st d := by
  simp [asStep, hc, upd, hd]

theorem asStep_same (S : Sys) (e : Ev) (a : AS) (c : Uuid) (hc : e.client = some c) :
    (asStep S e a).2.st c = (cstep S e (a.st c)).2 := by
  simp [asStep, hc]

theorem asStep_ids (S : Sys) (e : Ev) (a : AS) (c : Uuid) (hc : e.client = some c) :
    (asStep S e a).2.ids = a.ids ++ addedId e (cstep S e (a.st c)).1 := by
  simp [asStep, hc]

theorem asStep_none (S : Sys) (e : Ev) (a : AS) (hc : e.client = none) : (asStep S e a).2 = a := by
  simp [asStep, hc]

theorem appended_ids (e : Ev) (o : Out) : (appended e o).map (·.id) = addedId e o := by
  cases e <;> cases o <;> rfl

theorem avOk_id (S : Sys) (e : Ev) (x : CSt) (v : Uuid) (u : Urgency) (h : (cstep S e x).1 = .avOk v u) :
    e.drawn = some v := by
  cases e with
  | av c p seg newId now =>
    have := (cAddVersion_versions S.cfg (cCreate x) p seg newId now).2 v u h
    simp [Ev.drawn, this]
  | avLib c p seg newId now =>
    have := (cAddVersion_versions S.cfg x p seg newId now).2 v u h
    simp [Ev.drawn, this]
  | create c => simp [cstep] at h
  | gcv c p =>
    simp only [cstep, cGetChild] at h
    split at h
    · simp at h
    · split at h
      · simp at h
      · split at h <;> simp at h
  | «as» c v' d now =>
    simp only [cstep, cAddSnapshot] at h
    split at h
    · simp at h
    · split at h
      · simp at h
      · split at h <;> simp at h
  | gs c =>
    simp only [cstep, cGetSnapshot] at h
    split at h
    · simp at h
    · split at h
      · simp at h
      · split at h <;> simp at h
  | reopen => simp [cstep] at h

theorem appended_parent_arg (e : Ev) (o : Out) (v : Version) (hv : v ∈ appended e o) : v.parent ∈ e.argIds := by
  cases e <;> cases o <;> simp [appended, Ev.argIds] at hv ⊢ <;> simp [hv]

theorem mem_addedId_drawn (S : Sys) (e : Ev) (x : CSt) (i : Uuid) (hi : i ∈ addedId e (cstep S e x).1) : e.drawn = some i := by
  cases ho : (cstep S e x).1 with
  | avOk v u =>
    rw [ho] at hi
    have hd := avOk_id S e x v u ho
    cases e <;> simp [addedId] at hi <;> simp_all
  | _ => rw [ho] at hi; cases e <;> simp [addedId] at hi

/-- one request preserves the invariant and the bookkeeping of seen ids -/
theorem inv_asStep (S : Sys) (e : Ev) (a : AS) (seen : List Uuid) (hinv : Inv a) (hseen : Seen a seen) (hf : FreshEv e seen) :
    Inv (asStep S e a).2 ∧ Seen (asStep S e a).2 (seenAfter e seen) := by
  cases hc : e.client with
  | none =>
    rw [asStep_none S e a hc]
    exact ⟨hinv, ⟨fun i hi => by simp [seenAfter, hseen.ids i hi], fun c h => by simp [seenAfter, hseen.base c h]⟩⟩
  | some c =>
    have hfresh : ∀ n, e.drawn = some n → ∀ p, p ∈ e.argIds → FreshFor (cCreate (a.st c)) n p := by
      intro n hn p hp
      simp only [FreshEv, hn] at hf
      obtain ⟨h1, h2, h3⟩ := hf
      refine ⟨h1, fun h => h3 (h ▸ hp), ?_, ?_⟩
      · rw [cCreate_versions]
        intro hm
        simp only [vids, List.mem_map] at hm
        obtain ⟨v, hv, rfl⟩ := hm
        exact h2 (hseen.ids _ (hinv.ids c v hv))
      · rw [cCreate_versions]
        intro hne h
        exact h2 (h ▸ hseen.base c hne)
    have hcinv := cinv_cstep S e (a.st c) (hinv.each c) hfresh
    have hvers := cstep_versions S e (a.st c)
    constructor
    · constructor
      · intro d
        by_cases hd : d = c
        · subst hd; rw [asStep_same S e a d hc]; exact hcinv
        · rw [asStep_other S e a c d hc hd]; exact hinv.each d
      · intro d v hv
        rw [asStep_ids S e a c hc]
        by_cases hd : d = c
        · subst hd
          rw [asStep_same S e a d hc, hvers] at hv
          rcases List.mem_append.mp hv with hv | hv
          · exact List.mem_append.mpr (Or.inl (hinv.ids d v hv))
          · apply List.mem_append.mpr; right
            rw [← appended_ids]; exact List.mem_map.mpr ⟨v, hv, rfl⟩
        · rw [asStep_other S e a c d hc hd] at hv
          exact List.mem_append.mpr (Or.inl (hinv.ids d v hv))
    · constructor
      · intro i hi
        rw [asStep_ids S e a c hc] at hi
        rcases List.mem_append.mp hi with hi | hi
        · simp [seenAfter, hseen.ids i hi]
        · have := mem_addedId_drawn S e (a.st c) i hi
          simp [seenAfter, this]
      · intro d hne
        by_cases hd : d = c
        · subst hd
          rw [asStep_same S e a d hc] at hne ⊢
          rw [hvers] at hne ⊢
          by_cases he : (a.st d).versions = []
          · rw [he] at hne ⊢
            simp only [List.nil_append] at hne ⊢
            cases hap : appended e (cstep S e (a.st d)).1 with
            | nil => exact absurd hap hne
            | cons v vs =>
              have := appended_parent_arg e _ v (by rw [hap]; simp)
              simp [seenAfter, baseOf, this]
          · have : baseOf ((a.st d).versions ++ appended e (cstep S e (a.st d)).1) = baseOf (a.st d).versions := by
              cases hvs : (a.st d).versions with
              | nil => exact absurd hvs he
              | cons x xs => rfl
            rw [this]
            simp [seenAfter, hseen.base d he]
        · rw [asStep_other S e a c d hc hd] at hne ⊢
          simp [seenAfter, hseen.base d hne]

/-- the abstract run of a history -/
def asRunH (S : Sys) : List Ev → AS → List Out × AS
  | [], a => ([], a)
  | e :: es, a => ((asStep S e a).1 :: (asRunH S es (asStep S e a).2).1, (asRunH S es (asStep S e a).2).2)

theorem fresh_cons (e : Ev) (es : List Ev) (seen : List Uuid) :
    Fresh (e :: es) seen ↔ FreshEv e seen ∧ Fresh es (seenAfter e seen) := by
  simp only [Fresh]

/-- a fresh history on the abstract storage: no storage error, outputs and state are the fold of `asStep`, invariant kept -/
theorem as_runHC (S : Sys) (hS : S.ensure = ensureClientFixed) (mode : TxnMode) (h : List Ev) (a : AS) (seen : List Uuid)
    (hinv : Inv a) (hseen : Seen a seen) (hf : Fresh h seen) :
    runHC ASB mode S h a = ((asRunH S h a).1, (asRunH S h a).2, true) ∧ Inv (asRunH S h a).2 ∧
      ∃ seen', Seen (asRunH S h a).2 seen' := by
  induction h generalizing a seen with
  | nil => exact ⟨rfl, hinv, seen, hseen⟩
  | cons e es ih =>
    rw [fresh_cons] at hf
    have hstep := inv_asStep S e a seen hinv hseen hf.1
    have hreq := as_req S hS mode e a hinv (by
      intro n hn
      have := hf.1
      simp only [FreshEv, hn] at this
      exact fun hm => this.2.1 (hseen.ids n hm))
    obtain ⟨h1, h2, h3⟩ := ih (asStep S e a).2 (seenAfter e seen) hstep.1 hstep.2 hf.2
    refine ⟨?_, h2, h3⟩
    simp only [runHC, hreq, h1, asRunH, Bool.and_self]

end Tcs
