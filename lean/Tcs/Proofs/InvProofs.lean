import Tcs.Proofs.ASReq
namespace Tcs

/-! The per-client invariant is preserved by every request (given a fresh drawn id). -/

theorem CInv.wf {x : CSt} (h : CInv x) : WF (baseOf x.versions) x.versions := ⟨h.chain, h.nodup⟩

theorem cinv_empty : CInv ({} : CSt) := by
  constructor <;> simp [baseOf, vids, IsChain, lastId]

theorem baseOf_append (vs : List Version) (v : Version) (h : vs ≠ []) : baseOf (vs ++ [v]) = baseOf vs := by
  cases vs with
  | nil => exact absurd rfl h
  | cons x xs => rfl

theorem cCreate_eq (x : CSt) (h : x.client = none) : cCreate x = cCreated x := by
  simp [cCreate, cCreated, h]

theorem cCreate_some (x : CSt) (c : Client) (h : x.client = some c) : cCreate x = x := by
  simp [cCreate, h]

theorem cinv_cCreate (x : CSt) (hx : CInv x) : CInv (cCreate x) := by
  cases hc : x.client with
  | none => rw [cCreate_eq x hc]; exact cinv_created x hx hc
  | some c => rw [cCreate_some x c hc]; exact hx

/-- freshness of a drawn id relative to one client's record -/
structure FreshFor (x : CSt) (newId p : Uuid) : Prop where
  nonNil : newId ≠ Uuid.nil
  notParent : newId ≠ p
  notId : newId ∉ vids x.versions
  notBase : x.versions ≠ [] → newId ≠ baseOf x.versions

theorem latest_ne_nil (x : CSt) (hx : CInv x) (c : Client) (hc : x.client = some c) (hne : x.versions ≠ []) :
    c.latest ≠ Uuid.nil := by
  intro h
  have hm := lastId_mem_vids (baseOf x.versions) x.versions hne
  rw [← hx.latest c hc, h] at hm
  exact hx.nonNil hm

theorem latest_nil_of_empty (x : CSt) (hx : CInv x) (c : Client) (hc : x.client = some c) (he : x.versions = []) :
    c.latest = Uuid.nil := by
  rw [hx.latest c hc, he]; rfl

theorem cinv_cAddVersion (cfg : Config) (x : CSt) (hx : CInv x) (p : Uuid) (seg : Bytes) (newId : Uuid) (now : Int)
    (hf : FreshFor x newId p) : CInv (cAddVersion cfg x p seg newId now).2 := by
  unfold cAddVersion
  cases hc : x.client with
  | none => exact hx
  | some c =>
    simp only []
    by_cases h : (c.latest ≠ Uuid.nil && p ≠ c.latest) = true
    · simp only [h, ↓reduceIte]; exact hx
    · simp only [h, Bool.false_eq_true, ↓reduceIte]
      have hacc : c.latest = Uuid.nil ∨ p = c.latest := by
        by_cases h1 : c.latest = Uuid.nil
        · exact Or.inl h1
        · right
          by_cases h2 : p = c.latest
          · exact h2
          · exfalso; apply h; simp [h1, h2]
      by_cases he : x.versions = []
      · -- first version: the chain starts at p
        have hwf : WF p [⟨newId, p, seg⟩] := wf_singleton ⟨newId, p, seg⟩ hf.notParent
        have hsn : c.snap = none := by
          cases hs : c.snap with
          | none => rfl
          | some sn => exact absurd he (hx.snapSome c sn hc hs).2.2.2
        have hd : x.data = none := hx.snapNone c hc hsn
        constructor
        · simpa [he, baseOf] using hwf.1
        · simpa [he, baseOf] using hwf.2
        · simp [he, vids]; exact fun h => hf.nonNil h.symm
        · intro h; simp at h
        · intro c' hc'; simp at hc'; subst hc'; simp [he, baseOf, lastId]
        · intro c' hc' _; simpa using hd
        · intro c' sn hc' hs; simp at hc'; subst hc'; simp [hsn] at hs
      · -- appended to the latest
        have hln := latest_ne_nil x hx c hc he
        have hp : p = lastId (baseOf x.versions) x.versions := by
          rcases hacc with h1 | h1
          · exact absurd h1 hln
          · rw [h1]; exact hx.latest c hc
        have hwf : WF (baseOf x.versions) (x.versions ++ [⟨newId, p, seg⟩]) :=
          wf_append _ _ ⟨newId, p, seg⟩ hx.wf hp (by
            simp only [List.mem_cons, not_or]
            exact ⟨hf.notBase he, hf.notId⟩)
        have hb : baseOf (x.versions ++ [⟨newId, p, seg⟩]) = baseOf x.versions := baseOf_append _ _ he
        constructor
        · simpa [hb] using hwf.1
        · simpa [hb] using hwf.2
        · simp only [vids, List.map_append, List.map_cons, List.map_nil, List.mem_append, List.mem_singleton, not_or]
          exact ⟨hx.nonNil, fun h => hf.nonNil h.symm⟩
        · intro h; simp at h
        · intro c' hc'; simp at hc'; subst hc'; simp [hb, lastId_append]
        · intro c' hc' hs
          simp at hc'; subst hc'
          simp at hs
          exact hx.snapNone c hc hs
        · intro c' sn hc' hs
          simp at hc'; subst hc'
          simp only [Option.map_eq_some_iff] at hs
          obtain ⟨sn0, hs0, rfl⟩ := hs
          obtain ⟨h1, h2, h3, _⟩ := hx.snapSome c sn0 hc hs0
          refine ⟨h1, ?_, h3, by simp⟩
          simp only [hb, bump, vids, List.map_append, List.mem_cons, List.mem_append] at h2 ⊢
          rcases h2 with h2 | h2
          · exact Or.inl h2
          · exact Or.inr (Or.inl h2)

theorem cinv_cAddSnapshot (P : Params) (x : CSt) (hx : CInv x) (v : Uuid) (data : Bytes) (now : Int) :
    CInv (cAddSnapshot P x v data now).2 := by
  unfold cAddSnapshot
  cases hc : x.client with
  | none => exact hx
  | some c =>
    simp only []
    by_cases h1 : some v = c.snap.map (·.vid)
    · simp only [h1, ↓reduceIte]; exact hx
    · simp only [h1, ↓reduceIte]
      cases hw : walkBack x.versions v (c.snap.map (·.vid)) P.searchLen c.latest with
      | false => simpa using hx
      | true =>
        simp only [↓reduceIte]
        rw [hx.latest c hc, walkBack_eq_scan _ _ hx.wf] at hw
        obtain ⟨hm, hnil⟩ := scan_mem _ _ _ _ hw
        have hm' : v ∈ baseOf x.versions :: vids x.versions := by
          have := hm; simp only [ancestors, List.mem_reverse] at this; exact this
        have hne : x.versions ≠ [] := by
          intro he
          rw [he] at hm'
          simp [baseOf, vids] at hm'
          exact hnil hm'
        constructor
        · exact hx.chain
        · exact hx.nodup
        · exact hx.nonNil
        · intro h; simp at h
        · intro c' hc'; simp at hc'; subst hc'; exact hx.latest c hc
        · intro c' hc' hs; simp at hc'; subst hc'; simp at hs
        · intro c' sn hc' hs
          simp at hc'; subst hc'
          simp at hs; subst hs
          exact ⟨⟨data, rfl⟩, hm', hnil, hne⟩

/-- every request preserves the invariant of the record it acts on -/
theorem cinv_cstep (S : Sys) (e : Ev) (x : CSt) (hx : CInv x)
    (hf : ∀ n, e.drawn = some n → ∀ p, p ∈ e.argIds → FreshFor (cCreate x) n p) : CInv (cstep S e x).2 := by
  cases e with
  | av c p seg newId now =>
    exact cinv_cAddVersion S.cfg _ (cinv_cCreate x hx) p seg newId now (hf newId rfl p (by simp [Ev.argIds]))
  | avLib c p seg newId now =>
    have := hf newId rfl p (by simp [Ev.argIds])
    refine cinv_cAddVersion S.cfg x hx p seg newId now ?_
    cases hc : x.client with
    | none => rw [cCreate_eq x hc] at this; exact ⟨this.nonNil, this.notParent, this.notId, this.notBase⟩
    | some cl => rw [cCreate_some x cl hc] at this; exact this
  | create c => exact cinv_cCreate x hx
  | gcv c p => exact hx
  | «as» c v d now => exact cinv_cAddSnapshot S.params x hx v d now
  | gs c => exact hx
  | reopen => exact hx

/-- what a request appends to its client's version list -/
def appended (e : Ev) (o : Out) : List Version :=
  match e, o with
  | .av _ p seg _ _, .avOk v _ => [⟨v, p, seg⟩]
  | .avLib _ p seg _ _, .avOk v _ => [⟨v, p, seg⟩]
  | _, _ => []

theorem cCreate_versions (x : CSt) : (cCreate x).versions = x.versions := by
  unfold cCreate; cases x.client <;> rfl

theorem cAddVersion_versions (cfg : Config) (x : CSt) (p : Uuid) (seg : Bytes) (newId : Uuid) (now : Int) :
    (cAddVersion cfg x p seg newId now).2.versions = x.versions ++
      (match (cAddVersion cfg x p seg newId now).1 with | .avOk v _ => [⟨v, p, seg⟩] | _ => []) ∧
    (∀ v u, (cAddVersion cfg x p seg newId now).1 = .avOk v u → v = newId) := by
  unfold cAddVersion
  cases x.client with
  | none => simp
  | some c =>
    simp only []
    split <;> simp

/-- versions are append-only: a request adds exactly the version it accepted -/
theorem cstep_versions (S : Sys) (e : Ev) (x : CSt) :
    (cstep S e x).2.versions = x.versions ++ appended e (cstep S e x).1 := by
  cases e with
  | av c p seg newId now =>
    have := (cAddVersion_versions S.cfg (cCreate x) p seg newId now).1
    simp only [cstep, appended]
    rw [this, cCreate_versions]
    cases (cAddVersion S.cfg (cCreate x) p seg newId now).1 <;> rfl
  | avLib c p seg newId now =>
    have := (cAddVersion_versions S.cfg x p seg newId now).1
    simp only [cstep, appended]
    rw [this]
    cases (cAddVersion S.cfg x p seg newId now).1 <;> rfl
  | create c => simp [cstep, appended, cCreate_versions]
  | gcv c p => simp [cstep, appended]
  | «as» c v d now =>
    simp only [cstep, appended]
    unfold cAddSnapshot
    cases x.client with
    | none => simp
    | some cl =>
      simp only []
      split
      · simp
      · split <;> simp
  | gs c => simp [cstep, appended]
  | reopen => simp [cstep, appended]

end Tcs
