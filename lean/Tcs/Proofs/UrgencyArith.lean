import Tcs.Model.Server

/-! Arithmetic of the snapshot-urgency thresholds (`server.rs: SnapshotUrgency`).

* the repaired comparison `lvl` meets the integer specification `⌊3t/2⌋`, is monotone, and
  `urgency` (the maximum of the two measures) inherits monotonicity;
* the pinned fixed-width arithmetic (`lvlU32Pinned`, `lvlU32PinnedWrap`, `lvlI64Pinned`) overflows
  (defect D2), with concrete witnesses, and agrees with `lvl` exactly where it does not overflow;
* the widened types used by the repair never overflow.

Core-only; no Mathlib. -/

namespace Tcs

/-- the specification over the integers: one and a half times = ⌊3t/2⌋ for t ≥ 0 -/
def specLvl (x t : Int) : Urgency :=
  if 2 * x ≥ 3 * t - (3 * t) % 2 then .high else if x ≥ t then .low else .none

/-! ### truncating division -/

/-- tdiv = ediv for nonneg -/
theorem threeHalves_nonneg (t : Int) (ht : 0 ≤ t) : threeHalves t = t * 3 / 2 := by
  unfold threeHalves
  exact Int.tdiv_eq_ediv_of_nonneg (by omega)

/-- `threeHalves` on a negative argument, in `omega`-friendly (Euclidean) form. -/
theorem threeHalves_neg (t : Int) (ht : t ≤ 0) : threeHalves t = -((-(t * 3)) / 2) := by
  unfold threeHalves
  have h : t * 3 = -(-(t * 3)) := by omega
  rw [h, Int.neg_tdiv, Int.tdiv_eq_ediv_of_nonneg (by omega)]
  omega

/-- high threshold never below the low one -/
theorem thresholds_ordered (t : Int) (ht : 0 ≤ t) : t ≤ threeHalves t := by
  rw [threeHalves_nonneg t ht]; omega

/-! ### `lvl` -/

theorem lvl_eq_spec (x t : Int) (ht : 0 ≤ t) : lvl x t = specLvl x t := by
  unfold lvl specLvl
  rw [threeHalves_nonneg t ht]
  by_cases h1 : x ≥ t * 3 / 2
  · have h2 : 2 * x ≥ 3 * t - (3 * t) % 2 := by omega
    rw [if_pos h1, if_pos h2]
  · have h2 : ¬ (2 * x ≥ 3 * t - (3 * t) % 2) := by omega
    rw [if_neg h1, if_neg h2]

theorem lvl_high_iff (x t : Int) : lvl x t = .high ↔ x ≥ threeHalves t := by
  unfold lvl
  by_cases h1 : x ≥ threeHalves t
  · simp [h1]
  · by_cases h2 : x ≥ t <;> simp [h1, h2]

theorem lvl_low_iff (x t : Int) (ht : 0 ≤ t) :
    lvl x t = .low ↔ (t ≤ x ∧ x < threeHalves t) := by
  have ho := thresholds_ordered t ht
  unfold lvl
  by_cases h1 : x ≥ threeHalves t
  · rw [if_pos h1]
    constructor
    · intro h; cases h
    · intro h; omega
  · rw [if_neg h1]
    by_cases h2 : x ≥ t
    · rw [if_pos h2]
      constructor
      · intro _; omega
      · intro _; rfl
    · rw [if_neg h2]
      constructor
      · intro h; cases h
      · intro h; omega

theorem lvl_none_iff (x t : Int) (ht : 0 ≤ t) : lvl x t = .none ↔ x < t := by
  have ho := thresholds_ordered t ht
  unfold lvl
  by_cases h1 : x ≥ threeHalves t
  · rw [if_pos h1]
    constructor
    · intro h; cases h
    · intro h; omega
  · rw [if_neg h1]
    by_cases h2 : x ≥ t
    · rw [if_pos h2]
      constructor
      · intro h; cases h
      · intro h; omega
    · rw [if_neg h2]
      constructor
      · intro _; omega
      · intro _; rfl

theorem lvl_monotone (x y t : Int) (ht : 0 ≤ t) (h : x ≤ y) :
    (lvl x t).toNat ≤ (lvl y t).toNat := by
  have ho := thresholds_ordered t ht
  unfold lvl
  by_cases hy1 : y ≥ threeHalves t
  · rw [if_pos hy1]
    by_cases hx1 : x ≥ threeHalves t
    · rw [if_pos hx1]; exact Nat.le_refl _
    · rw [if_neg hx1]
      by_cases hx2 : x ≥ t
      · rw [if_pos hx2]; decide
      · rw [if_neg hx2]; decide
  · have hx1 : ¬ (x ≥ threeHalves t) := by omega
    rw [if_neg hy1, if_neg hx1]
    by_cases hy2 : y ≥ t
    · rw [if_pos hy2]
      by_cases hx2 : x ≥ t
      · rw [if_pos hx2]; exact Nat.le_refl _
      · rw [if_neg hx2]; decide
    · have hx2 : ¬ (x ≥ t) := by omega
      rw [if_neg hy2, if_neg hx2]; exact Nat.le_refl _

/-! ### `Urgency.max`, `days`, `urgency` -/

theorem max_toNat (a b : Urgency) : (Urgency.max a b).toNat = Nat.max a.toNat b.toNat := by
  cases a <;> cases b <;> rfl

theorem max_eq_high_iff (a b : Urgency) : Urgency.max a b = .high ↔ (a = .high ∨ b = .high) := by
  cases a <;> cases b <;> decide

theorem max_eq_none_iff (a b : Urgency) : Urgency.max a b = .none ↔ (a = .none ∧ b = .none) := by
  cases a <;> cases b <;> decide

theorem days_monotone (now now' ts : Int) (h : now ≤ now') : days now ts ≤ days now' ts := by
  unfold days
  exact Int.tdiv_le_tdiv (by decide) (by omega)

/-- urgency never decreases as either measure grows (age via `now`, counter via `since`) -/
theorem urgency_monotone (cfg : Config) (hd : 0 ≤ cfg.days) (now now' : Int) (s s' : Snapshot)
    (hv : s.vid = s'.vid) (hts : s.ts = s'.ts) (hn : now ≤ now') (hs : s.since ≤ s'.since) :
    (urgency cfg now (some s)).toNat ≤ (urgency cfg now' (some s')).toNat := by
  have _ := hv
  unfold urgency
  simp only [max_toNat]
  have h1 : (lvl (days now s.ts) cfg.days).toNat ≤ (lvl (days now' s'.ts) cfg.days).toNat := by
    rw [← hts]
    exact lvl_monotone _ _ _ hd (days_monotone now now' s.ts hn)
  have h2 : (lvl (s.since : Int) (cfg.versions : Int)).toNat
      ≤ (lvl (s'.since : Int) (cfg.versions : Int)).toNat :=
    lvl_monotone _ _ _ (Int.natCast_nonneg _) (Int.ofNat_le.mpr hs)
  show Nat.max _ _ ≤ Nat.max _ _
  simp only [Nat.max_def]
  split <;> split <;> omega

theorem urgency_none_snapshot (cfg : Config) (now : Int) : urgency cfg now none = .high := rfl

/-- high when either measure reached one and a half times its target; low when either reached
    its target; none otherwise -/
theorem urgency_high_iff (cfg : Config) (now : Int) (s : Snapshot) :
    urgency cfg now (some s) = .high ↔
      (days now s.ts ≥ threeHalves cfg.days ∨ (s.since : Int) ≥ threeHalves cfg.versions) := by
  unfold urgency
  simp only [max_eq_high_iff, lvl_high_iff]

theorem urgency_none_iff (cfg : Config) (hd : 0 ≤ cfg.days) (now : Int) (s : Snapshot) :
    urgency cfg now (some s) = .none ↔
      (days now s.ts < cfg.days ∧ (s.since : Int) < cfg.versions) := by
  unfold urgency
  simp only [max_eq_none_iff]
  rw [lvl_none_iff _ _ hd, lvl_none_iff _ _ (Int.natCast_nonneg _)]

/-- the remaining case: low iff not high and at least one measure reached its target -/
theorem urgency_low_iff (cfg : Config) (hd : 0 ≤ cfg.days) (now : Int) (s : Snapshot) :
    urgency cfg now (some s) = .low ↔
      ((days now s.ts < threeHalves cfg.days ∧ (s.since : Int) < threeHalves cfg.versions) ∧
       (cfg.days ≤ days now s.ts ∨ (cfg.versions : Int) ≤ s.since)) := by
  have hh := urgency_high_iff cfg now s
  have hn := urgency_none_iff cfg hd now s
  constructor
  · intro h
    rw [h] at hh hn
    have h1 : ¬ (days now s.ts ≥ threeHalves cfg.days ∨
        (s.since : Int) ≥ threeHalves cfg.versions) := fun c => by cases hh.mpr c
    have h2 : ¬ (days now s.ts < cfg.days ∧ (s.since : Int) < cfg.versions) :=
      fun c => by cases hn.mpr c
    omega
  · intro h
    have h1 : urgency cfg now (some s) ≠ .high := fun c => by have := hh.mp c; omega
    have h2 : urgency cfg now (some s) ≠ .none := fun c => by have := hn.mp c; omega
    cases hu : urgency cfg now (some s) with
    | none => exact absurd hu h2
    | low => rfl
    | high => exact absurd hu h1

/-! ### the pinned fixed-width arithmetic (D2) -/

/-- the pinned u32 arithmetic overflows (D2): witness -/
theorem pinned_u32_overflow : lvlU32Pinned 1431655766 1431655766 = none := by decide

/-- DEVIATION. The requested witness `lvlU32PinnedWrap 0 1431655766 = .high` is false:
    `1431655766 * 3 = 2^32 + 2`, so the wrapped threshold is `2 / 2 = 1`, not `0`, and the wrapping
    function answers `none` at `x = 0` (by accident the same as the repaired one). -/
theorem pinned_u32_wrap_at_zero_agrees :
    lvlU32PinnedWrap 0 1431655766 = .none ∧ lvl 0 1431655766 = .none := by
  constructor <;> decide

/-- Closest correct statement with the same threshold (`⌈2^32/3⌉`, the smallest overflowing one):
    the wrapped high-threshold falls to 1, so a single version since the snapshot is reported `high`
    where the repaired comparison says `none`. -/
theorem pinned_u32_wrap_wrong :
    lvlU32PinnedWrap 1 1431655766 = .high ∧ lvl 1 1431655766 = .none := by
  constructor <;> decide

/-- A threshold for which the wrapped high-threshold really falls to 0
    (`2863311531 * 3 = 2^33 + 1`, and `2863311531 < 2^32` is a legal u32): `high` at `x = 0`. -/
theorem pinned_u32_wrap_wrong_zero :
    (2863311531 : Nat) < 2 ^ 32 ∧
    lvlU32PinnedWrap 0 2863311531 = .high ∧ lvl 0 2863311531 = .none := by
  refine ⟨?_, ?_, ?_⟩ <;> decide

/-- agreement wherever the u32 arithmetic does not overflow -/
theorem pinned_u32_agrees (x t : Nat) (h : t * 3 < 2 ^ 32) :
    lvlU32Pinned x t = some (lvl x t) := by
  unfold lvlU32Pinned lvl
  rw [if_pos h, threeHalves_nonneg (t : Int) (Int.natCast_nonneg _)]
  congr 1
  by_cases h1 : x ≥ t * 3 / 2
  · have h1' : (x : Int) ≥ (t : Int) * 3 / 2 := by omega
    rw [if_pos h1, if_pos h1']
  · have h1' : ¬ ((x : Int) ≥ (t : Int) * 3 / 2) := by omega
    rw [if_neg h1, if_neg h1']
    by_cases h2 : x ≥ t
    · have h2' : (x : Int) ≥ (t : Int) := by omega
      rw [if_pos h2, if_pos h2']
    · have h2' : ¬ ((x : Int) ≥ (t : Int)) := by omega
      rw [if_neg h2, if_neg h2']

theorem pinned_u32_overflow_iff (x t : Nat) : lvlU32Pinned x t = none ↔ 2 ^ 32 ≤ t * 3 := by
  unfold lvlU32Pinned
  by_cases h : t * 3 < 2 ^ 32
  · rw [if_pos h]
    constructor
    · intro c; cases c
    · intro c; omega
  · rw [if_neg h]
    constructor
    · intro _; omega
    · intro _; rfl

/-- i64::MAX/3 + 1 -/
theorem pinned_i64_overflow : lvlI64Pinned 0 3074457345618258603 = none := by
  unfold lvlI64Pinned
  rw [if_neg (by decide)]

theorem pinned_i64_agrees (x t : Int) (h : t * 3 < 2 ^ 63) : lvlI64Pinned x t = some (lvl x t) := by
  unfold lvlI64Pinned
  rw [if_pos h]

theorem pinned_i64_overflow_iff (x t : Int) : lvlI64Pinned x t = none ↔ 2 ^ 63 ≤ t * 3 := by
  unfold lvlI64Pinned
  by_cases h : t * 3 < 2 ^ 63
  · rw [if_pos h]
    constructor
    · intro c; cases c
    · intro c; omega
  · rw [if_neg h]
    constructor
    · intro _; omega
    · intro _; rfl

/-! ### the repaired comparison needs no value outside the widened types:
    for u32 inputs 3t < 2^64, for i64 inputs |3t| < 2^127 -/

theorem widened_no_overflow_u32 (t : Nat) (h : t < 2 ^ 32) : t * 3 < 2 ^ 64 := by omega

theorem widened_no_overflow_i64 (t : Int) (h1 : -(2 ^ 63) ≤ t) (h2 : t < 2 ^ 63) :
    -(2 ^ 127) ≤ t * 3 ∧ t * 3 < 2 ^ 127 := by
  constructor <;> omega

end Tcs
