import Tcs.Generated.MemSrc
namespace Tcs

/-! **The tie between `core/src/inmemory.rs` and the in-memory backend model.** `MemSrc.*` are
    GENERATED from /repo's current source (`tools/inmemory2lean.py`); call by call and on every
    state they are `Mem.exec` – same answer, same resulting maps (including the partial effects of a
    failing `add_version`, which the source does not roll back) – up to the text of error messages. -/

def eraseErr {α} : Except StorageErr α → Except Unit α
  | .ok a => .ok a
  | .error _ => .error ()

/-- the generated backend -/
def MemSrc.exec (cl : Uuid) : (c : Call) → Mem → Except StorageErr c.Resp × Mem
  | .getClient, m => MemSrc.getClient cl m
  | .newClient l, m => MemSrc.newClient cl l m
  | .setSnapshot sn d, m => MemSrc.setSnapshot cl sn d m
  | .getSnapshotData v, m => MemSrc.getSnapshotData cl v m
  | .getByParent p, m => MemSrc.getByParent cl p m
  | .getVersion v, m => MemSrc.getVersion cl v m
  | .addVersion v p seg, m => MemSrc.addVersion cl v p seg m
  | .commit, m => (.ok (), m)

theorem memSrc_tie (cl : Uuid) (c : Call) (m : Mem) :
    (eraseErr (MemSrc.exec cl c m).1, (MemSrc.exec cl c m).2) = (eraseErr (Mem.exec cl c m).1, (Mem.exec cl c m).2) := by
  cases c with
  | getClient => rfl
  | commit => rfl
  | getVersion v => rfl
  | newClient l =>
    simp only [MemSrc.exec, MemSrc.newClient, Mem.exec]
    cases alLookup m.clients cl <;> rfl
  | setSnapshot sn d =>
    simp only [MemSrc.exec, MemSrc.setSnapshot, Mem.exec]
    cases alLookup m.clients cl <;> rfl
  | getSnapshotData v =>
    simp only [MemSrc.exec, MemSrc.getSnapshotData, Mem.exec]
    cases alLookup m.clients cl with
    | none => rfl
    | some c => simp only []; split <;> rfl
  | getByParent p =>
    simp only [MemSrc.exec, MemSrc.getByParent, Mem.exec]
    cases alLookup m.children (cl, p) <;> rfl
  | addVersion v p seg =>
    simp only [MemSrc.exec, MemSrc.addVersion, Mem.exec]
    cases alLookup m.clients cl with
    | none => rfl
    | some c =>
      simp only []
      split
      · rfl
      · split <;> rfl

end Tcs
