import Tcs.Generated.HandlerSrc
namespace Tcs

/-! source tie (handlers): terms GENERATED from /repo's current server/src/api/*.rs by tools/handlers2lean.py -/

theorem handlerSrc_addVersionBody (m : Nat) (chunks : List Bytes) (body : Bytes) :
    HandlerSrc.addVersionBody m chunks body = assemble m chunks body := by
  induction chunks generalizing body with
  | nil => rfl
  | cons ch rest ih => simp only [HandlerSrc.addVersionBody, assemble, ih]

theorem handlerSrc_addSnapshotBody (m : Nat) (chunks : List Bytes) (body : Bytes) :
    HandlerSrc.addSnapshotBody m chunks body = assemble m chunks body := by
  induction chunks generalizing body with
  | nil => rfl
  | cons ch rest ih => simp only [HandlerSrc.addSnapshotBody, assemble, ih]

end Tcs
