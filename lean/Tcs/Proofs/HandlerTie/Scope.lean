import Tcs.Generated.HandlerSrc
namespace Tcs

/-- `WebServer::config` registers ONE scope at the root, wrapped in the default-headers middleware and in nothing else,
    containing the index route and the four protocol services; outside that scope only the default service for requests no
    route matches (a request target that is not a path: `OPTIONS *`), which answers 404 with the same header (since the
    `fix:` commit 885554f); nothing else (`"DefaultHeaders"` = a
    `middleware::DefaultHeaders::new()` with `.add`s only, whose header list is tied by `handlerSrc_routes`; arguments hoisted
    into `let` bindings are inlined by the translator) (C20: every response is
    produced under the wrapper; `serve` = `route` followed by the header) -/
theorem handlerSrc_scope :
    HandlerSrc.scopeChain =
      [("scope", ""), ("app_data", "web::Data::new(self.server_state.clone())"),
       ("wrap", "DefaultHeaders"),
       ("service", "index"), ("service", "api_scope()"),
       ("default_service", "404:Cache-Control=no-store, max-age=0"), ("around", "cfg.service(|);")] ∧
    HandlerSrc.apiServices = ["get_child_version::service", "add_version::service", "get_snapshot::service", "add_snapshot::service"] ∧
    HandlerSrc.indexRoute = ("GET", "/") := ⟨rfl, rfl, rfl⟩

end Tcs
