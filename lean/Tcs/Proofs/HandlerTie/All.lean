import Tcs.Proofs.HandlerTie.ClientId
import Tcs.Proofs.HandlerTie.GetChild
import Tcs.Proofs.HandlerTie.GetSnap
import Tcs.Proofs.HandlerTie.AddVersionExact
import Tcs.Proofs.HandlerTie.AddSnapshot
import Tcs.Proofs.HandlerTie.Routes
namespace Tcs

/-! **The tie between `server/src/api/*.rs` and the handler model**: the dispatch of the model over the handlers GENERATED
    from the current source is the model's `route`, for every configuration and request. -/

/-- the dispatch of the model, over the generated handlers (the route table is tied separately) -/
def routeSrc (h : HttpCfg) (r : Request) : ReqM Response :=
  match r.method, pathSegments r.path with
  | "GET", [""] => .done { status := 200, ctype := some "text/plain; charset=utf-8" }
  | "GET", ["v1", "client", "get-child-version", seg] =>
    match pathId seg with
    | none => .done (refuse .notFound)
    | some p => HandlerSrc.getChildVersion h r p
  | "POST", ["v1", "client", "add-version", seg] =>
    match pathId seg with
    | none => .done (refuse .notFound)
    | some p => HandlerSrc.addVersion h r p
  | "GET", ["v1", "client", "snapshot"] => HandlerSrc.getSnapshot h r
  | "POST", ["v1", "client", "add-snapshot", seg] =>
    match pathId seg with
    | none => .done (refuse .notFound)
    | some v => HandlerSrc.addSnapshot h r v
  | _, _ => .done { status := 404 }

/-- **the handler model is what the handlers' source says**: for every configuration and request -/
theorem handlerSrc_route (h : HttpCfg) (hS : h.ensure = ensureClientFixed) (r : Request) : routeSrc h r = route h r := by
  unfold routeSrc route
  simp only [handlerSrc_getChildVersion, handlerSrc_addVersion h hS, handlerSrc_getSnapshot, handlerSrc_addSnapshot]
  generalize r.method = m
  generalize pathSegments r.path = segs
  split <;> first | rfl | (split <;> first | rfl | simp_all)

end Tcs
