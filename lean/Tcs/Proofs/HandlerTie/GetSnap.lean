import Tcs.Generated.HandlerSrc
namespace Tcs

/-! source tie (handlers): terms GENERATED from /repo's current server/src/api/*.rs by tools/handlers2lean.py -/

theorem handlerSrc_getSnapshot (h : HttpCfg) (r : Request) :
    HandlerSrc.getSnapshot h r =
      (match clientIdHeader h.allow r with
       | .error f => .done (refuse f)
       | .ok c =>
         .txn c getSnapshot fun
           | none => .done { status := 500 }
           | some (.ok (some (v, d))) => .done { status := 200, ctype := some SNAP_CT, vid := some v, body := d }
           | some (.ok none) => .done (refuse .notFound)
           | some (.error .noSuchClient) => .done (refuse .notFound)) := by
  unfold HandlerSrc.getSnapshot
  cases clientIdHeader h.allow r with
  | error f => rfl
  | ok c =>
    simp only []
    congr 1; funext res
    cases res with
    | none => rfl
    | some x =>
      cases x with
      | error e => cases e; rfl
      | ok g => cases g with
        | none => rfl
        | some vd => cases vd; rfl

end Tcs
