import Tcs.Proofs.HandlerTie.Bodies
namespace Tcs

theorem handlerSrc_addSnapshot (h : HttpCfg) (r : Request) (v : Uuid) :
    HandlerSrc.addSnapshot h r v =
      (if contentType r ≠ SNAP_CT.toUTF8.toList then .done (refuse .badRequest)
       else match clientIdHeader h.allow r with
         | .error f => .done (refuse f)
         | .ok c =>
           match assemble h.params.maxSizeSnap r.chunks ByteArray.empty with
           | none => .done (refuse .badRequest)
           | some body =>
             if body.size = 0 then .done (refuse .badRequest)
             else .txn c (addSnapshot h.params v body r.now) fun
               | none => .done { status := 500 }
               | some (.ok _) => .done { status := 200 }
               | some (.error .noSuchClient) => .done (refuse .notFound)) := by
  unfold HandlerSrc.addSnapshot
  split
  · rfl
  · cases clientIdHeader h.allow r with
    | error f => rfl
    | ok c =>
      simp only [handlerSrc_addSnapshotBody]
      cases assemble h.params.maxSizeSnap r.chunks ByteArray.empty with
      | none => rfl
      | some body =>
        simp only []
        split
        · rfl
        · congr 1; funext res
          cases res with
          | none => rfl
          | some x => cases x with
            | error e => cases e; rfl
            | ok b => rfl

end Tcs
