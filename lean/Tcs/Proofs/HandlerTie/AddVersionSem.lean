import Tcs.Proofs.HandlerTie.AddVersion
namespace Tcs

/-! source tie (add_version handler), **insensitive to the order of the validation steps**: the order in which a
    handler checks the content type, the client id and the body is not part of any property (a request with several
    defects may be refused with the status of any of them – DESIGN 3.3), so the tie does not pin it. -/

/-- the refusals that apply to an upload request -/
def uploadDefects (allow : Option (List Uuid)) (ct : List UInt8) (maxSize : Nat) (r : Request) : List Refusal :=
  (if contentType r ≠ ct then [Refusal.badRequest] else []) ++
  (match clientIdHeader allow r with | .error f => [f] | .ok _ => []) ++
  (match assemble maxSize r.chunks ByteArray.empty with
    | none => [Refusal.badRequest]
    | some b => if b.size = 0 then [Refusal.badRequest] else [])

/-- The AddVersion handler of the current source: a request with no defect runs the retry loop of the model on the
    assembled body under the resolved client id; a request with a defect is refused with the status of one of its
    defects, without any storage access. -/
theorem handlerSrc_addVersion_sem (h : HttpCfg) (hS : h.ensure = ensureClientFixed) (r : Request) (p : Uuid) :
    (uploadDefects h.allow HS_CT.toUTF8.toList h.params.maxSize r = [] →
      ∃ c body, clientIdHeader h.allow r = .ok c ∧ assemble h.params.maxSize r.chunks ByteArray.empty = some body ∧
        HandlerSrc.addVersion h r p = addVersionLoop h.cfg h.ensure c p body r.newId r.now 3) ∧
    (uploadDefects h.allow HS_CT.toUTF8.toList h.params.maxSize r ≠ [] →
      ∃ f ∈ uploadDefects h.allow HS_CT.toUTF8.toList h.params.maxSize r, HandlerSrc.addVersion h r p = .done (refuse f)) := by
  unfold HandlerSrc.addVersion uploadDefects
  simp only [handlerSrc_addVersionBody]
  generalize HS_CT.toUTF8.toList = ct
  by_cases h1 : contentType r = ct <;>
  cases h2 : clientIdHeader h.allow r <;>
  cases h3 : assemble h.params.maxSize r.chunks ByteArray.empty <;>
  first
  | (rename_i body; by_cases h4 : body.size = 0 <;> simp [h1, h4, handlerSrc_loop h hS])
  | simp [h1, handlerSrc_loop h hS]

end Tcs
