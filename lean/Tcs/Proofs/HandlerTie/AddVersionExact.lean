import Tcs.Proofs.HandlerTie.AddVersion
namespace Tcs

/-! the add_version handler of the pinned source, step for step in the order of the model (not registered for any property:
    the order of the validation steps is not part of one – the registered tie is `handlerSrc_addVersion_sem`) -/

theorem handlerSrc_addVersion (h : HttpCfg) (hS : h.ensure = ensureClientFixed) (r : Request) (p : Uuid) :
    HandlerSrc.addVersion h r p =
      (if contentType r ≠ HS_CT.toUTF8.toList then .done (refuse .badRequest)
       else match clientIdHeader h.allow r with
         | .error f => .done (refuse f)
         | .ok c =>
           match assemble h.params.maxSize r.chunks ByteArray.empty with
           | none => .done (refuse .badRequest)
           | some body =>
             if body.size = 0 then .done (refuse .badRequest)
             else addVersionLoop h.cfg h.ensure c p body r.newId r.now 3) := by
  unfold HandlerSrc.addVersion
  split
  · rfl
  · cases clientIdHeader h.allow r with
    | error f => rfl
    | ok c =>
      simp only [handlerSrc_addVersionBody]
      cases assemble h.params.maxSize r.chunks ByteArray.empty with
      | none => rfl
      | some body =>
        simp only []
        split
        · rfl
        · exact handlerSrc_loop h hS r c p body 3

end Tcs
