import Tcs.Generated.HandlerSrc
namespace Tcs

/-! source tie (handlers): terms GENERATED from /repo's current server/src/api/*.rs by tools/handlers2lean.py -/

/-- the route table and the default header are the ones the dispatch above and `serve` were written for -/
theorem handlerSrc_routes :
    HandlerSrc.routes =
      [("GET", "/v1/client/get-child-version/{parent_version_id}", "getChildVersion"),
       ("POST", "/v1/client/add-version/{parent_version_id}", "addVersion"),
       ("POST", "/v1/client/add-snapshot/{version_id}", "addSnapshot"),
       ("GET", "/v1/client/snapshot", "getSnapshot")] ∧
    HandlerSrc.defaultHeaders = [("Cache-Control", CACHE_CONTROL)] := ⟨rfl, rfl⟩

end Tcs
