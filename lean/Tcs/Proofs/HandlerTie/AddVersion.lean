import Tcs.Proofs.HandlerTie.Bodies
namespace Tcs

/-! source tie (add_version handler): retry loop with the create-if-absent transaction, responses (the validation steps
    and the body loop: `AddVersionSem.lean`, `Bodies.lean`) -/

theorem handlerSrc_ensure : HandlerSrc.addVersionEnsure = ensureClientFixed := by
  simp only [HandlerSrc.addVersionEnsure, ensureClientFixed, call, bind, TxnM.bind, pure]
  congr 1; funext r
  cases r <;> rfl

theorem handlerSrc_loop (h : HttpCfg) (hS : h.ensure = ensureClientFixed) (r : Request) (c p : Uuid) (body : Bytes) (fuel : Nat) :
    HandlerSrc.addVersionLoop h r c p body fuel = addVersionLoop h.cfg h.ensure c p body r.newId r.now fuel := by
  induction fuel with
  | zero => rfl
  | succ f ih =>
    simp only [HandlerSrc.addVersionLoop, addVersionLoop]
    congr 1; funext res
    cases res with
    | none => rfl
    | some x =>
      cases x with
      | error e =>
        cases e
        simp only [handlerSrc_ensure, hS, ih]
        first | rfl | (congr 1; funext r2; cases r2 <;> rfl)
      | ok y =>
        obtain ⟨a, u⟩ := y
        cases a with
        | ok v => first | rfl | (cases u <;> rfl)
        | expected l => rfl

end Tcs
