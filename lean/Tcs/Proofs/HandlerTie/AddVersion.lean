import Tcs.Proofs.HandlerTie.Bodies
namespace Tcs

/-! source tie (add_version handler): validation order, body loop, retry loop with the create-if-absent transaction, responses -/

theorem handlerSrc_ensure : HandlerSrc.addVersionEnsure = ensureClientFixed := by
  simp only [HandlerSrc.addVersionEnsure, ensureClientFixed, call, bind, TxnM.bind, pure]
  congr 1; funext r
  cases r <;> rfl

theorem handlerSrc_loop (h : HttpCfg) (hS : h.ensure = ensureClientFixed) (r : Request) (c p : Uuid) (body : Bytes) (fuel : Nat) :
    HandlerSrc.addVersionLoop h r c p body fuel = addVersionLoop h.cfg h.ensure c p body r.newId r.now fuel := by
  induction fuel with
  | zero => rfl
  | succ f ih =>
    simp only [HandlerSrc.addVersionLoop, addVersionLoop]
    congr 1; funext res
    cases res with
    | none => rfl
    | some x =>
      cases x with
      | error e =>
        cases e
        simp only [handlerSrc_ensure, hS, ih]
        first | rfl | (congr 1; funext r2; cases r2 <;> rfl)
      | ok y =>
        obtain ⟨a, u⟩ := y
        cases a with
        | ok v => first | rfl | (cases u <;> rfl)
        | expected l => rfl

theorem handlerSrc_addVersion (h : HttpCfg) (hS : h.ensure = ensureClientFixed) (r : Request) (p : Uuid) :
    HandlerSrc.addVersion h r p =
      (if contentType r ≠ HS_CT.toUTF8.toList then .done (refuse .badRequest)
       else match clientIdHeader h.allow r with
         | .error f => .done (refuse f)
         | .ok c =>
           match assemble h.params.maxSize r.chunks ByteArray.empty with
           | none => .done (refuse .badRequest)
           | some body =>
             if body.size = 0 then .done (refuse .badRequest)
             else addVersionLoop h.cfg h.ensure c p body r.newId r.now 3) := by
  unfold HandlerSrc.addVersion
  split
  · rfl
  · cases clientIdHeader h.allow r with
    | error f => rfl
    | ok c =>
      simp only [handlerSrc_addVersionBody]
      cases assemble h.params.maxSize r.chunks ByteArray.empty with
      | none => rfl
      | some body =>
        simp only []
        split
        · rfl
        · exact handlerSrc_loop h hS r c p body 3

end Tcs
