import Tcs.Generated.HandlerSrc
namespace Tcs

/-! source tie (handlers): terms GENERATED from /repo's current server/src/api/*.rs by tools/handlers2lean.py -/

theorem handlerSrc_getChildVersion (h : HttpCfg) (r : Request) (p : Uuid) :
    HandlerSrc.getChildVersion h r p =
      (match clientIdHeader h.allow r with
       | .error f => .done (refuse f)
       | .ok c =>
         .txn c (getChildVersion p) fun
           | none => .done { status := 500 }
           | some (.ok (.found v)) => .done { status := 200, ctype := some HS_CT, vid := some v.id, pvid := some v.parent, body := v.seg }
           | some (.ok .notFound) => .done (refuse .notFound)
           | some (.ok .gone) => .done { status := 410, ctype := some "text/plain; charset=utf-8" }
           | some (.error .noSuchClient) => .done (refuse .notFound)) := by
  unfold HandlerSrc.getChildVersion
  cases clientIdHeader h.allow r with
  | error f => rfl
  | ok c =>
    simp only []
    congr 1; funext res
    cases res with
    | none => rfl
    | some x =>
      cases x with
      | error e => cases e; rfl
      | ok g => cases g <;> rfl

end Tcs
