import Tcs.Proofs.HandlerTie.AddVersionSem
namespace Tcs

/-- what the AddSnapshot handler does with a request that has no defect -/
def addSnapshotOk (h : HttpCfg) (c v : Uuid) (body : Bytes) (now : Int) : ReqM Response :=
  .txn c (addSnapshot h.params v body now) fun
    | none => .done { status := 500 }
    | some (.ok _) => .done { status := 200 }
    | some (.error .noSuchClient) => .done (refuse .notFound)

/-- The AddSnapshot handler of the current source, insensitive to the order of the validation steps (see
    `handlerSrc_addVersion_sem`). -/
theorem handlerSrc_addSnapshot_sem (h : HttpCfg) (r : Request) (v : Uuid) :
    (uploadDefects h.allow SNAP_CT.toUTF8.toList h.params.maxSizeSnap r = [] →
      ∃ c body, clientIdHeader h.allow r = .ok c ∧ assemble h.params.maxSizeSnap r.chunks ByteArray.empty = some body ∧
        HandlerSrc.addSnapshot h r v = addSnapshotOk h c v body r.now) ∧
    (uploadDefects h.allow SNAP_CT.toUTF8.toList h.params.maxSizeSnap r ≠ [] →
      ∃ f ∈ uploadDefects h.allow SNAP_CT.toUTF8.toList h.params.maxSizeSnap r, HandlerSrc.addSnapshot h r v = .done (refuse f)) := by
  unfold HandlerSrc.addSnapshot uploadDefects
  simp only [handlerSrc_addSnapshotBody]
  generalize SNAP_CT.toUTF8.toList = ct
  by_cases h1 : contentType r = ct <;>
  cases h2 : clientIdHeader h.allow r <;>
  cases h3 : assemble h.params.maxSizeSnap r.chunks ByteArray.empty <;>
  first
  | (rename_i body; by_cases h4 : body.size = 0 <;> simp [h1, h4])
  | simp [h1]
  all_goals (unfold addSnapshotOk; congr 1; funext res; rcases res with _ | (e | b) <;> (try cases e) <;> rfl)

end Tcs
