import Tcs.Generated.HandlerSrc
namespace Tcs

/-! source tie (handlers): terms GENERATED from /repo's current server/src/api/*.rs by tools/handlers2lean.py -/

theorem handlerSrc_clientIdHeader (allow : Option (List Uuid)) (r : Request) :
    HandlerSrc.clientIdHeader allow r = clientIdHeader allow r := by
  unfold HandlerSrc.clientIdHeader clientIdHeader
  cases header r "x-client-id" with
  | none => rfl
  | some v =>
    simp only []
    cases toStr v with
    | none => rfl
    | some s =>
      simp only [Option.bind_some]
      cases parseUuid s with
      | none => rfl
      | some c =>
        simp only []
        cases allow with
        | none => rfl
        | some l =>
          simp only [List.contains_iff_mem, Bool.not_eq_true', decide_eq_false_iff_not]
          by_cases hc : c ∈ l <;> simp [hc]

end Tcs
