import Tcs.Generated.HandlerSrc
namespace Tcs

/-- `WebServer::new` hands the allow-list it is given to the handlers unchanged (no statement before the state is
    built, the field is the parameter itself): an empty list stays an empty list, i.e. refuses everyone (C16) -/
theorem handlerSrc_webNew :
    HandlerSrc.webNew = [("before", ""), ("ServerState.server", "Server::new(config,storage)"),
                         ("ServerState.client_id_allowlist", "client_id_allowlist")] := rfl

end Tcs
