import Tcs.Model.Rows
import Tcs.Proofs.CodecProofs
namespace Tcs

/-! The row encoding round-trips: what the pinned release wrote, the current decoder reads back exactly. -/

/-- every id in the tables is a 128-bit value (which is what a `Uuid` is in the Rust code) -/
def Sql.Ids128 (s : Sql) : Prop :=
  (∀ r ∈ s.clients, r.clientId.val < 2 ^ 128 ∧ r.latest.val < 2 ^ 128 ∧ ∀ v, r.snapVid = some v → v.val < 2 ^ 128) ∧
  (∀ r ∈ s.versions, r.versionId.val < 2 ^ 128 ∧ r.clientId.val < 2 ^ 128 ∧ r.parent.val < 2 ^ 128)

theorem decode_encode_clientRow (r : ClientRow)
    (h : r.clientId.val < 2 ^ 128 ∧ r.latest.val < 2 ^ 128 ∧ ∀ v, r.snapVid = some v → v.val < 2 ^ 128) :
    decodeClientRow (encodeClientRow r) = some r := by
  obtain ⟨h1, h2, h3⟩ := h
  unfold decodeClientRow encodeClientRow
  simp only [parse_hyphenated _ h1, parse_hyphenated _ h2]
  cases hsv : r.snapVid with
  | none => cases r; simp_all [decodeOptId]
  | some v =>
    have := parse_hyphenated v (h3 v hsv)
    cases r; simp_all [decodeOptId]

theorem decode_encode_versionRow (r : VersionRow)
    (h : r.versionId.val < 2 ^ 128 ∧ r.clientId.val < 2 ^ 128 ∧ r.parent.val < 2 ^ 128) :
    decodeVersionRow (encodeVersionRow r) = some r := by
  obtain ⟨h1, h2, h3⟩ := h
  unfold decodeVersionRow encodeVersionRow
  simp only [parse_hyphenated _ h1, parse_hyphenated _ h2, parse_hyphenated _ h3]

theorem mapM_decode {α β} (enc : α → β) (dec : β → Option α) (l : List α) (h : ∀ x ∈ l, dec (enc x) = some x) :
    (l.map enc).mapM dec = some l := by
  induction l with
  | nil => rfl
  | cons x xs ih =>
    simp only [List.map_cons, List.mapM_cons, h x (by simp), ih (fun y hy => h y (by simp [hy]))]
    rfl

/-- **C19 (encoding).** Decoding the stored form of any database state gives back exactly that state -/
theorem C19_row_roundtrip (s : Sql) (h : s.Ids128) : decodeDb (encodeDb s) = some s := by
  unfold decodeDb encodeDb
  simp only
  rw [mapM_decode encodeClientRow decodeClientRow s.clients (fun r hr => decode_encode_clientRow r (h.1 r hr)),
      mapM_decode encodeVersionRow decodeVersionRow s.versions (fun r hr => decode_encode_versionRow r (h.2 r hr))]

/-- the stored form determines the state: two states with the same rows on disk are the same state -/
theorem C19_encode_injective (s s' : Sql) (h : s.Ids128) (h' : s'.Ids128) (he : encodeDb s = encodeDb s') : s = s' := by
  have h1 := C19_row_roundtrip s h
  have h2 := C19_row_roundtrip s' h'
  rw [he, h2] at h1
  exact (Option.some.inj h1).symm

end Tcs
