import Tcs.Proofs.LinSpec
import Tcs.Proofs.Impl
import Tcs.Model.Sem.Conc
namespace Tcs

/-! The transaction-atomic execution of the *programs* (`Ev.req`, the model of the handlers) on a
    concrete backend is, step for step, the machine of `ConcSpec` on the abstract storage –
    provided every id the server draws is fresh at the moment it is drawn. -/

variable {σ : Type}

/-! ### extracting one transaction from a request-level run lemma -/

theorem runC_txn_done {α β : Type} (mode : TxnMode) (c : Uuid) (body : TxnM β) (k : Option β → ReqM α) (a a' : AS) (o : α)
    (hk : ∀ r, ∃ o', k r = .done o')
    (h : (ReqM.txn c body k).runC ASB mode a = (o, a', true)) :
    ∃ x, body.run ASB mode c a = (some x, a') ∧ k (some x) = .done o := by
  simp only [ReqM.runC] at h
  obtain ⟨o', ho'⟩ := hk (body.run ASB mode c a).1
  rw [ho'] at h
  simp only [ReqM.runC, Bool.true_and, Prod.mk.injEq] at h
  obtain ⟨h1, h2, h3⟩ := h
  obtain ⟨x, hx⟩ := Option.isSome_iff_exists.mp h3
  refine ⟨x, Prod.ext hx h2, ?_⟩
  rw [← hx, ho', h1]

theorem one_txn {α : Type} (mode : TxnMode) (c : Uuid) (body : TxnM (Except SrvErr α)) (f : α → Out) (a a' : AS) (o : Out)
    (h : (one c body f).runC ASB mode a = (o, a', true)) :
    ∃ k x, one c body f = .txn c body k ∧ body.run ASB mode c a = (some x, a') ∧ k (some x) = .done o := by
  unfold one at h ⊢
  obtain ⟨x, hx, hk⟩ := runC_txn_done mode c body _ a a' o (by
    intro r
    match r with
    | none => exact ⟨_, rfl⟩
    | some (.ok a) => exact ⟨_, rfl⟩
    | some (.error .noSuchClient) => exact ⟨_, rfl⟩) h
  exact ⟨_, x, rfl, hx, hk⟩

/-! ### threads of the atomic semantics vs phases of the machine -/

inductive ThPh (S : Sys) : Ev → Th σ Out → Phase → Prop
  | idle (e : Ev) : ThPh S e (.idle (e.req S)) .idle
  | ready (e : Ev) : ThPh S e (.outside (e.req S)) .ready
  | needCreate (c p : Uuid) (seg : Bytes) (n : Uuid) (now : Int) (k : Option Unit → ReqM Out)
      (hk : k (some ()) = avReq S.cfg S.ensure c p seg n now 2) :
      ThPh S (.av c p seg n now) (.outside (.txn c S.ensure k)) .needCreate
  | retry (c p : Uuid) (seg : Bytes) (n : Uuid) (now : Int) :
      ThPh S (.av c p seg n now) (.outside (avReq S.cfg S.ensure c p seg n now 2)) .retry
  | answered (e : Ev) (o : Out) : ThPh S e (.outside (.done o)) (.answered o)
  | finished (e : Ev) (o : Out) : ThPh S e (.finished o) (.finished o)

structure ARel (I : Impl σ) (S : Sys) (evs : List Ev) (A : Atomic σ Out) (m : MState) : Prop where
  rep : I.Rep A.db
  abs : I.abs A.db = m.a
  th : ∀ (t : Nat) (e : Ev), evs[t]? = some e →
    ∃ (x : Th σ Out) (ph : Phase), A.threads[t]? = some x ∧ m.ph[t]? = some ph ∧ ThPh S e x ph
  lenA : A.threads.length = evs.length
  lenM : m.ph.length = evs.length

theorem arel_set (I : Impl σ) (S : Sys) (evs : List Ev) (A : Atomic σ Out) (m : MState) (h : ARel I S evs A m)
    (t : Nat) (e : Ev) (he : evs[t]? = some e) (x' : Th σ Out) (ph' : Phase) (hx : ThPh S e x' ph')
    (db' : σ) (a' : AS) (log' : List Act) (hrep : I.Rep db') (habs : I.abs db' = a') :
    ARel I S evs ⟨db', A.threads.set t x'⟩ ⟨a', m.ph.set t ph', log'⟩ := by
  obtain ⟨x0, ph0, hx0, hp0, _⟩ := h.th t e he
  refine ⟨hrep, habs, ?_, by simp [h.lenA], by simp [h.lenM]⟩
  intro u e' he'
  by_cases hut : u = t
  · subst hut
    rw [he] at he'; cases he'
    exact ⟨x', ph', getElem?_set_eq' _ _ _ _ hx0, getElem?_set_eq' _ _ _ _ hp0, hx⟩
  · obtain ⟨x1, ph1, hx1, hp1, hr1⟩ := h.th u e' he'
    refine ⟨x1, ph1, ?_, ?_, hr1⟩
    · show (A.threads.set t x')[u]? = _
      rw [getElem?_set_ne' _ _ _ _ (Ne.symm hut)]; exact hx1
    · show (m.ph.set t ph')[u]? = _
      rw [getElem?_set_ne' _ _ _ _ (Ne.symm hut)]; exact hp1

theorem stepAtomic_txn (B : Backend σ) (mode : TxnMode) (A : Atomic σ Out) (t : Nat) {β : Type} (cl : Uuid) (body : TxnM β)
    (k : Option β → ReqM Out) (h : A.threads[t]? = some (.outside (.txn cl body k))) :
    stepAtomic B mode A t =
      some { db := (body.run B mode cl A.db).2, threads := A.threads.set t (.outside (k (body.run B mode cl A.db).1)) } := by
  simp [stepAtomic, h]

/-- what the machine needs to know about itself besides `ARel` -/
structure MFacts (evs : List Ev) (m : MState) (seen : List Uuid) : Prop where
  inv : Inv m.a
  seen : Seen m.a seen
  retry : ∀ (t : Nat) (e : Ev) (c : Uuid), evs[t]? = some e → e.client = some c → m.ph[t]? = some Phase.retry →
    (m.a.st c).client ≠ none

/-- one step of thread `t` on both sides -/
theorem arel_step (I : Impl σ) (S : Sys) (hS : S.ensure = ensureClientFixed) (evs : List Ev)
    (hmix : ReqMix evs) (A : Atomic σ Out) (m : MState) (seen : List Uuid)
    (h : ARel I S evs A m) (hf : MFacts evs m seen) (t : Nat) (m' : MState) (hs : MStep S evs m t m')
    (hfresh : ∀ e, evs[t]? = some e → m'.log = m.log ++ [.lin t] → FreshEv e seen) :
    ∃ A', stepAtomic I.B I.mode A t = some A' ∧ ARel I S evs A' m' := by
  cases hs with
  | invoke e he hp =>
    obtain ⟨x, ph, hx, hp', hr⟩ := h.th t e he
    rw [hp] at hp'; cases hp'
    cases hr
    refine ⟨⟨A.db, A.threads.set t (.outside (e.req S))⟩, by simp [stepAtomic, hx], ?_⟩
    exact arel_set I S evs A m h t e he _ _ (.ready e) A.db m.a _ h.rep h.abs
  | respond e he o hp =>
    obtain ⟨x, ph, hx, hp', hr⟩ := h.th t e he
    rw [hp] at hp'; cases hp'
    cases hr
    refine ⟨⟨A.db, A.threads.set t (.finished o)⟩, by simp [stepAtomic, hx], ?_⟩
    exact arel_set I S evs A m h t e he _ _ (.finished e o) A.db m.a _ h.rep h.abs
  | create e he hp =>
    obtain ⟨x, ph, hx, hp', hr⟩ := h.th t e he
    rw [hp] at hp'; cases hp'
    cases hr with
    | needCreate c p seg n now k hk =>
      have hcr := as_create S hS I.mode c (I.abs A.db)
      obtain ⟨x, hx1, _⟩ := runC_txn_done I.mode c S.ensure _ _ _ _ (by
        intro r
        match r with
        | none => exact ⟨_, rfl⟩
        | some () => exact ⟨_, rfl⟩) hcr
      cases x
      obtain ⟨s', q1, q2, q3⟩ := sim_run I.sim I.mode c S.ensure A.db h.rep () _ hx1
      refine ⟨_, stepAtomic_txn I.B I.mode A t c S.ensure k hx, ?_⟩
      rw [q1]
      simp only
      rw [hk]
      refine arel_set I S evs A m h t _ he _ _ (.retry c p seg n now) s' _ _ q3 ?_
      rw [q2, h.abs]
      rfl
  | toCreate e he ph hp hph hn =>
    obtain ⟨x, ph', hx, hp', hr⟩ := h.th t e he
    rw [hp] at hp'; cases hp'
    obtain ⟨c, hc⟩ := reqMix_client hmix e (List.mem_of_getElem? he)
    have hnone := needsCreate_true e m.a c hc hn
    rcases hph with rfl | rfl
    · cases hr
      have hav := needsCreate_isAv e m.a hn
      cases e with
      | av c' p seg n now =>
        simp only [Ev.client, Option.some.injEq] at hc
        subst hc
        have h1 := as_run_addVersion_nsc S.cfg c' p seg n now (I.abs A.db) (by rw [h.abs]; exact hnone)
        have h2 := run_of_runSt ASB I.mode c' _ _ _ _ _ h1
        obtain ⟨s', q1, q2, q3⟩ := sim_run I.sim I.mode c' _ A.db h.rep _ _ h2
        have hreq : (Ev.av c' p seg n now).req S = avReq S.cfg S.ensure c' p seg n now (2 + 1) := rfl
        rw [hreq, avReq] at hx
        refine ⟨_, stepAtomic_txn I.B I.mode A t c' _ _ hx, ?_⟩
        rw [q1]
        simp only
        refine arel_set I S evs A m h t _ he _ _ (.needCreate c' p seg n now _ rfl) s' _ _ q3 ?_
        rw [q2, h.abs]
      | _ => simp [Ev.isAv] at hav
    · exact absurd hnone (hf.retry t e c he hc hp)
  | lin e he ph hp hph hn =>
    obtain ⟨x, ph', hx, hp', hr⟩ := h.th t e he
    rw [hp] at hp'; cases hp'
    have hereq := reqMix_mem hmix e (List.mem_of_getElem? he)
    have hfr := hfresh e he rfl
    have hidfresh : ∀ n, e.drawn = some n → n ∉ (I.abs A.db).ids := by
      intro n hn' hmem
      have := hfr
      simp only [FreshEv, hn'] at this
      rw [h.abs] at hmem
      exact this.2.1 (hf.seen.ids n hmem)
    have hinv : Inv (I.abs A.db) := by rw [h.abs]; exact hf.inv
    -- single-transaction requests
    have single : ∀ {α : Type} (c : Uuid) (body : TxnM (Except SrvErr α)) (f : α → Out),
        A.threads[t]? = some (.outside (one c body f)) →
        (one c body f).runC ASB I.mode (I.abs A.db) = ((asStep S e (I.abs A.db)).1, (asStep S e (I.abs A.db)).2, true) →
        linStep S e m.a = asStep S e m.a →
        ∃ A', stepAtomic I.B I.mode A t = some A' ∧
          ARel I S evs A' ⟨(linStep S e m.a).2, m.ph.set t (.answered (linStep S e m.a).1), m.log ++ [.lin t]⟩ := by
      intro α c body f hx' hrun hlin
      obtain ⟨k, x, hk1, hk2, hk3⟩ := one_txn I.mode c body f _ _ _ hrun
      obtain ⟨s', q1, q2, q3⟩ := sim_run I.sim I.mode c body A.db h.rep x _ hk2
      rw [hk1] at hx'
      refine ⟨_, stepAtomic_txn I.B I.mode A t c body k hx', ?_⟩
      rw [q1]
      simp only
      rw [hk3, hlin, ← h.abs]
      exact arel_set I S evs A m h t e he _ _ (.answered e _) s' _ _ q3 q2
    cases e with
    | gcv c p =>
      have hx' : A.threads[t]? = some (.outside ((Ev.gcv c p).req S)) := by
        rcases hph with rfl | rfl <;> cases hr <;> exact hx
      exact single c _ _ hx' (as_gcv S I.mode c p _) rfl
    | gs c =>
      have hx' : A.threads[t]? = some (.outside ((Ev.gs c).req S)) := by
        rcases hph with rfl | rfl <;> cases hr <;> exact hx
      exact single c _ _ hx' (as_gs S I.mode c _ (hinv.each c)) rfl
    | «as» c v d now =>
      have hx' : A.threads[t]? = some (.outside ((Ev.as c v d now).req S)) := by
        rcases hph with rfl | rfl <;> cases hr <;> exact hx
      exact single c _ _ hx' (as_as S I.mode c v d now _) rfl
    | avLib c p seg n now =>
      have hx' : A.threads[t]? = some (.outside ((Ev.avLib c p seg n now).req S)) := by
        rcases hph with rfl | rfl <;> cases hr <;> exact hx
      exact single c _ _ hx' (as_avLib S I.mode c p seg n now _ (hinv.each c) (hidfresh n rfl)) rfl
    | create c => simp [Ev.isHttp, Ev.isLib] at hereq
    | reopen => simp [Ev.isHttp, Ev.isLib] at hereq
    | av c p seg n now =>
      -- the client exists: one transaction, the library AddVersion
      have hsome : (m.a.st c).client ≠ none := by
        rcases needsCreate_false (.av c p seg n now) m.a c rfl hn with h1 | h1
        · exact h1
        · simp [Ev.isAv] at h1
      obtain ⟨cl, hcl⟩ := Option.ne_none_iff_exists'.mp hsome
      have hcl' : ((I.abs A.db).st c).client = some cl := by rw [h.abs]; exact hcl
      have hx' : ∃ fuel, A.threads[t]? = some (.outside (avReq S.cfg S.ensure c p seg n now (fuel + 1))) := by
        rcases hph with rfl | rfl
        · cases hr; exact ⟨2, hx⟩
        · cases hr; exact ⟨1, hx⟩
      obtain ⟨fuel, hx'⟩ := hx'
      rw [avReq] at hx'
      have hlinS : linStep S (.av c p seg n now) m.a = asStep S (.avLib c p seg n now) m.a := rfl
      by_cases hcf : cl.latest ≠ Uuid.nil ∧ p ≠ cl.latest
      · have h1 := as_run_addVersion_conflict S.cfg c p seg n now (I.abs A.db) cl hcl' hcf
        have h2 := run_of_runSt ASB I.mode c _ _ _ _ _ h1
        obtain ⟨s', q1, q2, q3⟩ := sim_run I.sim I.mode c _ A.db h.rep _ _ h2
        refine ⟨_, stepAtomic_txn I.B I.mode A t c _ _ hx', ?_⟩
        rw [q1]
        simp only
        have hout : asStep S (.avLib c p seg n now) m.a = (.avConflict cl.latest, m.a) := by
          simp [asStep, Ev.client, cstep, cAddVersion, hcl, hcf.1, hcf.2, addedId, upd_self]
        rw [hlinS, hout]
        refine arel_set I S evs A m h t _ he _ _ (.answered _ _) s' _ _ q3 ?_
        rw [q2, h.abs]
      · have hid : n ∉ (I.abs A.db).ids := hidfresh n rfl
        have hch := no_child_of_accept _ (hinv.each c) cl hcl' p hcf
        have h1 := as_run_addVersion_ok S.cfg c p seg n now (I.abs A.db) cl hcl' hcf hid hch
        have h2 := run_of_runSt ASB I.mode c _ _ _ _ _ h1
        obtain ⟨s', q1, q2, q3⟩ := sim_run I.sim I.mode c _ A.db h.rep _ _ h2
        refine ⟨_, stepAtomic_txn I.B I.mode A t c _ _ hx', ?_⟩
        rw [q1]
        simp only
        have h' : (cl.latest ≠ Uuid.nil && p ≠ cl.latest) = false := by
          by_cases h1 : cl.latest = Uuid.nil
          · simp [h1]
          · by_cases h2 : p = cl.latest
            · simp [h2]
            · exact absurd ⟨h1, h2⟩ hcf
        have hout : asStep S (.avLib c p seg n now) m.a =
            (.avOk n (urgency S.cfg now cl.snap), asAdded m.a c cl n p seg) := by
          simp only [asStep, Ev.client, cstep, cAddVersion, hcl, h', Bool.false_eq_true, ↓reduceIte, addedId, asAdded, cAdded]
        rw [hlinS, hout]
        refine arel_set I S evs A m h t _ he _ _ (.answered _ _) s' _ _ q3 ?_
        rw [q2, h.abs]


/-! ### the facts about the machine alone -/

theorem seenAfter_linEv (e : Ev) (seen : List Uuid) : seenAfter (linEv e) seen = seenAfter e seen := by
  cases e <;> rfl

theorem freshEv_linEv (e : Ev) (seen : List Uuid) : FreshEv (linEv e) seen ↔ FreshEv e seen := by
  cases e <;> exact Iff.rfl

theorem mstep_ev (S : Sys) (evs : List Ev) (m m' : MState) (t : Nat) (hs : MStep S evs m t m') : ∃ e, evs[t]? = some e := by
  cases hs <;> exact ⟨_, ‹_›⟩

theorem mfacts_step (S : Sys) (evs : List Ev) (m : MState) (seen : List Uuid) (hf : MFacts evs m seen) (t : Nat) (m' : MState)
    (hs : MStep S evs m t m') (b' : AS) (hrel' : LinRel evs m' b')
    (hfresh : ∀ e, evs[t]? = some e → m'.log = m.log ++ [.lin t] → FreshEv e seen) :
    (m'.log ≠ m.log ++ [.lin t] → MFacts evs m' seen) ∧
    (m'.log = m.log ++ [.lin t] → ∀ e, evs[t]? = some e → MFacts evs m' (seenAfter e seen)) := by
  have hne : ∀ (x : Act), x ≠ Act.lin t → m.log ++ [x] ≠ m.log ++ [Act.lin t] := by
    intro x hx h; exact hx (by simpa using h)
  have hne2 : m.log ≠ m.log ++ [Act.lin t] := by
    intro h; have := congrArg List.length h; simp at this
  cases hs with
  | invoke e he hp =>
    exact ⟨fun _ => ⟨hf.inv, hf.seen, hrel'.retry⟩, fun h => absurd h (hne _ (by simp))⟩
  | respond e he o hp =>
    exact ⟨fun _ => ⟨hf.inv, hf.seen, hrel'.retry⟩, fun h => absurd h (hne _ (by simp))⟩
  | toCreate e he ph hp hph hn =>
    exact ⟨fun _ => ⟨hf.inv, hf.seen, hrel'.retry⟩, fun h => absurd h hne2⟩
  | create e he hp =>
    refine ⟨fun _ => ⟨?_, ?_, hrel'.retry⟩, fun h => absurd h hne2⟩
    · show Inv (createStep S e m.a)
      unfold createStep
      cases hc : e.client with
      | none => exact hf.inv
      | some c => exact (inv_asStep S (.create c) m.a seen hf.inv hf.seen (by simp [FreshEv, Ev.drawn])).1
    · show Seen (createStep S e m.a) seen
      unfold createStep
      cases hc : e.client with
      | none => exact hf.seen
      | some c =>
        refine ⟨?_, ?_⟩
        · intro i hi
          rw [asStep_ids S (.create c) m.a c rfl] at hi
          simp only [cstep, addedId, List.append_nil] at hi
          exact hf.seen.ids i hi
        · intro d hd
          by_cases hdc : d = c
          · subst hdc
            rw [asStep_same S (.create d) m.a d rfl] at hd ⊢
            simp only [cstep, cCreate_versions] at hd ⊢
            exact hf.seen.base d hd
          · rw [asStep_other S (.create c) m.a c d rfl hdc] at hd ⊢
            exact hf.seen.base d hd
  | lin e he ph hp hph hn =>
    refine ⟨fun h => absurd rfl h, fun _ e' he' => ?_⟩
    rw [he] at he'; cases he'
    have hfr := hfresh e he rfl
    have := inv_asStep S (linEv e) m.a seen hf.inv hf.seen ((freshEv_linEv e seen).2 hfr)
    rw [← linStep_eq, seenAfter_linEv] at this
    exact ⟨this.1, this.2, hrel'.retry⟩

theorem atomic_none (I : Impl σ) (S : Sys) (evs : List Ev) (A : Atomic σ Out) (m : MState) (h : ARel I S evs A m) (t : Nat)
    (hm : mstep S evs m t = none) : stepAtomic I.B I.mode A t = none := by
  cases he : evs[t]? with
  | none =>
    have : A.threads[t]? = none := by
      rw [List.getElem?_eq_none_iff] at he ⊢
      rw [h.lenA]; exact he
    simp [stepAtomic, this]
  | some e =>
    obtain ⟨x, ph, hx, hp, hr⟩ := h.th t e he
    unfold mstep at hm
    simp only [he, hp] at hm
    cases hr with
    | finished e o => simp [stepAtomic, hx]
    | idle e => simp at hm
    | ready e => simp only at hm; split at hm <;> cases hm
    | needCreate c p seg n now k hk => simp at hm
    | retry c p seg n now => simp only at hm; split at hm <;> cases hm
    | answered e o => simp at hm

/-! ### whole runs -/

/-- the threads linearized during the run of `sch` from `m`, in order -/
def newLin (S : Sys) (evs : List Ev) : MState → List Nat → List Nat
  | _, [] => []
  | m, t :: ts =>
    match mstep S evs m t with
    | none => newLin S evs m ts
    | some m' => (if m'.log = m.log ++ [.lin t] then [t] else []) ++ newLin S evs m' ts

def evsOf (evs : List Ev) (l : List Nat) : List Ev := l.filterMap (evs[·]?)

theorem linOrder_mrun (S : Sys) (evs : List Ev) (m : MState) (sch : List Nat) :
    linOrder (mrun S evs m sch).log = linOrder m.log ++ newLin S evs m sch := by
  induction sch generalizing m with
  | nil => simp [mrun, newLin]
  | cons t ts ih =>
    unfold mrun newLin
    cases hm : mstep S evs m t with
    | none => exact ih m
    | some m' =>
      simp only
      rw [ih m']
      have hs := mstep_rel S evs m m' t hm
      have hne : ∀ (x : Act), x ≠ Act.lin t → m.log ++ [x] ≠ m.log ++ [Act.lin t] := by
        intro x hx h; exact hx (by simpa using h)
      have hne2 : m.log ≠ m.log ++ [Act.lin t] := by
        intro h; have := congrArg List.length h; simp at this
      cases hs with
      | invoke e he hp => simp [hne, linOrder_append]
      | respond e he o hp => simp [hne, linOrder_append]
      | toCreate e he ph hp hph hn => simp [hne2]
      | create e he hp => simp [hne2]
      | lin e he ph hp hph hn => simp [linOrder_append]

theorem mrun_cons_none (S : Sys) (evs : List Ev) (m : MState) (t : Nat) (ts : List Nat) (h : mstep S evs m t = none) :
    mrun S evs m (t :: ts) = mrun S evs m ts := by
  rw [mrun, h]
theorem mrun_cons_some (S : Sys) (evs : List Ev) (m m' : MState) (t : Nat) (ts : List Nat) (h : mstep S evs m t = some m') :
    mrun S evs m (t :: ts) = mrun S evs m' ts := by
  rw [mrun, h]
theorem newLin_cons_none (S : Sys) (evs : List Ev) (m : MState) (t : Nat) (ts : List Nat) (h : mstep S evs m t = none) :
    newLin S evs m (t :: ts) = newLin S evs m ts := by
  rw [newLin, h]
theorem newLin_cons_some (S : Sys) (evs : List Ev) (m m' : MState) (t : Nat) (ts : List Nat) (h : mstep S evs m t = some m') :
    newLin S evs m (t :: ts) = (if m'.log = m.log ++ [.lin t] then [t] else []) ++ newLin S evs m' ts := by
  rw [newLin, h]

theorem newLin_append (S : Sys) (evs : List Ev) (m : MState) (s1 s2 : List Nat) :
    newLin S evs m (s1 ++ s2) = newLin S evs m s1 ++ newLin S evs (mrun S evs m s1) s2 := by
  induction s1 generalizing m with
  | nil => simp [mrun, newLin]
  | cons t ts ih =>
    simp only [List.cons_append]
    cases hm : mstep S evs m t with
    | none => rw [newLin_cons_none _ _ _ _ _ hm, newLin_cons_none _ _ _ _ _ hm, mrun_cons_none _ _ _ _ _ hm]; exact ih m
    | some m' =>
      rw [newLin_cons_some _ _ _ _ _ _ hm, newLin_cons_some _ _ _ _ _ _ hm, mrun_cons_some _ _ _ _ _ _ hm, ih m']
      simp

theorem mrun_append (S : Sys) (evs : List Ev) (m : MState) (s1 s2 : List Nat) :
    mrun S evs m (s1 ++ s2) = mrun S evs (mrun S evs m s1) s2 := by
  induction s1 generalizing m with
  | nil => rfl
  | cons t ts ih =>
    simp only [List.cons_append]
    cases hm : mstep S evs m t with
    | none => rw [mrun_cons_none _ _ _ _ _ hm, mrun_cons_none _ _ _ _ _ hm]; exact ih m
    | some m' => rw [mrun_cons_some _ _ _ _ _ _ hm, mrun_cons_some _ _ _ _ _ _ hm]; exact ih m'

theorem runAtomic_append (B : Backend σ) (mode : TxnMode) {ρ : Type} (a : Atomic σ ρ) (s1 s2 : List Nat) :
    runAtomic B mode a (s1 ++ s2) = runAtomic B mode (runAtomic B mode a s1) s2 := by
  induction s1 generalizing a with
  | nil => rfl
  | cons t ts ih =>
    simp only [List.cons_append]
    cases hm : stepAtomic B mode a t with
    | none =>
      have h1 : ∀ l, runAtomic B mode a (t :: l) = runAtomic B mode a l := by intro l; rw [runAtomic, hm]
      rw [h1, h1]; exact ih a
    | some a' =>
      have h1 : ∀ l, runAtomic B mode a (t :: l) = runAtomic B mode a' l := by intro l; rw [runAtomic, hm]
      rw [h1, h1]; exact ih a'

theorem fresh_append (l1 l2 : List Ev) (seen : List Uuid) (h : Fresh (l1 ++ l2) seen) :
    Fresh l1 seen ∧ ∃ seen', Fresh l2 seen' ∧ ∀ x ∈ seen, x ∈ seen' := by
  induction l1 generalizing seen with
  | nil => exact ⟨trivial, seen, h, fun _ hx => hx⟩
  | cons e es ih =>
    simp only [List.cons_append, Fresh] at h ⊢
    obtain ⟨h1, seen', h2, h3⟩ := ih _ h.2
    exact ⟨⟨h.1, h1⟩, seen', h2, fun x hx => h3 x (by simp [seenAfter, hx])⟩

/-- the lock-step run: atomic programs on the backend vs the machine, as long as drawn ids are fresh -/
theorem arel_run (I : Impl σ) (S : Sys) (hS : S.ensure = ensureClientFixed) (evs : List Ev)
    (hmix : ReqMix evs) (a0 : AS) (sch : List Nat) (A : Atomic σ Out) (m : MState) (seen : List Uuid)
    (h : ARel I S evs A m) (hf : MFacts evs m seen) (hls : LinState S evs a0 m)
    (hfresh : Fresh (evsOf evs (newLin S evs m sch)) seen) :
    ARel I S evs (runAtomic I.B I.mode A sch) (mrun S evs m sch) := by
  induction sch generalizing A m seen with
  | nil => exact h
  | cons t ts ih =>
    unfold runAtomic mrun
    unfold newLin at hfresh
    cases hm : mstep S evs m t with
    | none =>
      rw [atomic_none I S evs A m h t hm]
      rw [hm] at hfresh
      exact ih A m seen h hf hls hfresh
    | some m' =>
      rw [hm] at hfresh
      simp only at hfresh ⊢
      have hs := mstep_rel S evs m m' t hm
      have hls' := linstate_step S evs hmix a0 m t m' hls hs
      obtain ⟨b', _, _, hrel', _⟩ := hls'.sim
      obtain ⟨e, he⟩ := mstep_ev S evs m m' t hs
      by_cases hl : m'.log = m.log ++ [.lin t]
      · simp only [hl, ↓reduceIte, List.singleton_append] at hfresh
        have hev : evsOf evs (t :: newLin S evs m' ts) = e :: evsOf evs (newLin S evs m' ts) := by
          simp [evsOf, he]
        rw [hev] at hfresh
        have hfr : ∀ e', evs[t]? = some e' → m'.log = m.log ++ [.lin t] → FreshEv e' seen := by
          intro e' he' _; rw [he] at he'; cases he'; exact hfresh.1
        obtain ⟨A', hA, hrel⟩ := arel_step I S hS evs hmix A m seen h hf t m' hs hfr
        rw [hA]
        exact ih A' m' _ hrel ((mfacts_step S evs m seen hf t m' hs b' hrel' hfr).2 hl e he) hls' hfresh.2
      · simp only [hl, ↓reduceIte, List.nil_append] at hfresh
        have hfr : ∀ e', evs[t]? = some e' → m'.log = m.log ++ [.lin t] → FreshEv e' seen := by
          intro e' _ h'; exact absurd h' hl
        obtain ⟨A', hA, hrel⟩ := arel_step I S hS evs hmix A m seen h hf t m' hs hfr
        rw [hA]
        exact ih A' m' _ hrel ((mfacts_step S evs m seen hf t m' hs b' hrel' hfr).1 hl) hls' hfresh


/-! ### the same with the freshness facts supplied step by step -/

/-- ids that have appeared once the events `l` have happened -/
def seenFold (seen0 : List Uuid) : List Ev → List Uuid
  | [] => seen0
  | e :: es => seenFold (seenAfter e seen0) es

theorem seenFold_snoc (seen0 : List Uuid) (l : List Ev) (e : Ev) :
    seenFold seen0 (l ++ [e]) = seenAfter e (seenFold seen0 l) := by
  induction l generalizing seen0 with
  | nil => rfl
  | cons x xs ih => simp only [List.cons_append, seenFold]; exact ih _

theorem fresh_snoc (l : List Ev) (e : Ev) (seen0 : List Uuid) :
    Fresh (l ++ [e]) seen0 ↔ Fresh l seen0 ∧ FreshEv e (seenFold seen0 l) := by
  induction l generalizing seen0 with
  | nil => simp [Fresh, seenFold]
  | cons x xs ih => simp only [List.cons_append, Fresh, seenFold, ih, and_assoc]

theorem mem_seenAfter (e : Ev) (seen : List Uuid) (x : Uuid) :
    x ∈ seenAfter e seen ↔ (x ∈ e.argIds ∨ e.drawn = some x) ∨ x ∈ seen := by
  simp only [seenAfter, List.mem_append]
  cases hd : e.drawn with
  | none => simp
  | some n => simp [eq_comm]

theorem mem_seenFold (seen0 : List Uuid) (l : List Ev) (x : Uuid) :
    x ∈ seenFold seen0 l ↔ x ∈ seen0 ∨ ∃ e ∈ l, x ∈ e.argIds ∨ e.drawn = some x := by
  induction l generalizing seen0 with
  | nil => simp [seenFold]
  | cons e es ih =>
    simp only [seenFold, ih, mem_seenAfter, List.mem_cons, exists_eq_or_imp]
    constructor
    · rintro ((h | h) | h)
      · exact .inr (.inl h)
      · exact .inl h
      · exact .inr (.inr h)
    · rintro (h | h | h)
      · exact .inl (.inr h)
      · exact .inl (.inl h)
      · exact .inr h

def seenAt (seen0 : List Uuid) (evs : List Ev) (m : MState) : List Uuid := seenFold seen0 (evsOf evs (linOrder m.log))

theorem mstep_linOrder (S : Sys) (evs : List Ev) (m m' : MState) (t : Nat) (hs : MStep S evs m t m') :
    (m'.log = m.log ++ [.lin t] ∧ linOrder m'.log = linOrder m.log ++ [t]) ∨
    (m'.log ≠ m.log ++ [.lin t] ∧ linOrder m'.log = linOrder m.log) := by
  have hne : ∀ (x : Act), x ≠ Act.lin t → m.log ++ [x] ≠ m.log ++ [Act.lin t] := by
    intro x hx h; exact hx (by simpa using h)
  have hne2 : m.log ≠ m.log ++ [Act.lin t] := by
    intro h; have := congrArg List.length h; simp at this
  cases hs with
  | invoke e he hp => exact .inr ⟨hne _ (by simp), by simp [linOrder_append]⟩
  | respond e he o hp => exact .inr ⟨hne _ (by simp), by simp [linOrder_append]⟩
  | toCreate e he ph hp hph hn => exact .inr ⟨hne2, rfl⟩
  | create e he hp => exact .inr ⟨hne2, rfl⟩
  | lin e he ph hp hph hn => exact .inl ⟨rfl, by simp [linOrder_append]⟩

/-- everything the lock-step run maintains -/
structure RunInv (I : Impl σ) (S : Sys) (evs : List Ev) (a0 : AS) (seen0 : List Uuid) (A : Atomic σ Out) (m : MState) : Prop where
  arel : ARel I S evs A m
  facts : MFacts evs m (seenAt seen0 evs m)
  lin : LinState S evs a0 m
  fresh : Fresh (evsOf evs (linOrder m.log)) seen0

theorem evsOf_snoc (evs : List Ev) (l : List Nat) (t : Nat) (e : Ev) (he : evs[t]? = some e) :
    evsOf evs (l ++ [t]) = evsOf evs l ++ [e] := by
  simp [evsOf, List.filterMap_append, he]

theorem runinv_step (I : Impl σ) (S : Sys) (hS : S.ensure = ensureClientFixed) (evs : List Ev)
    (hmix : ReqMix evs) (a0 : AS) (seen0 : List Uuid) (A : Atomic σ Out) (m : MState)
    (h : RunInv I S evs a0 seen0 A m) (t : Nat) (m' : MState) (hm : mstep S evs m t = some m')
    (hfr : m'.log = m.log ++ [.lin t] → ∀ e, evs[t]? = some e → FreshEv e (seenAt seen0 evs m)) :
    ∃ A', stepAtomic I.B I.mode A t = some A' ∧ RunInv I S evs a0 seen0 A' m' := by
  have hs := mstep_rel S evs m m' t hm
  have hls' := linstate_step S evs hmix a0 m t m' h.lin hs
  obtain ⟨b', _, _, hrel', _⟩ := hls'.sim
  obtain ⟨e, he⟩ := mstep_ev S evs m m' t hs
  have hfr' : ∀ e', evs[t]? = some e' → m'.log = m.log ++ [.lin t] → FreshEv e' (seenAt seen0 evs m) :=
    fun e' he' hl => hfr hl e' he'
  obtain ⟨A', hA, hrel⟩ := arel_step I S hS evs hmix A m _ h.arel h.facts t m' hs hfr'
  have hmf := mfacts_step S evs m _ h.facts t m' hs b' hrel' hfr'
  refine ⟨A', hA, hrel, ?_, hls', ?_⟩
  · rcases mstep_linOrder S evs m m' t hs with ⟨hl, hlo⟩ | ⟨hl, hlo⟩
    · have : seenAt seen0 evs m' = seenAfter e (seenAt seen0 evs m) := by
        simp only [seenAt, hlo, evsOf_snoc evs _ t e he, seenFold_snoc]
      rw [this]; exact hmf.2 hl e he
    · have : seenAt seen0 evs m' = seenAt seen0 evs m := by simp only [seenAt, hlo]
      rw [this]; exact hmf.1 hl
  · rcases mstep_linOrder S evs m m' t hs with ⟨hl, hlo⟩ | ⟨hl, hlo⟩
    · rw [hlo, evsOf_snoc evs _ t e he, fresh_snoc]
      exact ⟨h.fresh, hfr hl e he⟩
    · rw [hlo]; exact h.fresh

theorem runAtomic_cons_none (B : Backend σ) (mode : TxnMode) {ρ : Type} (a : Atomic σ ρ) (t : Nat) (l : List Nat)
    (h : stepAtomic B mode a t = none) : runAtomic B mode a (t :: l) = runAtomic B mode a l := by rw [runAtomic, h]
theorem runAtomic_cons_some (B : Backend σ) (mode : TxnMode) {ρ : Type} (a a' : Atomic σ ρ) (t : Nat) (l : List Nat)
    (h : stepAtomic B mode a t = some a') : runAtomic B mode a (t :: l) = runAtomic B mode a' l := by rw [runAtomic, h]

/-- the lock-step run, with the freshness of each drawn id supplied at the step that uses it (the supplier may use
    everything established up to that step) -/
theorem runinv_run (I : Impl σ) (S : Sys) (hS : S.ensure = ensureClientFixed) (evs : List Ev)
    (hmix : ReqMix evs) (a0 : AS) (seen0 : List Uuid) (sch : List Nat) (A : Atomic σ Out) (m : MState)
    (h : RunInv I S evs a0 seen0 A m)
    (hcb : ∀ s1 t s2, sch = s1 ++ t :: s2 →
      RunInv I S evs a0 seen0 (runAtomic I.B I.mode A s1) (mrun S evs m s1) →
      ∀ m' e, mstep S evs (mrun S evs m s1) t = some m' → m'.log = (mrun S evs m s1).log ++ [.lin t] → evs[t]? = some e →
        FreshEv e (seenAt seen0 evs (mrun S evs m s1))) :
    RunInv I S evs a0 seen0 (runAtomic I.B I.mode A sch) (mrun S evs m sch) := by
  induction sch generalizing A m with
  | nil => exact h
  | cons t ts ih =>
    cases hm : mstep S evs m t with
    | none =>
      rw [mrun_cons_none _ _ _ _ _ hm, runAtomic_cons_none _ _ _ _ _ (atomic_none I S evs A m h.arel t hm)]
      refine ih A m h ?_
      intro s1 t' s2 hs hri m' e hm' hl he
      have := hcb (t :: s1) t' s2 (by rw [hs]; rfl)
      rw [mrun_cons_none _ _ _ _ _ hm, runAtomic_cons_none _ _ _ _ _ (atomic_none I S evs A m h.arel t hm)] at this
      exact this hri m' e hm' hl he
    | some m' =>
      obtain ⟨A', hA, hri'⟩ := runinv_step I S hS evs hmix a0 seen0 A m h t m' hm
        (fun hl e he => hcb [] t ts rfl h m' e hm hl he)
      rw [mrun_cons_some _ _ _ _ _ _ hm, runAtomic_cons_some _ _ _ _ _ _ hA]
      refine ih A' m' hri' ?_
      intro s1 t' s2 hs hri m'' e hm'' hl he
      have := hcb (t :: s1) t' s2 (by rw [hs]; rfl)
      rw [mrun_cons_some _ _ _ _ _ _ hm, runAtomic_cons_some _ _ _ _ _ _ hA] at this
      exact this hri m'' e hm'' hl he

/-- … and at every prefix of the schedule -/
theorem runinv_prefix (I : Impl σ) (S : Sys) (hS : S.ensure = ensureClientFixed) (evs : List Ev)
    (hmix : ReqMix evs) (a0 : AS) (seen0 : List Uuid) (sch : List Nat) (A : Atomic σ Out) (m : MState)
    (h : RunInv I S evs a0 seen0 A m)
    (hcb : ∀ s1 t s2, sch = s1 ++ t :: s2 →
      RunInv I S evs a0 seen0 (runAtomic I.B I.mode A s1) (mrun S evs m s1) →
      ∀ m' e, mstep S evs (mrun S evs m s1) t = some m' → m'.log = (mrun S evs m s1).log ++ [.lin t] → evs[t]? = some e →
        FreshEv e (seenAt seen0 evs (mrun S evs m s1)))
    (p q : List Nat) (hpq : sch = p ++ q) :
    RunInv I S evs a0 seen0 (runAtomic I.B I.mode A p) (mrun S evs m p) := by
  refine runinv_run I S hS evs hmix a0 seen0 p A m h ?_
  intro s1 t s2 hs
  exact hcb s1 t (s2 ++ q) (by rw [hpq, hs]; simp)

/-! ### threads of the atomic semantics only move forward -/

def Th.isIdle {ρ : Type} : Th σ ρ → Bool | .idle _ => true | _ => false
def Th.isFinished {ρ : Type} : Th σ ρ → Bool | .finished _ => true | _ => false

theorem stepAtomic_mono (B : Backend σ) (mode : TxnMode) {ρ : Type} (a a' : Atomic σ ρ) (t : Nat)
    (h : stepAtomic B mode a t = some a') (u : Nat) :
    (∀ x, a.threads[u]? = some x → x.isIdle = false → ∃ y, a'.threads[u]? = some y ∧ y.isIdle = false) ∧
    (∀ x, a.threads[u]? = some x → x.isFinished = true → ∃ y, a'.threads[u]? = some y ∧ y.isFinished = true) := by
  unfold stepAtomic at h
  cases hth : a.threads[t]? with
  | none => simp [hth] at h
  | some th =>
    rw [hth] at h
    have key : ∀ (z : Th σ ρ) (db : σ), z.isIdle = false → th.isFinished = false →
        a' = ⟨db, a.threads.set t z⟩ →
        (∀ x, a.threads[u]? = some x → x.isIdle = false → ∃ y, a'.threads[u]? = some y ∧ y.isIdle = false) ∧
        (∀ x, a.threads[u]? = some x → x.isFinished = true → ∃ y, a'.threads[u]? = some y ∧ y.isFinished = true) := by
      intro z db hz hfin ha'
      subst ha'
      by_cases hut : u = t
      · subst hut
        refine ⟨fun x _ _ => ⟨z, getElem?_set_eq' _ _ _ _ hth, hz⟩, fun x hx hxf => ?_⟩
        rw [hth] at hx; cases hx
        rw [hfin] at hxf; cases hxf
      · refine ⟨fun x hx hxi => ⟨x, ?_, hxi⟩, fun x hx hxf => ⟨x, ?_, hxf⟩⟩ <;>
        · show (a.threads.set t z)[u]? = _
          rw [getElem?_set_ne' _ _ _ _ (Ne.symm hut)]; exact hx
    cases th with
    | idle p => simp only [Option.some.injEq] at h; exact key _ a.db rfl rfl h.symm
    | finished r => simp at h
    | inTxn cl st body k => simp at h
    | outside p =>
      cases p with
      | done r => simp only [Option.some.injEq] at h; exact key _ a.db rfl rfl h.symm
      | txn cl body k => simp only [Option.some.injEq] at h; exact key _ _ rfl rfl h.symm

theorem runAtomic_mono (B : Backend σ) (mode : TxnMode) {ρ : Type} (a : Atomic σ ρ) (sch : List Nat) (u : Nat) :
    (∀ x, a.threads[u]? = some x → x.isIdle = false →
      ∃ y, (runAtomic B mode a sch).threads[u]? = some y ∧ y.isIdle = false) ∧
    (∀ x, a.threads[u]? = some x → x.isFinished = true →
      ∃ y, (runAtomic B mode a sch).threads[u]? = some y ∧ y.isFinished = true) := by
  induction sch generalizing a with
  | nil => exact ⟨fun x hx hi => ⟨x, hx, hi⟩, fun x hx hf => ⟨x, hx, hf⟩⟩
  | cons t ts ih =>
    cases hst : stepAtomic B mode a t with
    | none => rw [runAtomic_cons_none _ _ _ _ _ hst]; exact ih a
    | some a' =>
      rw [runAtomic_cons_some _ _ _ _ _ _ hst]
      have h1 := stepAtomic_mono B mode a a' t hst u
      have h2 := ih a'
      refine ⟨fun x hx hi => ?_, fun x hx hf => ?_⟩
      · obtain ⟨y, hy, hyi⟩ := h1.1 x hx hi; exact h2.1 y hy hyi
      · obtain ⟨y, hy, hyf⟩ := h1.2 x hx hf; exact h2.2 y hy hyf

end Tcs
