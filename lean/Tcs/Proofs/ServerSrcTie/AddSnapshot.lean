import Tcs.Generated.ServerSrc
import Tcs.Generated.ParamsImpl
namespace Tcs

/-! source tie, `core/src/server.rs`: see `ServerSrcTie/GetChild.lean` for what the tie says; one module per operation, so that a change to
    one operation of the source leaves the ties of the others standing -/

theorem snapWalk_succ (v : Uuid) (last : Option Uuid) (fuel : Nat) (vid : Uuid) :
    snapWalk v last (fuel + 1) vid =
      (if vid = v && v ≠ Uuid.nil then .ret true
       else if some vid = last then .ret false
       else if fuel = 0 || vid = Uuid.nil then .ret false
       else .call (.getVersion vid) fun r =>
         match r with
         | some ver => snapWalk v last fuel ver.parent
         | none => .ret false) := by
  rw [snapWalk]
  simp only [call, bind, TxnM.bind, pure]
  rfl

/-- what follows the walk in `add_snapshot`: store the snapshot and commit, or decline -/
def snapCont (v : Uuid) (data : Bytes) (now : Int) (b : Bool) : TxnM (Except SrvErr Bool) :=
  if b then .call (.setSnapshot ⟨v, now, 0⟩ data) fun _ => .call .commit fun _ => .ret (.ok true)
  else .ret (.ok false)

/-- the loop of `add_snapshot`, as generated (budget `k + 1`, enough fuel), is the model's walk followed by the
    accept / decline step -/
theorem serverSrc_loop (n : Nat) (v : Uuid) (data : Bytes) (now : Int) (client : Client) (last : Option Uuid)
    (k fuel : Nat) (vid : Uuid) (hf : k + 1 ≤ fuel) :
    ServerSrc.addSnapshotLoop n v data now client last fuel ((k + 1 : Nat) : Int) vid =
      (snapWalk v last (k + 1) vid).bind (snapCont v data now) := by
  induction k generalizing fuel vid with
  | zero =>
    cases fuel with
    | zero => omega
    | succ f =>
      rw [snapWalk_succ]
      simp only [ServerSrc.addSnapshotLoop]
      by_cases h1 : vid = v ∧ ¬ v = Uuid.nil
      · simp [h1, TxnM.bind, snapCont]
      · by_cases h2 : some vid = last
        · simp [h1, h2, TxnM.bind, snapCont]
        · simp [h1, h2, TxnM.bind, snapCont]
  | succ k ih =>
    cases fuel with
    | zero => omega
    | succ f =>
      have hsl : ((k + 1 + 1 : Nat) : Int) - 1 = ((k + 1 : Nat) : Int) := by omega
      have hpos : ¬ (((k + 1 : Nat) : Int) ≤ 0) := by omega
      rw [snapWalk_succ]
      simp only [ServerSrc.addSnapshotLoop, hsl]
      by_cases h1 : vid = v ∧ ¬ v = Uuid.nil
      · simp [h1, TxnM.bind, snapCont]
      · by_cases h2 : some vid = last
        · simp [h1, h2, TxnM.bind, snapCont]
        · by_cases h3 : vid = Uuid.nil
          · have h1' : ¬ (Uuid.nil = v ∧ ¬ v = Uuid.nil) := by
              rintro ⟨e1, e2⟩; exact e2 e1.symm
            have h2' : ¬ some Uuid.nil = last := by rw [← h3]; exact h2
            simp [h3, h1', h2', TxnM.bind, snapCont]
          · simp only [Bool.and_eq_true, decide_eq_true_eq, Bool.or_eq_true, decide_not, Bool.not_eq_eq_eq_not, Bool.not_true,
              decide_eq_false_iff_not, ne_eq, h1, h2, h3, hpos, ↓reduceIte, or_self,
              Nat.add_eq_zero_iff, Nat.succ_ne_self, and_false, call, bind, TxnM.bind]
            congr 1; funext r
            cases r with
            | none => simp [TxnM.bind, snapCont]
            | some parent => exact ih f parent.parent (by omega)

/-- `add_snapshot` as generated from the source is the model's program, for every window ≥ 1 (with a window of 0 the
    source would still accept a snapshot for the latest version itself, the model would not: recorded, irrelevant for
    the constant in the source, which `C10_window_five` ties to 5) -/
theorem serverSrc_addSnapshot (P : Params) (h1 : 1 ≤ P.searchLen) (v : Uuid) (data : Bytes) (now : Int) :
    ServerSrc.addSnapshot P.searchLen v data now = addSnapshot P v data now := by
  simp only [ServerSrc.addSnapshot, addSnapshot, call, bind, TxnM.bind, pure]
  congr 1; funext r
  cases r with
  | none => rfl
  | some client =>
    simp only []
    by_cases hl : some v = client.snap.map (·.vid)
    · simp [hl]
    · simp only [hl, decide_false, Bool.false_eq_true, ↓reduceIte]
      obtain ⟨k, hk⟩ : ∃ k, P.searchLen = k + 1 := ⟨P.searchLen - 1, by omega⟩
      rw [hk, serverSrc_loop (k + 1) v data now client _ k (k + 1 + 1) client.latest (by omega)]
      congr 1

/-- … in particular for the window extracted from the source -/
theorem serverSrc_addSnapshot_impl (v : Uuid) (data : Bytes) (now : Int) :
    ServerSrc.addSnapshot Params.impl.searchLen v data now = addSnapshot Params.impl v data now :=
  serverSrc_addSnapshot Params.impl (by decide) v data now

end Tcs
