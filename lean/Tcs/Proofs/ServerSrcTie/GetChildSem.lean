import Tcs.Generated.ServerSrc
import Tcs.Proofs.NoWrite
namespace Tcs

/-! source tie, `Server::get_child_version`, **insensitive to the order of its two reads**: on a backend whose two
    look-ups always succeed and change nothing (both shipped backends: `readsOk_sql`, `readsOk_mem`), the program
    translated from the current source and the program of the model return the same value and leave the same
    transaction state, from every state. (GetChildVersion writes nothing, so which of the two reads comes first – or
    whether the second is made at all when there is no such client – is not observable by any property; the exact,
    step-for-step tie of the pinned source is `ServerSrcTie/GetChild.lean`.) -/

variable {σ : Type}

/-- the two look-ups of GetChildVersion succeed and leave the state alone -/
def ReadsOk (B : Backend σ) : Prop :=
  ∀ (cl : Uuid) (s : σ), (∃ r, B.exec cl .getClient s = (.ok r, s)) ∧ ∀ p, ∃ r, B.exec cl (.getByParent p) s = (.ok r, s)

theorem readsOk_sql : ReadsOk SqlB := by
  intro cl s
  refine ⟨?_, fun p => ?_⟩ <;> simp only [SqlB, Sql.exec] <;> (repeat' split) <;> exact ⟨_, rfl⟩

theorem readsOk_mem : ReadsOk MemB := by
  intro cl s
  refine ⟨?_, fun p => ?_⟩ <;> simp only [MemB, Mem.exec] <;> (repeat' split) <;> exact ⟨_, rfl⟩

theorem serverSrc_getChildVersion_sem (B : Backend σ) (hB : ReadsOk B) (cl p : Uuid) (st : TxnSt σ) :
    (ServerSrc.getChildVersion p).runSt B cl st = (getChildVersion p).runSt B cl st := by
  obtain ⟨⟨r1, h1⟩, h2'⟩ := hB cl st.working
  obtain ⟨r2, h2⟩ := h2' p
  have e1 : stepCall B cl .getClient st = .cont r1 st := by simp [stepCall, h1]
  have e2 : stepCall B cl (.getByParent p) st = .cont r2 st := by simp [stepCall, h2]
  simp only [ServerSrc.getChildVersion, getChildVersion, bind, TxnM.bind, call, pure, TxnM.runSt, e1, e2]
  cases r1 <;> cases r2 <;> simp only [TxnM.runSt, e1, e2] <;> (try split) <;> simp_all [TxnM.runSt]

theorem serverSrc_getChildVersion_sem_sql (cl p : Uuid) (st : TxnSt Sql) :
    (ServerSrc.getChildVersion p).runSt SqlB cl st = (getChildVersion p).runSt SqlB cl st :=
  serverSrc_getChildVersion_sem SqlB readsOk_sql cl p st

theorem serverSrc_getChildVersion_sem_mem (cl p : Uuid) (st : TxnSt Mem) :
    (ServerSrc.getChildVersion p).runSt MemB cl st = (getChildVersion p).runSt MemB cl st :=
  serverSrc_getChildVersion_sem MemB readsOk_mem cl p st

end Tcs
