import Tcs.Generated.ServerSrc
import Tcs.Generated.ParamsImpl
namespace Tcs

/-! source tie, `core/src/server.rs`: see `ServerSrcTie/GetChild.lean` for what the tie says; one module per operation, so that a change to
    one operation of the source leaves the ties of the others standing. The proof decides the acceptance test by cases on
    its two comparisons, so it goes through for any logically equivalent spelling of the test (`a ≠ nil && p ≠ a`,
    `!(a == nil || p == a)`, …), not only for the one the pinned source uses. -/

theorem serverSrc_addVersion (cfg : Config) (p : Uuid) (seg : Bytes) (newId : Uuid) (now : Int) :
    ServerSrc.addVersion cfg p seg newId now = addVersion cfg p seg newId now := by
  simp only [ServerSrc.addVersion, addVersion, call, bind, TxnM.bind, pure]
  congr 1; funext r
  cases r with
  | none => rfl
  | some client =>
    by_cases h1 : client.latest = Uuid.nil <;> by_cases h2 : p = client.latest <;>
      simp [h1, h2, urgency] <;>
      (try (first
        | rfl
        | (congr 1; funext _; congr 1; funext _; cases client.snap <;> rfl)))

end Tcs
