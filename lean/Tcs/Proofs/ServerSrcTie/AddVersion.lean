import Tcs.Generated.ServerSrc
import Tcs.Generated.ParamsImpl
namespace Tcs

/-! source tie, `core/src/server.rs`: see `ServerSrcTie/GetChild.lean` for what the tie says; one module per operation, so that a change to
    one operation of the source leaves the ties of the others standing -/

theorem serverSrc_addVersion (cfg : Config) (p : Uuid) (seg : Bytes) (newId : Uuid) (now : Int) :
    ServerSrc.addVersion cfg p seg newId now = addVersion cfg p seg newId now := by
  simp only [ServerSrc.addVersion, addVersion, call, bind, TxnM.bind, pure]
  congr 1; funext r
  cases r with
  | none => rfl
  | some client =>
    simp only [Bool.and_eq_true, decide_eq_true_eq]
    split
    · rfl
    · congr 1; funext _
      congr 1; funext _
      simp only [urgency]
      cases client.snap <;> rfl

end Tcs
