import Tcs.Generated.ServerSrc
import Tcs.Generated.ParamsImpl
namespace Tcs


/-! **The tie between `core/src/server.rs` and the protocol programs of the model.** The definitions
    `ServerSrc.*` are GENERATED from /repo's current source, statement by statement
    (`tools/server2lean.py`); the theorems say they are the hand-written programs of
    `Model/Server.lean`, on which every protocol theorem (C01, C02, C07 – C13, C18, C03 …) rests. -/


theorem serverSrc_getChildVersion (p : Uuid) : ServerSrc.getChildVersion p = getChildVersion p := by
  simp only [ServerSrc.getChildVersion, getChildVersion, call, bind, TxnM.bind, pure]
  congr 1

end Tcs
