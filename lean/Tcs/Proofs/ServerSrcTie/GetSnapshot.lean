import Tcs.Generated.ServerSrc
import Tcs.Generated.ParamsImpl
namespace Tcs

/-! source tie, `core/src/server.rs`: see `ServerSrcTie/GetChild.lean` for what the tie says; one module per operation, so that a change to
    one operation of the source leaves the ties of the others standing -/

theorem serverSrc_getSnapshot : ServerSrc.getSnapshot = getSnapshot := by
  simp only [ServerSrc.getSnapshot, getSnapshot, call, bind, TxnM.bind, pure]
  congr 1; funext r
  cases r with
  | none => rfl
  | some client =>
    simp only []
    cases client.snap with
    | none => rfl
    | some s =>
      simp only []
      congr 1; funext r2
      cases r2 <;> rfl

end Tcs
