import Tcs.Generated.CliSrc
import Tcs.Generated.ParamsImpl
import Tcs.Model.Config
namespace Tcs

/-! The tie between the clap declarations in the binary's source and the resolution model. The
    argument specifications and the wiring of `main` are GENERATED from /repo's current source
    (`tools/clap2lean.py`); `resolveSpec` is clap's resolution rule driven by such specifications
    (command line over environment over default; values split at the delimiter; a required argument
    without a value is a usage error; the last occurrence of a single-valued argument wins). -/

def findArg (l : List ArgSpec) (n : String) : Option ArgSpec := l.find? (·.long = n)

/-- raw values of an argument under its specification -/
def specRaw (s : ArgSpec) (flag : List String) (env : Option String) : Option (List String) :=
  rawValues flag (if s.env.isSome then env else none) (s.delimiter == some ',')

/-- what a declared numeric default stands for: the literal of `ServerConfig::default()` as extracted from the source -/
def defaultNat : Option String → Option Nat
  | some "ServerConfig::default().snapshot_versions" => some ParamsImpl.defaultVersions
  | some "ServerConfig::default().snapshot_days" => some ParamsImpl.defaultDays
  | _ => none

def specLast (s : ArgSpec) (flag : List String) (env : Option String) : Option String :=
  (specRaw s flag env).bind (·.getLast?)

def specVersions (v : ArgSpec) (c : Cli) : Option Nat :=
  match specLast v c.versionsFlag c.versionsEnv with
  | none => defaultNat v.default
  | some s => parseU32 s

def specDays (y : ArgSpec) (c : Cli) : Option Int :=
  match specLast y c.daysFlag c.daysEnv with
  | none => (defaultNat y.default).map Int.ofNat
  | some s => parseI64 s

def specAllow (a : ArgSpec) (c : Cli) : Option (Option (List Uuid)) :=
  match specRaw a c.allowFlag c.allowEnv with
  | none => some none
  | some ids => (ids.mapM fun (s : String) => parseUuid s.toUTF8.toList).map some

def specDir (d : ArgSpec) (c : Cli) : Option String :=
  match specLast d c.dataDirFlag c.dataDirEnv with
  | some v => some v
  | none => d.default

def resolveSpec (specs : List ArgSpec) (c : Cli) : Option ServerArgs :=
  match findArg specs "listen", findArg specs "data-dir", findArg specs "allow-client-id",
        findArg specs "snapshot-versions", findArg specs "snapshot-days" with
  | some l, some d, some a, some v, some y =>
    (specRaw l c.listenFlag c.listenEnv).bind fun listen =>       -- `get_many("listen").unwrap()`
    (specVersions v c).bind fun versions =>
    (specDays y c).bind fun days =>
    (specAllow a c).bind fun allow =>
    (specDir d c).map fun dir =>
      { dataDir := dir, snapshotVersions := versions, snapshotDays := days, allow := allow, listen := listen }
  | _, _, _, _, _ => none

/-- the declarations are the ones the model (and the harness that feeds it flags and environment variables by these
    names) was written for -/
theorem cliSrc_args : CliSrc.args =
    [ { long := "listen", short := some 'l', env := some "LISTEN", delimiter := some ',', append := true, required := true, default := none, parser := "string" },
      { long := "data-dir", short := some 'd', env := some "DATA_DIR", default := some "/var/lib/taskchampion-sync-server", parser := "os_string" },
      { long := "allow-client-id", short := some 'C', env := some "CLIENT_ID", delimiter := some ',', append := true, parser := "Uuid" },
      { long := "snapshot-versions", env := some "SNAPSHOT_VERSIONS", default := some "ServerConfig::default().snapshot_versions", parser := "u32" },
      { long := "snapshot-days", env := some "SNAPSHOT_DAYS", default := some "ServerConfig::default().snapshot_days", parser := "i64" } ] := rfl

/-- `ServerArgs::new` reads each field from the argument of that name; `main` hands the resolved targets to
    `ServerConfig`, the resolved allow-list and a `SqliteStorage` on the resolved directory to `WebServer::new`, and
    binds every resolved listen address with `?` (which is what `httpCfgOf` and `startup` say). The wiring is a finite map,
    listed in sorted order: the order in which the source writes the fields of a struct literal is not part of it -/
theorem cliSrc_wiring : CliSrc.wiring =
    [("ServerArgs.client_id_allowlist", "arg:allow-client-id"),
     ("ServerArgs.data_dir", "arg:data-dir"),
     ("ServerArgs.listen_addresses", "arg:listen"),
     ("ServerArgs.snapshot_days", "arg:snapshot-days"),
     ("ServerArgs.snapshot_versions", "arg:snapshot-versions"),
     ("ServerConfig.snapshot_days", "server_args.snapshot_days"),
     ("ServerConfig.snapshot_versions", "server_args.snapshot_versions"),
     ("WebServer::new.0", "config"),
     ("WebServer::new.1", "server_args.client_id_allowlist"),
     ("WebServer::new.2", "SqliteStorage::new(server_args.data_dir)?"),
     ("bind", "each:server_args.listen_addresses:?")] := rfl

/-- **the resolution model is clap's rule applied to the declarations in the source** (delimiters, required,
    defaults – the numeric ones taken from `ServerConfig::default()` as extracted from the source –, which arguments
    read the environment) -/
theorem cliSrc_resolve (c : Cli) : resolveSpec CliSrc.args c = resolve c := by
  have f1 : findArg CliSrc.args "listen" = some (CliSrc.args[0]) := by decide
  have f2 : findArg CliSrc.args "data-dir" = some (CliSrc.args[1]) := by decide
  have f3 : findArg CliSrc.args "allow-client-id" = some (CliSrc.args[2]) := by decide
  have f4 : findArg CliSrc.args "snapshot-versions" = some (CliSrc.args[3]) := by decide
  have f5 : findArg CliSrc.args "snapshot-days" = some (CliSrc.args[4]) := by decide
  have hl : specRaw CliSrc.args[0] c.listenFlag c.listenEnv = rawValues c.listenFlag c.listenEnv true := rfl
  have hv : specVersions CliSrc.args[3] c = versionsOf c := by
    simp only [specVersions, versionsOf, specLast, single]
    show (match (rawValues c.versionsFlag c.versionsEnv false).bind (·.getLast?) with | none => _ | some s => _) = _
    cases (rawValues c.versionsFlag c.versionsEnv false).bind (·.getLast?) <;> rfl
  have hy : specDays CliSrc.args[4] c = daysOf c := by
    simp only [specDays, daysOf, specLast, single]
    show (match (rawValues c.daysFlag c.daysEnv false).bind (·.getLast?) with | none => _ | some s => _) = _
    cases (rawValues c.daysFlag c.daysEnv false).bind (·.getLast?) <;> rfl
  have ha : specAllow CliSrc.args[2] c = allowOf c := rfl
  have hd : ∀ x, specDir CliSrc.args[1] c = some x ↔ (single c.dataDirFlag c.dataDirEnv).getD DEFAULT_DATA_DIR = x := by
    intro x
    simp only [specDir, specLast, single]
    show (match (rawValues c.dataDirFlag c.dataDirEnv false).bind (·.getLast?) with | some v => some v | none => _) = _ ↔ _
    cases (rawValues c.dataDirFlag c.dataDirEnv false).bind (·.getLast?) <;> simp [DEFAULT_DATA_DIR, CliSrc.args]
  simp only [resolveSpec, f1, f2, f3, f4, f5, hl, hv, hy, ha, resolve]
  cases rawValues c.listenFlag c.listenEnv true <;> simp only [Option.bind_none, Option.bind_some]
  cases versionsOf c <;> simp only [Option.bind_none, Option.bind_some]
  cases daysOf c <;> simp only [Option.bind_none, Option.bind_some]
  cases allowOf c <;> simp only [Option.bind_none, Option.bind_some]
  cases h : specDir CliSrc.args[1] c with
  | none =>
    exfalso
    simp only [specDir, specLast] at h
    revert h
    show (match (rawValues c.dataDirFlag c.dataDirEnv false).bind (·.getLast?) with | some v => some v | none => _) = none → False
    cases (rawValues c.dataDirFlag c.dataDirEnv false).bind (·.getLast?) <;> simp [CliSrc.args]
  | some x =>
    have := (hd x).1 h
    simp [this]

end Tcs
