import Tcs.Spec.Abs
namespace Tcs

/-! Simulation of the in-memory backend `Mem` by the abstract storage `AS`. -/

section AL
variable {κ ν : Type} [DecidableEq κ]

theorem alLookup_nil (k : κ) : alLookup ([] : List (κ × ν)) k = none := rfl

theorem alLookup_cons (e : κ × ν) (m : List (κ × ν)) (k : κ) :
    alLookup (e :: m) k = if e.1 = k then some e.2 else alLookup m k := by
  unfold alLookup
  by_cases h : e.1 = k <;> simp [h]

theorem alLookup_eq_none {m : List (κ × ν)} {k : κ} :
    alLookup m k = none ↔ ∀ e ∈ m, e.1 ≠ k := by
  induction m with
  | nil => simp [alLookup_nil]
  | cons e m ih =>
    rw [alLookup_cons]
    by_cases h : e.1 = k <;> simp [h, ih]

theorem alLookup_append_none (m : List (κ × ν)) (k k' : κ) (v : ν) :
    alLookup (m ++ [(k, v)]) k' = (alLookup m k').or (if k' = k then some v else none) := by
  induction m with
  | nil =>
    simp only [List.nil_append, alLookup_cons, alLookup_nil]
    by_cases h : k = k'
    · simp [h]
    · have : ¬ k' = k := fun h' => h h'.symm
      simp [h, this]
  | cons e m ih =>
    simp only [List.cons_append, alLookup_cons, ih]
    by_cases h : e.1 = k' <;> simp [h]

theorem alLookup_map_replace (m : List (κ × ν)) (k k' : κ) (v : ν) :
    alLookup (m.map (fun e => if e.1 = k then (k, v) else e)) k' =
      if k' = k then (alLookup m k).map (fun _ => v) else alLookup m k' := by
  induction m with
  | nil => simp [alLookup_nil]
  | cons e m ih =>
    simp only [List.map_cons, alLookup_cons, ih]
    by_cases h1 : e.1 = k
    · by_cases h2 : k' = k
      · subst h2; simp [h1]
      · have : ¬ k = k' := fun h' => h2 h'.symm
        have h3 : ¬ e.1 = k' := by rw [h1]; exact this
        simp [h1, h2, this]
    · by_cases h2 : k' = k
      · subst h2; simp [h1]
      · simp [h1, h2]

theorem alLookup_alInsert (m : List (κ × ν)) (k k' : κ) (v : ν) :
    alLookup (alInsert m k v).1 k' = if k' = k then some v else alLookup m k' := by
  unfold alInsert
  cases h : alLookup m k with
  | none =>
    simp only [alLookup_append_none]
    by_cases h2 : k' = k
    · subst h2; simp [h]
    · simp [h2]
  | some old =>
    simp only [alLookup_map_replace, h]
    by_cases h2 : k' = k <;> simp [h2]

theorem alInsert_of_none {m : List (κ × ν)} {k : κ} (v : ν) (h : alLookup m k = none) :
    alInsert m k v = (m ++ [(k, v)], none) := by
  unfold alInsert; rw [h]

theorem alLookup_of_mem {m : List (κ × ν)} (hnd : (m.map (·.1)).Nodup) {e : κ × ν} (he : e ∈ m) :
    alLookup m e.1 = some e.2 := by
  induction m with
  | nil => cases he
  | cons x m ih =>
    rw [alLookup_cons]
    simp only [List.map_cons, List.nodup_cons] at hnd
    by_cases hx : x.1 = e.1
    · rcases List.mem_cons.mp he with rfl | he'
      · simp
      · exact absurd (hx ▸ List.mem_map_of_mem (f := (·.1)) he') hnd.1
    · rcases List.mem_cons.mp he with rfl | he'
      · exact absurd rfl hx
      · simp only [hx, if_false]; exact ih hnd.2 he'

end AL

abbrev VEntry := (Uuid × Uuid) × Version

/-- the parent index, as determined by `Mem.Rep` -/
def childrenOf (vs : List VEntry) : List ((Uuid × Uuid) × Uuid) :=
  vs.map (fun e => ((e.1.1, e.2.parent), e.1.2))

def absVersions (vs : List VEntry) (cl : Uuid) : List Version :=
  (vs.filter (·.1.1 = cl)).map (·.2)

theorem childrenOf_lookup (vs : List VEntry) (cl p : Uuid) :
    alLookup (childrenOf vs) (cl, p) =
      (vs.find? (fun e => e.1.1 = cl ∧ e.2.parent = p)).map (·.1.2) := by
  induction vs with
  | nil => rfl
  | cons e vs ih =>
    simp only [childrenOf, List.map_cons, alLookup_cons, List.find?_cons] at ih ⊢
    rw [ih]
    by_cases h : e.1.1 = cl ∧ e.2.parent = p
    · simp [h]
    · have : ¬ (e.1.1, e.2.parent) = (cl, p) := by simpa using h
      simp [h, this]

theorem absVersions_findParent (vs : List VEntry) (cl p : Uuid) :
    (absVersions vs cl).find? (·.parent = p) =
      (vs.find? (fun e => e.1.1 = cl ∧ e.2.parent = p)).map (·.2) := by
  induction vs with
  | nil => rfl
  | cons e vs ih =>
    simp only [absVersions, List.filter_cons, List.find?_cons] at ih ⊢
    by_cases h1 : e.1.1 = cl
    · by_cases h2 : e.2.parent = p
      · simp [h1, h2]
      · simp [h1, h2, ih]
    · simp [h1, ih]

theorem getByParent_eq (vs : List VEntry) (cl p : Uuid) (hnd : (vs.map (·.1)).Nodup) :
    (match alLookup (childrenOf vs) (cl, p) with
      | some vid => alLookup vs (cl, vid)
      | none => none) = (absVersions vs cl).find? (·.parent = p) := by
  rw [childrenOf_lookup, absVersions_findParent]
  cases hf : vs.find? (fun e => e.1.1 = cl ∧ e.2.parent = p) with
  | none => rfl
  | some e =>
    have hmem := List.mem_of_find?_eq_some hf
    have hp := List.find?_some hf
    simp only [decide_eq_true_eq] at hp
    simp only [Option.map_some]
    have := alLookup_of_mem hnd hmem
    rw [← hp.1]
    exact this

theorem getVersion_eq (vs : List VEntry) (cl v : Uuid) (hid : ∀ e ∈ vs, e.2.id = e.1.2) :
    (absVersions vs cl).find? (·.id = v) = alLookup vs (cl, v) := by
  induction vs with
  | nil => rfl
  | cons e vs ih =>
    have ih := ih (fun x hx => hid x (List.mem_cons_of_mem _ hx))
    have he := hid e List.mem_cons_self
    simp only [absVersions, List.filter_cons, alLookup_cons] at ih ⊢
    by_cases h1 : e.1.1 = cl
    · by_cases h2 : e.1.2 = v
      · have : e.1 = (cl, v) := Prod.ext h1 h2
        simp [he, this]
      · have : ¬ e.1 = (cl, v) := fun h => h2 (by rw [h])
        simp [h1, he, h2, this, ih]
    · have : ¬ e.1 = (cl, v) := fun h => h1 (by rw [h])
      simp [h1, this, ih]

theorem AS.ext' {a b : AS} (h1 : ∀ d, a.st d = b.st d) (h2 : a.ids = b.ids) : a = b := by
  cases a; cases b; simp only [AS.mk.injEq]; exact ⟨funext h1, h2⟩

/-- the per-call simulation statement -/
def SimCall (cl : Uuid) (c : Call) : Prop :=
  ∀ (s : Mem) (r : c.Resp) (a' : AS), Mem.Rep s → AS.exec cl c (Mem.abs s) = (.ok r, a') →
    (Mem.exec cl c s).1 = .ok r ∧ Mem.abs (Mem.exec cl c s).2 = a' ∧ Mem.Rep (Mem.exec cl c s).2

theorem sim_getClient (cl : Uuid) : SimCall cl .getClient := by
  intro s r a' hrep h
  simp only [AS.exec, Prod.mk.injEq, Except.ok.injEq] at h
  obtain ⟨h1, h2⟩ := h
  subst h2
  exact ⟨by rw [← h1]; rfl, rfl, hrep⟩

theorem sim_commit (cl : Uuid) : SimCall cl .commit := by
  intro s r a' hrep h
  simp only [AS.exec, Prod.mk.injEq] at h
  obtain ⟨h1, h2⟩ := h
  subst h2
  exact ⟨rfl, rfl, hrep⟩

theorem sim_getVersion (cl v : Uuid) : SimCall cl (.getVersion v) := by
  intro s r a' hrep h
  simp only [AS.exec, Prod.mk.injEq, Except.ok.injEq] at h
  obtain ⟨h1, h2⟩ := h
  subst h2
  refine ⟨?_, rfl, hrep⟩
  rw [← h1]
  exact congrArg Except.ok (getVersion_eq s.versions cl v hrep.2.2).symm

theorem sim_getByParent (cl p : Uuid) : SimCall cl (.getByParent p) := by
  intro s r a' hrep h
  simp only [AS.exec, Prod.mk.injEq, Except.ok.injEq] at h
  obtain ⟨h1, h2⟩ := h
  subst h2
  have hg := getByParent_eq s.versions cl p hrep.2.1
  have hc : s.children = childrenOf s.versions := hrep.1
  simp only [Mem.exec]
  rw [hc]
  have h1' : (absVersions s.versions cl).find? (·.parent = p) = r := h1
  rw [h1'] at hg
  cases hl : alLookup (childrenOf s.versions) (cl, p) with
  | none => rw [hl] at hg; simp only at hg ⊢; exact ⟨by rw [hg], trivial, hrep⟩
  | some vid => rw [hl] at hg; simp only at hg ⊢; exact ⟨by rw [hg], trivial, hrep⟩

theorem sim_newClient (cl l : Uuid) : SimCall cl (.newClient l) := by
  intro s r a' hrep h
  have hc : ((Mem.abs s).st cl).client = alLookup s.clients cl := rfl
  cases hl : alLookup s.clients cl with
  | some c => simp [AS.exec, hc, hl] at h
  | none =>
    simp only [AS.exec, hc, hl, Prod.mk.injEq] at h
    obtain ⟨-, h2⟩ := h
    subst h2
    simp only [Mem.exec, hl]
    refine ⟨trivial, ?_, hrep⟩
    apply AS.ext'
    · intro d
      by_cases hd : d = cl
      · subst hd
        simp [Mem.abs, alLookup_alInsert]
      · simp [Mem.abs, alLookup_alInsert, hd]
    · rfl

theorem sim_setSnapshot (cl : Uuid) (sn : Snapshot) (data : Bytes) :
    SimCall cl (.setSnapshot sn data) := by
  intro s r a' hrep h
  have hc : ((Mem.abs s).st cl).client = alLookup s.clients cl := rfl
  cases hl : alLookup s.clients cl with
  | none => simp [AS.exec, hc, hl] at h
  | some c =>
    simp only [AS.exec, hc, hl, Prod.mk.injEq] at h
    obtain ⟨-, h2⟩ := h
    subst h2
    simp only [Mem.exec, hl]
    refine ⟨trivial, ?_, hrep⟩
    apply AS.ext'
    · intro d
      by_cases hd : d = cl
      · subst hd
        simp [Mem.abs, alLookup_alInsert]
      · simp [Mem.abs, alLookup_alInsert, hd]
    · rfl

theorem sim_getSnapshotData (cl v : Uuid) : SimCall cl (.getSnapshotData v) := by
  intro s r a' hrep h
  have hc : ((Mem.abs s).st cl).client = alLookup s.clients cl := rfl
  have hd : ((Mem.abs s).st cl).data = alLookup s.snapshots cl := rfl
  cases hl : alLookup s.clients cl with
  | none => simp [AS.exec, hc, hl] at h
  | some c =>
    simp only [AS.exec, hc, hl, hd] at h
    simp only [Mem.exec, hl]
    by_cases hv : Option.map (·.vid) c.snap = some v
    · have hv' : ¬ (some v ≠ Option.map (·.vid) c.snap) := by simp [hv]
      simp only [hv, if_true] at h
      simp only [hv', if_false]
      cases hs : alLookup s.snapshots cl with
      | none => simp [hs] at h
      | some d =>
        simp only [hs, Prod.mk.injEq, Except.ok.injEq] at h
        obtain ⟨h1, h2⟩ := h
        subst h2
        exact ⟨by rw [h1], rfl, hrep⟩
    · simp [hv] at h

theorem sim_addVersion (cl v p : Uuid) (seg : Bytes) : SimCall cl (.addVersion v p seg) := by
  intro s r a' hrep h
  have hc : ((Mem.abs s).st cl).client = alLookup s.clients cl := rfl
  have hvers : ((Mem.abs s).st cl).versions = absVersions s.versions cl := rfl
  have hids : (Mem.abs s).ids = s.versions.map (·.1.2) := rfl
  cases hl : alLookup s.clients cl with
  | none => simp [AS.exec, hc, hl] at h
  | some c =>
    simp only [AS.exec, hc, hl, hvers, hids] at h
    by_cases hv : v ∈ s.versions.map (·.1.2)
    · simp [hv] at h
    simp only [hv, if_false] at h
    by_cases hp : (absVersions s.versions cl).any (·.parent = p) = true
    · simp [hp] at h
    simp only [hp, Bool.false_eq_true, if_false, Prod.mk.injEq] at h
    obtain ⟨-, h2⟩ := h
    subst h2
    -- both index lookups miss
    have hch : alLookup s.children (cl, p) = none := by
      rw [hrep.1]
      show alLookup (childrenOf s.versions) (cl, p) = none
      rw [childrenOf_lookup]
      have hf : (absVersions s.versions cl).find? (·.parent = p) = none := by
        rw [List.find?_eq_none]
        intro x hx hpx
        exact hp (List.any_eq_true.mpr ⟨x, hx, hpx⟩)
      rw [absVersions_findParent] at hf
      cases hq : s.versions.find? (fun e => e.1.1 = cl ∧ e.2.parent = p) with
      | none => rfl
      | some e => rw [hq] at hf; cases hf
    have hvs : alLookup s.versions (cl, v) = none := by
      rw [alLookup_eq_none]
      intro e he heq
      apply hv
      rw [List.mem_map]
      exact ⟨e, he, by rw [heq]⟩
    simp only [Mem.exec, hl, alInsert_of_none _ hch, alInsert_of_none _ hvs,
      Option.isSome_none, Bool.false_eq_true, if_false]
    refine ⟨trivial, ?_, ?_, ?_, ?_⟩
    · apply AS.ext'
      · intro d
        by_cases hd : d = cl
        · subst hd
          simp [Mem.abs, alLookup_alInsert, absVersions]
          rfl
        · have hd' : ¬ cl = d := fun h => hd h.symm
          simp [Mem.abs, alLookup_alInsert, hd, hd']
      · simp [Mem.abs]
    · show s.children ++ [((cl, p), v)] = _
      rw [hrep.1]; simp
    · simp only [List.map_append, List.map_cons, List.map_nil]
      rw [List.nodup_append]
      refine ⟨hrep.2.1, by simp, ?_⟩
      intro a ha b hb
      simp only [List.mem_singleton] at hb
      subst hb
      intro hab
      subst hab
      rw [List.mem_map] at ha
      obtain ⟨e, he, heq⟩ := ha
      exact (alLookup_eq_none.mp hvs) e he heq
    · intro e he
      rcases List.mem_append.mp he with he | he
      · exact hrep.2.2 e he
      · simp only [List.mem_singleton] at he
        subst he; rfl

theorem memSim : Sim MemB Mem.abs Mem.Rep := by
  constructor
  intro cl c s r a' hrep h
  cases c with
  | getClient => exact sim_getClient cl s r a' hrep h
  | newClient l => exact sim_newClient cl l s r a' hrep h
  | setSnapshot sn d => exact sim_setSnapshot cl sn d s r a' hrep h
  | getSnapshotData v => exact sim_getSnapshotData cl v s r a' hrep h
  | getByParent p => exact sim_getByParent cl p s r a' hrep h
  | getVersion v => exact sim_getVersion cl v s r a' hrep h
  | addVersion v p seg => exact sim_addVersion cl v p seg s r a' hrep h
  | commit => exact sim_commit cl s r a' hrep h

theorem memRep_init : Mem.Rep ({} : Mem) := by
  refine ⟨rfl, List.nodup_nil, ?_⟩
  intro e he; cases he

theorem memAbs_init :
    (Mem.abs ({} : Mem)).st = (fun _ => ({} : CSt)) ∧ (Mem.abs ({} : Mem)).ids = [] :=
  ⟨rfl, rfl⟩

end Tcs
