import Tcs.Proofs.FaultSafety
import Tcs.Proofs.HttpProofs
import Tcs.Model.History
namespace Tcs

/-! Request-level fault safety: a crash (process crash or power loss) at call index `k` is the fault
    oracle `crashFrom k`; what survives is a state between two transactions of the fault-free run. -/

/-- crash at call index `k`: nothing at or after index `k` takes effect -/
def crashFrom (k : Nat) : Nat → FaultKind := fun n => if k ≤ n then .failBefore else .ok

theorem crashFrom_ge {k n : Nat} (h : k ≤ n) : crashFrom k n = .failBefore := by
  simp only [crashFrom, h, ↓reduceIte]

theorem crashFrom_lt {k n : Nat} (h : n < k) : crashFrom k n = .ok := by
  have : ¬ k ≤ n := by omega
  simp only [crashFrom, this, ↓reduceIte]

/-- every transaction body of the request satisfies `CommitLast` (on every path of the handler's control flow) -/
inductive AllCommitLast {α} : ReqM α → Prop
  | done (a : α) : AllCommitLast (.done a)
  | txn {β : Type} (cl : Uuid) (body : TxnM β) (k : Option β → ReqM α) (hb : CommitLast body)
      (hk : ∀ r, AllCommitLast (k r)) : AllCommitLast (.txn cl body k)

/-- the database states between the transactions of the FAULT-FREE run of a request:
    [before, after txn 1, after txn 2, …] (SQLite semantics: a transaction's state is its durable copy) -/
def ReqM.txnStates {σ α} (B : Backend σ) : ReqM α → σ → List σ
  | .done _, s => [s]
  | .txn cl body k, s =>
    let r := body.runSt B cl ⟨s, s, false⟩
    s :: (k r.1).txnStates B r.2.durable

theorem txnStates_head {σ α} (B : Backend σ) (p : ReqM α) (s : σ) : s ∈ p.txnStates B s := by
  cases p with
  | done a => exact List.mem_singleton.2 rfl
  | txn cl body k => exact List.mem_cons_self

/-! ### index monotonicity, oracle congruence -/

theorem runF_index_le {σ α} (B : Backend σ) (cl : Uuid) (faults : Nat → FaultKind) (p : TxnM α) (n : Nat)
    (st : TxnSt σ) : n ≤ (p.runF B cl faults n st).2.2 := by
  induction p generalizing n st with
  | ret a => exact Nat.le_refl n
  | call c k ih =>
    simp only [TxnM.runF]
    cases stepCallF B cl (faults n) c st with
    | abort st' => exact Nat.le_succ n
    | cont r st' => exact Nat.le_trans (Nat.le_succ n) (ih r (n + 1) st')

theorem reqRunF_index_le {σ α} (B : Backend σ) (faults : Nat → FaultKind) (p : ReqM α) (n : Nat) (s : σ) :
    n ≤ (p.runF B faults n s).2.2 := by
  induction p generalizing n s with
  | done a => exact Nat.le_refl n
  | txn cl body k ih =>
    simp only [ReqM.runF]
    cases faults n with
    | ok =>
      exact Nat.le_trans (Nat.le_succ n) (Nat.le_trans (runF_index_le B cl faults body (n + 1) _) (ih _ _ _))
    | failBefore => exact Nat.le_trans (Nat.le_succ n) (ih _ _ _)
    | failAfter => exact Nat.le_trans (Nat.le_succ n) (ih _ _ _)

/-- two oracles that agree on the indices consumed by the run under the first give the same run -/
theorem runF_congr {σ α} (B : Backend σ) (cl : Uuid) (f g : Nat → FaultKind) (p : TxnM α) (n : Nat) (st : TxnSt σ)
    (h : ∀ i, n ≤ i → i < (p.runF B cl f n st).2.2 → f i = g i) :
    p.runF B cl f n st = p.runF B cl g n st := by
  induction p generalizing n st with
  | ret a => rfl
  | call c k ih =>
    have hn : f n = g n := by
      apply h n (Nat.le_refl n)
      simp only [TxnM.runF]
      cases stepCallF B cl (f n) c st with
      | abort st' => exact Nat.lt_succ_self n
      | cont r st' => exact runF_index_le B cl f (k r) (n + 1) st'
    simp only [TxnM.runF, ← hn] at h ⊢
    cases hs : stepCallF B cl (f n) c st with
    | abort st' => rfl
    | cont r st' =>
      simp only [hs] at h
      exact ih r (n + 1) st' (fun i hi => h i (by omega))

theorem reqRunF_congr {σ α} (B : Backend σ) (f g : Nat → FaultKind) (p : ReqM α) (n : Nat) (s : σ)
    (h : ∀ i, n ≤ i → i < (p.runF B f n s).2.2 → f i = g i) :
    p.runF B f n s = p.runF B g n s := by
  induction p generalizing n s with
  | done a => rfl
  | txn cl body k ih =>
    have hn : f n = g n := by
      apply h n (Nat.le_refl n)
      have := reqRunF_index_le B f (.txn cl body k) n s
      simp only [ReqM.runF] at this ⊢
      cases hf : f n with
      | ok =>
        simp only []
        exact Nat.lt_of_lt_of_le (Nat.lt_of_lt_of_le (Nat.lt_succ_self n) (runF_index_le B cl f body (n + 1) _))
          (reqRunF_index_le B f _ _ _)
      | failBefore => exact Nat.lt_of_lt_of_le (Nat.lt_succ_self n) (reqRunF_index_le B f _ _ _)
      | failAfter => exact Nat.lt_of_lt_of_le (Nat.lt_succ_self n) (reqRunF_index_le B f _ _ _)
    simp only [ReqM.runF, ← hn] at h ⊢
    cases hf : f n with
    | ok =>
      simp only [hf] at h
      have hb : body.runF B cl f (n + 1) ⟨s, s, false⟩ = body.runF B cl g (n + 1) ⟨s, s, false⟩ := by
        apply runF_congr
        intro i hi1 hi2
        exact h i (by omega) (Nat.lt_of_lt_of_le hi2 (reqRunF_index_le B f _ _ _))
      simp only [← hb] at h ⊢
      exact ih _ _ _ (fun i hi => h i (Nat.le_trans (Nat.le_trans (Nat.le_succ n) (runF_index_le B cl f body (n + 1) _)) hi))
    | failBefore =>
      simp only [hf] at h
      exact ih _ _ _ (fun i hi => h i (by omega))
    | failAfter =>
      simp only [hf] at h
      exact ih _ _ _ (fun i hi => h i (by omega))

/-- no fault among the consumed indices: the run is the fault-free run -/
theorem runF_eq_noFault {σ α} (B : Backend σ) (cl : Uuid) (faults : Nat → FaultKind) (p : TxnM α) (n : Nat) (st : TxnSt σ)
    (h : ∀ i, n ≤ i → i < (p.runF B cl faults n st).2.2 → faults i = .ok) :
    p.runF B cl faults n st = p.runF B cl noFault n st :=
  runF_congr B cl faults noFault p n st h

theorem reqRunF_eq_noFault {σ α} (B : Backend σ) (faults : Nat → FaultKind) (p : ReqM α) (n : Nat) (s : σ)
    (h : ∀ i, n ≤ i → i < (p.runF B faults n s).2.2 → faults i = .ok) :
    p.runF B faults n s = p.runF B noFault n s :=
  reqRunF_congr B faults noFault p n s h

/-- a fault among the consumed call indices makes the body fail (no `CommitLast` needed) -/
theorem runF_fault_none {σ α} (B : Backend σ) (cl : Uuid) (faults : Nat → FaultKind) (p : TxnM α) (n : Nat) (st : TxnSt σ)
    (h : ∃ i, n ≤ i ∧ i < (p.runF B cl faults n st).2.2 ∧ faults i ≠ .ok) :
    (p.runF B cl faults n st).1 = none := by
  induction p generalizing n st with
  | ret a =>
    obtain ⟨i, h1, h2, _⟩ := h
    have h2' : i < n := h2
    omega
  | call c k ih =>
    simp only [TxnM.runF] at h ⊢
    cases hf : faults n with
    | failBefore => simp only [stepCallF]
    | failAfter =>
      simp only [stepCallF]
      cases stepCall B cl c st <;> rfl
    | ok =>
      simp only [hf] at h
      cases hs : stepCallF B cl .ok c st with
      | abort st' => rfl
      | cont r st' =>
        simp only [hs] at h
        obtain ⟨i, h1, h2, h3⟩ := h
        apply ih r (n + 1) st'
        refine ⟨i, ?_, h2, h3⟩
        rcases Nat.lt_or_ge n i with hlt | hge
        · omega
        · have : i = n := by omega
          subst this; exact absurd hf h3

/-- fault-free `runF` is the ordinary run -/
theorem reqRunF_noFault {σ α} (B : Backend σ) (p : ReqM α) (n : Nat) (s : σ) :
    (p.runF B noFault n s).1 = (p.run B .snapshotCommit s).1 ∧
    (p.runF B noFault n s).2.1 = (p.run B .snapshotCommit s).2 := by
  induction p generalizing n s with
  | done a => exact ⟨rfl, rfl⟩
  | txn cl body k ih =>
    have hb := runF_noFault B cl body (n + 1) ⟨s, s, false⟩
    have e : (ReqM.txn cl body k).runF B noFault n s =
        (k (body.runF B cl noFault (n + 1) ⟨s, s, false⟩).1).runF B noFault
          (body.runF B cl noFault (n + 1) ⟨s, s, false⟩).2.2
          (body.runF B cl noFault (n + 1) ⟨s, s, false⟩).2.1.durable := rfl
    rw [e, hb.1, hb.2]
    exact ih _ _ _

/-! ### the run after the crash point -/

/-- the value a request produces when every one of its transactions fails at `begin` -/
def ReqM.allFail {α} : ReqM α → α
  | .done a => a
  | .txn _ _ k => (k none).allFail

/-- at or after the crash point nothing takes effect and every transaction fails at `begin` -/
theorem reqRunF_crashed {σ α} (B : Backend σ) (p : ReqM α) (k n : Nat) (h : k ≤ n) (s : σ) :
    (p.runF B (crashFrom k) n s).1 = p.allFail ∧ (p.runF B (crashFrom k) n s).2.1 = s := by
  induction p generalizing n with
  | done a => exact ⟨rfl, rfl⟩
  | txn cl body kk ih =>
    simp only [ReqM.runF, crashFrom_ge h, ReqM.allFail]
    exact ih none (n + 1) (by omega)

/-- one transaction under a crash oracle: either it ran entirely before the crash point, exactly as without faults,
    or the crash point was consumed: it failed, and the index is past the crash point -/
theorem runF_crash_cases {σ α} (B : Backend σ) (cl : Uuid) (body : TxnM α) (k n : Nat) (st : TxnSt σ) :
    body.runF B cl (crashFrom k) n st = body.runF B cl noFault n st ∨
    ((body.runF B cl (crashFrom k) n st).1 = none ∧ k < (body.runF B cl (crashFrom k) n st).2.2) := by
  rcases Nat.lt_or_ge k (body.runF B cl (crashFrom k) n st).2.2 with hlt | hge
  · rcases Nat.lt_or_ge k n with h1 | h1
    · -- the whole body runs after the crash point
      cases body with
      | ret a =>
        left; rfl
      | call c kk =>
        right
        refine ⟨?_, hlt⟩
        simp only [TxnM.runF, crashFrom_ge (Nat.le_of_lt h1), stepCallF]
    · right
      refine ⟨runF_fault_none B cl _ body n st ⟨k, h1, hlt, ?_⟩, hlt⟩
      rw [crashFrom_ge (Nat.le_refl k)]; exact fun h => FaultKind.noConfusion h
  · left
    apply runF_eq_noFault
    intro i _ hi
    exact crashFrom_lt (by omega)

/-- C04 atomicity, request level: whatever the crash point, the surviving database is one of the states BETWEEN the
    transactions of the fault-free run – never a half-applied transaction -/
theorem crash_state_between_txns {σ α} (B : Backend σ) (hB : CommitId B) (p : ReqM α) (hp : AllCommitLast p)
    (k n : Nat) (s : σ) :
    (p.runF B (crashFrom k) n s).2.1 ∈ p.txnStates B s := by
  induction hp generalizing n s with
  | done a => exact List.mem_singleton.2 rfl
  | txn cl body kk hb _ ih =>
    rcases Nat.lt_or_ge n k with hn | hn
    · have e : (ReqM.txn cl body kk).runF B (crashFrom k) n s =
          (kk (body.runF B cl (crashFrom k) (n + 1) ⟨s, s, false⟩).1).runF B (crashFrom k)
            (body.runF B cl (crashFrom k) (n + 1) ⟨s, s, false⟩).2.2
            (body.runF B cl (crashFrom k) (n + 1) ⟨s, s, false⟩).2.1.durable := by
        simp only [ReqM.runF, crashFrom_lt hn]
      rw [e]
      have h0 := runF_noFault B cl body (n + 1) ⟨s, s, false⟩
      simp only [ReqM.txnStates]
      rcases runF_crash_cases B cl body k (n + 1) ⟨s, s, false⟩ with heq | ⟨_, hlt⟩
      · rw [heq, h0.1, h0.2]
        exact List.mem_cons_of_mem _ (ih _ _ _)
      · rw [(reqRunF_crashed B _ k _ (Nat.le_of_lt hlt) _).2]
        have fs := (fault_safety B hB cl (crashFrom k) body hb (n + 1) s s).1
        rcases fs with h | h
        · rw [h]; exact List.mem_cons_self
        · rw [h, h0.2]
          exact List.mem_cons_of_mem _ (txnStates_head B _ _)
    · rw [(reqRunF_crashed B _ k n hn s).2]
      exact txnStates_head B _ s

/-- C05 at request level, single-transaction request, arbitrary fault schedule: the surviving database is the
    pre-state or the fault-free post-state; any fault among the consumed indices makes the request answer as for a
    storage error; and any other answer is the fault-free answer, with the fault-free database. -/
theorem single_txn_fault {σ α β} (B : Backend σ) (hB : CommitId B) (cl : Uuid) (body : TxnM β) (hb : CommitLast body)
    (k : Option β → α) (faults : Nat → FaultKind) (n : Nat) (s : σ) :
    let p : ReqM α := .txn cl body fun r => .done (k r)
    let r := p.runF B faults n s
    let r0 := p.runF B noFault n s
    (r.2.1 = s ∨ r.2.1 = r0.2.1) ∧
    ((∃ i, n ≤ i ∧ i < r.2.2 ∧ faults i ≠ .ok) → r.1 = k none) ∧
    (r.1 ≠ k none → r.1 = r0.1 ∧ r.2.1 = r0.2.1) := by
  intro p r r0
  have fs := fault_safety B hB cl faults body hb (n + 1) s s
  simp only [] at fs
  have e0 : r0 = (k (body.runF B cl noFault (n + 1) ⟨s, s, false⟩).1,
      (body.runF B cl noFault (n + 1) ⟨s, s, false⟩).2.1.durable,
      (body.runF B cl noFault (n + 1) ⟨s, s, false⟩).2.2) := rfl
  cases hf : faults n with
  | ok =>
    have e : r = (k (body.runF B cl faults (n + 1) ⟨s, s, false⟩).1,
        (body.runF B cl faults (n + 1) ⟨s, s, false⟩).2.1.durable,
        (body.runF B cl faults (n + 1) ⟨s, s, false⟩).2.2) := by
      simp only [r, p, ReqM.runF, hf]
    rw [e, e0]
    refine ⟨fs.1, ?_, ?_⟩
    · rintro ⟨i, h1, h2, h3⟩
      have : (body.runF B cl faults (n + 1) ⟨s, s, false⟩).1 = none := by
        apply fs.2.2.1
        refine ⟨i, ?_, h2, h3⟩
        rcases Nat.lt_or_ge n i with hlt | hge
        · omega
        · have : i = n := by omega
          subst this; exact absurd hf h3
      simp only [this]
    · intro hne
      cases hv : (body.runF B cl faults (n + 1) ⟨s, s, false⟩).1 with
      | none => simp only [hv, ne_eq, not_true_eq_false] at hne
      | some a =>
        have := fs.2.1 a hv
        simp only [this.1, this.2, and_self]
  | failBefore =>
    have e : r = (k none, s, n + 1) := by simp only [r, p, ReqM.runF, hf]
    rw [e]
    exact ⟨.inl rfl, fun _ => rfl, fun h => absurd rfl h⟩
  | failAfter =>
    have e : r = (k none, s, n + 1) := by simp only [r, p, ReqM.runF, hf]
    rw [e]
    exact ⟨.inl rfl, fun _ => rfl, fun h => absurd rfl h⟩

/-! ### acknowledged ⇒ complete: fail-closed handlers -/

/-- the handler is fail-closed w.r.t. `bad`: wherever a transaction is opened, the answer the handler gives when this and
    every later transaction fail satisfies `bad` -/
inductive FailsClosed {α} (bad : α → Prop) : ReqM α → Prop
  | done (a : α) : FailsClosed bad (.done a)
  | txn {β : Type} (cl : Uuid) (body : TxnM β) (k : Option β → ReqM α) (hk : ∀ r, FailsClosed bad (k r))
      (hbad : bad (k none).allFail) : FailsClosed bad (.txn cl body k)

/-- under a crash oracle a fail-closed request either ran completely before the crash point – and then exactly as
    without faults (same answer, same database, same index) – or its answer is `bad` -/
theorem crash_dichotomy {σ α} (B : Backend σ) (bad : α → Prop) (p : ReqM α) (hp : FailsClosed bad p) (k n : Nat) (s : σ) :
    p.runF B (crashFrom k) n s = p.runF B noFault n s ∨ bad (p.runF B (crashFrom k) n s).1 := by
  induction hp generalizing n s with
  | done a => exact .inl rfl
  | txn cl body kk _ hbad ih =>
    rcases Nat.lt_or_ge n k with hn | hn
    · have e : (ReqM.txn cl body kk).runF B (crashFrom k) n s =
          (kk (body.runF B cl (crashFrom k) (n + 1) ⟨s, s, false⟩).1).runF B (crashFrom k)
            (body.runF B cl (crashFrom k) (n + 1) ⟨s, s, false⟩).2.2
            (body.runF B cl (crashFrom k) (n + 1) ⟨s, s, false⟩).2.1.durable := by
        simp only [ReqM.runF, crashFrom_lt hn]
      have e0 : (ReqM.txn cl body kk).runF B noFault n s =
          (kk (body.runF B cl noFault (n + 1) ⟨s, s, false⟩).1).runF B noFault
            (body.runF B cl noFault (n + 1) ⟨s, s, false⟩).2.2
            (body.runF B cl noFault (n + 1) ⟨s, s, false⟩).2.1.durable := rfl
      rw [e, e0]
      rcases runF_crash_cases B cl body k (n + 1) ⟨s, s, false⟩ with heq | ⟨hnone, hlt⟩
      · rw [heq]; exact ih _ _ _
      · right
        rw [hnone, (reqRunF_crashed B _ k _ (Nat.le_of_lt hlt) _).1]
        exact hbad
    · right
      rw [(reqRunF_crashed B _ k n hn s).1]
      exact hbad

theorem allFail_map {α β} (f : α → β) (p : ReqM α) : (p.map f).allFail = f p.allFail := by
  induction p with
  | done a => rfl
  | txn cl body k ih => exact ih none

theorem failsClosed_map {α β} (bad : β → Prop) (f : α → β) (p : ReqM α) (hp : FailsClosed (fun a => bad (f a)) p) :
    FailsClosed bad (p.map f) := by
  induction hp with
  | done a => exact FailsClosed.done _
  | txn cl body k _ hbad ih =>
    refine FailsClosed.txn cl body _ ih ?_
    rw [allFail_map]; exact hbad

/-! ### the server's programs -/

theorem allCommitLast_map {α β} (f : α → β) (p : ReqM α) (hp : AllCommitLast p) : AllCommitLast (p.map f) := by
  induction hp with
  | done a => exact AllCommitLast.done _
  | txn cl body k hb _ ih => exact AllCommitLast.txn cl body _ hb ih

theorem allCommitLast_one {α} (c : Uuid) (body : TxnM (Except SrvErr α)) (hb : CommitLast body) (f : α → Out) :
    AllCommitLast (one c body f) := by
  refine AllCommitLast.txn c body _ hb ?_
  intro r
  match r with
  | none => exact AllCommitLast.done _
  | some (.ok a) => exact AllCommitLast.done _
  | some (.error .noSuchClient) => exact AllCommitLast.done _

theorem allCommitLast_avReq (cfg : Config) (ens : TxnM Unit) (he : CommitLast ens) (c p : Uuid) (seg : Bytes)
    (newId : Uuid) (now : Int) (fuel : Nat) : AllCommitLast (avReq cfg ens c p seg newId now fuel) := by
  induction fuel with
  | zero => exact AllCommitLast.done _
  | succ fuel ih =>
    refine AllCommitLast.txn c _ _ (commitLast_addVersion cfg p seg newId now) ?_
    intro r
    match r with
    | none => exact AllCommitLast.done _
    | some (.ok (.ok v, u)) => exact AllCommitLast.done _
    | some (.ok (.expected l, _)) => exact AllCommitLast.done _
    | some (.error .noSuchClient) =>
      refine AllCommitLast.txn c ens _ he ?_
      intro r'
      match r' with
      | none => exact AllCommitLast.done _
      | some () => exact ih

/-- the programs of the server satisfy `AllCommitLast` -/
theorem allCommitLast_req (S : Sys) (hS : S.ensure = ensureClientFixed ∨ S.ensure = ensureClientPinned) (e : Ev) :
    AllCommitLast (e.req S) := by
  have he : CommitLast S.ensure := by
    rcases hS with h | h <;> rw [h]
    · exact commitLast_ensureFixed
    · exact commitLast_ensurePinned
  cases e with
  | av c p seg newId now => exact allCommitLast_avReq _ _ he _ _ _ _ _ _
  | avLib c p seg newId now => exact allCommitLast_one _ _ (commitLast_addVersion _ _ _ _ _) _
  | create c =>
    refine AllCommitLast.txn c _ _ he ?_
    intro r
    match r with
    | none => exact AllCommitLast.done _
    | some () => exact AllCommitLast.done _
  | gcv c p => exact allCommitLast_one _ _ (commitLast_getChildVersion _) _
  | as c v d now => exact allCommitLast_one _ _ (commitLast_addSnapshot _ _ _ _) _
  | gs c => exact allCommitLast_one _ _ commitLast_getSnapshot _
  | reopen => exact AllCommitLast.done _

theorem allCommitLast_serve (h : HttpCfg) (hS : h.ensure = ensureClientFixed ∨ h.ensure = ensureClientPinned)
    (r : Request) : AllCommitLast (serve h r) := by
  rw [serve_factor]
  split
  · exact AllCommitLast.done _
  · exact AllCommitLast.done _
  · exact AllCommitLast.done _
  · exact allCommitLast_map _ _ (allCommitLast_req (sysOf h) hS _)

/-- every protocol request is fail-closed: once its transactions fail its outcome is `storageError` -/
theorem failsClosed_one {α} (c : Uuid) (body : TxnM (Except SrvErr α)) (f : α → Out) :
    FailsClosed (fun o => o = Out.storageError) (one c body f) := by
  refine FailsClosed.txn c body _ ?_ rfl
  intro r
  match r with
  | none => exact FailsClosed.done _
  | some (.ok a) => exact FailsClosed.done _
  | some (.error .noSuchClient) => exact FailsClosed.done _

theorem allFail_avReq (cfg : Config) (ens : TxnM Unit) (c p : Uuid) (seg : Bytes) (newId : Uuid) (now : Int) (fuel : Nat) :
    (avReq cfg ens c p seg newId now fuel).allFail = Out.storageError := by
  cases fuel <;> rfl

theorem failsClosed_avReq (cfg : Config) (ens : TxnM Unit) (c p : Uuid) (seg : Bytes) (newId : Uuid) (now : Int)
    (fuel : Nat) : FailsClosed (fun o => o = Out.storageError) (avReq cfg ens c p seg newId now fuel) := by
  induction fuel with
  | zero => exact FailsClosed.done _
  | succ fuel ih =>
    refine FailsClosed.txn c _ _ ?_ rfl
    intro r
    match r with
    | none => exact FailsClosed.done _
    | some (.ok (.ok v, u)) => exact FailsClosed.done _
    | some (.ok (.expected l, _)) => exact FailsClosed.done _
    | some (.error .noSuchClient) =>
      refine FailsClosed.txn c ens _ ?_ rfl
      intro r'
      match r' with
      | none => exact FailsClosed.done _
      | some () => exact ih

theorem failsClosed_req (S : Sys) (e : Ev) : FailsClosed (fun o => o = Out.storageError) (e.req S) := by
  cases e with
  | av c p seg newId now => exact failsClosed_avReq _ _ _ _ _ _ _ _
  | avLib c p seg newId now => exact failsClosed_one _ _ _
  | create c =>
    refine FailsClosed.txn c _ _ ?_ rfl
    intro r
    match r with
    | none => exact FailsClosed.done _
    | some () => exact FailsClosed.done _
  | gcv c p => exact failsClosed_one _ _ _
  | as c v d now => exact failsClosed_one _ _ _
  | gs c => exact failsClosed_one _ _ _
  | reopen => exact FailsClosed.done _

end Tcs
