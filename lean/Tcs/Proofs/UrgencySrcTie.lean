import Tcs.Generated.UrgencySrc
import Tcs.Model.Server
namespace Tcs

/-! The tie between the source text of the two threshold functions and the model: the terms below
    are GENERATED from /repo's current `core/src/server.rs`; the theorems say that, evaluated with
    Rust's integer semantics, they never panic and compute exactly the model's `lvl` – for every
    value of the configured target and of the measure, up to the extremes of their types. -/

theorem tdiv_two_of_nonneg (x : Int) (h : 0 ≤ x) : x.tdiv 2 = x / 2 := Int.tdiv_eq_ediv_of_nonneg h

theorem C12_src_for_days (d t : Int) (hd : -(2 ^ 63 : Int) ≤ d ∧ d < 2 ^ 63) (ht : 0 ≤ t ∧ t < 2 ^ 63) :
    evalB (envDays d t) UrgencySrc.forDays = some (lvl d t) := by
  have h3 : (0 : Int) ≤ t * 3 := by omega
  have f1 : (-170141183460469231731687303715884105728 : Int) ≤ t * 3 ∧ t * 3 ≤ 170141183460469231731687303715884105727 := by omega
  have f2 : (-170141183460469231731687303715884105728 : Int) ≤ t * 3 / 2 ∧ t * 3 / 2 ≤ 170141183460469231731687303715884105727 := by omega
  simp [UrgencySrc.forDays, evalB, evalC, evalR, envDays, bin, cmp, checked, ITy.lo, ITy.hi, ITy.signed, ITy.bits,
    lvl, threeHalves, tdiv_two_of_nonneg _ h3, f1, f2]
  by_cases c1 : t * 3 / 2 ≤ d <;> by_cases c2 : t ≤ d <;> simp [c1, c2]

theorem C12_src_for_versions_since (n t : Int) (hn : 0 ≤ n ∧ n < 2 ^ 32) (ht : 0 ≤ t ∧ t < 2 ^ 32) :
    evalB (envVersions n t) UrgencySrc.forVersionsSince = some (lvl n t) := by
  have h3 : (0 : Int) ≤ t * 3 := by omega
  have f1 : (0 : Int) ≤ t * 3 ∧ t * 3 ≤ 18446744073709551615 := by omega
  have f2 : (0 : Int) ≤ t * 3 / 2 ∧ t * 3 / 2 ≤ 18446744073709551615 := by omega
  simp [UrgencySrc.forVersionsSince, evalB, evalC, evalR, envVersions, bin, cmp, checked, ITy.lo, ITy.hi, ITy.signed, ITy.bits,
    lvl, threeHalves, tdiv_two_of_nonneg _ h3, f1, f2]
  by_cases c1 : t * 3 / 2 ≤ n <;> by_cases c2 : t ≤ n <;> simp [c1, c2]

end Tcs
