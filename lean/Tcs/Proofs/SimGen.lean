import Tcs.Spec.AS
namespace Tcs
variable {σ : Type} {B : Backend σ} {abs : σ → AS} {Rep : σ → Prop}

/-- the transaction state after a call that left the working copy at `w'` -/
def nextSt {σ : Type} (c : Call) (st : TxnSt σ) (w' : σ) : TxnSt σ :=
  match c with
  | .commit => { durable := w', working := w', committed := true }
  | _ => { st with working := w' }

theorem nextSt_working {σ : Type} (c : Call) (st : TxnSt σ) (w' : σ) : (nextSt c st w').working = w' := by
  cases c <;> rfl

theorem nextSt_durable {σ : Type} (c : Call) (st : TxnSt σ) (w' : σ) :
    (nextSt c st w').durable = w' ∨ (nextSt c st w').durable = st.durable := by
  cases c <;> simp [nextSt]

theorem stepCall_error {σ : Type} (B : Backend σ) (cl : Uuid) (c : Call) (st : TxnSt σ) (e : StorageErr)
    (h : (B.exec cl c st.working).1 = .error e) :
    stepCall B cl c st = .abort (nextSt c st (B.exec cl c st.working).2) := by
  unfold stepCall nextSt
  revert h
  cases B.exec cl c st.working with
  | mk r w => intro h; simp only at h; subst h; cases c <;> rfl

theorem stepCall_ok {σ : Type} (B : Backend σ) (cl : Uuid) (c : Call) (st : TxnSt σ) (r : c.Resp)
    (h : (B.exec cl c st.working).1 = .ok r) :
    stepCall B cl c st = .cont r (nextSt c st (B.exec cl c st.working).2) := by
  unfold stepCall nextSt
  revert h
  cases B.exec cl c st.working with
  | mk r w => intro h; simp only at h; subst h; cases c <;> rfl

/-- the two possible shapes of `nextSt` on both sides are related by `abs` -/
theorem nextSt_rel (c : Call) (st : TxnSt σ) (ast : TxnSt AS) (w : σ) (aw : AS)
    (hd : abs st.durable = ast.durable) (hrd : Rep st.durable) (hw : abs w = aw) (hrw : Rep w) :
    abs (nextSt c st w).durable = (nextSt c ast aw).durable ∧ abs (nextSt c st w).working = (nextSt c ast aw).working ∧
      Rep (nextSt c st w).durable ∧ Rep (nextSt c st w).working := by
  cases c <;> exact ⟨by first | exact hd | exact hw, hw, by first | exact hrd | exact hrw, hrw⟩

/-- transaction body: if the abstract run succeeds (returns `some a`), the concrete run returns the same value and the abstraction commutes on both copies -/
theorem sim_runSt (hs : Sim B abs Rep) (cl : Uuid) {α} (p : TxnM α) (st : TxnSt σ) (ast : TxnSt AS)
    (hd : abs st.durable = ast.durable) (hw : abs st.working = ast.working)
    (hrd : Rep st.durable) (hrw : Rep st.working)
    (a : α) (ast' : TxnSt AS) (h : p.runSt ASB cl ast = (some a, ast')) :
    ∃ st', p.runSt B cl st = (some a, st') ∧ abs st'.durable = ast'.durable ∧ abs st'.working = ast'.working ∧
      Rep st'.durable ∧ Rep st'.working := by
  induction p generalizing st ast with
  | ret x =>
    simp only [TxnM.runSt, Prod.mk.injEq, Option.some.injEq] at h
    obtain ⟨rfl, rfl⟩ := h
    exact ⟨st, rfl, hd, hw, hrd, hrw⟩
  | call c k ih =>
    cases hx : (ASB.exec cl c ast.working).1 with
    | error e =>
      rw [TxnM.runSt, stepCall_error ASB cl c ast e hx] at h
      simp at h
    | ok r =>
      rw [TxnM.runSt, stepCall_ok ASB cl c ast r hx] at h
      have hc := hs.call cl c st.working r (ASB.exec cl c ast.working).2 hrw (by
        rw [hw]; exact Prod.ext hx rfl)
      obtain ⟨h1, h2, h3⟩ := hc
      obtain ⟨e1, e2, e3, e4⟩ := nextSt_rel (abs := abs) (Rep := Rep) c st ast _ _ hd hrd h2 h3
      obtain ⟨st', q1, q2⟩ := ih r _ _ e1 e2 e3 e4 h
      refine ⟨st', ?_, q2⟩
      rw [TxnM.runSt, stepCall_ok B cl c st r h1]
      exact q1

theorem sim_run (hs : Sim B abs Rep) (mode : TxnMode) (cl : Uuid) {α} (p : TxnM α) (s : σ) (hr : Rep s)
    (a : α) (t : AS) (h : p.run ASB mode cl (abs s) = (some a, t)) :
    ∃ s', p.run B mode cl s = (some a, s') ∧ abs s' = t ∧ Rep s' := by
  unfold TxnM.run at h
  simp only [Prod.mk.injEq] at h
  obtain ⟨h1, h2⟩ := h
  obtain ⟨st', q1, q2, q3, q4, q5⟩ := sim_runSt hs cl p ⟨s, s, false⟩ ⟨abs s, abs s, false⟩ rfl rfl hr hr a
    (p.runSt ASB cl ⟨abs s, abs s, false⟩).2 (Prod.ext h1 rfl)
  refine ⟨st'.finish mode, ?_, ?_, ?_⟩
  · unfold TxnM.run; rw [q1]
  · rw [← h2]; cases mode
    · exact q3
    · exact q2
  · cases mode
    · exact q5
    · exact q4

/-- request: if no transaction of the abstract run hit a storage error (flag `true`) the concrete run agrees -/
theorem sim_runC (hs : Sim B abs Rep) (mode : TxnMode) {α} (p : ReqM α) (s : σ) (hr : Rep s)
    (a : α) (t : AS) (h : p.runC ASB mode (abs s) = (a, t, true)) :
    ∃ s', p.runC B mode s = (a, s', true) ∧ abs s' = t ∧ Rep s' := by
  induction p generalizing s with
  | done x =>
    simp only [ReqM.runC, Prod.mk.injEq, and_true] at h
    obtain ⟨rfl, rfl⟩ := h
    exact ⟨s, rfl, rfl, hr⟩
  | txn cl body k ih =>
    simp only [ReqM.runC, Prod.mk.injEq, Bool.and_eq_true] at h
    obtain ⟨h1, h2, h3, h4⟩ := h
    obtain ⟨b, hb⟩ := Option.isSome_iff_exists.mp h4
    obtain ⟨s1, q1, q2, q3⟩ := sim_run hs mode cl body s hr b (body.run ASB mode cl (abs s)).2 (Prod.ext hb rfl)
    rw [hb, ← q2] at h1 h2 h3
    obtain ⟨s', r1, r2, r3⟩ := ih (some b) s1 q3 (Prod.ext h1 (Prod.ext h2 h3))
    refine ⟨s', ?_, r2, r3⟩
    simp only [ReqM.runC, q1, r1, Option.isSome_some, Bool.and_self]

theorem sim_runHC (hs : Sim B abs Rep) (mode : TxnMode) (S : Sys) (h : List Ev) (s : σ) (hr : Rep s)
    (outs : List Out) (t : AS) (hh : runHC ASB mode S h (abs s) = (outs, t, true)) :
    ∃ s', runHC B mode S h s = (outs, s', true) ∧ abs s' = t ∧ Rep s' := by
  induction h generalizing s outs with
  | nil =>
    simp only [runHC, Prod.mk.injEq, and_true] at hh
    obtain ⟨rfl, rfl⟩ := hh
    exact ⟨s, rfl, rfl, hr⟩
  | cons e es ih =>
    simp only [runHC, Prod.mk.injEq, Bool.and_eq_true] at hh
    obtain ⟨h1, h2, h3, h4⟩ := hh
    obtain ⟨s1, q1, q2, q3⟩ := sim_runC hs mode (e.req S) s hr ((e.req S).runC ASB mode (abs s)).1
      ((e.req S).runC ASB mode (abs s)).2.1 (Prod.ext rfl (Prod.ext rfl h3))
    rw [← q2] at h1 h2 h4
    obtain ⟨s', r1, r2, r3⟩ := ih s1 q3 (runHC ASB mode S es (abs s1)).1 (Prod.ext rfl (Prod.ext h2 h4))
    refine ⟨s', ?_, r2, r3⟩
    simp only [runHC, q1, r1, Bool.and_self]
    rw [← h1]
end Tcs
