import Tcs.Proofs.ServerSrcTie.GetChild
import Tcs.Proofs.ServerSrcTie.GetSnapshot
import Tcs.Proofs.ServerSrcTie.AddVersion
import Tcs.Proofs.ServerSrcTie.AddSnapshot
