import Tcs.Spec.ConcSpec
import Tcs.Proofs.HistProofs
namespace Tcs

/-! Linearizability of the transaction-atomic machine (`ConcSpec`): every run, under every schedule,
    is explained by the one-at-a-time execution of the requests in the order of their last
    transactions – up to the corner F3. -/

/-! ### lists -/

theorem before_append_single {α} (l : List α) (x a b : α) :
    Before (l ++ [x]) a b ↔ Before l a b ∨ (a ∈ l ∧ b = x) := by
  constructor
  · rintro ⟨l1, l2, l3, h⟩
    rcases List.eq_nil_or_concat l3 with rfl | ⟨l3', z, rfl⟩
    · have h' : l ++ [x] = (l1 ++ a :: l2) ++ [b] := by simpa using h
      obtain ⟨h1, h2⟩ := List.append_inj' h' rfl
      right
      refine ⟨by rw [h1]; simp, ?_⟩
      simpa using h2.symm
    · have h' : l ++ [x] = (l1 ++ a :: l2 ++ b :: l3') ++ [z] := by simpa using h
      obtain ⟨h1, _⟩ := List.append_inj' h' rfl
      exact .inl ⟨l1, l2, l3', h1⟩
  · rintro (⟨l1, l2, l3, h⟩ | ⟨ha, rfl⟩)
    · exact ⟨l1, l2, l3 ++ [x], by simp [h]⟩
    · obtain ⟨l1, l2, h⟩ := List.append_of_mem ha
      exact ⟨l1, l2, [], by simp [h]⟩

theorem before_filterMap {α β} (f : α → Option β) (l : List α) (x y : α) (x' y' : β)
    (hx : f x = some x') (hy : f y = some y') (h : Before l x y) : Before (l.filterMap f) x' y' := by
  obtain ⟨l1, l2, l3, rfl⟩ := h
  refine ⟨l1.filterMap f, l2.filterMap f, l3.filterMap f, ?_⟩
  simp [List.filterMap_append, hx, hy]

theorem linOrder_append (l : List Act) (x : Act) :
    linOrder (l ++ [x]) = linOrder l ++ (match x with | .lin t => [t] | _ => []) := by
  cases x <;> simp [linOrder, List.filterMap_append]

theorem mem_linOrder (l : List Act) (t : Nat) : t ∈ linOrder l ↔ Act.lin t ∈ l := by
  simp only [linOrder, List.mem_filterMap]
  constructor
  · rintro ⟨a, ha, h⟩
    cases a <;> simp at h
    subst h; exact ha
  · intro h; exact ⟨_, h, rfl⟩

/-! ### the machine's steps as a relation -/

inductive MStep (S : Sys) (evs : List Ev) (m : MState) (t : Nat) : MState → Prop
  | invoke (e : Ev) (he : evs[t]? = some e) (hp : m.ph[t]? = some .idle) :
      MStep S evs m t { m with ph := m.ph.set t .ready, log := m.log ++ [.invoke t] }
  | toCreate (e : Ev) (he : evs[t]? = some e) (ph : Phase) (hp : m.ph[t]? = some ph) (hph : ph = .ready ∨ ph = .retry)
      (hn : needsCreate e m.a = true) :
      MStep S evs m t { m with ph := m.ph.set t .needCreate }
  | lin (e : Ev) (he : evs[t]? = some e) (ph : Phase) (hp : m.ph[t]? = some ph) (hph : ph = .ready ∨ ph = .retry)
      (hn : needsCreate e m.a = false) :
      MStep S evs m t { a := (linStep S e m.a).2, ph := m.ph.set t (.answered (linStep S e m.a).1), log := m.log ++ [.lin t] }
  | create (e : Ev) (he : evs[t]? = some e) (hp : m.ph[t]? = some .needCreate) :
      MStep S evs m t { m with a := createStep S e m.a, ph := m.ph.set t .retry }
  | respond (e : Ev) (he : evs[t]? = some e) (o : Out) (hp : m.ph[t]? = some (.answered o)) :
      MStep S evs m t { m with ph := m.ph.set t (.finished o), log := m.log ++ [.respond t] }

theorem mstep_rel (S : Sys) (evs : List Ev) (m m' : MState) (t : Nat) (h : mstep S evs m t = some m') :
    MStep S evs m t m' := by
  unfold mstep at h
  cases he : evs[t]? with
  | none => simp [he] at h
  | some e =>
    cases hp : m.ph[t]? with
    | none => simp [he, hp] at h
    | some ph =>
      simp only [he, hp] at h
      cases ph with
      | idle => simp only [Option.some.injEq] at h; subst h; exact .invoke e he hp
      | ready =>
        by_cases hn : needsCreate e m.a = true
        · simp only [hn, ↓reduceIte, Option.some.injEq] at h; subst h; exact .toCreate e he _ hp (.inl rfl) hn
        · have hn' : needsCreate e m.a = false := by simpa using hn
          simp only [hn', Bool.false_eq_true, ↓reduceIte, Option.some.injEq] at h; subst h; exact .lin e he _ hp (.inl rfl) hn'
      | retry =>
        by_cases hn : needsCreate e m.a = true
        · simp only [hn, ↓reduceIte, Option.some.injEq] at h; subst h; exact .toCreate e he _ hp (.inr rfl) hn
        · have hn' : needsCreate e m.a = false := by simpa using hn
          simp only [hn', Bool.false_eq_true, ↓reduceIte, Option.some.injEq] at h; subst h; exact .lin e he _ hp (.inr rfl) hn'
      | needCreate => simp only [Option.some.injEq] at h; subst h; exact .create e he hp
      | answered o => simp only [Option.some.injEq] at h; subst h; exact .respond e he o hp
      | finished o => simp at h

/-- a property of machine states that holds initially and is kept by every step holds after every run -/
theorem mrun_induct (S : Sys) (evs : List Ev) (P : MState → Prop)
    (hstep : ∀ m t m', P m → MStep S evs m t m' → P m') (m : MState) (hm : P m) (sch : List Nat) :
    P (mrun S evs m sch) := by
  induction sch generalizing m with
  | nil => exact hm
  | cons t ts ih =>
    unfold mrun
    cases h : mstep S evs m t with
    | none => exact ih m hm
    | some m' => exact ih m' (hstep m t m' hm (mstep_rel S evs m m' t h))

/-! ### phases and the log -/

theorem getElem?_set_eq' {α} (l : List α) (t : Nat) (x y : α) (h : l[t]? = some y) : (l.set t x)[t]? = some x := by
  have : t < l.length := by
    rcases Nat.lt_or_ge t l.length with h' | h'
    · exact h'
    · rw [List.getElem?_eq_none h'] at h; cases h
  simp [this]

theorem getElem?_set_ne' {α} (l : List α) (t u : Nat) (x : α) (h : t ≠ u) : (l.set t x)[u]? = l[u]? := by
  simp [h]

/-- bookkeeping that ties the phases to the log -/
structure PL (evs : List Ev) (m : MState) : Prop where
  len : m.ph.length = evs.length
  lin : ∀ t, Act.lin t ∈ m.log ↔ ∃ o, m.ph[t]? = some (.answered o) ∨ m.ph[t]? = some (.finished o)
  resp : ∀ t, Act.respond t ∈ m.log → ∃ o, m.ph[t]? = some (.finished o)
  rt : ∀ t u, Before m.log (.respond t) (.invoke u) → Act.lin u ∈ m.log → Before m.log (.lin t) (.lin u)
  nodup : (linOrder m.log).Nodup
  inv : ∀ t, Act.invoke t ∈ m.log → ∃ p, m.ph[t]? = some p

theorem pl_init (a : AS) (evs : List Ev) : PL evs (minit a evs) := by
  refine ⟨by simp [minit], ?_, ?_, ?_, by simp [minit, linOrder], by intro t h; simp [minit] at h⟩
  · intro t
    simp only [minit, List.not_mem_nil, false_iff, not_exists]
    intro o h
    rcases h with h | h <;>
    · simp only [List.getElem?_map] at h
      cases hh : evs[t]? <;> simp [hh] at h
  · intro t h; simp [minit] at h
  · rintro t u ⟨l1, l2, l3, h⟩
    simp [minit] at h

theorem pl_step (S : Sys) (evs : List Ev) (m : MState) (t : Nat) (m' : MState) (h : PL evs m)
    (hs : MStep S evs m t m') : PL evs m' := by
  have hphase : ∀ (x : Phase) (u : Nat) (y : Phase), m.ph[t]? = some y →
      ((m.ph.set t x)[u]? = if u = t then some x else m.ph[u]?) := by
    intro x u y hy
    by_cases hut : u = t
    · subst hut; simp [getElem?_set_eq' _ _ x y hy]
    · simp [hut, getElem?_set_ne' _ _ _ _ (Ne.symm hut)]
  have hinvk : ∀ (x y : Phase) (log' : List Act), m.ph[t]? = some y →
      (∀ u, Act.invoke u ∈ log' → Act.invoke u ∈ m.log ∨ u = t) →
      ∀ u, Act.invoke u ∈ log' → ∃ p, (m.ph.set t x)[u]? = some p := by
    intro x y log' hy hl u hu
    rw [hphase x u y hy]
    by_cases hut : u = t
    · simp [hut]
    · rcases hl u hu with h1 | h1
      · simpa [hut] using h.inv u h1
      · exact absurd h1 hut
  cases hs with
  | invoke e he hp =>
    refine ⟨by simp [h.len], ?_, ?_, ?_, ?_, hinvk _ _ _ hp (by intro u hu; simpa using hu)⟩
    · intro u
      simp only [List.mem_append, List.mem_singleton, reduceCtorEq, or_false, hphase _ u _ hp]
      rw [h.lin u]
      by_cases hut : u = t
      · subst hut; simp [hp]
      · simp [hut]
    · intro u hu
      simp only [List.mem_append, List.mem_singleton, reduceCtorEq, or_false] at hu
      obtain ⟨o, ho⟩ := h.resp u hu
      refine ⟨o, ?_⟩
      rw [hphase _ u _ hp]
      by_cases hut : u = t
      · subst hut; rw [hp] at ho; cases ho
      · simp [hut, ho]
    · intro a u hb hl
      simp only [List.mem_append, List.mem_singleton, reduceCtorEq, or_false] at hl
      rw [before_append_single] at hb ⊢
      rcases hb with hb | ⟨_, hb⟩
      · exact .inl (h.rt a u hb hl)
      · simp only [Act.invoke.injEq] at hb
        subst hb
        obtain ⟨o, ho⟩ := (h.lin u).1 hl
        rw [hp] at ho
        rcases ho with ho | ho <;> cases ho
    · simpa [linOrder_append] using h.nodup
  | toCreate e he ph hp hph hn =>
    refine ⟨by simp [h.len], ?_, ?_, h.rt, h.nodup, hinvk _ _ _ hp (fun u hu => .inl hu)⟩
    · intro u
      simp only [hphase _ u _ hp]
      rw [h.lin u]
      by_cases hut : u = t
      · subst hut; rcases hph with rfl | rfl <;> simp [hp]
      · simp [hut]
    · intro u hu
      obtain ⟨o, ho⟩ := h.resp u hu
      refine ⟨o, ?_⟩
      rw [hphase _ u _ hp]
      by_cases hut : u = t
      · subst hut; rw [hp] at ho; rcases hph with rfl | rfl <;> cases ho
      · simp [hut, ho]
  | lin e he ph hp hph hn =>
    have hnot : Act.lin t ∉ m.log := by
      intro hl
      obtain ⟨o, ho⟩ := (h.lin t).1 hl
      rw [hp] at ho
      rcases hph with rfl | rfl <;> rcases ho with ho | ho <;> cases ho
    refine ⟨by simp [h.len], ?_, ?_, ?_, ?_, hinvk _ _ _ hp (by intro u hu; left; simpa using hu)⟩
    · intro u
      simp only [List.mem_append, List.mem_singleton, Act.lin.injEq, hphase _ u _ hp]
      rw [h.lin u]
      by_cases hut : u = t
      · subst hut; simp
      · simp [hut]
    · intro u hu
      simp only [List.mem_append, List.mem_singleton, reduceCtorEq, or_false] at hu
      obtain ⟨o, ho⟩ := h.resp u hu
      refine ⟨o, ?_⟩
      rw [hphase _ u _ hp]
      by_cases hut : u = t
      · subst hut; rw [hp] at ho; rcases hph with rfl | rfl <;> cases ho
      · simp [hut, ho]
    · intro a u hb hl
      simp only [List.mem_append, List.mem_singleton, Act.lin.injEq] at hl
      rw [before_append_single] at hb ⊢
      rcases hb with hb | ⟨_, hb⟩
      · rcases hl with hl | hl
        · exact .inl (h.rt a u hb hl)
        · subst hl
          right
          refine ⟨?_, rfl⟩
          obtain ⟨l1, l2, l3, hlog⟩ := hb
          have hr : Act.respond a ∈ m.log := by rw [hlog]; simp
          obtain ⟨o, ho⟩ := h.resp a hr
          exact (h.lin a).2 ⟨o, .inr ho⟩
      · cases hb
    · rw [linOrder_append]
      simp only
      rw [List.nodup_append]
      refine ⟨h.nodup, by simp, ?_⟩
      intro x hx y hy
      simp only [List.mem_singleton] at hy
      subst hy
      intro hxy; subst hxy
      exact hnot ((mem_linOrder _ _).1 hx)
  | create e he hp =>
    refine ⟨by simp [h.len], ?_, ?_, h.rt, h.nodup, hinvk _ _ _ hp (fun u hu => .inl hu)⟩
    · intro u
      simp only [hphase _ u _ hp]
      rw [h.lin u]
      by_cases hut : u = t
      · subst hut; simp [hp]
      · simp [hut]
    · intro u hu
      obtain ⟨o, ho⟩ := h.resp u hu
      refine ⟨o, ?_⟩
      rw [hphase _ u _ hp]
      by_cases hut : u = t
      · subst hut; rw [hp] at ho; cases ho
      · simp [hut, ho]
  | respond e he o hp =>
    refine ⟨by simp [h.len], ?_, ?_, ?_, ?_, hinvk _ _ _ hp (by intro u hu; left; simpa using hu)⟩
    · intro u
      simp only [List.mem_append, List.mem_singleton, reduceCtorEq, or_false, hphase _ u _ hp]
      rw [h.lin u]
      by_cases hut : u = t
      · subst hut; simp [hp]
      · simp [hut]
    · intro u hu
      simp only [List.mem_append, List.mem_singleton, Act.respond.injEq] at hu
      rw [hphase _ u _ hp]
      by_cases hut : u = t
      · subst hut; exact ⟨o, by simp⟩
      · rcases hu with hu | hu
        · obtain ⟨o', ho'⟩ := h.resp u hu
          exact ⟨o', by simp [hut, ho']⟩
        · exact absurd hu hut
    · intro a u hb hl
      simp only [List.mem_append, List.mem_singleton, reduceCtorEq, or_false] at hl
      rw [before_append_single] at hb ⊢
      rcases hb with hb | ⟨_, hb⟩
      · exact .inl (h.rt a u hb hl)
      · cases hb
    · simpa [linOrder_append] using h.nodup


/-- a response, once computed, stays -/
theorem out_step (S : Sys) (evs : List Ev) (m : MState) (t : Nat) (m' : MState) (hs : MStep S evs m t m')
    (u : Nat) (o : Out) (h : (m.ph[u]?).bind Phase.out? = some o) : (m'.ph[u]?).bind Phase.out? = some o := by
  have key : ∀ (x y : Phase), m.ph[t]? = some y → y.out? = none ∨ x.out? = y.out? →
      ((m.ph.set t x)[u]?).bind Phase.out? = some o := by
    intro x y hy hxy
    by_cases hut : u = t
    · subst hut
      rw [getElem?_set_eq' _ _ x y hy]
      rw [hy] at h
      simp only [Option.bind_some] at h ⊢
      rcases hxy with hxy | hxy
      · rw [hxy] at h; cases h
      · rw [hxy]; exact h
    · rw [getElem?_set_ne' _ _ _ _ (Ne.symm hut)]; exact h
  cases hs with
  | invoke e he hp => exact key _ _ hp (.inl rfl)
  | toCreate e he ph hp hph hn => rcases hph with rfl | rfl <;> exact key _ _ hp (.inl rfl)
  | lin e he ph hp hph hn => rcases hph with rfl | rfl <;> exact key _ _ hp (.inl rfl)
  | create e he hp => exact key _ _ hp (.inl rfl)
  | respond e he o' hp => exact key _ _ hp (.inr rfl)

/-! ### one client's record: the library AddVersion after the creation vs the creating AddVersion -/

/-- the request whose final transaction a thread executes -/
def linEv : Ev → Ev
  | .av c p seg n now => .avLib c p seg n now
  | e => e

theorem linStep_eq (S : Sys) (e : Ev) (a : AS) : linStep S e a = asStep S (linEv e) a := by
  cases e <;> rfl

theorem linEv_client (e : Ev) : (linEv e).client = e.client := by cases e <;> rfl

theorem addedId_linEv (e : Ev) (o : Out) : addedId (linEv e) o = addedId e o := by
  cases e <;> cases o <;> rfl

theorem needsCreate_isAv (e : Ev) (a : AS) (h : needsCreate e a = true) : e.isAv = true := by
  cases e <;> simp [needsCreate, Ev.isAv] at h ⊢

theorem cstep_linEv_same (S : Sys) (e : Ev) (x : CSt) (h : x.client ≠ none ∨ e.isAv = false) :
    cstep S (linEv e) x = cstep S e x := by
  cases e with
  | av c p seg n now =>
    rcases h with h | h
    · cases hc : x.client with
      | none => exact absurd hc h
      | some cl => simp only [linEv, cstep, cCreate_some x cl hc]
    · simp [Ev.isAv] at h
  | _ => rfl

theorem cstep_client_some (S : Sys) (e : Ev) (x : CSt) (h : x.client ≠ none) : (cstep S e x).2.client ≠ none := by
  cases hc : x.client with
  | none => exact absurd hc h
  | some cl =>
    cases e with
    | av c p seg n now =>
      simp only [cstep, cCreate_some x cl hc, cAddVersion, hc]
      split <;> simp [hc]
    | avLib c p seg n now =>
      simp only [cstep, cAddVersion, hc]
      split <;> simp [hc]
    | create c => simp [cstep, cCreate_some x cl hc, hc]
    | gcv c p => simp [cstep, hc]
    | «as» c v d now =>
      simp only [cstep, cAddSnapshot, hc]
      split
      · simp [hc]
      · split <;> simp [hc]
    | gs c => simp [cstep, hc]
    | reopen => simp [cstep, hc]

theorem cstep_empty (S : Sys) (e : Ev) (he : e.isHttp = true ∨ e.isLib = true) :
    (cstep S e {}).2.client ≠ none ∨ (cstep S e {}).2 = {} := by
  cases e with
  | av c p seg n now =>
    left
    simp only [cstep, cCreate, cAddVersion]
    split <;> simp
  | gcv c p => right; rfl
  | «as» c v d now => right; simp [cstep, cAddSnapshot]
  | gs c => right; rfl
  | avLib c p seg n now => right; simp [cstep, cAddVersion]
  | create c => simp [Ev.isHttp, Ev.isLib] at he
  | reopen => simp [Ev.isHttp, Ev.isLib] at he

theorem respond_404 : respond .notFound = respond .noSuchClient ∧ respond .noSnap = respond .noSuchClient := ⟨rfl, rfl⟩

/-- on the empty record left by a creation transaction, vs on no record at all -/
theorem cstep_created (S : Sys) (e : Ev) (he : e.isHttp = true) :
    (cstep S (linEv e) (cCreated {}) = cstep S e {}) ∨
    ((cstep S (linEv e) (cCreated {})).2 = cCreated {} ∧ (cstep S e {}).2 = {} ∧ e.isAv = false ∧
      sameRespF3 e (cstep S (linEv e) (cCreated {})).1 (cstep S e {}).1) := by
  cases e with
  | av c p seg n now => left; rfl
  | gcv c p =>
    right
    refine ⟨rfl, rfl, rfl, .inl ?_⟩
    simp [sameResp, linEv, cstep, cGetChild, cCreated, respond]
  | «as» c v d now =>
    right
    have h1 : cstep S (linEv (.as c v d now)) (cCreated {}) = (.asDone false, cCreated {}) := by
      simp only [linEv, cstep, cAddSnapshot, cCreated]
      have : walkBack [] v none S.params.searchLen Uuid.nil = false := by
        cases hs : S.params.searchLen with
        | zero => rfl
        | succ k =>
          simp only [walkBack]
          by_cases hv : v = Uuid.nil
          · subst hv; simp
          · have : ¬ (Uuid.nil = v) := fun h => hv h.symm
            simp [this]
      simp [this]
    have h2 : cstep S (.as c v d now) {} = (.noSuchClient, {}) := by simp [cstep, cAddSnapshot]
    rw [h1, h2]
    exact ⟨rfl, rfl, rfl, .inr ⟨trivial, rfl, rfl⟩⟩
  | gs c =>
    right
    refine ⟨rfl, rfl, rfl, .inl ?_⟩
    simp [sameResp, linEv, cstep, cGetSnapshot, cCreated, respond]
  | avLib c p seg n now => simp [Ev.isHttp] at he
  | create c => simp [Ev.isHttp] at he
  | reopen => simp [Ev.isHttp] at he


theorem isHttp_client (e : Ev) (h : e.isHttp = true) : ∃ c, e.client = some c := by
  cases e <;> simp [Ev.isHttp, Ev.client] at h ⊢

theorem isLib_client (e : Ev) (h : e.isLib = true) : ∃ c, e.client = some c := by
  cases e <;> simp [Ev.isLib, Ev.client] at h ⊢

theorem reqMix_mem {evs : List Ev} (h : ReqMix evs) (e : Ev) (he : e ∈ evs) : e.isHttp = true ∨ e.isLib = true := by
  rcases h with h | h
  · exact .inl (h e he)
  · exact .inr (h e he)

theorem reqMix_client {evs : List Ev} (h : ReqMix evs) (e : Ev) (he : e ∈ evs) : ∃ c, e.client = some c := by
  rcases reqMix_mem h e he with h | h
  · exact isHttp_client e h
  · exact isLib_client e h

/-- if some request of the set is an HTTP AddVersion, all of them are HTTP requests -/
theorem reqMix_av {evs : List Ev} (h : ReqMix evs) (e' : Ev) (he' : e' ∈ evs) (hav : e'.isAv = true) :
    ∀ e ∈ evs, e.isHttp = true := by
  rcases h with h | h
  · exact h
  · have := h e' he'
    cases e' <;> simp [Ev.isAv, Ev.isLib] at hav this

theorem addedId_nonAv (e : Ev) (o : Out) (h1 : e.isHttp = true) (h2 : e.isAv = false) : addedId e o = [] := by
  cases e <;> simp [Ev.isHttp, Ev.isAv] at h1 h2 <;> cases o <;> rfl

theorem cCreate_client (x : CSt) : (cCreate x).client ≠ none := by
  cases hc : x.client with
  | none => simp [cCreate, hc]
  | some c => simp [cCreate, hc]

theorem needsCreate_false (e : Ev) (a : AS) (c : Uuid) (hc : e.client = some c) (h : needsCreate e a = false) :
    (a.st c).client ≠ none ∨ e.isAv = false := by
  cases e with
  | av c' p seg n now =>
    left
    simp only [Ev.client, Option.some.injEq] at hc
    subst hc
    simp only [needsCreate] at h
    intro hn; rw [hn] at h; simp at h
  | _ => right; rfl

theorem needsCreate_true (e : Ev) (a : AS) (c : Uuid) (hc : e.client = some c) (h : needsCreate e a = true) :
    (a.st c).client = none := by
  cases e with
  | av c' p seg n now =>
    simp only [Ev.client, Option.some.injEq] at hc
    subst hc
    simp only [needsCreate] at h
    cases hh : (a.st c').client with
    | none => rfl
    | some x => rw [hh] at h; simp at h
  | _ => simp [needsCreate] at h

/-! ### the simulation: machine state vs one-at-a-time state -/

/-- The machine's storage equals the storage of the one-at-a-time run of the requests linearized so
    far, except that a client may already exist as an empty record where the one-at-a-time run has
    none – only while the AddVersion that created it is still on its way to its second attempt. -/
structure LinRel (evs : List Ev) (m : MState) (b : AS) : Prop where
  ids : m.a.ids = b.ids
  st : ∀ c, m.a.st c = b.st c ∨
        (b.st c = {} ∧ m.a.st c = cCreated {} ∧
          ∃ (t : Nat) (e : Ev), evs[t]? = some e ∧ e.client = some c ∧ m.ph[t]? = some Phase.retry)
  nc : ∀ c, (b.st c).client = none → b.st c = {}
  retry : ∀ (t : Nat) (e : Ev) (c : Uuid), evs[t]? = some e → e.client = some c → m.ph[t]? = some Phase.retry →
    (m.a.st c).client ≠ none
  isAv : ∀ (t : Nat) (e : Ev), evs[t]? = some e → (m.ph[t]? = some Phase.retry ∨ m.ph[t]? = some Phase.needCreate) →
    e.isAv = true

theorem set_get {α} (l : List α) (t u : Nat) (x y : α) (hy : l[t]? = some y) :
    (l.set t x)[u]? = if u = t then some x else l[u]? := by
  by_cases hut : u = t
  · subst hut; simp [getElem?_set_eq' _ _ x y hy]
  · simp [hut, getElem?_set_ne' _ _ _ _ (Ne.symm hut)]

/-- a step that changes only the phase of `t`, neither from nor to `retry` -/
theorem linrel_phase (evs : List Ev) (m : MState) (b : AS) (h : LinRel evs m b) (t : Nat) (x y : Phase) (log' : List Act)
    (hy : m.ph[t]? = some y) (hyr : y ≠ .retry) (hxr : x ≠ .retry)
    (hx : x = .needCreate → ∀ e, evs[t]? = some e → e.isAv = true) :
    LinRel evs { m with ph := m.ph.set t x, log := log' } b := by
  refine ⟨h.ids, ?_, h.nc, ?_, ?_⟩
  · intro c
    rcases h.st c with h1 | ⟨h1, h2, t0, e0, he0, hc0, hp0⟩
    · exact .inl h1
    · refine .inr ⟨h1, h2, t0, e0, he0, hc0, ?_⟩
      show (m.ph.set t x)[t0]? = _
      rw [set_get _ _ _ x y hy]
      have : t0 ≠ t := by intro hh; subst hh; rw [hy] at hp0; exact hyr (Option.some.inj hp0)
      simp [this, hp0]
  · intro u e c he hc hp
    have hp' : (m.ph.set t x)[u]? = some .retry := hp
    rw [set_get _ _ _ x y hy] at hp'
    by_cases hut : u = t
    · simp only [hut, ↓reduceIte, Option.some.injEq] at hp'; exact absurd hp' hxr
    · simp only [hut, ↓reduceIte] at hp'; exact h.retry u e c he hc hp'
  · intro u e he hp
    have hp' : (m.ph.set t x)[u]? = some .retry ∨ (m.ph.set t x)[u]? = some .needCreate := hp
    rw [set_get _ _ _ x y hy] at hp'
    by_cases hut : u = t
    · subst hut
      simp only [↓reduceIte, Option.some.injEq] at hp'
      rcases hp' with hp' | hp'
      · exact absurd hp' hxr
      · exact hx hp' e he
    · simp only [hut, ↓reduceIte] at hp'; exact h.isAv u e he hp'

theorem nc_cstep (S : Sys) (e : Ev) (he : e.isHttp = true ∨ e.isLib = true) (x : CSt) (hx : x.client = none → x = {}) :
    (cstep S e x).2.client = none → (cstep S e x).2 = {} := by
  intro hn
  cases hc : x.client with
  | none =>
    have := hx hc
    subst this
    rcases cstep_empty S e he with h | h
    · exact absurd hn h
    · exact h
  | some cl => exact absurd hn (cstep_client_some S e x (by rw [hc]; simp))

/-- the simulation step -/
theorem linrel_step (S : Sys) (evs : List Ev) (hmix : ReqMix evs) (m : MState) (t : Nat) (m' : MState) (b : AS)
    (h : LinRel evs m b) (hs : MStep S evs m t m') :
    (linOrder m'.log = linOrder m.log ∧ LinRel evs m' b) ∨
    (∃ e, evs[t]? = some e ∧ linOrder m'.log = linOrder m.log ++ [t] ∧ LinRel evs m' (asStep S e b).2 ∧
      ∃ o, m'.ph[t]? = some (.answered o) ∧ RespRel evs e o (asStep S e b).1) := by
  cases hs with
  | invoke e he hp =>
    left
    refine ⟨by simp [linOrder_append], ?_⟩
    exact linrel_phase evs m b h t .ready .idle _ hp (by simp) (by simp) (by simp)
  | respond e he o hp =>
    left
    refine ⟨by simp [linOrder_append], ?_⟩
    exact linrel_phase evs m b h t (.finished o) (.answered o) _ hp (by simp) (by simp) (by simp)
  | toCreate e he ph hp hph hn =>
    left
    refine ⟨rfl, ?_⟩
    obtain ⟨c, hc⟩ := reqMix_client hmix e (List.mem_of_getElem? he)
    rcases hph with rfl | rfl
    · refine linrel_phase evs m b h t .needCreate .ready m.log hp (by simp) (by simp) ?_
      intro _ e' he'
      rw [he] at he'; cases he'
      exact needsCreate_isAv e m.a hn
    · exact absurd (needsCreate_true e m.a c hc hn) (h.retry t e c he hc hp)
  | create e he hp =>
    left
    refine ⟨rfl, ?_⟩
    obtain ⟨c, hc⟩ := reqMix_client hmix e (List.mem_of_getElem? he)
    have hcs : createStep S e m.a = ⟨upd m.a.st c (cCreate (m.a.st c)), m.a.ids⟩ := by
      unfold createStep
      rw [hc]
      simp only [asStep, Ev.client, cstep, addedId, List.append_nil]
    refine ⟨?_, ?_, h.nc, ?_, ?_⟩
    · show (createStep S e m.a).ids = b.ids
      rw [hcs]; exact h.ids
    · intro d
      show (createStep S e m.a).st d = b.st d ∨ (b.st d = {} ∧ (createStep S e m.a).st d = cCreated {} ∧
        ∃ (t0 : Nat) (e0 : Ev), evs[t0]? = some e0 ∧ e0.client = some d ∧ (m.ph.set t .retry)[t0]? = some Phase.retry)
      rw [hcs]
      by_cases hd : d = c
      · subst hd
        simp only [upd_same]
        rcases h.st d with h1 | ⟨h1, h2, t0, e0, he0, hc0, hp0⟩
        · cases hcl : (b.st d).client with
          | none =>
            have hb := h.nc d hcl
            right
            refine ⟨hb, ?_, t, e, he, hc, ?_⟩
            · rw [h1, hb, cCreate_eq _ rfl]
            · rw [set_get _ _ _ _ _ hp]; simp
          | some cl =>
            left
            rw [h1, cCreate_some _ cl hcl]
        · right
          refine ⟨h1, ?_, t0, e0, he0, hc0, ?_⟩
          · rw [h2]; rfl
          · rw [set_get _ _ _ _ _ hp]
            by_cases h0 : t0 = t <;> simp [h0, hp0]
      · simp only [upd_other _ _ _ _ hd]
        rcases h.st d with h1 | ⟨h1, h2, t0, e0, he0, hc0, hp0⟩
        · exact .inl h1
        · refine .inr ⟨h1, h2, t0, e0, he0, hc0, ?_⟩
          rw [set_get _ _ _ _ _ hp]
          by_cases h0 : t0 = t <;> simp [h0, hp0]
    · intro u e' c' he' hc' hp'
      show ((createStep S e m.a).st c').client ≠ none
      rw [hcs]
      by_cases hd : c' = c
      · subst hd; simp only [upd_same]; exact cCreate_client _
      · simp only [upd_other _ _ _ _ hd]
        have hp'' : (m.ph.set t .retry)[u]? = some .retry := hp'
        rw [set_get _ _ _ _ _ hp] at hp''
        by_cases hut : u = t
        · subst hut; rw [he] at he'; cases he'; rw [hc] at hc'; cases hc'; exact absurd rfl hd
        · simp only [hut, ↓reduceIte] at hp''; exact h.retry u e' c' he' hc' hp''
    · intro u e' he' hp'
      have hp'' : (m.ph.set t .retry)[u]? = some .retry ∨ (m.ph.set t .retry)[u]? = some .needCreate := hp'
      rw [set_get _ _ _ _ _ hp] at hp''
      by_cases hut : u = t
      · subst hut; rw [he] at he'; cases he'; exact h.isAv u e he (.inr hp)
      · simp only [hut, ↓reduceIte] at hp''; exact h.isAv u e' he' hp''
  | lin e he ph hp hph hn =>
    right
    refine ⟨e, he, by simp [linOrder_append], ?_⟩
    have hereq := reqMix_mem hmix e (List.mem_of_getElem? he)
    obtain ⟨c, hc⟩ := reqMix_client hmix e (List.mem_of_getElem? he)
    have hcl : (linEv e).client = some c := by rw [linEv_client]; exact hc
    have hphne : ph ≠ .needCreate ∧ ph ≠ .idle := by rcases hph with rfl | rfl <;> simp
    -- what the two sides compute on the record of client c
    have hm_st : (linStep S e m.a).2.st = upd m.a.st c (cstep S (linEv e) (m.a.st c)).2 := by
      rw [linStep_eq]; simp [asStep, hcl]
    have hm_ids : (linStep S e m.a).2.ids = m.a.ids ++ addedId e (cstep S (linEv e) (m.a.st c)).1 := by
      rw [linStep_eq, asStep_ids S _ _ c hcl, addedId_linEv]
    have hm_out : (linStep S e m.a).1 = (cstep S (linEv e) (m.a.st c)).1 := by
      rw [linStep_eq]; simp [asStep, hcl]
    have hb_st : (asStep S e b).2.st = upd b.st c (cstep S e (b.st c)).2 := by simp [asStep, hc]
    have hb_ids : (asStep S e b).2.ids = b.ids ++ addedId e (cstep S e (b.st c)).1 := asStep_ids S e b c hc
    have hb_out : (asStep S e b).1 = (cstep S e (b.st c)).1 := by simp [asStep, hc]
    -- the bookkeeping that does not depend on which case we are in
    have hretry : ∀ (u : Nat) (e' : Ev) (c' : Uuid), evs[u]? = some e' → e'.client = some c' →
        (m.ph.set t (.answered (linStep S e m.a).1))[u]? = some .retry → ((linStep S e m.a).2.st c').client ≠ none := by
      intro u e' c' he' hc' hp'
      rw [set_get _ _ _ _ _ hp] at hp'
      by_cases hut : u = t
      · simp [hut] at hp'
      · simp only [hut, ↓reduceIte] at hp'
        have := h.retry u e' c' he' hc' hp'
        rw [hm_st]
        by_cases hd : c' = c
        · subst hd; simp only [upd_same]; exact cstep_client_some S _ _ this
        · simp only [upd_other _ _ _ _ hd]; exact this
    have hisAv : ∀ (u : Nat) (e' : Ev), evs[u]? = some e' →
        ((m.ph.set t (.answered (linStep S e m.a).1))[u]? = some .retry ∨
         (m.ph.set t (.answered (linStep S e m.a).1))[u]? = some .needCreate) → e'.isAv = true := by
      intro u e' he' hp'
      rw [set_get _ _ _ _ _ hp] at hp'
      by_cases hut : u = t
      · simp [hut] at hp'
      · simp only [hut, ↓reduceIte] at hp'; exact h.isAv u e' he' hp'
    have hnc : ∀ d, ((asStep S e b).2.st d).client = none → (asStep S e b).2.st d = {} := by
      intro d
      rw [hb_st]
      by_cases hd : d = c
      · subst hd; simp only [upd_same]; exact nc_cstep S e hereq _ (h.nc d)
      · simp only [upd_other _ _ _ _ hd]; exact h.nc d
    have hothers : ∀ d, d ≠ c → (m.a.st d = b.st d ∨
        (b.st d = {} ∧ m.a.st d = cCreated {} ∧ ∃ (t0 : Nat) (e0 : Ev), evs[t0]? = some e0 ∧ e0.client = some d ∧
          (m.ph.set t (.answered (linStep S e m.a).1))[t0]? = some Phase.retry)) := by
      intro d hd
      rcases h.st d with h1 | ⟨h1, h2, t0, e0, he0, hc0, hp0⟩
      · exact .inl h1
      · refine .inr ⟨h1, h2, t0, e0, he0, hc0, ?_⟩
        rw [set_get _ _ _ _ _ hp]
        have : t0 ≠ t := by
          intro hh; subst hh; rw [he] at he0; cases he0; rw [hc] at hc0; cases hc0; exact hd rfl
        simp [this, hp0]
    have hph' : (m.ph.set t (.answered (linStep S e m.a).1))[t]? = some (.answered (linStep S e m.a).1) := by
      rw [set_get _ _ _ _ _ hp]; simp
    rcases h.st c with h1 | ⟨h1, h2, t0, e0, he0, hc0, hp0⟩
    · -- the two runs agree on the record of c
      have hsame : cstep S (linEv e) (m.a.st c) = cstep S e (b.st c) := by
        rw [← h1]; exact cstep_linEv_same S e _ (needsCreate_false e m.a c hc hn)
      refine ⟨⟨?_, ?_, hnc, hretry, hisAv⟩, _, hph', ?_⟩
      · show (linStep S e m.a).2.ids = _
        rw [hm_ids, hb_ids, hsame, h.ids]
      · intro d
        show (linStep S e m.a).2.st d = (asStep S e b).2.st d ∨ _
        rw [hm_st, hb_st]
        by_cases hd : d = c
        · subst hd; left; simp only [upd_same]; rw [hsame]
        · simp only [upd_other _ _ _ _ hd]; exact hothers d hd
      · left; rw [hm_out, hb_out, hsame]
    · -- the machine has the empty record, the one-at-a-time run has none: some HTTP AddVersion is on its way
      have hav0 : e0.isAv = true := h.isAv t0 e0 he0 (.inl hp0)
      have hehttp : e.isHttp = true := reqMix_av hmix e0 (List.mem_of_getElem? he0) hav0 e (List.mem_of_getElem? he)
      rcases cstep_created S e hehttp with hsame | ⟨hs1, hs2, hnav, hresp⟩
      · have hsame' : cstep S (linEv e) (m.a.st c) = cstep S e (b.st c) := by rw [h1, h2]; exact hsame
        refine ⟨⟨?_, ?_, hnc, hretry, hisAv⟩, _, hph', ?_⟩
        · show (linStep S e m.a).2.ids = _
          rw [hm_ids, hb_ids, hsame', h.ids]
        · intro d
          show (linStep S e m.a).2.st d = (asStep S e b).2.st d ∨ _
          rw [hm_st, hb_st]
          by_cases hd : d = c
          · subst hd; left; simp only [upd_same]; rw [hsame']
          · simp only [upd_other _ _ _ _ hd]; exact hothers d hd
        · left; rw [hm_out, hb_out, hsame']
      · refine ⟨⟨?_, ?_, hnc, hretry, hisAv⟩, _, hph', ?_⟩
        · show (linStep S e m.a).2.ids = _
          rw [hm_ids, hb_ids, addedId_nonAv e _ hehttp hnav, addedId_nonAv e _ hehttp hnav, h.ids]
        · intro d
          show (linStep S e m.a).2.st d = (asStep S e b).2.st d ∨ ((asStep S e b).2.st d = {} ∧ (linStep S e m.a).2.st d = cCreated {} ∧ _)
          rw [hm_st, hb_st]
          by_cases hd : d = c
          · subst hd
            right
            simp only [upd_same]
            refine ⟨by rw [h1]; exact hs2, by rw [h2]; exact hs1, t0, e0, he0, hc0, ?_⟩
            rw [set_get _ _ _ _ _ hp]
            have : t0 ≠ t := by
              intro hh; subst hh; rw [he] at he0; cases he0
              have := h.isAv t0 e he (.inl hp0)
              rw [hnav] at this; cases this
            simp [this, hp0]
          · simp only [upd_other _ _ _ _ hd]; exact hothers d hd
        · rw [hm_out, hb_out, h1, h2]; exact .inr ⟨⟨e0, List.mem_of_getElem? he0, hav0⟩, hresp⟩


/-! ### whole runs -/

theorem seqRun_snoc (S : Sys) (evs : List Ev) (l : List Nat) (t : Nat) (e : Ev) (a : AS) (he : evs[t]? = some e) :
    seqRun S evs (l ++ [t]) a =
      ((asStep S e (seqRun S evs l a).1).2, (seqRun S evs l a).2 ++ [(t, (asStep S e (seqRun S evs l a).1).1)]) := by
  induction l generalizing a with
  | nil => simp [seqRun, he]
  | cons u us ih =>
    simp only [List.cons_append, seqRun]
    cases hu : evs[u]? with
    | none => simp only; exact ih a
    | some e' => simp only; rw [ih]; simp

theorem seqRun_fst (S : Sys) (evs : List Ev) (l : List Nat) (a : AS) (h : ∀ t ∈ l, t < evs.length) :
    (seqRun S evs l a).2.map Prod.fst = l := by
  induction l generalizing a with
  | nil => rfl
  | cons u us ih =>
    have hu : u < evs.length := h u (by simp)
    simp only [seqRun, List.getElem?_eq_getElem hu, List.map_cons]
    rw [ih _ (fun t ht => h t (by simp [ht]))]

/-- what holds of the machine after every run -/
structure LinState (S : Sys) (evs : List Ev) (a0 : AS) (m : MState) : Prop where
  pl : PL evs m
  sim : ∃ b outs, seqRun S evs (linOrder m.log) a0 = (b, outs) ∧ LinRel evs m b ∧
    ∀ t o', (t, o') ∈ outs → ∃ e o, evs[t]? = some e ∧ (m.ph[t]?).bind Phase.out? = some o ∧ RespRel evs e o o'

theorem linstate_init (S : Sys) (evs : List Ev) (a0 : AS) (hnc : ∀ c, (a0.st c).client = none → a0.st c = {}) :
    LinState S evs a0 (minit a0 evs) := by
  refine ⟨pl_init a0 evs, a0, [], rfl, ⟨rfl, fun c => .inl rfl, hnc, ?_, ?_⟩, by simp⟩
  · intro t e c he hc hp
    simp only [minit, List.getElem?_map, he, Option.map_some] at hp
    cases hp
  · intro t e he hp
    simp only [minit, List.getElem?_map, he, Option.map_some] at hp
    rcases hp with hp | hp <;> cases hp

theorem linstate_step (S : Sys) (evs : List Ev) (hmix : ReqMix evs) (a0 : AS) (m : MState) (t : Nat) (m' : MState)
    (h : LinState S evs a0 m) (hs : MStep S evs m t m') : LinState S evs a0 m' := by
  refine ⟨pl_step S evs m t m' h.pl hs, ?_⟩
  obtain ⟨b, outs, hseq, hrel, houts⟩ := h.sim
  rcases linrel_step S evs hmix m t m' b hrel hs with ⟨hlog, hrel'⟩ | ⟨e, he, hlog, hrel', o, hph, hresp⟩
  · refine ⟨b, outs, by rw [hlog]; exact hseq, hrel', ?_⟩
    intro u o' hu
    obtain ⟨e, o, he, ho, hr⟩ := houts u o' hu
    exact ⟨e, o, he, out_step S evs m t m' hs u o ho, hr⟩
  · refine ⟨(asStep S e b).2, outs ++ [(t, (asStep S e b).1)], ?_, hrel', ?_⟩
    · rw [hlog, seqRun_snoc S evs _ t e a0 he, hseq]
    · intro u o' hu
      simp only [List.mem_append, List.mem_singleton, Prod.mk.injEq] at hu
      rcases hu with hu | ⟨rfl, rfl⟩
      · obtain ⟨e', o'', he', ho, hr⟩ := houts u o' hu
        exact ⟨e', o'', he', out_step S evs m t m' hs u o'' ho, hr⟩
      · exact ⟨e, o, he, by rw [hph]; rfl, hresp⟩

theorem linstate_run (S : Sys) (evs : List Ev) (hmix : ReqMix evs) (a0 : AS)
    (hnc : ∀ c, (a0.st c).client = none → a0.st c = {}) (sch : List Nat) :
    LinState S evs a0 (mrun S evs (minit a0 evs) sch) :=
  mrun_induct S evs (LinState S evs a0) (fun m t m' hm hs => linstate_step S evs hmix a0 m t m' hm hs) _
    (linstate_init S evs a0 hnc) sch

/-- **Linearizability of the transaction-atomic machine** (all request mixes, any number of
    requests, every schedule): once every request has been answered, the order of the requests'
    last transactions is a permutation of the requests that respects real-time order, and running
    the requests one at a time in that order leaves exactly the machine's final storage and gives
    every request the response it got – up to F3 (`sameRespF3`). -/
theorem machine_linearizable (S : Sys) (evs : List Ev) (hmix : ReqMix evs) (a0 : AS)
    (hnc : ∀ c, (a0.st c).client = none → a0.st c = {}) (sch : List Nat)
    (hfin : allFinished (mrun S evs (minit a0 evs) sch)) :
    let m := mrun S evs (minit a0 evs) sch
    let order := linOrder m.log
    order.Perm (List.range evs.length) ∧
      (∀ t u, Before m.log (.respond t) (.invoke u) → Before order t u) ∧
      (∀ c, m.a.st c = (seqRun S evs order a0).1.st c) ∧ m.a.ids = (seqRun S evs order a0).1.ids ∧
      (seqRun S evs order a0).2.map Prod.fst = order ∧
      ∀ t o', (t, o') ∈ (seqRun S evs order a0).2 →
        ∃ e o, evs[t]? = some e ∧ m.ph[t]? = some (.finished o) ∧ RespRel evs e o o' := by
  intro m order
  have hls : LinState S evs a0 m := linstate_run S evs hmix a0 hnc sch
  obtain ⟨b, outs, hseq, hrel, houts⟩ := hls.sim
  have hpl := hls.pl
  have hfin' : ∀ (t : Nat) (p : Phase), m.ph[t]? = some p → ∃ o, p = Phase.finished o := by
    intro t p hp; exact hfin p (List.mem_of_getElem? hp)
  have hmem : ∀ t, t ∈ linOrder m.log ↔ t < evs.length := by
    intro t
    rw [mem_linOrder, hpl.lin t, ← hpl.len]
    constructor
    · rintro ⟨o, ho | ho⟩ <;>
      · rcases Nat.lt_or_ge t m.ph.length with h' | h'
        · exact h'
        · rw [List.getElem?_eq_none h'] at ho; cases ho
    · intro ht
      obtain ⟨o, ho⟩ := hfin' t _ (List.getElem?_eq_getElem ht)
      exact ⟨o, .inr (by rw [List.getElem?_eq_getElem ht, ho])⟩
  refine ⟨?_, ?_, ?_, ?_, ?_, ?_⟩
  · rw [List.perm_ext_iff_of_nodup hpl.nodup List.nodup_range]
    intro t; rw [hmem t, List.mem_range]
  · intro t u hb
    have hu : Act.invoke u ∈ m.log := by
      obtain ⟨l1, l2, l3, hl⟩ := hb
      rw [hl]; simp
    obtain ⟨p, hp⟩ := hpl.inv u hu
    obtain ⟨o, ho⟩ := hfin' u p hp
    have hlin : Act.lin u ∈ m.log := (hpl.lin u).2 ⟨o, .inr (by rw [hp, ho])⟩
    exact before_filterMap _ m.log _ _ t u rfl rfl (hpl.rt t u hb hlin)
  · intro c
    rw [hseq]
    rcases hrel.st c with h1 | ⟨_, _, t0, e0, _, _, hp0⟩
    · exact h1
    · obtain ⟨o, ho⟩ := hfin' t0 _ hp0; cases ho
  · rw [hseq]; exact hrel.ids
  · exact seqRun_fst S evs _ a0 (fun t ht => (hmem t).1 ht)
  · intro t o' ht
    rw [hseq] at ht
    obtain ⟨e, o, he, ho, hr⟩ := houts t o' ht
    cases hp : m.ph[t]? with
    | none => rw [hp] at ho; cases ho
    | some p =>
      obtain ⟨o2, ho2⟩ := hfin' t p hp
      subst ho2
      rw [hp] at ho
      simp only [Option.bind_some, Phase.out?, Option.some.injEq] at ho
      subst ho
      exact ⟨e, o2, he, rfl, hr⟩


/-! ### precedence read off the phases -/

/-- more bookkeeping between phases and log: who has been invoked, who has been answered -/
structure PL2 (m : MState) : Prop where
  fin : ∀ (t : Nat) (o : Out), m.ph[t]? = some (Phase.finished o) → Act.respond t ∈ m.log
  idle : ∀ (t : Nat), m.ph[t]? = some Phase.idle → Act.invoke t ∉ m.log
  inv : ∀ (t : Nat) (ph : Phase), m.ph[t]? = some ph → ph ≠ Phase.idle → Act.invoke t ∈ m.log

theorem pl2_init (a : AS) (evs : List Ev) : PL2 (minit a evs) := by
  refine ⟨?_, fun t _ h => by simp [minit] at h, ?_⟩
  · intro t o h
    simp only [minit, List.getElem?_map] at h
    cases hh : evs[t]? <;> simp [hh] at h
  · intro t ph h hne
    simp only [minit, List.getElem?_map] at h
    cases hh : evs[t]? <;> simp [hh] at h
    exact absurd h.symm hne

theorem pl2_step (S : Sys) (evs : List Ev) (m : MState) (t : Nat) (m' : MState) (h : PL2 m) (hs : MStep S evs m t m') :
    PL2 m' := by
  have key : ∀ (x y : Phase) (log' : List Act), m.ph[t]? = some y →
      (∀ a, a ∈ m.log → a ∈ log') →
      (∀ o, x = .finished o → Act.respond t ∈ log') → x ≠ .idle → Act.invoke t ∈ log' →
      (∀ u, u ≠ t → Act.invoke u ∈ log' → Act.invoke u ∈ m.log) →
      PL2 ⟨m'.a, m.ph.set t x, log'⟩ := by
    intro x y log' hy hsub hfin hni hinv hother
    refine ⟨?_, ?_, ?_⟩
    · intro u o hu
      have hu' : (m.ph.set t x)[u]? = some (Phase.finished o) := hu
      rw [set_get _ _ _ x y hy] at hu'
      by_cases hut : u = t
      · subst hut; simp only [↓reduceIte, Option.some.injEq] at hu'; exact hfin o hu'
      · simp only [hut, ↓reduceIte] at hu'; exact hsub _ (h.fin u o hu')
    · intro u hu
      have hu' : (m.ph.set t x)[u]? = some Phase.idle := hu
      rw [set_get _ _ _ x y hy] at hu'
      by_cases hut : u = t
      · subst hut; simp only [↓reduceIte, Option.some.injEq] at hu'; exact absurd hu' hni
      · simp only [hut, ↓reduceIte] at hu'
        intro hmem; exact h.idle u hu' (hother u hut hmem)
    · intro u ph hu hne
      have hu' : (m.ph.set t x)[u]? = some ph := hu
      rw [set_get _ _ _ x y hy] at hu'
      by_cases hut : u = t
      · subst hut; exact hinv
      · simp only [hut, ↓reduceIte] at hu'; exact hsub _ (h.inv u ph hu' hne)
  cases hs with
  | invoke e he hp =>
    exact key _ _ _ hp (fun a ha => by simp [ha]) (by intro o h; cases h) (by simp) (by simp)
      (by intro u hut hu; simpa [hut] using hu)
  | toCreate e he ph hp hph hn =>
    exact key _ _ _ hp (fun a ha => ha) (by intro o h; cases h) (by simp)
      (h.inv t ph hp (by rcases hph with rfl | rfl <;> simp)) (fun u _ hu => hu)
  | lin e he ph hp hph hn =>
    exact key _ _ _ hp (fun a ha => by simp [ha]) (by intro o h; cases h) (by simp)
      (by simp [h.inv t ph hp (by rcases hph with rfl | rfl <;> simp)]) (by intro u _ hu; simpa using hu)
  | create e he hp =>
    exact key _ _ _ hp (fun a ha => ha) (by intro o h; cases h) (by simp) (h.inv t _ hp (by simp)) (fun u _ hu => hu)
  | respond e he o hp =>
    exact key _ _ _ hp (fun a ha => by simp [ha]) (by intro o' _; simp) (by simp)
      (by simp [h.inv t _ hp (by simp)]) (by intro u _ hu; simpa using hu)

theorem pl2_run (S : Sys) (evs : List Ev) (a : AS) (sch : List Nat) : PL2 (mrun S evs (minit a evs) sch) :=
  mrun_induct S evs PL2 (fun m t m' hm hs => pl2_step S evs m t m' hm hs) _ (pl2_init a evs) sch

theorem mstep_log (S : Sys) (evs : List Ev) (m m' : MState) (t : Nat) (hs : MStep S evs m t m') :
    ∃ suf, m'.log = m.log ++ suf := by
  cases hs with
  | invoke e he hp => exact ⟨_, rfl⟩
  | toCreate e he ph hp hph hn => exact ⟨[], by simp⟩
  | lin e he ph hp hph hn => exact ⟨_, rfl⟩
  | create e he hp => exact ⟨[], by simp⟩
  | respond e he o hp => exact ⟨_, rfl⟩

theorem mrun_log (S : Sys) (evs : List Ev) (m : MState) (sch : List Nat) : ∃ suf, (mrun S evs m sch).log = m.log ++ suf := by
  induction sch generalizing m with
  | nil => exact ⟨[], by simp [mrun]⟩
  | cons t ts ih =>
    unfold mrun
    cases h : mstep S evs m t with
    | none => exact ih m
    | some m' =>
      obtain ⟨s1, h1⟩ := mstep_log S evs m m' t (mstep_rel S evs m m' t h)
      obtain ⟨s2, h2⟩ := ih m'
      exact ⟨s1 ++ s2, by simp only [h2, h1, List.append_assoc]⟩

theorem before_of_mem_append {α} (l1 l2 : List α) (x y : α) (hx : x ∈ l1) (hy : y ∈ l2) : Before (l1 ++ l2) x y := by
  obtain ⟨a, b, rfl⟩ := List.append_of_mem hx
  obtain ⟨c, d, rfl⟩ := List.append_of_mem hy
  exact ⟨a, b ++ c, d, by simp⟩

end Tcs
