import Tcs.Spec.HttpSpec
import Tcs.Proofs.Impl
namespace Tcs

/-! The HTTP layer factors as validation → protocol request → encoding → default header. -/

theorem map_done {α β} (f : α → β) (a : α) : (ReqM.done a).map f = .done (f a) := rfl

theorem map_txn {α β γ} (f : α → β) (c : Uuid) (body : TxnM γ) (k : Option γ → ReqM α) :
    (ReqM.txn c body k).map f = .txn c body (fun r => (k r).map f) := rfl

theorem map_map {α β γ} (f : α → β) (g : β → γ) (p : ReqM α) : (p.map f).map g = p.map (fun a => g (f a)) := by
  induction p with
  | done a => rfl
  | txn c body k ih => simp only [map_txn]; congr; funext r; exact ih r

/-- the encoding of the add-version retry loop -/
theorem avReq_map (cfg : Config) (ens : TxnM Unit) (c p : Uuid) (seg : Bytes) (newId : Uuid) (now : Int) (fuel : Nat) :
    (avReq cfg ens c p seg newId now fuel).map respond = addVersionLoop cfg ens c p seg newId now fuel := by
  induction fuel with
  | zero => rfl
  | succ n ih =>
    simp only [avReq, addVersionLoop, map_txn]
    congr; funext x
    match x with
    | none => rfl
    | some (.ok (.ok v, u)) => rfl
    | some (.ok (.expected l, _)) => rfl
    | some (.error .noSuchClient) =>
      simp only [map_txn]
      congr; funext y
      match y with
      | none => rfl
      | some () => exact ih

theorem one_map {α β} (c : Uuid) (body : TxnM (Except SrvErr α)) (f : α → Out) (g : Out → β) :
    (one c body f).map g = .txn c body (fun
      | none => .done (g .storageError)
      | some (.ok a) => .done (g (f a))
      | some (.error .noSuchClient) => .done (g .noSuchClient)) := by
  simp only [one, map_txn]
  congr; funext x
  match x with
  | none => rfl
  | some (.ok a) => rfl
  | some (.error .noSuchClient) => rfl

theorem serve_eq (h : HttpCfg) (r : Request) : serve h r = (route h r).map addCC := rfl

/-- THE factorisation: the handler model is validation, then the protocol request, then the encoding, then the default header -/
theorem serve_factor (h : HttpCfg) (r : Request) :
    serve h r = match parseReq h r with
      | .index => .done (addCC { status := 200, ctype := some "text/plain; charset=utf-8" })
      | .unknown => .done (addCC { status := 404 })
      | .refused f => .done (addCC (refuse f))
      | .ev e => (e.req (sysOf h)).map (fun o => addCC (respond o)) := by
  rw [serve_eq]
  unfold route
  split
  · rename_i h1 h2
    unfold parseReq
    simp only [h1, h2]
    rfl
  · rename_i h1 h2
    unfold parseReq
    simp only [h1, h2]
    cases pathId _ with
    | none => rfl
    | some p =>
      simp only []
      cases clientIdHeader h.allow r with
      | error f => rfl
      | ok c =>
        simp only [Ev.req, one_map, map_txn]
        congr; funext x
        match x with
        | none => rfl
        | some (.ok (.found v)) => rfl
        | some (.ok .notFound) => rfl
        | some (.ok .gone) => rfl
        | some (.error .noSuchClient) => rfl
  · rename_i h1 h2
    unfold parseReq
    simp only [h1, h2]
    cases pathId _ with
    | none => rfl
    | some p =>
      simp only []
      split
      · rfl
      · cases clientIdHeader h.allow r with
        | error f => rfl
        | ok c =>
          simp only []
          cases assemble h.params.maxSize r.chunks ByteArray.empty with
          | none => rfl
          | some body =>
            simp only []
            split
            · rfl
            · simp only [Ev.req, sysOf, ← avReq_map, map_map]
  · rename_i h1 h2
    unfold parseReq
    simp only [h1, h2]
    cases clientIdHeader h.allow r with
    | error f => rfl
    | ok c =>
      simp only [Ev.req, one_map, map_txn]
      congr; funext x
      match x with
      | none => rfl
      | some (.ok (some (v, d))) => rfl
      | some (.ok none) => rfl
      | some (.error .noSuchClient) => rfl
  · rename_i h1 h2
    unfold parseReq
    simp only [h1, h2]
    cases pathId _ with
    | none => rfl
    | some p =>
      simp only []
      split
      · rfl
      · cases clientIdHeader h.allow r with
        | error f => rfl
        | ok c =>
          simp only []
          cases assemble h.params.maxSizeSnap r.chunks ByteArray.empty with
          | none => rfl
          | some body =>
            simp only []
            split
            · rfl
            · simp only [Ev.req, one_map, map_txn, sysOf]
              congr; funext x
              match x with
              | none => rfl
              | some (.ok _) => rfl
              | some (.error .noSuchClient) => rfl
  · rename_i n1 n2 n3 n4 n5
    have hu : parseReq h r = .unknown := by
      unfold parseReq
      split
      · exact (n1 ‹_› ‹_›).elim
      · exact (n2 _ ‹_› ‹_›).elim
      · exact (n3 _ ‹_› ‹_›).elim
      · exact (n4 ‹_› ‹_›).elim
      · exact (n5 _ ‹_› ‹_›).elim
      · rfl
    rw [hu]; rfl

theorem map_runC {σ α β} (B : Backend σ) (mode : TxnMode) (f : α → β) (p : ReqM α) (s : σ) :
    (p.map f).runC B mode s = (f (p.runC B mode s).1, (p.runC B mode s).2.1, (p.runC B mode s).2.2) := by
  induction p generalizing s with
  | done a => rfl
  | txn c body k ih => simp only [map_txn, ReqM.runC, ih]

theorem map_run {σ α β} (B : Backend σ) (mode : TxnMode) (f : α → β) (p : ReqM α) (s : σ) :
    (p.map f).run B mode s = (f (p.run B mode s).1, (p.run B mode s).2) := by
  simp only [ReqM.run, map_runC]

theorem map_txnCount {σ α β} (B : Backend σ) (mode : TxnMode) (f : α → β) (p : ReqM α) (s : σ) :
    (p.map f).txnCount B mode s = p.txnCount B mode s := by
  induction p generalizing s with
  | done a => rfl
  | txn c body k ih => simp only [map_txn, ReqM.txnCount, ih]

theorem foldl_append_size (chunks : List Bytes) (acc : Bytes) :
    (chunks.foldl (· ++ ·) acc).size = acc.size + (chunks.map (·.size)).sum := by
  induction chunks generalizing acc with
  | nil => simp
  | cons ch rest ih => simp only [List.foldl_cons, ih, ByteArray.size_append, List.map_cons, List.sum_cons]; omega

/-- the statement without a bound on the accumulator is false: an accumulator that is already over the limit is
    returned unchanged when no chunk follows (the loop only checks when a chunk arrives) -/
example : assemble 0 [] ⟨#[1]⟩ ≠
    (if (⟨#[1]⟩ : Bytes).size + (([] : List Bytes).map (·.size)).sum ≤ 0 then some (([] : List Bytes).foldl (· ++ ·) ⟨#[1]⟩) else none) := by
  decide

/-- the body loop: accepted iff the total size is within the limit, and then the body is the concatenation of the chunks,
    for every chunking (the accumulator starts within the limit; the handlers start from the empty body) -/
theorem assemble_spec (maxSize : Nat) (chunks : List Bytes) (acc : Bytes) (hacc : acc.size ≤ maxSize) :
    assemble maxSize chunks acc =
      if acc.size + (chunks.map (·.size)).sum ≤ maxSize then some (chunks.foldl (· ++ ·) acc) else none := by
  induction chunks generalizing acc with
  | nil => simp only [assemble, List.map_nil, List.sum_nil, Nat.add_zero, List.foldl_nil, hacc, ↓reduceIte]
  | cons ch rest ih =>
    simp only [assemble, List.map_cons, List.sum_cons, List.foldl_cons]
    by_cases h : acc.size + ch.size > maxSize
    · have : ¬ (acc.size + (ch.size + (rest.map (·.size)).sum) ≤ maxSize) := by omega
      simp only [h, this, ↓reduceIte]
    · have e : (acc ++ ch).size + (rest.map (·.size)).sum = acc.size + (ch.size + (rest.map (·.size)).sum) := by
        rw [ByteArray.size_append]; omega
      have hacc' : (acc ++ ch).size ≤ maxSize := by rw [ByteArray.size_append]; omega
      simp only [h, ↓reduceIte, ih _ hacc', e]

theorem assemble_empty (maxSize : Nat) (chunks : List Bytes) :
    assemble maxSize chunks ByteArray.empty =
      if (chunks.map (·.size)).sum ≤ maxSize then some (chunks.foldl (· ++ ·) ByteArray.empty) else none := by
  have := assemble_spec maxSize chunks ByteArray.empty (by simp)
  simpa using this

/-- inversion of the validation: which protocol requests a request can be turned into, and what was checked -/
theorem parseReq_ev_inv (h : HttpCfg) (r : Request) (e : Ev) (hp : parseReq h r = .ev e) :
    ∃ c, clientIdHeader h.allow r = .ok c ∧
      ((∃ p, e = .gcv c p) ∨
       (∃ p body, e = .av c p body r.newId r.now ∧ contentType r = HS_CT.toUTF8.toList ∧
          assemble h.params.maxSize r.chunks ByteArray.empty = some body ∧ body.size ≠ 0) ∨
       e = .gs c ∨
       (∃ v body, e = .as c v body r.now ∧ contentType r = SNAP_CT.toUTF8.toList ∧
          assemble h.params.maxSizeSnap r.chunks ByteArray.empty = some body ∧ body.size ≠ 0)) := by
  unfold parseReq at hp
  split at hp
  · cases hp
  · split at hp
    · cases hp
    · split at hp
      · cases hp
      · rename_i c hc; cases hp; exact ⟨c, hc, .inl ⟨_, rfl⟩⟩
  · split at hp
    · cases hp
    · split at hp
      · cases hp
      · split at hp
        · cases hp
        · split at hp
          · cases hp
          · split at hp
            · cases hp
            · rename_i hct _ c hc _ body hb hsz
              cases hp
              exact ⟨c, hc, .inr (.inl ⟨_, body, rfl, Decidable.of_not_not hct, hb, hsz⟩)⟩
  · split at hp
    · cases hp
    · rename_i c hc; cases hp; exact ⟨c, hc, .inr (.inr (.inl rfl))⟩
  · split at hp
    · cases hp
    · split at hp
      · cases hp
      · split at hp
        · cases hp
        · split at hp
          · cases hp
          · split at hp
            · cases hp
            · rename_i hct _ c hc _ body hb hsz
              cases hp
              exact ⟨c, hc, .inr (.inr (.inr ⟨_, body, rfl, Decidable.of_not_not hct, hb, hsz⟩))⟩
  · cases hp

end Tcs
