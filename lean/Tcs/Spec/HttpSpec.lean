import Tcs.Model.History
namespace Tcs

/-! Factorisation of the HTTP layer: request validation (`parseReq`) → protocol request (`Ev`) →
    response encoding (`respond`) → default headers (`addCC`). `serve_factor` (Proofs/HttpProofs.lean)
    shows that the handler model `serve` is exactly this composition. -/

inductive Parsed where
  | index                      -- GET /
  | unknown                    -- no such route / method
  | refused (f : Refusal)      -- validation failed
  | ev (e : Ev)                -- a protocol request

def sysOf (h : HttpCfg) : Sys := { cfg := h.cfg, params := h.params, ensure := h.ensure }

/-- validation of a request, in the handlers' order (path id, content type, client id + allow-list, body) -/
def parseReq (h : HttpCfg) (r : Request) : Parsed :=
  match r.method, pathSegments r.path with
  | "GET", [""] => .index
  | "GET", ["v1", "client", "get-child-version", seg] =>
    match pathId seg with
    | none => .refused .notFound
    | some p =>
      match clientIdHeader h.allow r with
      | .error f => .refused f
      | .ok c => .ev (.gcv c p)
  | "POST", ["v1", "client", "add-version", seg] =>
    match pathId seg with
    | none => .refused .notFound
    | some p =>
      if contentType r ≠ HS_CT.toUTF8.toList then .refused .badRequest
      else match clientIdHeader h.allow r with
        | .error f => .refused f
        | .ok c =>
          match assemble h.params.maxSize r.chunks ByteArray.empty with
          | none => .refused .badRequest
          | some body => if body.size = 0 then .refused .badRequest else .ev (.av c p body r.newId r.now)
  | "GET", ["v1", "client", "snapshot"] =>
    match clientIdHeader h.allow r with
    | .error f => .refused f
    | .ok c => .ev (.gs c)
  | "POST", ["v1", "client", "add-snapshot", seg] =>
    match pathId seg with
    | none => .refused .notFound
    | some v =>
      if contentType r ≠ SNAP_CT.toUTF8.toList then .refused .badRequest
      else match clientIdHeader h.allow r with
        | .error f => .refused f
        | .ok c =>
          match assemble h.params.maxSizeSnap r.chunks ByteArray.empty with
          | none => .refused .badRequest
          | some body => if body.size = 0 then .refused .badRequest else .ev (.as c v body r.now)
  | _, _ => .unknown

/-- the response that encodes a protocol outcome -/
def respond : Out → Response
  | .avOk v u => { status := 200, vid := some v, snapreq := urgencyHeader u }
  | .avConflict l => { status := 409, pvid := some l }
  | .found v => { status := 200, ctype := some HS_CT, vid := some v.id, pvid := some v.parent, body := v.seg }
  | .notFound => refuse .notFound
  | .gone => { status := 410, ctype := some "text/plain; charset=utf-8" }
  | .asDone _ => { status := 200 }
  | .snap v d => { status := 200, ctype := some SNAP_CT, vid := some v, body := d }
  | .noSnap => refuse .notFound
  | .noSuchClient => refuse .notFound
  | .storageError => { status := 500 }
  | .reopened => { status := 200 }
  | .created => { status := 200 }

/-- the default-headers wrapper -/
def addCC (resp : Response) : Response := { resp with cc := some (resp.cc.getD CACHE_CONTROL) }

/-- what a client can tell from a response: status, the three protocol headers, content type, body -/
inductive Decoded where
  | accepted (v : Uuid) (u : Urgency) | conflict (latest : Uuid)
  | child (v : Version) | notFound404 | gone410 | ok200 | snapshot (v : Uuid) (d : Bytes) | error500 | other
  deriving DecidableEq

def urgencyOfHeader : Option String → Option Urgency
  | none => some .none
  | some "urgency=low" => some .low
  | some "urgency=high" => some .high
  | some _ => none

/-- decoder that reads only status, X-Version-Id, X-Parent-Version-Id, X-Snapshot-Request, Content-Type, body -/
def decode (r : Response) : Decoded :=
  match r.status, r.vid, r.pvid, r.ctype with
  | 200, some v, none, none => match urgencyOfHeader r.snapreq with | some u => .accepted v u | none => .other
  | 409, none, some l, _ => .conflict l
  | 200, some v, some p, some ct => if ct = HS_CT then .child ⟨v, p, r.body⟩ else .other
  | 200, some v, none, some ct => if ct = SNAP_CT then .snapshot v r.body else .other
  | 200, none, none, none => .ok200
  | 404, none, none, _ => .notFound404
  | 410, none, none, _ => .gone410
  | 500, _, _, _ => .error500
  | _, _, _, _ => .other

/-- the protocol outcome as far as the property distinguishes it over HTTP -/
def expectedDecode : Out → Decoded
  | .avOk v u => .accepted v u
  | .avConflict l => .conflict l
  | .found v => .child v
  | .notFound | .noSnap | .noSuchClient => .notFound404
  | .gone => .gone410
  | .asDone _ | .reopened | .created => .ok200
  | .snap v d => .snapshot v d
  | .storageError => .error500

end Tcs
