import Tcs.Spec.AS
namespace Tcs

/-! Version lists as chains: the vocabulary of the per-client invariant. -/

/-- `vs` is a path starting at `b`: each version's parent is its predecessor's id (`b` for the first). -/
def IsChain : Uuid → List Version → Prop
  | _, [] => True
  | b, v :: vs => v.parent = b ∧ IsChain v.id vs

/-- id of the last version of a chain starting at `b` (`b` itself when empty) -/
def lastId : Uuid → List Version → Uuid
  | b, [] => b
  | _, v :: vs => lastId v.id vs

def vids (vs : List Version) : List Uuid := vs.map (·.id)

/-- the parent id the chain started from (nil when there are no versions) -/
def baseOf (vs : List Version) : Uuid := match vs with | [] => Uuid.nil | v :: _ => v.parent

/-- ids from the latest backwards, ending with the base: `[latest, …, first id, base]` -/
def ancestors (b : Uuid) (vs : List Version) : List Uuid := (b :: vids vs).reverse

/-- the walk a new replica performs: follow `parent = p` lookups -/
def walk (vs : List Version) : Nat → Uuid → List Version
  | 0, _ => []
  | n+1, p =>
    match vs.find? (·.parent = p) with
    | none => []
    | some v => v :: walk vs n v.id

/-- pure mirror of `snapWalk` (server.rs 222-250) over a version list -/
def walkBack (vs : List Version) (v : Uuid) (last : Option Uuid) : Nat → Uuid → Bool
  | 0, _ => false
  | fuel+1, vid =>
    if vid = v && v ≠ Uuid.nil then true
    else if some vid = last then false
    else if fuel = 0 || vid = Uuid.nil then false
    else
      match vs.find? (·.id = vid) with
      | some ver => walkBack vs v last fuel ver.parent
      | none => false

/-- the same scan over the list of ancestors -/
def scan (v : Uuid) (last : Option Uuid) : Nat → List Uuid → Bool
  | 0, _ => false
  | _, [] => false
  | fuel+1, vid :: rest =>
    if vid = v && v ≠ Uuid.nil then true
    else if some vid = last then false
    else if fuel = 0 || vid = Uuid.nil then false
    else scan v last fuel rest

end Tcs
