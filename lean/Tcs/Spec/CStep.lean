import Tcs.Spec.Chain
namespace Tcs

/-! The per-client specification: what each protocol request answers and how it changes the one
    client's record, as a pure function of that record. Everything protocol-level is proved about
    these functions; `Tcs/Proofs/ASRun.lean` shows the transaction programs compute them on the
    abstract storage, and the simulations carry that to both concrete backends. -/

def cGetChild (x : CSt) (p : Uuid) : Out :=
  match x.client with
  | none => .noSuchClient
  | some c =>
    match x.versions.find? (·.parent = p) with
    | some v => .found v
    | none => if c.latest = p || c.latest = Uuid.nil then .notFound else .gone

/-- library-level AddVersion (reports an unknown client) -/
def cAddVersion (cfg : Config) (x : CSt) (p : Uuid) (seg : Bytes) (newId : Uuid) (now : Int) : Out × CSt :=
  match x.client with
  | none => (.noSuchClient, x)
  | some c =>
    if c.latest ≠ Uuid.nil && p ≠ c.latest then (.avConflict c.latest, x)
    else (.avOk newId (urgency cfg now c.snap),
          { x with client := some { latest := newId, snap := c.snap.map bump },
                   versions := x.versions ++ [⟨newId, p, seg⟩] })

/-- the client-creation step of the HTTP handler -/
def cCreate (x : CSt) : CSt :=
  match x.client with
  | some _ => x
  | none => { x with client := some ⟨Uuid.nil, none⟩ }

def cAddSnapshot (P : Params) (x : CSt) (v : Uuid) (data : Bytes) (now : Int) : Out × CSt :=
  match x.client with
  | none => (.noSuchClient, x)
  | some c =>
    let last := c.snap.map (·.vid)
    if some v = last then (.asDone false, x)
    else if walkBack x.versions v last P.searchLen c.latest then
      (.asDone true, { x with client := some { c with snap := some ⟨v, now, 0⟩ }, data := some data })
    else (.asDone false, x)

def cGetSnapshot (x : CSt) : Out :=
  match x.client with
  | none => .noSuchClient
  | some c =>
    match c.snap with
    | none => .noSnap
    | some s =>
      match x.data with
      | some d => .snap s.vid d
      | none => .noSnap

/-- one protocol request on the record of its own client -/
def cstep (S : Sys) (e : Ev) (x : CSt) : Out × CSt :=
  match e with
  | .av _ p seg newId now => cAddVersion S.cfg (cCreate x) p seg newId now
  | .avLib _ p seg newId now => cAddVersion S.cfg x p seg newId now
  | .create _ => (.created, cCreate x)
  | .gcv _ p => (cGetChild x p, x)
  | .as _ v d now => cAddSnapshot S.params x v d now
  | .gs _ => (cGetSnapshot x, x)
  | .reopen => (.reopened, x)

/-- the version id an event adds to the global id set -/
def addedId (e : Ev) (o : Out) : List Uuid :=
  match e, o with
  | .av .., .avOk v _ => [v]
  | .avLib .., .avOk v _ => [v]
  | _, _ => []

/-- the whole abstract storage after one request -/
def asStep (S : Sys) (e : Ev) (a : AS) : Out × AS :=
  match e.client with
  | none => (.reopened, a)
  | some c =>
    let r := cstep S e (a.st c)
    (r.1, { st := upd a.st c r.2, ids := a.ids ++ addedId e r.1 })

/-- per-client invariant: the versions are a well-formed chain from their base, the latest pointer
    is its end, the snapshot fields are all-or-nothing and name a chain member or the base -/
structure CInv (x : CSt) : Prop where
  chain : IsChain (baseOf x.versions) x.versions
  nodup : (baseOf x.versions :: vids x.versions).Nodup
  nonNil : Uuid.nil ∉ vids x.versions
  noClient : x.client = none → x.versions = [] ∧ x.data = none
  latest : ∀ c, x.client = some c → c.latest = lastId (baseOf x.versions) x.versions
  snapNone : ∀ c, x.client = some c → c.snap = none → x.data = none
  snapSome : ∀ c sn, x.client = some c → c.snap = some sn →
    (∃ d, x.data = some d) ∧ sn.vid ∈ baseOf x.versions :: vids x.versions ∧ sn.vid ≠ Uuid.nil ∧ x.versions ≠ []

/-- whole-storage invariant -/
structure Inv (a : AS) : Prop where
  each : ∀ c, CInv (a.st c)
  ids : ∀ c, ∀ v ∈ (a.st c).versions, v.id ∈ a.ids

end Tcs
