import Tcs.Spec.HttpSpec
import Tcs.Spec.CStep
namespace Tcs

/-! The transaction-atomic machine for HTTP-level requests (what `C03_reduction` reduces every
    interleaving to), over the abstract storage, and the vocabulary of the linearizability theorem.

    A request is a thread; thread `t` executes `evs[t]`. Every step of the machine is one
    *transaction* of one thread (or its invocation / its response); which thread moves next is up to
    an arbitrary schedule. All requests consist of one transaction, except the HTTP `AddVersion` for
    a client the server has never seen, which consists of three: the attempt (answers "no such
    client"), the creation of the client, the second attempt. -/

/-- phases of one request -/
inductive Phase where
  | idle                 -- not yet invoked
  | ready                -- invoked; the next step is its (first) transaction
  | needCreate           -- an AddVersion saw "no such client"; the next step is the creation transaction
  | retry                -- creation transaction done; the next step is the AddVersion transaction again
  | answered (o : Out)   -- last transaction done; the next step sends the response
  | finished (o : Out)
  deriving DecidableEq

/-- ghost log of externally visible moments (`lin` = the request's last transaction) -/
inductive Act where
  | invoke (t : Nat) | lin (t : Nat) | respond (t : Nat)
  deriving DecidableEq

structure MState where
  a : AS
  ph : List Phase
  log : List Act := []

/-- protocol requests as they arrive over HTTP -/
def Ev.isHttp : Ev → Bool
  | .av .. | .gcv .. | .as .. | .gs .. => true
  | _ => false

/-- protocol requests as they arrive through the library interface (`Server::…` called directly: no client creation) -/
def Ev.isLib : Ev → Bool
  | .avLib .. | .gcv .. | .as .. | .gs .. => true
  | _ => false

/-- the request sets the linearizability theorem covers: all through HTTP, or all through the library -/
def ReqMix (evs : List Ev) : Prop := (∀ e ∈ evs, e.isHttp = true) ∨ (∀ e ∈ evs, e.isLib = true)

/-- does the request's transaction find "no such client" and go on to create it? (only the HTTP AddVersion does) -/
def needsCreate (e : Ev) (a : AS) : Bool :=
  match e with
  | .av c .. => (a.st c).client.isNone
  | _ => false

/-- the final transaction of a request (for the HTTP AddVersion: `Server::add_version` on an existing client) -/
def linStep (S : Sys) (e : Ev) (a : AS) : Out × AS :=
  match e with
  | .av c p seg n now => asStep S (.avLib c p seg n now) a
  | e => asStep S e a

/-- the client-creation transaction -/
def createStep (S : Sys) (e : Ev) (a : AS) : AS :=
  match e.client with
  | some c => (asStep S (.create c) a).2
  | none => a

/-- one step of thread `t` (whose request is `evs[t]`); `none` = the thread cannot move -/
def mstep (S : Sys) (evs : List Ev) (m : MState) (t : Nat) : Option MState :=
  match evs[t]?, m.ph[t]? with
  | some e, some ph =>
    match ph with
    | .idle => some { m with ph := m.ph.set t .ready, log := m.log ++ [.invoke t] }
    | .ready | .retry =>
      if needsCreate e m.a then some { m with ph := m.ph.set t .needCreate }
      else some { a := (linStep S e m.a).2, ph := m.ph.set t (.answered (linStep S e m.a).1), log := m.log ++ [.lin t] }
    | .needCreate => some { m with a := createStep S e m.a, ph := m.ph.set t .retry }
    | .answered o => some { m with ph := m.ph.set t (.finished o), log := m.log ++ [.respond t] }
    | .finished _ => none
  | _, _ => none

def mrun (S : Sys) (evs : List Ev) (m : MState) : List Nat → MState
  | [] => m
  | t :: ts =>
    match mstep S evs m t with
    | none => mrun S evs m ts
    | some m' => mrun S evs m' ts

def minit (a : AS) (evs : List Ev) : MState := { a := a, ph := evs.map fun _ => .idle, log := [] }

/-- the linearization order read off the log -/
def linOrder (log : List Act) : List Nat := log.filterMap fun | .lin t => some t | _ => none

/-- one-at-a-time execution of whole requests (`asStep` = the sequential specification of a request),
    in the order given by a list of thread numbers -/
def seqRun (S : Sys) (evs : List Ev) : List Nat → AS → AS × List (Nat × Out)
  | [], a => (a, [])
  | t :: ts, a =>
    match evs[t]? with
    | none => seqRun S evs ts a
    | some e =>
      ((seqRun S evs ts (asStep S e a).2).1, (t, (asStep S e a).1) :: (seqRun S evs ts (asStep S e a).2).2)

/-- what an HTTP client can tell apart -/
def sameResp (o o' : Out) : Prop := respond o = respond o'

/-- … relaxed by the one known corner F3: an AddSnapshot that runs while the client exists only as the empty record
    left by a concurrent AddVersion's creation transaction is answered 200 (declined) instead of 404 -/
def sameRespF3 (e : Ev) (o o' : Out) : Prop :=
  sameResp o o' ∨ ((match e with | .as .. => True | _ => False) ∧ o = .asDone false ∧ o' = .noSuchClient)

def Ev.isAv : Ev → Bool | .av .. => true | _ => false

/-- exact agreement, or – only if some request of the set is an HTTP AddVersion (the one request made of several
    transactions) – agreement as seen by an HTTP client, modulo F3 -/
def RespRel (evs : List Ev) (e : Ev) (o o' : Out) : Prop :=
  o = o' ∨ ((∃ e' ∈ evs, e'.isAv = true) ∧ sameRespF3 e o o')

theorem RespRel.weaken {evs : List Ev} {e : Ev} {o o' : Out} (h : RespRel evs e o o') : sameRespF3 e o o' := by
  rcases h with rfl | ⟨_, h⟩
  · exact .inl rfl
  · exact h

def Phase.out? : Phase → Option Out | .answered o | .finished o => some o | _ => none

def allFinished (m : MState) : Prop := ∀ p ∈ m.ph, ∃ o, p = .finished o

/-- `x` occurs before `y` in `l` -/
def Before {α} (l : List α) (x y : α) : Prop := ∃ l1 l2 l3, l = l1 ++ x :: l2 ++ y :: l3

end Tcs
