import Tcs.Model.History
namespace Tcs

/-! Abstract storage: the common refinement target of `Mem` and `Sql`.
    It is *strict*: a call outside the storage contract's preconditions is an error here, and the
    simulation theorems claim nothing about the concrete backends for such calls (that is where
    they are allowed to, and do, differ). -/

/-- Everything stored for one client. `versions` is in insertion order. -/
structure CSt where
  client : Option Client := none
  data : Option Bytes := none
  versions : List Version := []

structure AS where
  st : Uuid → CSt := fun _ => {}
  ids : List Uuid := []          -- every version id stored, for any client (SQLite's primary key is global)

def upd (f : Uuid → CSt) (c : Uuid) (x : CSt) : Uuid → CSt := fun d => if d = c then x else f d

@[simp] theorem upd_same (f : Uuid → CSt) (c x) : upd f c x c = x := by simp [upd]
@[simp] theorem upd_other (f : Uuid → CSt) (c d x) (h : d ≠ c) : upd f c x d = f d := by simp [upd, h]

def bump (s : Snapshot) : Snapshot := { s with since := s.since + 1 }

def AS.exec (cl : Uuid) : (c : Call) → AS → Except StorageErr c.Resp × AS
  | .getClient, s => (.ok (s.st cl).client, s)
  | .newClient l, s =>
    match (s.st cl).client with
    | some _ => (.error (.err "contract: client exists"), s)
    | none => (.ok (), { s with st := upd s.st cl { (s.st cl) with client := some ⟨l, none⟩ } })
  | .setSnapshot sn d, s =>
    match (s.st cl).client with
    | none => (.error (.err "contract: no such client"), s)
    | some c => (.ok (), { s with st := upd s.st cl { (s.st cl) with client := some { c with snap := some sn }, data := some d } })
  | .getSnapshotData v, s =>
    match (s.st cl).client with
    | none => (.error (.err "contract: no such client"), s)
    | some c =>
      if c.snap.map (·.vid) = some v then
        match (s.st cl).data with
        | some d => (.ok (some d), s)
        | none => (.error (.err "contract: snapshot without data"), s)
      else (.error (.err "contract: unexpected snapshot version"), s)
  | .getByParent p, s => (.ok ((s.st cl).versions.find? (·.parent = p)), s)
  | .getVersion v, s => (.ok ((s.st cl).versions.find? (·.id = v)), s)
  | .addVersion v p seg, s =>
    match (s.st cl).client with
    | none => (.error (.err "contract: no such client"), s)
    | some c =>
      if v ∈ s.ids then (.error (.err "contract: version id exists"), s)
      else if (s.st cl).versions.any (·.parent = p) then (.error (.err "contract: parent has a child"), s)
      else
        (.ok (), { st := upd s.st cl { (s.st cl) with
                     client := some { latest := v, snap := c.snap.map bump },
                     versions := (s.st cl).versions ++ [⟨v, p, seg⟩] },
                   ids := s.ids ++ [v] })
  | .commit, s => (.ok (), s)

def ASB : Backend AS := ⟨AS.exec⟩

/-- Per-call simulation of a concrete backend by the abstract storage, through an abstraction
    function and a representation invariant. Only successful abstract calls are constrained. -/
structure Sim {σ} (B : Backend σ) (abs : σ → AS) (Rep : σ → Prop) : Prop where
  call : ∀ (cl : Uuid) (c : Call) (s : σ) (r : c.Resp) (a' : AS), Rep s →
    AS.exec cl c (abs s) = (.ok r, a') →
      (B.exec cl c s).1 = .ok r ∧ abs (B.exec cl c s).2 = a' ∧ Rep (B.exec cl c s).2

end Tcs
