import Tcs.Spec.AS
namespace Tcs

/-! Abstraction functions and representation invariants of the two concrete backends. -/

def ClientRow.toClient (r : ClientRow) : Client :=
  { latest := r.latest,
    snap := match r.ts, r.since, r.snapVid with
            | some ts, some n, some v => some ⟨v, ts, n⟩
            | _, _, _ => none }

def Sql.abs (s : Sql) : AS :=
  { st := fun cl =>
      { client := (s.clients.find? (·.clientId = cl)).map ClientRow.toClient,
        data := (s.clients.find? (·.clientId = cl)).bind (·.snap),
        versions := (s.versions.filter (·.clientId = cl)).map (·.toVersion) },
    ids := s.versions.map (·.versionId) }

/-- The four snapshot columns are NULL together or non-NULL together. -/
def Sql.Rep (s : Sql) : Prop :=
  ∀ r ∈ s.clients, (r.snapVid.isSome = r.ts.isSome) ∧ (r.snapVid.isSome = r.since.isSome) ∧
    (r.snapVid.isSome = r.snap.isSome)

def Mem.abs (m : Mem) : AS :=
  { st := fun cl =>
      { client := alLookup m.clients cl,
        data := alLookup m.snapshots cl,
        versions := (m.versions.filter (·.1.1 = cl)).map (·.2) },
    ids := m.versions.map (·.1.2) }

/-- `children` is the parent index of `versions`; keys are unique; a version is filed under its own id;
    a client has snapshot data whenever its record carries a snapshot is NOT required here. -/
def Mem.Rep (m : Mem) : Prop :=
  m.children = m.versions.map (fun e => ((e.1.1, e.2.parent), e.1.2)) ∧
  (m.versions.map (·.1)).Nodup ∧
  (∀ e ∈ m.versions, e.2.id = e.1.2)

end Tcs
