import Tcs.Model.Txn
namespace Tcs

/-! `core/src/inmemory.rs`: four HashMaps behind one Mutex; writes are in place, no rollback. -/

/-- HashMap as association list; `insert` replaces and returns the old value. -/
def alLookup {κ ν} [DecidableEq κ] (m : List (κ × ν)) (k : κ) : Option ν :=
  (m.find? (·.1 = k)).map (·.2)

def alInsert {κ ν} [DecidableEq κ] (m : List (κ × ν)) (k : κ) (v : ν) : List (κ × ν) × Option ν :=
  match alLookup m k with
  | some old => (m.map (fun e => if e.1 = k then (k, v) else e), some old)
  | none => (m ++ [(k, v)], none)

structure Mem where
  clients : List (Uuid × Client) := []
  snapshots : List (Uuid × Bytes) := []
  versions : List ((Uuid × Uuid) × Version) := []
  children : List ((Uuid × Uuid) × Uuid) := []

def Mem.exec (cl : Uuid) : (c : Call) → Mem → Except StorageErr c.Resp × Mem
  | .getClient, m => (.ok (alLookup m.clients cl), m)
  | .newClient l, m =>
    match alLookup m.clients cl with
    | some _ => (.error (.err "Client already exists"), m)
    | none => (.ok (), { m with clients := (alInsert m.clients cl ⟨l, none⟩).1 })
  | .setSnapshot s d, m =>
    match alLookup m.clients cl with
    | none => (.error (.err "no such client"), m)
    | some c =>
      (.ok (), { m with clients := (alInsert m.clients cl { c with snap := some s }).1,
                        snapshots := (alInsert m.snapshots cl d).1 })
  | .getSnapshotData v, m =>
    match alLookup m.clients cl with
    | none => (.error (.err "no such client"), m)
    | some c =>
      if some v ≠ c.snap.map (·.vid) then (.error (.err "unexpected snapshot_version_id"), m)
      else (.ok (alLookup m.snapshots cl), m)
  | .getByParent p, m =>
    match alLookup m.children (cl, p) with
    | some vid => (.ok (alLookup m.versions (cl, vid)), m)
    | none => (.ok none, m)
  | .getVersion v, m => (.ok (alLookup m.versions (cl, v)), m)
  | .addVersion v p seg, m =>
    match alLookup m.clients cl with
    | none => (.error (.err "Client does not exist"), m)
    | some c =>
      -- the client record is updated BEFORE the duplicate checks (inmemory.rs 139-146)
      let c' : Client := { latest := v, snap := c.snap.map fun s => { s with since := s.since + 1 } }
      let m1 := { m with clients := (alInsert m.clients cl c').1 }
      let (ch, oldChild) := alInsert m1.children (cl, p) v
      let m2 := { m1 with children := ch }
      if oldChild.isSome then (.error (.err "already has a child"), m2)
      else
        let (vs, oldV) := alInsert m2.versions (cl, v) ⟨v, p, seg⟩
        let m3 := { m2 with versions := vs }
        if oldV.isSome then (.error (.err "already has a version"), m3)
        else (.ok (), m3)
  | .commit, m => (.ok (), m)

def MemB : Backend Mem := ⟨Mem.exec⟩

end Tcs
