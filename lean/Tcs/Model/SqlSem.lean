import Tcs.Model.Sql
namespace Tcs

/-! A miniature SQL: exactly the statement forms `sqlite/src/lib.rs` uses, as an AST with a
    semantics over untyped rows. `tools/sql2lean.py` parses the SQL text (and the parameter lists)
    out of /repo's CURRENT source into these ASTs (`Tcs/Generated/SqlSrc.lean`); `SqlGen.exec` runs
    them; `Proofs/SqlSrcTie.lean` proves that this is the hand-written table model `Sql.exec` on which
    every theorem rests. Assumed (SQLite's behaviour, DESIGN §4): rows are visited in rowid order;
    `col = ?` is never true of NULL; `NULL + 1` is NULL; `INSERT` fails on an existing primary key;
    `INSERT OR REPLACE` deletes the row with that key first; unmentioned columns are NULL;
    `query_row` takes the first row. -/

inductive Tbl | clients | versions
  deriving DecidableEq, Repr

inductive Col
  | client_id | latest_version_id | snapshot_version_id | versions_since_snapshot | snapshot_timestamp | snapshot
  | version_id | parent_version_id | history_segment
  | unknown (name : String)
  deriving DecidableEq, Repr

inductive SqlVal | null | int (i : Int) | id (u : Uuid) | blob (b : Bytes)
  deriving DecidableEq

abbrev Row := Col → SqlVal

/-- where the value bound to a `?` comes from: the transaction's client id or an argument of the trait method -/
inductive PSrc
  | clientId | versionId | parentVersionId | historySegment | latestVersionId
  | snapVersionId | snapTimestamp | snapVersionsSince | snapData
  | other (text : String)
  deriving DecidableEq, Repr

inductive SetE
  | param (i : Nat)                 -- `col = ?`
  | colPlus (c : Col) (n : Int)     -- `col = c + n`
  deriving DecidableEq, Repr

inductive Stmt
  | select (cols : List Col) (t : Tbl) (whereEq : List (Col × Nat)) (limit1 : Bool)
  | insert (orReplace : Bool) (t : Tbl) (cols : List Col) (vals : List Nat)
  | update (t : Tbl) (sets : List (Col × SetE)) (whereEq : List (Col × Nat))
  | other (text : String)           -- anything outside the subset: no semantics
  deriving DecidableEq, Repr

structure StmtCall where
  stmt : Stmt
  params : List PSrc
  deriving DecidableEq, Repr

structure RowDb where
  clients : List Row := []
  versions : List Row := []

def RowDb.get (db : RowDb) : Tbl → List Row | .clients => db.clients | .versions => db.versions
def RowDb.set (db : RowDb) : Tbl → List Row → RowDb
  | .clients, l => { db with clients := l }
  | .versions, l => { db with versions := l }

/-- primary key of each table (from the CREATE TABLE statements; checked against the source by the tie) -/
def pkOf : Tbl → Col | .clients => .client_id | .versions => .version_id

def sqlEq : SqlVal → SqlVal → Bool
  | .null, _ => false
  | _, .null => false
  | a, b => a = b

def param (ps : List SqlVal) (i : Nat) : SqlVal := ps.getD i .null

def rowMatches (w : List (Col × Nat)) (ps : List SqlVal) (r : Row) : Bool :=
  w.all fun cw => sqlEq (r cw.1) (param ps cw.2)

def plusN : SqlVal → Int → SqlVal
  | .int i, n => .int (i + n)
  | _, _ => .null

def lookupCol {α} (l : List (Col × α)) (c : Col) : Option α := (l.find? (·.1 = c)).map (·.2)

def updRow (sets : List (Col × SetE)) (ps : List SqlVal) (r : Row) : Row := fun c =>
  match lookupCol sets c with
  | some (.param i) => param ps i
  | some (.colPlus c' n) => plusN (r c') n
  | none => r c

def newRow (cols : List Col) (vals : List Nat) (ps : List SqlVal) : Row := fun c =>
  match lookupCol (cols.zip vals) c with
  | some i => param ps i
  | none => .null

inductive StmtRes | row (r : Option Row) | done | error (msg : String)

/-- one statement; a SELECT returns the first matching row -/
def execStmt (s : Stmt) (ps : List SqlVal) (db : RowDb) : StmtRes × RowDb :=
  match s with
  | .select _ t w _ => (.row ((db.get t).find? (rowMatches w ps)), db)
  | .insert orReplace t cols vals =>
    let nr := newRow cols vals ps
    let key := nr (pkOf t)
    if (db.get t).any (fun r => sqlEq (r (pkOf t)) key) then
      if orReplace then (.done, db.set t ((db.get t).filter (fun r => !sqlEq (r (pkOf t)) key) ++ [nr]))
      else (.error "UNIQUE constraint failed", db)
    else (.done, db.set t (db.get t ++ [nr]))
  | .update t sets w => (.done, db.set t ((db.get t).map fun r => if rowMatches w ps r then updRow sets ps r else r))
  | .other _ => (.error "statement outside the modelled subset", db)

end Tcs
