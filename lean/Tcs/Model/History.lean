import Tcs.Model.Http
namespace Tcs

/-- Protocol-level requests, carrying the values the server draws (`newId` from `Uuid::new_v4`,
    `now` from `Utc::now`). -/
inductive Ev where
  | av (c p : Uuid) (seg : Bytes) (newId : Uuid) (now : Int)      -- AddVersion through the HTTP handler (creates the client)
  | avLib (c p : Uuid) (seg : Bytes) (newId : Uuid) (now : Int)   -- `Server::add_version` (reports NoSuchClient)
  | create (c : Uuid)                                               -- the handler's client-creation transaction on its own
  | gcv (c p : Uuid)
  | as (c v : Uuid) (data : Bytes) (now : Int)
  | gs (c : Uuid)
  | reopen

def Ev.client : Ev → Option Uuid
  | .av c .. | .avLib c .. | .create c | .gcv c _ | .as c .. | .gs c => some c
  | .reopen => none

/-- Protocol outcomes (what the HTTP layer then encodes). -/
inductive Out where
  | avOk (v : Uuid) (u : Urgency) | avConflict (latest : Uuid)
  | found (v : Version) | notFound | gone
  | asDone (accepted : Bool)
  | snap (v : Uuid) (d : Bytes) | noSnap
  | noSuchClient | storageError | reopened | created
  deriving DecidableEq

def avReq (cfg : Config) (ensure : TxnM Unit) (c p : Uuid) (seg : Bytes) (newId : Uuid) (now : Int) : Nat → ReqM Out
  | 0 => .done .storageError
  | fuel+1 =>
    .txn c (addVersion cfg p seg newId now) fun
      | none => .done .storageError
      | some (.ok (.ok v, u)) => .done (.avOk v u)
      | some (.ok (.expected l, _)) => .done (.avConflict l)
      | some (.error .noSuchClient) =>
        .txn c ensure fun
          | none => .done .storageError
          | some () => avReq cfg ensure c p seg newId now fuel

def one {α} (c : Uuid) (body : TxnM (Except SrvErr α)) (f : α → Out) : ReqM Out :=
  .txn c body fun
    | none => .done .storageError
    | some (.ok a) => .done (f a)
    | some (.error .noSuchClient) => .done .noSuchClient

structure Sys where
  cfg : Config
  params : Params := {}
  ensure : TxnM Unit := ensureClientFixed

def avOut : AddRes × Urgency → Out
  | (.ok v, u) => .avOk v u
  | (.expected l, _) => .avConflict l
def gcvOut : GetRes → Out | .found v => .found v | .notFound => .notFound | .gone => .gone
def gsOut : Option (Uuid × Bytes) → Out | some (v, d) => .snap v d | none => .noSnap

def Ev.req (S : Sys) : Ev → ReqM Out
  | .av c p seg newId now => avReq S.cfg S.ensure c p seg newId now 3
  | .avLib c p seg newId now => one c (addVersion S.cfg p seg newId now) avOut
  | .create c => .txn c S.ensure fun | none => .done .storageError | some () => .done .created
  | .gcv c p => one c (getChildVersion p) gcvOut
  | .as c v d now => one c (addSnapshot S.params v d now) .asDone
  | .gs c => one c getSnapshot gsOut
  | .reopen => .done .reopened

/-- Sequential execution of a history; the Boolean says no storage error occurred anywhere. -/
def runHC {σ} (B : Backend σ) (mode : TxnMode) (S : Sys) : List Ev → σ → List Out × σ × Bool
  | [], s => ([], s, true)
  | e :: es, s =>
    let q := (e.req S).runC B mode s
    let r := runHC B mode S es q.2.1
    (q.1 :: r.1, r.2.1, q.2.2 && r.2.2)

def runH {σ} (B : Backend σ) (mode : TxnMode) (S : Sys) (h : List Ev) (s : σ) : List Out × σ :=
  let r := runHC B mode S h s
  (r.1, r.2.1)

/-- ids mentioned by an event (arguments), and the id it draws -/
def Ev.argIds : Ev → List Uuid
  | .av c p .. => [c, p] | .avLib c p .. => [c, p] | .create c => [c]
  | .gcv c p => [c, p] | .as c v .. => [c, v] | .gs c => [c] | .reopen => []
def Ev.drawn : Ev → Option Uuid | .av _ _ _ n _ => some n | .avLib _ _ _ n _ => some n | _ => none

/-- freshness of the id drawn by one event, relative to the ids seen so far -/
def FreshEv (e : Ev) (seen : List Uuid) : Prop :=
  match e.drawn with
  | some n => n ≠ Uuid.nil ∧ n ∉ seen ∧ n ∉ e.argIds
  | none => True

def seenAfter (e : Ev) (seen : List Uuid) : List Uuid := e.argIds ++ e.drawn.toList ++ seen

/-- every drawn id is non-nil and differs from every id that occurred before it (as argument or drawn) -/
def Fresh : List Ev → List Uuid → Prop
  | [], _ => True
  | e :: es, seen => FreshEv e seen ∧ Fresh es (seenAfter e seen)

end Tcs
