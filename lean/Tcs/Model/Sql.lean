import Tcs.Model.Txn
namespace Tcs

/-! `sqlite/src/lib.rs`: tables `clients`, `versions`; the SQL statements, one function each.
    Rows are kept in insertion (rowid) order. NULL = `none`. -/

structure ClientRow where
  clientId : Uuid
  latest : Uuid                    -- latest_version_id (never NULL: every INSERT supplies it)
  snapVid : Option Uuid := none    -- snapshot_version_id
  since : Option Nat := none       -- versions_since_snapshot
  ts : Option Int := none          -- snapshot_timestamp (seconds)
  snap : Option Bytes := none      -- snapshot BLOB
  deriving DecidableEq

structure VersionRow where
  versionId : Uuid                 -- PRIMARY KEY (global, not per client)
  clientId : Uuid
  parent : Uuid
  seg : Bytes
  deriving DecidableEq

structure Sql where
  clients : List ClientRow := []
  versions : List VersionRow := []
  deriving DecidableEq

def VersionRow.toVersion (r : VersionRow) : Version := ⟨r.versionId, r.parent, r.seg⟩

def Sql.exec (cl : Uuid) : (c : Call) → Sql → Except StorageErr c.Resp × Sql
  -- SELECT … FROM clients WHERE client_id = ? LIMIT 1
  | .getClient, s =>
    (.ok ((s.clients.find? (·.clientId = cl)).map fun r =>
      { latest := r.latest,
        snap := match r.ts, r.since, r.snapVid with
                | some ts, some n, some v => some ⟨v, ts, n⟩
                | _, _, _ => none }), s)
  -- INSERT OR REPLACE INTO clients (client_id, latest_version_id) VALUES (?, ?)
  | .newClient l, s =>
    (.ok (), { s with clients := s.clients.filter (·.clientId ≠ cl) ++ [{ clientId := cl, latest := l }] })
  -- UPDATE clients SET snapshot_version_id, snapshot_timestamp, versions_since_snapshot, snapshot WHERE client_id = ?
  | .setSnapshot sn d, s =>
    (.ok (), { s with clients := s.clients.map fun r =>
      if r.clientId = cl then { r with snapVid := some sn.vid, ts := some sn.ts, since := some sn.since, snap := some d } else r })
  -- SELECT snapshot, snapshot_version_id FROM clients WHERE client_id = ?
  | .getSnapshotData v, s =>
    match s.clients.find? (·.clientId = cl) with
    | none => (.ok none, s)
    | some r =>
      match r.snapVid, r.snap with
      | some v', some d => if v' ≠ v then (.error (.err "unexpected snapshot_version_id"), s) else (.ok (some d), s)
      | _, _ => (.error (.err "Error getting snapshot"), s)      -- NULL column read into a non-Option type
  -- SELECT … FROM versions WHERE parent_version_id = ? AND client_id = ?   (first row)
  | .getByParent p, s => (.ok ((s.versions.find? fun r => r.parent = p ∧ r.clientId = cl).map (·.toVersion)), s)
  -- SELECT … FROM versions WHERE version_id = ? AND client_id = ?
  | .getVersion v, s => (.ok ((s.versions.find? fun r => r.versionId = v ∧ r.clientId = cl).map (·.toVersion)), s)
  -- INSERT INTO versions … ; UPDATE clients SET latest_version_id = ?, versions_since_snapshot = versions_since_snapshot + 1 WHERE client_id = ?
  | .addVersion v p seg, s =>
    if s.versions.any (·.versionId = v) then (.error (.err "UNIQUE constraint failed: versions.version_id"), s)
    else
      (.ok (), { versions := s.versions ++ [⟨v, cl, p, seg⟩],
                 clients := s.clients.map fun r =>
                   if r.clientId = cl then { r with latest := v, since := r.since.map (· + 1) } else r })
  | .commit, s => (.ok (), s)

def SqlB : Backend Sql := ⟨Sql.exec⟩

end Tcs
