/-! Types shared by all layers of the model. Core-only imports. -/
namespace Tcs

structure Uuid where
  val : Nat
  deriving DecidableEq, Repr, Hashable, Ord

def Uuid.nil : Uuid := ⟨0⟩
instance : Inhabited Uuid := ⟨Uuid.nil⟩

abbrev Bytes := ByteArray

structure Version where
  id : Uuid
  parent : Uuid
  seg : Bytes
  deriving DecidableEq

/-- Snapshot metadata (`storage.rs: Snapshot`). `ts` in whole seconds. -/
structure Snapshot where
  vid : Uuid
  ts : Int
  since : Nat
  deriving DecidableEq, Repr

/-- `storage.rs: Client`. -/
structure Client where
  latest : Uuid
  snap : Option Snapshot
  deriving DecidableEq, Repr

inductive Urgency | none | low | high
  deriving DecidableEq, Repr, Ord

def Urgency.toNat : Urgency → Nat | .none => 0 | .low => 1 | .high => 2
def Urgency.max (a b : Urgency) : Urgency := if a.toNat ≥ b.toNat then a else b

inductive GetRes | notFound | gone | found (v : Version)
  deriving DecidableEq
inductive AddRes | ok (v : Uuid) | expected (latest : Uuid)
  deriving DecidableEq, Repr
inductive SrvErr | noSuchClient
  deriving DecidableEq, Repr

structure Config where
  days : Int        -- i64 snapshot_days
  versions : Nat    -- u32 snapshot_versions
  deriving DecidableEq, Repr

structure Params where
  searchLen : Nat := 5
  maxSize : Nat := 100 * 1024 * 1024       -- add_version.rs MAX_SIZE
  maxSizeSnap : Nat := 100 * 1024 * 1024   -- add_snapshot.rs MAX_SIZE
  deriving DecidableEq, Repr

end Tcs
