import Tcs.Generated.SqlSrc
namespace Tcs

/-! The SQLite backend as the GENERATED statements (`Tcs/Generated/SqlSrc.lean`, translated from the
    current source) say it, over untyped rows; the row-decoding closures of `sqlite/src/lib.rs` are
    transcribed by hand (`r.get(0)` = first selected column, `r.get("name")` = the column of that
    name, which must be selected; a NULL or wrongly typed value read into a non-`Option` type is an
    error). -/

/-- the value bound to a `?` -/
def bindP (cl : Uuid) : Call → PSrc → SqlVal
  | _, .clientId => .id cl
  | .newClient l, .latestVersionId => .id l
  | .setSnapshot sn _, .snapVersionId => .id sn.vid
  | .setSnapshot sn _, .snapTimestamp => .int sn.ts
  | .setSnapshot sn _, .snapVersionsSince => .int sn.since
  | .setSnapshot _ d, .snapData => .blob d
  | .getSnapshotData v, .versionId => .id v
  | .getByParent p, .parentVersionId => .id p
  | .getVersion v, .versionId => .id v
  | .addVersion v _ _, .versionId => .id v
  | .addVersion _ p _, .parentVersionId => .id p
  | .addVersion _ _ seg, .historySegment => .blob seg
  | _, _ => .null

def run1 (cl : Uuid) (c : Call) (sc : StmtCall) (db : RowDb) : StmtRes × RowDb :=
  execStmt sc.stmt (sc.params.map (bindP cl c)) db

def selCols : Stmt → List Col
  | .select cols _ _ _ => cols
  | _ => []

def asId : SqlVal → Option Uuid | .id u => some u | _ => none
def asOptId : SqlVal → Option (Option Uuid) | .null => some none | .id u => some (some u) | _ => none
def asOptInt : SqlVal → Option (Option Int) | .null => some none | .int i => some (some i) | _ => none
def asBlob : SqlVal → Option Bytes | .blob b => some b | _ => none

/-- the closure of `get_client`: columns by POSITION in the select list -/
def decodeClient (sel : List Col) (r : Row) : Option Client :=
  match sel with
  | [c0, c1, c2, c3] =>
    match asId (r c0), asOptInt (r c1), asOptInt (r c2), asOptId (r c3) with
    | some latest, some ts, some since, some sv =>
      some { latest := latest,
             snap := match ts, since, sv with
                     | some ts, some n, some v => if 0 ≤ n then some ⟨v, ts, n.toNat⟩ else none
                     | _, _, _ => none }
    | _, _, _, _ => none
  | _ => none

/-- the closure of `get_version_impl`: columns by NAME -/
def decodeVersion (sel : List Col) (r : Row) : Option Version :=
  if Col.version_id ∈ sel ∧ Col.parent_version_id ∈ sel ∧ Col.history_segment ∈ sel then
    match asId (r .version_id), asId (r .parent_version_id), asBlob (r .history_segment) with
    | some v, some p, some seg => some ⟨v, p, seg⟩
    | _, _, _ => none
  else none

def errG (msg : String) : StorageErr := .err msg

def SqlGen.exec (cl : Uuid) : (c : Call) → RowDb → Except StorageErr c.Resp × RowDb
  | .getClient, db =>
    match SqlSrc.getClient with
    | [sc] =>
      match run1 cl .getClient sc db with
      | (.row none, db') => (.ok none, db')
      | (.row (some r), db') =>
        match decodeClient (selCols sc.stmt) r with
        | some c => (.ok (some c), db')
        | none => (.error (errG "Error getting client"), db')
      | (_, db') => (.error (errG "Error getting client"), db')
    | _ => (.error (errG "get_client: statement shape outside the model"), db)
  | .newClient l, db =>
    match SqlSrc.newClient with
    | [sc] =>
      match run1 cl (.newClient l) sc db with
      | (.done, db') => (.ok (), db')
      | (_, db') => (.error (errG "Error creating/updating client"), db')
    | _ => (.error (errG "new_client: statement shape outside the model"), db)
  | .setSnapshot sn d, db =>
    match SqlSrc.setSnapshot with
    | [sc] =>
      match run1 cl (.setSnapshot sn d) sc db with
      | (.done, db') => (.ok (), db')
      | (_, db') => (.error (errG "Error creating/updating snapshot"), db')
    | _ => (.error (errG "set_snapshot: statement shape outside the model"), db)
  | .getSnapshotData v, db =>
    match SqlSrc.getSnapshotData with
    | [sc] =>
      match run1 cl (.getSnapshotData v) sc db with
      | (.row none, db') => (.ok none, db')
      | (.row (some r), db') =>
        if Col.snapshot_version_id ∈ selCols sc.stmt ∧ Col.snapshot ∈ selCols sc.stmt then
          match asId (r .snapshot_version_id), asBlob (r .snapshot) with
          | some v', some d => if v' ≠ v then (.error (errG "unexpected snapshot_version_id"), db') else (.ok (some d), db')
          | _, _ => (.error (errG "Error getting snapshot"), db')
        else (.error (errG "Error getting snapshot"), db')
      | (_, db') => (.error (errG "Error getting snapshot"), db')
    | _ => (.error (errG "get_snapshot_data: statement shape outside the model"), db)
  | .getByParent p, db =>
    match SqlSrc.getByParent with
    | [sc] =>
      match run1 cl (.getByParent p) sc db with
      | (.row none, db') => (.ok none, db')
      | (.row (some r), db') =>
        match decodeVersion (selCols sc.stmt) r with
        | some v => (.ok (some v), db')
        | none => (.error (errG "Error getting version"), db')
      | (_, db') => (.error (errG "Error getting version"), db')
    | _ => (.error (errG "get_version_by_parent: statement shape outside the model"), db)
  | .getVersion v, db =>
    match SqlSrc.getVersion with
    | [sc] =>
      match run1 cl (.getVersion v) sc db with
      | (.row none, db') => (.ok none, db')
      | (.row (some r), db') =>
        match decodeVersion (selCols sc.stmt) r with
        | some ver => (.ok (some ver), db')
        | none => (.error (errG "Error getting version"), db')
      | (_, db') => (.error (errG "Error getting version"), db')
    | _ => (.error (errG "get_version: statement shape outside the model"), db)
  | .addVersion v p seg, db =>
    match SqlSrc.addVersion with
    | [s1, s2] =>
      match run1 cl (.addVersion v p seg) s1 db with
      | (.done, db1) =>
        match run1 cl (.addVersion v p seg) s2 db1 with
        | (.done, db2) => (.ok (), db2)
        | (_, db2) => (.error (errG "Error updating client for new version"), db2)
      | (_, db1) => (.error (errG "UNIQUE constraint failed: versions.version_id"), db1)
    | _ => (.error (errG "add_version: statement shape outside the model"), db)
  | .commit, db =>
    if SqlSrc.commitStmts = ["COMMIT"] then (.ok (), db) else (.error (errG "commit: statement outside the model"), db)

/-! typed rows as untyped rows -/

def optId : Option Uuid → SqlVal | none => .null | some u => .id u
def optNat : Option Nat → SqlVal | none => .null | some n => .int n
def optInt : Option Int → SqlVal | none => .null | some n => .int n
def optBlob : Option Bytes → SqlVal | none => .null | some b => .blob b

def encC (r : ClientRow) : Row
  | .client_id => .id r.clientId
  | .latest_version_id => .id r.latest
  | .snapshot_version_id => optId r.snapVid
  | .versions_since_snapshot => optNat r.since
  | .snapshot_timestamp => optInt r.ts
  | .snapshot => optBlob r.snap
  | _ => .null

def encV (r : VersionRow) : Row
  | .version_id => .id r.versionId
  | .client_id => .id r.clientId
  | .parent_version_id => .id r.parent
  | .history_segment => .blob r.seg
  | _ => .null

def encSql (s : Sql) : RowDb := { clients := s.clients.map encC, versions := s.versions.map encV }

end Tcs
