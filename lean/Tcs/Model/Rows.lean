import Tcs.Model.Sql
import Tcs.Model.Codec
namespace Tcs

/-! The stored form of the two tables (`sqlite/src/lib.rs`): ids are TEXT in `Uuid::to_string` form
    (the `ToSql` impl of the `StoredUuid` wrapper) and are read back with `Uuid::parse_str`
    (`FromSql`); timestamps are INTEGER seconds; the counter is INTEGER; payloads are BLOBs.
    `decodeDb` is what opening a data directory does with the rows it finds; `encodeDb` is what the
    pinned release wrote. -/

structure RawClientRow where
  clientId : List UInt8
  latest : List UInt8
  snapVid : Option (List UInt8)
  since : Option Nat
  ts : Option Int
  snap : Option Bytes

structure RawVersionRow where
  versionId : List UInt8
  clientId : List UInt8
  parent : List UInt8
  seg : Bytes

structure RawDb where
  clients : List RawClientRow := []
  versions : List RawVersionRow := []

def encodeClientRow (r : ClientRow) : RawClientRow :=
  { clientId := hyphenated r.clientId, latest := hyphenated r.latest, snapVid := r.snapVid.map hyphenated,
    since := r.since, ts := r.ts, snap := r.snap }

def encodeVersionRow (r : VersionRow) : RawVersionRow :=
  { versionId := hyphenated r.versionId, clientId := hyphenated r.clientId, parent := hyphenated r.parent, seg := r.seg }

def encodeDb (s : Sql) : RawDb := { clients := s.clients.map encodeClientRow, versions := s.versions.map encodeVersionRow }

/-- a NULL-able id column -/
def decodeOptId : Option (List UInt8) → Option (Option Uuid)
  | none => some none
  | some t => (parseUuid t).map some

def decodeClientRow (r : RawClientRow) : Option ClientRow :=
  match parseUuid r.clientId, parseUuid r.latest, decodeOptId r.snapVid with
  | some c, some l, some sv => some { clientId := c, latest := l, snapVid := sv, since := r.since, ts := r.ts, snap := r.snap }
  | _, _, _ => none

def decodeVersionRow (r : RawVersionRow) : Option VersionRow :=
  match parseUuid r.versionId, parseUuid r.clientId, parseUuid r.parent with
  | some v, some c, some p => some ⟨v, c, p, r.seg⟩
  | _, _, _ => none

def decodeDb (r : RawDb) : Option Sql :=
  match r.clients.mapM decodeClientRow, r.versions.mapM decodeVersionRow with
  | some cs, some vs => some { clients := cs, versions := vs }
  | _, _ => none

end Tcs
