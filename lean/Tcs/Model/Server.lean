import Tcs.Model.Txn
namespace Tcs

/-! Transcription of `core/src/server.rs`. Line references are to the pinned tree. -/

/-- Rust `a * 3 / 2` evaluated in a type wide enough not to overflow (`/` truncates toward zero). -/
def threeHalves (t : Int) : Int := (t * 3).tdiv 2

/-- `SnapshotUrgency::for_days` / `for_versions_since` as REPAIRED (comparison in a wider type):
    high iff x ≥ trunc(3t/2), low iff x ≥ t. -/
def lvl (x t : Int) : Urgency :=
  if x ≥ threeHalves t then .high else if x ≥ t then .low else .none

/-- Pinned `for_versions_since` with Rust u32 semantics; `none` = overflow panic (dev profile). -/
def lvlU32Pinned (x t : Nat) : Option Urgency :=
  if t * 3 < 2 ^ 32 then some (if x ≥ t * 3 / 2 then .high else if x ≥ t then .low else .none) else none
/-- Pinned, release profile: wrapping multiplication. -/
def lvlU32PinnedWrap (x t : Nat) : Urgency :=
  if x ≥ (t * 3 % 2 ^ 32) / 2 then .high else if x ≥ t then .low else .none
/-- Pinned `for_days` with Rust i64 semantics (`t ≥ 0`); `none` = overflow panic. -/
def lvlI64Pinned (x t : Int) : Option Urgency :=
  if t * 3 < 2 ^ 63 then some (lvl x t) else none

/-- chrono `TimeDelta::num_days` on whole seconds: truncation toward zero. -/
def days (now ts : Int) : Int := (now - ts).tdiv 86400

/-- server.rs 175-193: urgency from the PRE-request client record. -/
def urgency (cfg : Config) (now : Int) (snap : Option Snapshot) : Urgency :=
  match snap with
  | none => .high
  | some s => Urgency.max (lvl (days now s.ts) cfg.days) (lvl s.since cfg.versions)

/-- server.rs 109-142 -/
def getChildVersion (p : Uuid) : TxnM (Except SrvErr GetRes) := do
  match ← call .getClient with
  | none => return .error .noSuchClient
  | some client =>
    match ← call (.getByParent p) with
    | some v => return .ok (.found v)
    | none =>
      if client.latest = p || client.latest = Uuid.nil then return .ok .notFound
      else return .ok .gone

/-- server.rs 145-194; `newId` and `now` are the values the server draws. -/
def addVersion (cfg : Config) (p : Uuid) (seg : Bytes) (newId : Uuid) (now : Int) :
    TxnM (Except SrvErr (AddRes × Urgency)) := do
  match ← call .getClient with
  | none => return .error .noSuchClient
  | some client =>
    if client.latest ≠ Uuid.nil && p ≠ client.latest then
      return .ok (.expected client.latest, .none)
    else
      call (.addVersion newId p seg)
      call .commit
      return .ok (.ok newId, urgency cfg now client.snap)

/-- The loop of server.rs 222-250. `fuel` = remaining `search_len` before the decrement. -/
def snapWalk (v : Uuid) (last : Option Uuid) : Nat → Uuid → TxnM Bool
  | 0, _ => return false
  | fuel+1, vid => do
    if vid = v && v ≠ Uuid.nil then return true
    else if some vid = last then return false
    else if fuel = 0 || vid = Uuid.nil then return false
    else
      match ← call (.getVersion vid) with
      | some ver => snapWalk v last fuel ver.parent
      | none => return false

/-- server.rs 197-263. Result: `ok accepted?` (the HTTP answer is 200 either way). -/
def addSnapshot (P : Params) (v : Uuid) (data : Bytes) (now : Int) : TxnM (Except SrvErr Bool) := do
  match ← call .getClient with
  | none => return .error .noSuchClient
  | some client =>
    let last := client.snap.map (·.vid)
    if some v = last then return .ok false
    else
      if ← snapWalk v last P.searchLen client.latest then
        call (.setSnapshot ⟨v, now, 0⟩ data)
        call .commit
        return .ok true
      else return .ok false

/-- server.rs 266-279 -/
def getSnapshot : TxnM (Except SrvErr (Option (Uuid × Bytes))) := do
  match ← call .getClient with
  | none => return .error .noSuchClient
  | some client =>
    match client.snap with
    | none => return .ok none
    | some s =>
      match ← call (.getSnapshotData s.vid) with
      | none => return .ok none
      | some d => return .ok (some (s.vid, d))

/-- add_version.rs 84-92 as pinned: create unconditionally. -/
def ensureClientPinned : TxnM Unit := do call (.newClient Uuid.nil); call .commit
/-- add_version.rs as repaired for D1: create only if still absent (inside the same transaction). -/
def ensureClientFixed : TxnM Unit := do
  match ← call .getClient with
  | some _ => return ()
  | none => call (.newClient Uuid.nil); call .commit

end Tcs
