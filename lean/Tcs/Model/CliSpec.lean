namespace Tcs

/-- one clap argument as declared in `command()` -/
structure ArgSpec where
  long : String
  short : Option Char := none
  env : Option String := none
  delimiter : Option Char := none
  append : Bool := false
  required : Bool := false
  default : Option String := none
  parser : String := "string"
  deriving DecidableEq, Repr

end Tcs
