import Tcs.Model.History
namespace Tcs

/-! Interpreter (iii): several requests in flight, interleaved by an arbitrary scheduler at the
    granularity of individual storage calls and transaction begin/end. Exclusion is the storage's own
    (one `BEGIN IMMEDIATE` / one mutex holder at a time): a thread can only begin a transaction while
    no other transaction is open. That exclusion is the environment's contract (DESIGN §4); everything
    else – what is inside one transaction, what the handler does between transactions – is the code's. -/

/-- state of one in-flight request -/
inductive Th (σ ρ : Type) : Type 1 where
  | idle (prog : ReqM ρ)                         -- not yet invoked
  | outside (prog : ReqM ρ)                      -- invoked, between transactions
  | inTxn {β : Type} (cl : Uuid) (st : TxnSt σ) (body : TxnM β) (k : Option β → ReqM ρ)
  | finished (r : ρ)                             -- response sent

structure Conc (σ ρ : Type) where
  db : σ
  lock : Option Nat
  threads : List (Th σ ρ)

/-- one scheduler step of thread `t`; `none` = the thread cannot move (finished, or blocked on the lock) -/
def stepSmall {σ ρ} (B : Backend σ) (mode : TxnMode) (s : Conc σ ρ) (t : Nat) : Option (Conc σ ρ) :=
  match s.threads[t]? with
  | none => none
  | some th =>
    match th with
    | .idle p => some { s with threads := s.threads.set t (.outside p) }                 -- invocation
    | .finished _ => none
    | .outside (.done r) => some { s with threads := s.threads.set t (.finished r) }      -- response
    | .outside (.txn cl body k) =>
      match s.lock with
      | some _ => none                                                                     -- blocked
      | none => some { s with lock := some t, threads := s.threads.set t (.inTxn cl ⟨s.db, s.db, false⟩ body k) }
    | .inTxn _ st (.ret a) k =>                                                            -- end of transaction
      some { db := st.finish mode, lock := none, threads := s.threads.set t (.outside (k (some a))) }
    | .inTxn cl st (.call c k') k =>                                                       -- one storage call
      match stepCall B cl c st with
      | .abort st' => some { db := st'.finish mode, lock := none, threads := s.threads.set t (.outside (k none)) }
      | .cont r st' => some { s with threads := s.threads.set t (.inTxn cl st' (k' r) k) }

def runSmall {σ ρ} (B : Backend σ) (mode : TxnMode) (s : Conc σ ρ) : List Nat → Conc σ ρ
  | [] => s
  | t :: ts =>
    match stepSmall B mode s t with
    | none => runSmall B mode s ts
    | some s' => runSmall B mode s' ts

/-- The reduced semantics: every transaction is ONE step. -/
structure Atomic (σ ρ : Type) where
  db : σ
  threads : List (Th σ ρ)       -- only idle / outside / finished occur

def stepAtomic {σ ρ} (B : Backend σ) (mode : TxnMode) (s : Atomic σ ρ) (t : Nat) : Option (Atomic σ ρ) :=
  match s.threads[t]? with
  | none => none
  | some th =>
    match th with
    | .idle p => some { s with threads := s.threads.set t (.outside p) }
    | .finished _ => none
    | .outside (.done r) => some { s with threads := s.threads.set t (.finished r) }
    | .outside (.txn cl body k) =>
      let r := body.run B mode cl s.db
      some { db := r.2, threads := s.threads.set t (.outside (k r.1)) }
    | .inTxn .. => none

def runAtomic {σ ρ} (B : Backend σ) (mode : TxnMode) (s : Atomic σ ρ) : List Nat → Atomic σ ρ
  | [] => s
  | t :: ts =>
    match stepAtomic B mode s t with
    | none => runAtomic B mode s ts
    | some s' => runAtomic B mode s' ts

def Th.resp {σ ρ} : Th σ ρ → Option ρ | .finished r => some r | _ => none

/-- how a thread in the interleaved semantics looks in the reduced one: an open transaction has not happened yet -/
inductive ThRel {σ ρ} (B : Backend σ) (db : σ) : Th σ ρ → Th σ ρ → Prop
  | idle (p) : ThRel B db (.idle p) (.idle p)
  | outside (p) : ThRel B db (.outside p) (.outside p)
  | finished (r) : ThRel B db (.finished r) (.finished r)
  | inTxn {β : Type} (cl : Uuid) (st : TxnSt σ) (body body0 : TxnM β) (k : Option β → ReqM ρ)
      (h : body.runSt B cl st = body0.runSt B cl ⟨db, db, false⟩) :
      ThRel B db (.inTxn cl st body k) (.outside (.txn cl body0 k))

def Th.isInTxn {σ ρ} : Th σ ρ → Bool | .inTxn .. => true | _ => false

/-- the simulation relation of the reduction theorem -/
structure Red {σ ρ} (B : Backend σ) (s : Conc σ ρ) (a : Atomic σ ρ) : Prop where
  db : s.db = a.db
  len : s.threads.length = a.threads.length
  rel : ∀ i (h1 : i < s.threads.length) (h2 : i < a.threads.length), ThRel B s.db (s.threads[i]) (a.threads[i])
  lockHolder : ∀ t, s.lock = some t → ∃ h : t < s.threads.length, (s.threads[t]).isInTxn = true
  lockOnly : ∀ i (h : i < s.threads.length), (s.threads[i]).isInTxn = true → s.lock = some i

end Tcs
