import Tcs.Model.History
namespace Tcs

/-! Interpreter (ii): every storage call (and every transaction begin) has a global index; a fault
    oracle decides for each index whether the call works, fails before taking effect, or fails after
    taking effect. Transaction semantics as for SQLite: uncommitted work is discarded. -/

inductive FaultKind | ok | failBefore | failAfter deriving DecidableEq, Repr

def noFault : Nat → FaultKind := fun _ => .ok

/-- One storage call under a fault kind. -/
def stepCallF {σ} (B : Backend σ) (cl : Uuid) (fk : FaultKind) (c : Call) (st : TxnSt σ) : StepRes σ c.Resp :=
  match fk with
  | .failBefore => .abort st
  | .ok => stepCall B cl c st
  | .failAfter =>
    match stepCall B cl c st with
    | .abort st' => .abort st'
    | .cont _ st' => .abort st'

/-- Run a transaction body; call indices start at `n`. Returns value-or-error, final txn state, next index. -/
def TxnM.runF {σ α} (B : Backend σ) (cl : Uuid) (faults : Nat → FaultKind) :
    TxnM α → Nat → TxnSt σ → Option α × TxnSt σ × Nat
  | .ret a, n, st => (some a, st, n)
  | .call c k, n, st =>
    match stepCallF B cl (faults n) c st with
    | .abort st' => (none, st', n + 1)
    | .cont r st' => (k r).runF B cl faults (n + 1) st'

/-- Run a request: index `n` is the `begin` of its first transaction. A failed `begin` (before or
    after taking the lock) yields an error and no effect. Uncommitted work is discarded. -/
def ReqM.runF {σ α} (B : Backend σ) (faults : Nat → FaultKind) : ReqM α → Nat → σ → α × σ × Nat
  | .done a, n, s => (a, s, n)
  | .txn cl body k, n, s =>
    match faults n with
    | .ok =>
      let r := body.runF B cl faults (n + 1) ⟨s, s, false⟩
      (k r.1).runF B faults r.2.2 r.2.1.durable
    | _ => (k none).runF B faults (n + 1) s

/-- On every path `commit`, if present, is the last call and the body returns right after it. -/
inductive CommitLast {α} : TxnM α → Prop
  | ret (a) : CommitLast (.ret a)
  | commit (k : Unit → TxnM α) (a : α) (h : k () = .ret a) : CommitLast (.call .commit k)
  | call (c : Call) (k : c.Resp → TxnM α) (hc : c ≠ .commit) (h : ∀ r, CommitLast (k r)) : CommitLast (.call c k)

/-- `commit` succeeds and leaves the tables alone. -/
def CommitId {σ} (B : Backend σ) : Prop := ∀ cl s, B.exec cl .commit s = (.ok (), s)

end Tcs
