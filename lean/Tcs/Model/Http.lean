import Tcs.Model.Seq
import Tcs.Model.Codec
namespace Tcs

/-! `server/src/api/*.rs` and `server/src/lib.rs`. -/

structure Request where
  method : String
  path : String                              -- raw request target, e.g. "/v1/client/snapshot?x=1"
  headers : List (String × List UInt8)       -- names lower-cased, values raw, in order
  chunks : List Bytes
  newId : Uuid := Uuid.nil                   -- what `Uuid::new_v4()` returns if called
  now : Int := 0                             -- what `Utc::now()` returns if called

structure Response where
  status : Nat
  vid : Option Uuid := none                  -- X-Version-Id
  pvid : Option Uuid := none                 -- X-Parent-Version-Id
  snapreq : Option String := none            -- X-Snapshot-Request
  ctype : Option String := none              -- Content-Type
  cc : Option String := none                 -- Cache-Control
  body : Bytes := ByteArray.empty
  deriving DecidableEq

def HS_CT := "application/vnd.taskchampion.history-segment"
def SNAP_CT := "application/vnd.taskchampion.snapshot"
def CACHE_CONTROL := "no-store, max-age=0"

def header (r : Request) (name : String) : Option (List UInt8) :=
  (r.headers.find? (·.1 = name)).map (·.2)

/-- `HeaderValue::to_str`: visible ASCII or tab only. -/
def toStr (v : List UInt8) : Option (List UInt8) :=
  if v.all (fun b => b = 9 ∨ (32 ≤ b ∧ b < 127)) then some v else none

def isWs (b : UInt8) : Bool := b = 32 ∨ (9 ≤ b ∧ b ≤ 13)
def trimBytes (v : List UInt8) : List UInt8 := ((v.dropWhile isWs).reverse.dropWhile isWs).reverse

/-- `HttpMessage::content_type`: text before the first ';', trimmed; "" if absent or not text. -/
def contentType (r : Request) : List UInt8 :=
  match (header r "content-type").bind toStr with
  | none => []
  | some v => trimBytes (v.takeWhile (· ≠ 59))

inductive Refusal | badRequest | forbidden | notFound deriving DecidableEq, Repr
def Refusal.status : Refusal → Nat | .badRequest => 400 | .forbidden => 403 | .notFound => 404

/-- `ServerState::client_id_header` (api/mod.rs 39-55). -/
def clientIdHeader (allow : Option (List Uuid)) (r : Request) : Except Refusal Uuid :=
  match header r "x-client-id" with
  | none => .error .badRequest
  | some v =>
    match (toStr v).bind parseUuid with
    | none => .error .badRequest
    | some c =>
      match allow with
      | some l => if c ∈ l then .ok c else .error .forbidden
      | none => .ok c

/-- The body loop of add_version.rs 44-53 / add_snapshot.rs 34-43. `none` = over the limit. -/
def assemble (maxSize : Nat) : List Bytes → Bytes → Option Bytes
  | [], body => some body
  | ch :: rest, body =>
    if body.size + ch.size > maxSize then none else assemble maxSize rest (body ++ ch)

def refuse (f : Refusal) : Response := { status := f.status, ctype := some "text/plain; charset=utf-8" }

def urgencyHeader : Urgency → Option String
  | .none => none | .low => some "urgency=low" | .high => some "urgency=high"

def addVersionLoop (cfg : Config) (ensure : TxnM Unit) (c p : Uuid) (body : Bytes) (newId : Uuid) (now : Int) :
    Nat → ReqM Response
  | 0 => .done { status := 500 }       -- out of fuel; unreachable (theorem `retry_terminates`)
  | fuel+1 =>
    .txn c (addVersion cfg p body newId now) fun
      | none => .done { status := 500 }
      | some (.ok (.ok v, u)) => .done { status := 200, vid := some v, snapreq := urgencyHeader u }
      | some (.ok (.expected l, _)) => .done { status := 409, pvid := some l }
      | some (.error .noSuchClient) =>
        .txn c ensure fun
          | none => .done { status := 500 }
          | some () => addVersionLoop cfg ensure c p body newId now fuel

structure HttpCfg where
  cfg : Config
  params : Params := {}
  allow : Option (List Uuid) := none
  ensure : TxnM Unit := ensureClientFixed

def percentDecode : List UInt8 → List UInt8
  | 37 :: a :: b :: rest =>
    match hexVal a, hexVal b with
    | some x, some y => (x * 16 + y).toUInt8 :: percentDecode rest
    | _, _ => 37 :: percentDecode (a :: b :: rest)
  | x :: rest => x :: percentDecode rest
  | [] => []

def pathSegments (path : String) : List String :=
  let p := (path.splitOn "?").head!
  (p.drop 1).toString.splitOn "/"

def pathId (seg : String) : Option Uuid := parseUuid (percentDecode seg.toUTF8.toList)

/-- The handlers, before the default-headers wrapper. -/
def route (h : HttpCfg) (r : Request) : ReqM Response :=
  match r.method, pathSegments r.path with
  | "GET", [""] => .done { status := 200, ctype := some "text/plain; charset=utf-8" }
  | "GET", ["v1", "client", "get-child-version", seg] =>
    match pathId seg with
    | none => .done (refuse .notFound)
    | some p =>
      match clientIdHeader h.allow r with
      | .error f => .done (refuse f)
      | .ok c =>
        .txn c (getChildVersion p) fun
          | none => .done { status := 500 }
          | some (.ok (.found v)) => .done { status := 200, ctype := some HS_CT, vid := some v.id, pvid := some v.parent, body := v.seg }
          | some (.ok .notFound) => .done (refuse .notFound)
          | some (.ok .gone) => .done { status := 410, ctype := some "text/plain; charset=utf-8" }
          | some (.error .noSuchClient) => .done (refuse .notFound)
  | "POST", ["v1", "client", "add-version", seg] =>
    match pathId seg with
    | none => .done (refuse .notFound)
    | some p =>
      if contentType r ≠ HS_CT.toUTF8.toList then .done (refuse .badRequest)
      else match clientIdHeader h.allow r with
        | .error f => .done (refuse f)
        | .ok c =>
          match assemble h.params.maxSize r.chunks ByteArray.empty with
          | none => .done (refuse .badRequest)
          | some body =>
            if body.size = 0 then .done (refuse .badRequest)
            else addVersionLoop h.cfg h.ensure c p body r.newId r.now 3
  | "GET", ["v1", "client", "snapshot"] =>
    match clientIdHeader h.allow r with
    | .error f => .done (refuse f)
    | .ok c =>
      .txn c getSnapshot fun
        | none => .done { status := 500 }
        | some (.ok (some (v, d))) => .done { status := 200, ctype := some SNAP_CT, vid := some v, body := d }
        | some (.ok none) => .done (refuse .notFound)
        | some (.error .noSuchClient) => .done (refuse .notFound)
  | "POST", ["v1", "client", "add-snapshot", seg] =>
    match pathId seg with
    | none => .done (refuse .notFound)
    | some v =>
      if contentType r ≠ SNAP_CT.toUTF8.toList then .done (refuse .badRequest)
      else match clientIdHeader h.allow r with
        | .error f => .done (refuse f)
        | .ok c =>
          match assemble h.params.maxSizeSnap r.chunks ByteArray.empty with
          | none => .done (refuse .badRequest)
          | some body =>
            if body.size = 0 then .done (refuse .badRequest)
            else .txn c (addSnapshot h.params v body r.now) fun
              | none => .done { status := 500 }
              | some (.ok _) => .done { status := 200 }
              | some (.error .noSuchClient) => .done (refuse .notFound)
  | _, _ => .done { status := 404 }

def ReqM.map {α β} (f : α → β) : ReqM α → ReqM β
  | .done a => .done (f a)
  | .txn cl body k => .txn cl body (fun r => (k r).map f)

/-- `WebServer::config`: everything is wrapped by `DefaultHeaders(Cache-Control)`; the
    middleware only adds the header when the response does not already carry it. -/
def serve (h : HttpCfg) (r : Request) : ReqM Response :=
  (route h r).map fun resp => { resp with cc := some (resp.cc.getD CACHE_CONTROL) }

end Tcs
