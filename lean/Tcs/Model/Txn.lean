import Tcs.Model.Types
namespace Tcs

/-- The eight calls of `StorageTxn` (`storage.rs`). -/
inductive Call where
  | getClient
  | newClient (latest : Uuid)
  | setSnapshot (s : Snapshot) (data : Bytes)
  | getSnapshotData (v : Uuid)
  | getByParent (p : Uuid)
  | getVersion (v : Uuid)
  | addVersion (v p : Uuid) (seg : Bytes)
  | commit

@[reducible] def Call.Resp : Call → Type
  | .getClient => Option Client
  | .newClient _ => Unit
  | .setSnapshot _ _ => Unit
  | .getSnapshotData _ => Option Bytes
  | .getByParent _ => Option Version
  | .getVersion _ => Option Version
  | .addVersion _ _ _ => Unit
  | .commit => Unit

def Call.isWrite : Call → Bool
  | .newClient _ | .setSnapshot _ _ | .addVersion _ _ _ => true
  | _ => false

def Call.name : Call → String
  | .getClient => "get_client" | .newClient _ => "new_client" | .setSnapshot _ _ => "set_snapshot"
  | .getSnapshotData _ => "get_snapshot_data" | .getByParent _ => "get_version_by_parent"
  | .getVersion _ => "get_version" | .addVersion _ _ _ => "add_version" | .commit => "commit"

inductive StorageErr | err (msg : String)
  deriving DecidableEq, Repr

/-- A backend: every call returns a result and a (possibly modified, even on error) state. -/
structure Backend (σ : Type) where
  exec : Uuid → (c : Call) → σ → Except StorageErr c.Resp × σ

/-- Transaction body: a tree of storage calls. The continuation only sees successful results:
    every storage `Result` in `server.rs` is propagated with `?`. -/
inductive TxnM (α : Type) where
  | ret (a : α)
  | call (c : Call) (k : c.Resp → TxnM α)

def TxnM.bind {α β} : TxnM α → (α → TxnM β) → TxnM β
  | .ret a, f => f a
  | .call c k, f => .call c (fun r => (k r).bind f)

instance : Monad TxnM where
  pure := .ret
  bind := TxnM.bind

def call (c : Call) : TxnM c.Resp := .call c .ret

/-- Handler-level program: a sequence of transactions; the continuation sees storage errors
    (`none`), like the `match` in the handlers. -/
inductive ReqM (α : Type) : Type 1 where
  | done (a : α)
  | txn {β : Type} (client : Uuid) (body : TxnM β) (k : Option β → ReqM α)

end Tcs
