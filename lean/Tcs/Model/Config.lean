import Tcs.Model.Http
namespace Tcs

/-! `server/src/bin/taskchampion-sync-server.rs`: how command-line flags and environment variables
    become the server's configuration (clap 4: an argument given on the command line replaces the
    environment value entirely; otherwise the environment variable; otherwise the default; arguments
    with a value delimiter split every value at ','; `ArgAction::Append` collects all occurrences). -/

/-- what the operator supplied: occurrences of each flag (in order) and the environment value if set -/
structure Cli where
  listenFlag : List String := []
  listenEnv : Option String := none
  dataDirFlag : List String := []
  dataDirEnv : Option String := none
  allowFlag : List String := []
  allowEnv : Option String := none
  versionsFlag : List String := []
  versionsEnv : Option String := none
  daysFlag : List String := []
  daysEnv : Option String := none

structure ServerArgs where
  dataDir : String
  snapshotVersions : Nat
  snapshotDays : Int
  allow : Option (List Uuid)
  listen : List String

def DEFAULT_DATA_DIR := "/var/lib/taskchampion-sync-server"
def DEFAULT_VERSIONS : Nat := 100
def DEFAULT_DAYS : Int := 14

/-- the raw values of an argument: command line first, else environment, else none; split at ',' when delimited -/
def rawValues (flag : List String) (env : Option String) (delimited : Bool) : Option (List String) :=
  let vs := if flag ≠ [] then some flag else env.map (fun e => [e])
  vs.map fun l => if delimited then l.flatMap (·.splitOn ",") else l

/-- a single-valued argument: the last occurrence on the command line wins -/
def single (flag : List String) (env : Option String) : Option String :=
  (rawValues flag env false).bind (·.getLast?)

def parseU32 (s : String) : Option Nat := s.toNat?.bind fun n => if n < 2 ^ 32 then some n else none
def parseI64 (s : String) : Option Int := s.toInt?.bind fun n => if -(2 ^ 63) ≤ n ∧ n < 2 ^ 63 then some n else none

def versionsOf (c : Cli) : Option Nat :=
  match single c.versionsFlag c.versionsEnv with
  | none => some DEFAULT_VERSIONS
  | some s => parseU32 s

def daysOf (c : Cli) : Option Int :=
  match single c.daysFlag c.daysEnv with
  | none => some DEFAULT_DAYS
  | some s => parseI64 s

def allowOf (c : Cli) : Option (Option (List Uuid)) :=
  match rawValues c.allowFlag c.allowEnv true with
  | none => some none
  | some ids => (ids.mapM fun s => parseUuid s.toUTF8.toList).map some

/-- `ServerArgs::new(command().get_matches())`; `none` = clap exits with a usage error -/
def resolve (c : Cli) : Option ServerArgs :=
  (rawValues c.listenFlag c.listenEnv true).bind fun listen =>       -- required
  (versionsOf c).bind fun versions =>
  (daysOf c).bind fun days =>
  (allowOf c).bind fun allow =>
  some { dataDir := (single c.dataDirFlag c.dataDirEnv).getD DEFAULT_DATA_DIR, snapshotVersions := versions,
         snapshotDays := days, allow := allow, listen := listen }

/-- `main`: the resolved values are handed to `ServerConfig`, `WebServer::new`, `SqliteStorage::new`, `HttpServer::bind` -/
def httpCfgOf (a : ServerArgs) : HttpCfg :=
  { cfg := ⟨a.snapshotDays, a.snapshotVersions⟩, allow := a.allow }

/-- `main` (bin/taskchampion-sync-server.rs): one `HttpServer::bind(address)?` per listen address, in order; the `?`
    makes start-up fail unless EVERY given address can be bound. `busy` = addresses that cannot be bound (held by
    another process, not assigned, privileged). `some l` = the server runs, listening on exactly `l`. -/
def startup (a : ServerArgs) (busy : List String) : Option (List String) :=
  if a.listen.any (fun x => busy.contains x) then none else some a.listen

end Tcs
