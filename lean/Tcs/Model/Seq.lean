import Tcs.Model.Server
import Tcs.Model.Mem
import Tcs.Model.Sql
namespace Tcs

/-- How a backend treats a transaction as a whole. `inPlace` = in-memory (writes hit the shared
    state at once, nothing is undone); `snapshotCommit` = SQLite (work on a copy, install on
    `commit`, discard otherwise). -/
inductive TxnMode | inPlace | snapshotCommit deriving DecidableEq, Repr

structure TxnSt (σ : Type) where
  durable : σ
  working : σ
  committed : Bool := false

inductive StepRes (σ ρ : Type) | abort (st : TxnSt σ) | cont (r : ρ) (st : TxnSt σ)

/-- One storage call inside a transaction. -/
def stepCall {σ} (B : Backend σ) (cl : Uuid) (c : Call) (st : TxnSt σ) : StepRes σ c.Resp :=
  let (r, w') := B.exec cl c st.working
  let st' : TxnSt σ :=
    match c with
    | .commit => { durable := w', working := w', committed := true }
    | _ => { st with working := w' }
  match r with
  | .error _ => .abort st'
  | .ok a => .cont a st'

/-- Run a transaction body; returns the value (or `none` on a storage error) and the final txn state. -/
def TxnM.runSt {σ α} (B : Backend σ) (cl : Uuid) : TxnM α → TxnSt σ → Option α × TxnSt σ
  | .ret a, st => (some a, st)
  | .call c k, st =>
    match stepCall B cl c st with
    | .abort st' => (none, st')
    | .cont r st' => (k r).runSt B cl st'

/-- State visible to the next transaction. -/
def TxnSt.finish {σ} (mode : TxnMode) (st : TxnSt σ) : σ :=
  match mode with
  | .inPlace => st.working
  | .snapshotCommit => st.durable

def TxnM.run {σ α} (B : Backend σ) (mode : TxnMode) (cl : Uuid) (p : TxnM α) (s : σ) : Option α × σ :=
  let r := p.runSt B cl ⟨s, s, false⟩
  (r.1, r.2.finish mode)

/-- Run a request; the Boolean says that no transaction of it ended in a storage error. -/
def ReqM.runC {σ α} (B : Backend σ) (mode : TxnMode) : ReqM α → σ → α × σ × Bool
  | .done a, s => (a, s, true)
  | .txn cl body k, s =>
    let r := body.run B mode cl s
    let q := (k r.1).runC B mode r.2
    (q.1, q.2.1, q.2.2 && r.1.isSome)

def ReqM.run {σ α} (B : Backend σ) (mode : TxnMode) (p : ReqM α) (s : σ) : α × σ :=
  let q := p.runC B mode s
  (q.1, q.2.1)

/-- number of transactions a request opens when run on state `s` -/
def ReqM.txnCount {σ α} (B : Backend σ) (mode : TxnMode) : ReqM α → σ → Nat
  | .done _, _ => 0
  | .txn cl body k, s =>
    let r := body.run B mode cl s
    1 + (k r.1).txnCount B mode r.2

end Tcs
