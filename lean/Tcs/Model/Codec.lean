import Tcs.Model.Types
namespace Tcs

/-! Text form of ids: `uuid::Uuid::parse_str` / `to_string` (uuid 1.16 `parser.rs`, `fmt.rs`). -/

def hexVal (b : UInt8) : Option Nat :=
  if 48 ≤ b ∧ b ≤ 57 then some (b.toNat - 48)          -- 0-9
  else if 97 ≤ b ∧ b ≤ 102 then some (b.toNat - 87)    -- a-f
  else if 65 ≤ b ∧ b ≤ 70 then some (b.toNat - 55)     -- A-F
  else none

def hexDigit (n : Nat) : UInt8 := if n < 10 then (48 + n).toUInt8 else (87 + n).toUInt8

/-- 32 hex digits → value -/
def parseHex : List UInt8 → Nat → Option Nat
  | [], acc => some acc
  | b :: bs, acc => match hexVal b with
    | some d => parseHex bs (acc * 16 + d)
    | none => none

def parseSimple (s : List UInt8) : Option Uuid :=
  if s.length = 32 then (parseHex s 0).map Uuid.mk else none

def parseHyphenated (s : List UInt8) : Option Uuid :=
  if s.length = 36 ∧ s[8]? = some 45 ∧ s[13]? = some 45 ∧ s[18]? = some 45 ∧ s[23]? = some 45 then
    parseSimple (s.take 8 ++ (s.drop 9).take 4 ++ (s.drop 14).take 4 ++ (s.drop 19).take 4 ++ s.drop 24)
  else none

def urnPrefix : List UInt8 := "urn:uuid:".toUTF8.toList

/-- `Uuid::parse_str`: simple (32), hyphenated (36), braced (38), urn (45). -/
def parseUuid (s : List UInt8) : Option Uuid :=
  match s.length with
  | 32 => parseSimple s
  | 36 => parseHyphenated s
  | 38 => if s.head? = some 123 ∧ s.getLast? = some 125 then parseHyphenated ((s.drop 1).take 36) else none
  | 45 => if s.take 9 = urnPrefix then parseHyphenated (s.drop 9) else none
  | _ => none

def hexDigits (n : Nat) : Nat → List UInt8      -- `k` digits, most significant first
  | 0 => []
  | k+1 => hexDigits (n / 16) k ++ [hexDigit (n % 16)]

/-- `Uuid::to_string`: lower-case hyphenated. -/
def hyphenated (u : Uuid) : List UInt8 :=
  let d := hexDigits (u.val % 2 ^ 128) 32
  d.take 8 ++ [45] ++ (d.drop 8).take 4 ++ [45] ++ (d.drop 12).take 4 ++ [45] ++ (d.drop 16).take 4 ++ [45] ++ d.drop 20

end Tcs
