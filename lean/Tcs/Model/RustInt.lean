import Tcs.Model.Types
namespace Tcs

/-! A deep embedding of the fragment of Rust integer arithmetic used by `SnapshotUrgency::for_days` /
    `for_versions_since`, with Rust's semantics: every operation is performed in a fixed-width type;
    in the dev profile (the one the test suite and this framework build) `+ - *` that leave the type
    panic; `/` truncates toward zero and panics on a zero divisor; `saturating_*` clamp; `wrapping_*`
    reduce modulo 2^bits; `as` conversions wrap; `T::from` is lossless and therefore not represented.
    `tools/urgency2lean.py` produces terms of this type from the current source. -/

inductive ITy | i8 | i16 | i32 | i64 | i128 | u8 | u16 | u32 | u64 | u128
  deriving DecidableEq, Repr

def ITy.bits : ITy → Nat
  | .i8 | .u8 => 8 | .i16 | .u16 => 16 | .i32 | .u32 => 32 | .i64 | .u64 => 64 | .i128 | .u128 => 128
def ITy.signed : ITy → Bool
  | .i8 | .i16 | .i32 | .i64 | .i128 => true
  | _ => false
def ITy.lo (t : ITy) : Int := if t.signed then -(2 ^ (t.bits - 1) : Int) else 0
def ITy.hi (t : ITy) : Int := if t.signed then (2 ^ (t.bits - 1) : Int) - 1 else (2 ^ t.bits : Int) - 1
def ITy.clamp (t : ITy) (x : Int) : Int := if x < t.lo then t.lo else if x > t.hi then t.hi else x
/-- two's-complement wrap-around into the type -/
def ITy.wrap (t : ITy) (x : Int) : Int :=
  let m : Int := 2 ^ t.bits
  let r := x % m
  if t.signed && r > t.hi then r - m else r

inductive RExpr where
  | lit (n : Int)
  | var (name : String)
  | cast (e : RExpr) (ty : ITy)                 -- `e as ty`
  | add (a b : RExpr) (ty : ITy)
  | sub (a b : RExpr) (ty : ITy)
  | mul (a b : RExpr) (ty : ITy)
  | div (a b : RExpr) (ty : ITy)
  | satMul (a b : RExpr) (ty : ITy)
  | wrapMul (a b : RExpr) (ty : ITy)
  | satAdd (a b : RExpr) (ty : ITy)
  | wrapAdd (a b : RExpr) (ty : ITy)
  | satSub (a b : RExpr) (ty : ITy)

inductive RCond where
  | ge (a b : RExpr) | gt (a b : RExpr) | le (a b : RExpr) | lt (a b : RExpr) | eq (a b : RExpr)

inductive RBody where
  | ret (u : Urgency)
  | ite (c : RCond) (t e : RBody)

def checked (ty : ITy) (x : Int) : Option Int := if ty.lo ≤ x ∧ x ≤ ty.hi then some x else none

def bin (f : Int → Int → Option Int) (x y : Option Int) : Option Int :=
  match x, y with
  | some a, some b => f a b
  | _, _ => none

/-- `none` = the program panics (overflow / division by zero, dev profile) -/
def evalR (env : String → Int) : RExpr → Option Int
  | .lit n => some n
  | .var x => some (env x)
  | .cast e ty => (evalR env e).map ty.wrap
  | .add a b ty => bin (fun x y => checked ty (x + y)) (evalR env a) (evalR env b)
  | .sub a b ty => bin (fun x y => checked ty (x - y)) (evalR env a) (evalR env b)
  | .mul a b ty => bin (fun x y => checked ty (x * y)) (evalR env a) (evalR env b)
  | .div a b ty => bin (fun x y => if y = 0 then none else checked ty (x.tdiv y)) (evalR env a) (evalR env b)
  | .satMul a b ty => bin (fun x y => some (ty.clamp (x * y))) (evalR env a) (evalR env b)
  | .wrapMul a b ty => bin (fun x y => some (ty.wrap (x * y))) (evalR env a) (evalR env b)
  | .satAdd a b ty => bin (fun x y => some (ty.clamp (x + y))) (evalR env a) (evalR env b)
  | .wrapAdd a b ty => bin (fun x y => some (ty.wrap (x + y))) (evalR env a) (evalR env b)
  | .satSub a b ty => bin (fun x y => some (ty.clamp (x - y))) (evalR env a) (evalR env b)

def cmp (f : Int → Int → Bool) (x y : Option Int) : Option Bool :=
  match x, y with
  | some a, some b => some (f a b)
  | _, _ => none

def evalC (env : String → Int) : RCond → Option Bool
  | .ge a b => cmp (fun x y => decide (x ≥ y)) (evalR env a) (evalR env b)
  | .gt a b => cmp (fun x y => decide (x > y)) (evalR env a) (evalR env b)
  | .le a b => cmp (fun x y => decide (x ≤ y)) (evalR env a) (evalR env b)
  | .lt a b => cmp (fun x y => decide (x < y)) (evalR env a) (evalR env b)
  | .eq a b => cmp (fun x y => decide (x = y)) (evalR env a) (evalR env b)

def evalB (env : String → Int) : RBody → Option Urgency
  | .ret u => some u
  | .ite c t e =>
    match evalC env c with
    | none => none
    | some true => evalB env t
    | some false => evalB env e

/-- the environment of `for_days(config, days)` -/
def envDays (days target : Int) : String → Int
  | "days" => days
  | "config.snapshot_days" => target
  | _ => 0

/-- the environment of `for_versions_since(config, versions_since)` -/
def envVersions (since target : Int) : String → Int
  | "versions_since" => since
  | "config.snapshot_versions" => target
  | _ => 0

end Tcs
