import Tcs.Props.C01
namespace Tcs

/-! # C07 – accepted history is immutable -/

theorem fresh_append_left (h h' : List Ev) (seen : List Uuid) (hf : Fresh (h ++ h') seen) : Fresh h seen := by
  induction h generalizing seen with
  | nil => trivial
  | cons e es ih =>
    rw [List.cons_append, fresh_cons] at hf
    rw [fresh_cons]
    exact ⟨hf.1, ih _ hf.2⟩

/-- the abstract run of a concatenated history is the run of the second part from the state after the first -/
theorem asRunH_append (S : Sys) (h h' : List Ev) (a : AS) :
    asRunH S (h ++ h') a =
      ((asRunH S h a).1 ++ (asRunH S h' (asRunH S h a).2).1, (asRunH S h' (asRunH S h a).2).2) := by
  induction h generalizing a with
  | nil => simp [asRunH]
  | cons e es ih => simp only [List.cons_append, asRunH, ih]

/-- accepted versions only ever grow at the end -/
theorem accepted_append_prefix (S : Sys) (h h' : List Ev) (a : AS) (c : Uuid) :
    accepted c (h ++ h') (asRunH S (h ++ h') a).1 =
      accepted c h (asRunH S h a).1 ++ accepted c h' (asRunH S h' (asRunH S h a).2).1 := by
  induction h generalizing a with
  | nil => simp [asRunH, accepted]
  | cons e es ih => simp only [List.cons_append, asRunH, accepted, ih, List.append_assoc]

/-- C07: once accepted (during `h`), a version is returned — same id, parent, payload — for the child of its parent after
    ANY fresh continuation `h'` (further versions, snapshots, rejected requests, other clients' activity, reopen events) -/
theorem C07_immutable {σ} (I : Impl σ) (S : Sys) (hS : S.ensure = ensureClientFixed) (h h' : List Ev)
    (hf : Fresh (h ++ h') []) (c : Uuid) (v : Version) (hv : v ∈ accepted c h (runH I.B I.mode S h I.init).1) :
    (((Ev.gcv c v.parent).req S).run I.B I.mode (runH I.B I.mode S (h ++ h') I.init).2).1 = Out.found v := by
  obtain ⟨_, ho, _⟩ := hist_accepted I S hS h (fresh_append_left h h' [] hf)
  obtain ⟨hg, ho', hst⟩ := hist_accepted I S hS (h ++ h') hf
  rw [ho] at hv
  have hmem : v ∈ ((I.abs (runH I.B I.mode S (h ++ h') I.init).2).st c).versions := by
    rw [hst c, ho', accepted_append_prefix]
    exact List.mem_append_left _ hv
  have hci := hg.inv.each c
  rw [gcv_good I S hS _ hg]
  have hfind := find_parent_of_mem _ _ hci.wf v hmem
  cases hcl : ((I.abs (runH I.B I.mode S (h ++ h') I.init).2).st c).client with
  | none =>
    have := (hci.noClient hcl).1
    rw [this] at hmem
    cases hmem
  | some cl => simp [cGetChild, hcl, hfind]

/-- and the list of accepted versions of the longer history extends that of the shorter one -/
theorem C07_prefix {σ} (I : Impl σ) (S : Sys) (hS : S.ensure = ensureClientFixed) (h h' : List Ev)
    (hf : Fresh (h ++ h') []) (c : Uuid) :
    ∃ more, accepted c (h ++ h') (runH I.B I.mode S (h ++ h') I.init).1 =
      accepted c h (runH I.B I.mode S h I.init).1 ++ more := by
  obtain ⟨_, ho, _⟩ := hist_accepted I S hS h (fresh_append_left h h' [] hf)
  obtain ⟨_, ho', _⟩ := hist_accepted I S hS (h ++ h') hf
  rw [ho, ho', accepted_append_prefix]
  exact ⟨_, rfl⟩

/-- instances: both shipped backends -/
theorem C07_immutable_sql (S : Sys) (hS : S.ensure = ensureClientFixed) (h h' : List Ev) (hf : Fresh (h ++ h') []) (c : Uuid)
    (v : Version) (hv : v ∈ accepted c h (runH SqlB .snapshotCommit S h {}).1) :
    (((Ev.gcv c v.parent).req S).run SqlB .snapshotCommit (runH SqlB .snapshotCommit S (h ++ h') {}).2).1 = Out.found v :=
  C07_immutable sqlImpl S hS h h' hf c v hv

theorem C07_immutable_mem (S : Sys) (hS : S.ensure = ensureClientFixed) (h h' : List Ev) (hf : Fresh (h ++ h') []) (c : Uuid)
    (v : Version) (hv : v ∈ accepted c h (runH MemB .inPlace S h {}).1) :
    (((Ev.gcv c v.parent).req S).run MemB .inPlace (runH MemB .inPlace S (h ++ h') {}).2).1 = Out.found v :=
  C07_immutable memImpl S hS h h' hf c v hv

/-! ### non-vacuity: the first version of client 1 (accepted during the first event) is still served, unchanged, after
    another client's version, a rejected stale AddVersion, a further version, a snapshot, a reopen and a read -/

namespace C07Ex
def h : List Ev := [ .av ⟨1⟩ ⟨5⟩ ⟨#[1]⟩ ⟨10⟩ 0 ]
def h' : List Ev :=
  [ .av ⟨2⟩ Uuid.nil ⟨#[2]⟩ ⟨11⟩ 0, .av ⟨1⟩ ⟨5⟩ ⟨#[3]⟩ ⟨12⟩ 0, .av ⟨1⟩ ⟨10⟩ ⟨#[4]⟩ ⟨13⟩ 0,
    .as ⟨1⟩ ⟨13⟩ ⟨#[9]⟩ 7, .reopen, .gs ⟨1⟩ ]
end C07Ex

example : Fresh (C07Ex.h ++ C07Ex.h') [] := by
  simp [C07Ex.h, C07Ex.h', Fresh, FreshEv, seenAfter, Ev.drawn, Ev.argIds, Uuid.nil]

example : (⟨⟨10⟩, ⟨5⟩, ⟨#[1]⟩⟩ : Version) ∈ accepted ⟨1⟩ C07Ex.h (runH SqlB .snapshotCommit C01Ex.S C07Ex.h {}).1 := by decide

example : (runH SqlB .snapshotCommit C01Ex.S (C07Ex.h ++ C07Ex.h') {}).1 =
    [.avOk ⟨10⟩ .high, .avOk ⟨11⟩ .high, .avConflict ⟨10⟩, .avOk ⟨13⟩ .high, .asDone true, .reopened,
     .snap ⟨13⟩ ⟨#[9]⟩] := by decide

example : (((Ev.gcv ⟨1⟩ ⟨5⟩).req C01Ex.S).run SqlB .snapshotCommit
    (runH SqlB .snapshotCommit C01Ex.S (C07Ex.h ++ C07Ex.h') {}).2).1 = .found ⟨⟨10⟩, ⟨5⟩, ⟨#[1]⟩⟩ := by decide

example : accepted ⟨1⟩ (C07Ex.h ++ C07Ex.h') (runH MemB .inPlace C01Ex.S (C07Ex.h ++ C07Ex.h') {}).1 =
    accepted ⟨1⟩ C07Ex.h (runH MemB .inPlace C01Ex.S C07Ex.h {}).1 ++ [⟨⟨13⟩, ⟨10⟩, ⟨#[4]⟩⟩] := by decide

end Tcs
