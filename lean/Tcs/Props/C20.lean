import Tcs.Proofs.HttpProofs
namespace Tcs

/-! # C20 – every response forbids caching -/

theorem respond_cc (o : Out) : (respond o).cc = none := by cases o <;> rfl
theorem refuse_cc (f : Refusal) : (refuse f).cc = none := rfl
theorem addCC_cc (x : Response) (h : x.cc = none) : (addCC x).cc = some CACHE_CONTROL := by
  simp [addCC, h]

/-- every response of every handler (index, unknown route, refusals, protocol answers, storage errors), on every
    backend and from every state, carries `Cache-Control: no-store, max-age=0` -/
theorem C20_all_responses {σ} (B : Backend σ) (mode : TxnMode) (h : HttpCfg) (r : Request) (s : σ) :
    ((serve h r).run B mode s).1.cc = some CACHE_CONTROL := by
  rw [serve_factor]
  cases parseReq h r with
  | index => rfl
  | unknown => rfl
  | refused f => rfl
  | ev e =>
    simp only [map_run]
    exact addCC_cc _ (respond_cc _)

theorem C20_value : CACHE_CONTROL = "no-store, max-age=0" := rfl

/-- the wrapper never overrides a header a handler set itself (none does) -/
theorem C20_wrapper_idempotent (x : Response) : addCC (addCC x) = addCC x := by
  simp [addCC]

end Tcs
