import Tcs.Proofs.Impl
namespace Tcs

/-! # C01 – each client's versions form one unbranched chain, walkable end to end -/

/-- versions accepted for client `c` in a history, in order of acceptance: (id, parent, payload) -/
def accepted (c : Uuid) : List Ev → List Out → List Version
  | e :: es, o :: os => (if e.client = some c then appended e o else []) ++ accepted c es os
  | _, _ => []

/-- the walk a new replica performs against a backend state: ask for the child of `p`, continue from the returned id -/
def walkFrom {σ} (I : Impl σ) (S : Sys) (c : Uuid) (s : σ) : Nat → Uuid → List Out
  | 0, _ => []
  | n+1, p =>
    match ((Ev.gcv c p).req S).run I.B I.mode s with
    | (.found v, _) => .found v :: walkFrom I S c s n v.id
    | (o, _) => [o]

/-! ### auxiliary lemmas -/

theorem asStep_out (S : Sys) (e : Ev) (a : AS) (c : Uuid) (hc : e.client = some c) :
    (asStep S e a).1 = (cstep S e (a.st c)).1 := by
  simp [asStep, hc]

/-- (abstract level) the stored versions of `c` after a history are exactly the accepted ones, in order -/
theorem asRunH_versions (S : Sys) (h : List Ev) (a : AS) (c : Uuid) :
    ((asRunH S h a).2.st c).versions = (a.st c).versions ++ accepted c h (asRunH S h a).1 := by
  induction h generalizing a with
  | nil => simp [asRunH, accepted]
  | cons e es ih =>
    simp only [asRunH, accepted]
    rw [ih]
    cases hc : e.client with
    | none => rw [asStep_none S e a (by rw [hc])]; simp
    | some d =>
      by_cases hd : d = c
      · subst hd
        rw [asStep_same S e a d hc, cstep_versions, asStep_out S e a d hc]
        simp
      · have hcd : c ≠ d := fun h => hd h.symm
        rw [asStep_other S e a d c hc hcd]
        simp [hd]

/-- the first component of a request run -/
theorem run_fst {σ α} (B : Backend σ) (mode : TxnMode) (p : ReqM α) (s : σ) :
    (p.run B mode s).1 = (p.runC B mode s).1 := rfl

/-- on a good state a `gcv` request answers what the specification says for the stored record -/
theorem gcv_good {σ} (I : Impl σ) (S : Sys) (hS : S.ensure = ensureClientFixed) (s : σ) (hg : Good I s) (c p : Uuid) :
    (((Ev.gcv c p).req S).run I.B I.mode s).1 = cGetChild ((I.abs s).st c) p := by
  obtain ⟨s', h1, _, _⟩ := req_good_nodraw I S hS (.gcv c p) s hg rfl
  rw [run_fst, h1]
  simp [asStep, Ev.client, cstep]

theorem walkFrom_found {σ} (I : Impl σ) (S : Sys) (c : Uuid) (s : σ) (n : Nat) (p : Uuid) (v : Version)
    (h : (((Ev.gcv c p).req S).run I.B I.mode s).1 = .found v) :
    walkFrom I S c s (n + 1) p = .found v :: walkFrom I S c s n v.id := by
  simp only [walkFrom]
  generalize ((Ev.gcv c p).req S).run I.B I.mode s = r at h
  rcases r with ⟨o, s'⟩
  simp only at h
  subst h
  rfl

theorem walkFrom_notFound {σ} (I : Impl σ) (S : Sys) (c : Uuid) (s : σ) (n : Nat) (p : Uuid)
    (h : (((Ev.gcv c p).req S).run I.B I.mode s).1 = .notFound) :
    walkFrom I S c s (n + 1) p = [.notFound] := by
  simp only [walkFrom]
  generalize ((Ev.gcv c p).req S).run I.B I.mode s = r at h
  rcases r with ⟨o, s'⟩
  simp only at h
  subst h
  rfl

/-- walking from any member's id (or the base) returns exactly the versions after it, then not-found -/
theorem walkFrom_suffix {σ} (I : Impl σ) (S : Sys) (hS : S.ensure = ensureClientFixed) (c : Uuid) (s : σ) (hg : Good I s)
    (cl : Client) (hcl : ((I.abs s).st c).client = some cl)
    (pre suf : List Version) (hv : ((I.abs s).st c).versions = pre ++ suf) (k : Nat) (hk : suf.length ≤ k) :
    walkFrom I S c s (k + 1) (lastId (baseOf ((I.abs s).st c).versions) pre) = suf.map Out.found ++ [Out.notFound] := by
  have hci : CInv ((I.abs s).st c) := hg.inv.each c
  have hwf := hci.wf
  have hlat := hci.latest cl hcl
  generalize baseOf ((I.abs s).st c).versions = b at hwf hlat ⊢
  induction suf generalizing pre k with
  | nil =>
    apply walkFrom_notFound
    rw [gcv_good I S hS s hg]
    simp only [List.append_nil] at hv
    have hfind := find_parent_last _ _ hwf
    rw [← hv]
    simp [cGetChild, hcl, hfind, hlat]
  | cons x xs ih =>
    cases k with
    | zero => simp at hk
    | succ k =>
      have hwf' := hwf
      rw [hv] at hwf'
      have hxp : x.parent = lastId b pre :=
        ((isChain_append_gen _ pre (x :: xs)).1 hwf'.1).2.1
      have hfind := find_parent_of_mem _ _ hwf x (by rw [hv]; simp)
      rw [hxp] at hfind
      have hans : (((Ev.gcv c (lastId b pre)).req S).run I.B I.mode s).1 = .found x := by
        rw [gcv_good I S hS s hg]
        simp [cGetChild, hcl, hfind]
      rw [walkFrom_found I S c s (k + 1) _ x hans]
      have := ih (pre ++ [x]) (by rw [hv]; simp) k (by simpa using hk)
      rw [lastId_append] at this
      rw [this]
      rfl

/-- every history from the empty database reaches a good state that stores exactly the accepted versions -/
theorem hist_accepted {σ} (I : Impl σ) (S : Sys) (hS : S.ensure = ensureClientFixed) (h : List Ev) (hf : Fresh h []) :
    Good I (runH I.B I.mode S h I.init).2 ∧ (runH I.B I.mode S h I.init).1 = (asRunH S h {}).1 ∧
      ∀ c, ((I.abs (runH I.B I.mode S h I.init).2).st c).versions = accepted c h (runH I.B I.mode S h I.init).1 := by
  obtain ⟨s', h1, h2, h3⟩ := hist_init I S hS h hf
  have hr : runH I.B I.mode S h I.init = ((asRunH S h {}).1, s') := by
    simp only [runH, h1]
  rw [hr]
  refine ⟨h3, rfl, ?_⟩
  intro c
  simp only [h2]
  have := asRunH_versions S h {} c
  simpa using this

/-- C01 (a): on every backend, after any fresh history from the empty database, what is stored for a client is exactly
    what was accepted for it, in acceptance order — nothing orphaned, nothing extra -/
theorem C01_stored_eq_accepted {σ} (I : Impl σ) (S : Sys) (hS : S.ensure = ensureClientFixed) (h : List Ev) (hf : Fresh h [])
    (c : Uuid) :
    ((I.abs (runH I.B I.mode S h I.init).2).st c).versions = accepted c h (runH I.B I.mode S h I.init).1 :=
  (hist_accepted I S hS h hf).2.2 c

/-- C01 (b): no two stored versions of one client share a parent -/
theorem C01_no_shared_parent {σ} (I : Impl σ) (S : Sys) (hS : S.ensure = ensureClientFixed) (h : List Ev) (hf : Fresh h [])
    (c : Uuid) (v w : Version) (hv : v ∈ accepted c h (runH I.B I.mode S h I.init).1)
    (hw : w ∈ accepted c h (runH I.B I.mode S h I.init).1) (hp : v.parent = w.parent) : v = w := by
  obtain ⟨hg, _, hst⟩ := hist_accepted I S hS h hf
  rw [← hst c] at hv hw
  exact no_shared_parent _ _ (hg.inv.each c).wf v w hv hw hp

/-- C01 (c): starting from the parent of the first accepted version, the replica walk returns every accepted version
    exactly once, in acceptance order, each with its id, parent and payload, and then answers not-found -/
theorem C01_chain_walk {σ} (I : Impl σ) (S : Sys) (hS : S.ensure = ensureClientFixed) (h : List Ev) (hf : Fresh h []) (c : Uuid)
    (v0 : Version) (rest : List Version) (ha : accepted c h (runH I.B I.mode S h I.init).1 = v0 :: rest) :
    walkFrom I S c (runH I.B I.mode S h I.init).2 (rest.length + 2) v0.parent =
      (v0 :: rest).map Out.found ++ [Out.notFound] := by
  obtain ⟨hg, _, hst⟩ := hist_accepted I S hS h hf
  have hvs := hst c
  rw [ha] at hvs
  have hci := hg.inv.each c
  cases hcl : ((I.abs (runH I.B I.mode S h I.init).2).st c).client with
  | none =>
    have := (hci.noClient hcl).1
    rw [hvs] at this
    cases this
  | some cl =>
    have := walkFrom_suffix I S hS c _ hg cl hcl [] (v0 :: rest) (by simpa using hvs) (rest.length + 1) (by simp)
    rw [hvs] at this
    simpa [lastId, baseOf] using this

/-- instances: both shipped backends -/
theorem C01_chain_walk_sql (S : Sys) (hS : S.ensure = ensureClientFixed) (h : List Ev) (hf : Fresh h []) (c : Uuid)
    (v0 : Version) (rest : List Version) (ha : accepted c h (runH SqlB .snapshotCommit S h {}).1 = v0 :: rest) :
    walkFrom sqlImpl S c (runH SqlB .snapshotCommit S h {}).2 (rest.length + 2) v0.parent =
      (v0 :: rest).map Out.found ++ [Out.notFound] :=
  C01_chain_walk sqlImpl S hS h hf c v0 rest ha

theorem C01_chain_walk_mem (S : Sys) (hS : S.ensure = ensureClientFixed) (h : List Ev) (hf : Fresh h []) (c : Uuid)
    (v0 : Version) (rest : List Version) (ha : accepted c h (runH MemB .inPlace S h {}).1 = v0 :: rest) :
    walkFrom memImpl S c (runH MemB .inPlace S h {}).2 (rest.length + 2) v0.parent =
      (v0 :: rest).map Out.found ++ [Out.notFound] :=
  C01_chain_walk memImpl S hS h hf c v0 rest ha

/-! ### non-vacuity: two clients, a conflict, a non-nil first parent -/

namespace C01Ex
def S : Sys := { cfg := ⟨14, 100⟩ }
/-- client 1 starts its chain at parent 5, client 2 interleaves, a stale AddVersion of client 1 is rejected -/
def h : List Ev :=
  [ .av ⟨1⟩ ⟨5⟩ ⟨#[1]⟩ ⟨10⟩ 0, .av ⟨2⟩ Uuid.nil ⟨#[2]⟩ ⟨11⟩ 0, .av ⟨1⟩ ⟨5⟩ ⟨#[3]⟩ ⟨12⟩ 0,
    .av ⟨1⟩ ⟨10⟩ ⟨#[4]⟩ ⟨13⟩ 0, .gcv ⟨1⟩ ⟨5⟩ ]
end C01Ex

example : Fresh C01Ex.h [] := by
  simp [C01Ex.h, Fresh, FreshEv, seenAfter, Ev.drawn, Ev.argIds, Uuid.nil]

example : (asRunH C01Ex.S C01Ex.h {}).1 =
    [.avOk ⟨10⟩ .high, .avOk ⟨11⟩ .high, .avConflict ⟨10⟩, .avOk ⟨13⟩ .high, .found ⟨⟨10⟩, ⟨5⟩, ⟨#[1]⟩⟩] := by decide

example : accepted ⟨1⟩ C01Ex.h (runH SqlB .snapshotCommit C01Ex.S C01Ex.h {}).1 =
    [⟨⟨10⟩, ⟨5⟩, ⟨#[1]⟩⟩, ⟨⟨13⟩, ⟨10⟩, ⟨#[4]⟩⟩] := by decide

example : accepted ⟨2⟩ C01Ex.h (runH MemB .inPlace C01Ex.S C01Ex.h {}).1 = [⟨⟨11⟩, Uuid.nil, ⟨#[2]⟩⟩] := by decide

example : walkFrom memImpl C01Ex.S ⟨1⟩ (runH MemB .inPlace C01Ex.S C01Ex.h {}).2 3 ⟨5⟩ =
    [.found ⟨⟨10⟩, ⟨5⟩, ⟨#[1]⟩⟩, .found ⟨⟨13⟩, ⟨10⟩, ⟨#[4]⟩⟩, .notFound] := by decide

example : walkFrom sqlImpl C01Ex.S ⟨1⟩ (runH SqlB .snapshotCommit C01Ex.S C01Ex.h {}).2 3 ⟨5⟩ =
    [.found ⟨⟨10⟩, ⟨5⟩, ⟨#[1]⟩⟩, .found ⟨⟨13⟩, ⟨10⟩, ⟨#[4]⟩⟩, .notFound] := by decide

end Tcs
