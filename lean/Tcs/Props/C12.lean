import Tcs.Proofs.UrgencyArith
import Tcs.Props.C02
import Tcs.Props.C09
import Tcs.Props.C11
namespace Tcs

/-! # C12 – the snapshot urgency reported by AddVersion, and the versions-since-snapshot counter -/

/-- the accumulator update `countSince` performs for one (event, answer) pair: reset to 0 by an accepted
    AddSnapshot of `c`, +1 by every accepted AddVersion of `c` while a snapshot exists -/
def sinceUpd (c : Uuid) (e : Ev) (o : Out) (acc : Option Nat) : Option Nat :=
  match e, o with
  | .as c' _ _ _, .asDone true => if c' = c then some 0 else acc
  | .av c' .., .avOk .. => if c' = c then acc.map (· + 1) else acc
  | .avLib c' .., .avOk .. => if c' = c then acc.map (· + 1) else acc
  | _, _ => acc

/-- the counter as the history defines it: reset to 0 by an accepted AddSnapshot of `c`, +1 by every accepted
    AddVersion of `c` while a snapshot exists (`none` = no snapshot stored) -/
def countSince (c : Uuid) : List Ev → List Out → Option Nat → Option Nat
  | e :: es, o :: os, acc => countSince c es os (sinceUpd c e o acc)
  | _, _, acc => acc

/-- the counter stored in a record -/
def sinceOf (x : CSt) : Option Nat := (snapOf x).map (·.since)

/-! ### auxiliary facts -/

theorem countSince_cons (c : Uuid) (e : Ev) (es : List Ev) (o : Out) (os : List Out) (acc : Option Nat) :
    countSince c (e :: es) (o :: os) acc = countSince c es os (sinceUpd c e o acc) := rfl

theorem snapOf_cCreate (x : CSt) : snapOf (cCreate x) = snapOf x := by
  rcases x with ⟨_ | cl, d, vs⟩ <;> rfl

theorem sinceOf_cCreate (x : CSt) : sinceOf (cCreate x) = sinceOf x := by
  simp only [sinceOf, snapOf_cCreate]

/-- AddVersion: an accepted one bumps the counter (if there is a snapshot), any other answer leaves the record -/
theorem sinceOf_cAddVersion (cfg : Config) (x : CSt) (p : Uuid) (seg : Bytes) (newId : Uuid) (now : Int) :
    (∃ v u, (cAddVersion cfg x p seg newId now).1 = .avOk v u ∧
        sinceOf (cAddVersion cfg x p seg newId now).2 = (sinceOf x).map (· + 1)) ∨
    ((∀ v u, (cAddVersion cfg x p seg newId now).1 ≠ .avOk v u) ∧ (cAddVersion cfg x p seg newId now).2 = x) := by
  rcases x with ⟨_ | cl, d, vs⟩
  · right; simp [cAddVersion]
  · simp only [cAddVersion]
    split
    · right; simp
    · left
      refine ⟨_, _, rfl, ?_⟩
      rcases cl with ⟨l, _ | sn⟩ <;> simp [sinceOf, snapOf, bump]

/-- AddSnapshot: an accepted one resets the counter to 0, any other answer leaves the record -/
theorem sinceOf_cAddSnapshot (P : Params) (x : CSt) (v : Uuid) (data : Bytes) (now : Int) :
    sinceOf (cAddSnapshot P x v data now).2 =
      if (cAddSnapshot P x v data now).1 = .asDone true then some 0 else sinceOf x := by
  rcases x with ⟨_ | cl, d, vs⟩
  · simp [cAddSnapshot]
  · simp only [cAddSnapshot]
    split
    · simp
    · split
      · simp [sinceOf, snapOf]
      · simp

theorem sinceUpd_av_ok (c p : Uuid) (seg : Bytes) (n : Uuid) (now : Int) (v : Uuid) (u : Urgency) (acc : Option Nat) :
    sinceUpd c (.av c p seg n now) (.avOk v u) acc = acc.map (· + 1) := by
  simp [sinceUpd]

theorem sinceUpd_avLib_ok (c p : Uuid) (seg : Bytes) (n : Uuid) (now : Int) (v : Uuid) (u : Urgency) (acc : Option Nat) :
    sinceUpd c (.avLib c p seg n now) (.avOk v u) acc = acc.map (· + 1) := by
  simp [sinceUpd]

theorem sinceUpd_av_other (c c' p : Uuid) (seg : Bytes) (n : Uuid) (now : Int) (o : Out) (acc : Option Nat)
    (h : ∀ v u, o ≠ .avOk v u) : sinceUpd c (.av c' p seg n now) o acc = acc := by
  cases o <;> first | rfl | exact absurd rfl (h _ _)

theorem sinceUpd_avLib_other (c c' p : Uuid) (seg : Bytes) (n : Uuid) (now : Int) (o : Out) (acc : Option Nat)
    (h : ∀ v u, o ≠ .avOk v u) : sinceUpd c (.avLib c' p seg n now) o acc = acc := by
  cases o <;> first | rfl | exact absurd rfl (h _ _)

theorem sinceUpd_as (c v : Uuid) (d : Bytes) (now : Int) (o : Out) (acc : Option Nat) :
    sinceUpd c (.as c v d now) o acc = if o = .asDone true then some 0 else acc := by
  cases o with
  | asDone b => cases b <;> simp [sinceUpd]
  | _ => simp [sinceUpd]

/-- one request changes the counter of its client exactly as `sinceUpd` records it -/
theorem sinceOf_cstep (S : Sys) (e : Ev) (x : CSt) (c : Uuid) (hc : e.client = some c) :
    sinceOf (cstep S e x).2 = sinceUpd c e (cstep S e x).1 (sinceOf x) := by
  cases e with
  | av c' p seg newId now =>
    simp only [Ev.client, Option.some.injEq] at hc
    subst hc
    simp only [cstep]
    rcases sinceOf_cAddVersion S.cfg (cCreate x) p seg newId now with ⟨v, u, h1, h2⟩ | ⟨h1, h2⟩
    · rw [h2, h1, sinceUpd_av_ok, sinceOf_cCreate]
    · rw [h2, sinceUpd_av_other _ _ _ _ _ _ _ _ h1, sinceOf_cCreate]
  | avLib c' p seg newId now =>
    simp only [Ev.client, Option.some.injEq] at hc
    subst hc
    simp only [cstep]
    rcases sinceOf_cAddVersion S.cfg x p seg newId now with ⟨v, u, h1, h2⟩ | ⟨h1, h2⟩
    · rw [h2, h1, sinceUpd_avLib_ok]
    · rw [h2, sinceUpd_avLib_other _ _ _ _ _ _ _ _ h1]
  | create c' =>
    simp only [cstep, sinceOf_cCreate]
    rfl
  | gcv c' p => cases ho : (cstep S (.gcv c' p) x).1 <;> rfl
  | «as» c' v d now =>
    simp only [Ev.client, Option.some.injEq] at hc
    subst hc
    simp only [cstep, sinceOf_cAddSnapshot, sinceUpd_as]
  | gs c' => cases ho : (cstep S (.gs c') x).1 <;> rfl
  | reopen => rfl

/-- an event of another client never touches the counter of `c` -/
theorem sinceUpd_other (e : Ev) (o : Out) (c d : Uuid) (hc : e.client = some d) (hd : c ≠ d)
    (acc : Option Nat) : sinceUpd c e o acc = acc := by
  cases e <;> simp only [Ev.client, Option.some.injEq, reduceCtorEq] at hc <;> subst hc <;>
    cases o <;> (try rename_i b; cases b) <;> simp [sinceUpd, Ne.symm hd]

theorem sinceUpd_noClient (e : Ev) (o : Out) (c : Uuid) (hc : e.client = none) (acc : Option Nat) :
    sinceUpd c e o acc = acc := by
  cases e <;> first | (cases o <;> rfl) | simp [Ev.client] at hc

theorem sinceOf_asStep (S : Sys) (e : Ev) (a : AS) (c : Uuid) :
    sinceOf ((asStep S e a).2.st c) = sinceUpd c e (asStep S e a).1 (sinceOf (a.st c)) := by
  cases hc : e.client with
  | none => rw [asStep_none S e a hc, sinceUpd_noClient e _ c hc]
  | some d =>
    by_cases hd : c = d
    · subst hd
      rw [asStep_same S e a c hc, sinceOf_cstep S e (a.st c) c hc]
      simp [asStep, hc]
    · rw [asStep_other S e a d c hc hd, sinceUpd_other e _ c d hc hd]

/-! ### the counter -/

/-- C12 (counter), abstract level: after any history the stored counter is exactly the number of versions
    accepted since the current snapshot was stored -/
theorem asRunH_countSince (S : Sys) (h : List Ev) (a : AS) (c : Uuid) :
    sinceOf ((asRunH S h a).2.st c) = countSince c h (asRunH S h a).1 (sinceOf (a.st c)) := by
  induction h generalizing a with
  | nil => rfl
  | cons e es ih =>
    simp only [asRunH, countSince_cons]
    rw [ih (asStep S e a).2, sinceOf_asStep]

/-- … on every backend, from the empty database -/
theorem C12_counter {σ} (I : Impl σ) (S : Sys) (hS : S.ensure = ensureClientFixed) (h : List Ev)
    (hf : Fresh h []) (c : Uuid) :
    sinceOf ((I.abs (runH I.B I.mode S h I.init).2).st c) =
      countSince c h (runH I.B I.mode S h I.init).1 none := by
  obtain ⟨h1, h2⟩ := runH_init I S hS h hf
  rw [h1, h2]
  exact asRunH_countSince S h {} c

/-! ### the urgency -/

/-- C12 (inputs): the urgency reported with an accepted AddVersion is a function of the PRE-request snapshot
    record, the clock reading and the configuration only -/
theorem C12_only_inputs (S : Sys) (x : CSt) (c p : Uuid) (seg : Bytes) (newId : Uuid) (now : Int) (v : Uuid)
    (u : Urgency) (h : (cstep S (.av c p seg newId now) x).1 = .avOk v u) :
    u = urgency S.cfg now (snapOf x) := by
  have hs := C02_spec S x c p seg newId now
  simp only at hs
  split at hs
  · rw [hs.1] at h
    simp only [Out.avOk.injEq] at h
    exact h.2.symm
  · rw [hs.1] at h
    cases h

/-- C12 (levels): high when there is no snapshot or either measure reached one and a half times its target
    (⌊3t/2⌋), low when either reached its target, none otherwise -/
theorem C12_levels (cfg : Config) (hd : 0 ≤ cfg.days) (now : Int) :
    urgency cfg now none = .high ∧
    ∀ s : Snapshot,
      (urgency cfg now (some s) = .high ↔
        (days now s.ts ≥ threeHalves cfg.days ∨ (s.since : Int) ≥ threeHalves cfg.versions)) ∧
      (urgency cfg now (some s) = .none ↔ (days now s.ts < cfg.days ∧ (s.since : Int) < cfg.versions)) ∧
      (urgency cfg now (some s) = .low ↔
        ¬ (days now s.ts ≥ threeHalves cfg.days ∨ (s.since : Int) ≥ threeHalves cfg.versions) ∧
        ¬ (days now s.ts < cfg.days ∧ (s.since : Int) < cfg.versions)) := by
  refine ⟨rfl, fun s => ?_⟩
  have hh := urgency_high_iff cfg now s
  have hn := urgency_none_iff cfg hd now s
  refine ⟨hh, hn, ?_⟩
  rw [← hh, ← hn]
  cases urgency cfg now (some s) <;> decide

/-- C12 (ordering): the high threshold is never below the low one, and is ⌊3t/2⌋ -/
theorem C12_thresholds_ordered (t : Int) (ht : 0 ≤ t) : t ≤ threeHalves t ∧ threeHalves t = t * 3 / 2 :=
  ⟨thresholds_ordered t ht, threeHalves_nonneg t ht⟩

/-- C12 (monotonicity): for one stored snapshot the urgency never decreases as the clock or the counter grows -/
theorem C12_monotone (cfg : Config) (hd : 0 ≤ cfg.days) (now now' : Int) (s s' : Snapshot) (hv : s.vid = s'.vid)
    (hts : s.ts = s'.ts) (hn : now ≤ now') (hs : s.since ≤ s'.since) :
    (urgency cfg now (some s)).toNat ≤ (urgency cfg now' (some s')).toNat :=
  urgency_monotone cfg hd now now' s s' hv hts hn hs

/-- C12 (the computation succeeds for every target): the repaired comparison needs no value outside
    u64 / i128, and equals the integer specification -/
theorem C12_no_overflow (tv : Nat) (htv : tv < 2 ^ 32) (td : Int) (h1 : -(2 ^ 63) ≤ td) (h2 : td < 2 ^ 63) :
    tv * 3 < 2 ^ 64 ∧ -(2 ^ 127) ≤ td * 3 ∧ td * 3 < 2 ^ 127 :=
  ⟨widened_no_overflow_u32 tv htv, widened_no_overflow_i64 td h1 h2⟩

/-- … and the repaired comparison is the integer specification `specLvl` for every non-negative target -/
theorem C12_meets_spec (x t : Int) (ht : 0 ≤ t) : lvl x t = specLvl x t := lvl_eq_spec x t ht

/-- the pinned arithmetic (before the fix) violated this: witnesses -/
theorem C12_pinned_overflow :
    lvlU32Pinned 1431655766 1431655766 = none ∧ lvlI64Pinned 0 3074457345618258603 = none :=
  ⟨pinned_u32_overflow, pinned_i64_overflow⟩

/-- the repair changes nothing where the pinned arithmetic did not overflow -/
theorem C12_fix_conservative (x t : Nat) (h : t * 3 < 2 ^ 32) : lvlU32Pinned x t = some (lvl x t) :=
  pinned_u32_agrees x t h

/-! ### non-vacuity -/

/-- client 1, after every prefix of the history: two versions (no snapshot: counter absent, urgency high), an
    accepted snapshot (counter 0), a version of ANOTHER client (still 0), two more versions (1, 2; the answers carry
    the urgency of the PRE-request counter 0, 1 against target 2: none), a declined snapshot (unknown version;
    counter stays 2), an accepted one (reset to 0), one more version (1). Record and history agree throughout. -/
example :
    let S : Sys := { cfg := ⟨14, 2⟩ }
    let h : List Ev := [.av ⟨1⟩ Uuid.nil .empty ⟨10⟩ 0, .av ⟨1⟩ ⟨10⟩ .empty ⟨11⟩ 0, .as ⟨1⟩ ⟨11⟩ .empty 0,
      .av ⟨2⟩ Uuid.nil .empty ⟨20⟩ 0, .av ⟨1⟩ ⟨11⟩ .empty ⟨12⟩ 0, .av ⟨1⟩ ⟨12⟩ .empty ⟨13⟩ 0,
      .as ⟨1⟩ ⟨99⟩ .empty 0, .as ⟨1⟩ ⟨13⟩ .empty 0, .av ⟨1⟩ ⟨13⟩ .empty ⟨14⟩ 0]
    (List.range 10).map (fun n => sinceOf ((asRunH S (h.take n) {}).2.st ⟨1⟩)) =
      [none, none, none, some 0, some 0, some 1, some 2, some 2, some 0, some 1] ∧
    (List.range 10).map (fun n => countSince ⟨1⟩ (h.take n) (asRunH S (h.take n) {}).1 none) =
      [none, none, none, some 0, some 0, some 1, some 2, some 2, some 0, some 1] ∧
    countSince ⟨2⟩ h (asRunH S h {}).1 none = none ∧
    (asRunH S h {}).1 = [.avOk ⟨10⟩ .high, .avOk ⟨11⟩ .high, .asDone true, .avOk ⟨20⟩ .high, .avOk ⟨12⟩ .none,
      .avOk ⟨13⟩ .none, .asDone false, .asDone true, .avOk ⟨14⟩ .none] := by
  decide

/-- the three levels are all reached: targets 14 days / 100 versions -/
example :
    urgency ⟨14, 100⟩ (13 * 86400) (some ⟨⟨1⟩, 0, 99⟩) = .none ∧
    urgency ⟨14, 100⟩ (14 * 86400) (some ⟨⟨1⟩, 0, 0⟩) = .low ∧
    urgency ⟨14, 100⟩ 0 (some ⟨⟨1⟩, 0, 100⟩) = .low ∧
    urgency ⟨14, 100⟩ 0 (some ⟨⟨1⟩, 0, 149⟩) = .low ∧
    urgency ⟨14, 100⟩ 0 (some ⟨⟨1⟩, 0, 150⟩) = .high ∧
    urgency ⟨14, 100⟩ (21 * 86400) (some ⟨⟨1⟩, 0, 0⟩) = .high ∧
    urgency ⟨14, 100⟩ 0 none = .high := by
  decide

end Tcs
