import Tcs.Props.C10
namespace Tcs

/-! # C11 – GetSnapshot returns the most recently accepted snapshot, a usable base -/

/-- the last AddSnapshot of client `c` in the history that the server accepted:
    (version id, bytes) of that very upload -/
def lastSnap (c : Uuid) : List Ev → List Out → Option (Uuid × Bytes) → Option (Uuid × Bytes)
  | (.as c' v d _) :: es, o :: os, acc => lastSnap c es os (if c' = c ∧ o = .asDone true then some (v, d) else acc)
  | _ :: es, _ :: os, acc => lastSnap c es os acc
  | _, _, acc => acc

/-- what the record says GetSnapshot returns -/
def snapPair (x : CSt) : Option (Uuid × Bytes) :=
  match x.client with
  | none => none
  | some c => match c.snap, x.data with
    | some s, some d => some (s.vid, d)
    | _, _ => none

/-! ### auxiliary facts -/

/-- the accumulator update `lastSnap` performs for one (event, answer) pair -/
def snapUpd (c : Uuid) (e : Ev) (o : Out) (acc : Option (Uuid × Bytes)) : Option (Uuid × Bytes) :=
  match e with
  | .as c' v d _ => if c' = c ∧ o = .asDone true then some (v, d) else acc
  | _ => acc

theorem lastSnap_cons (c : Uuid) (e : Ev) (es : List Ev) (o : Out) (os : List Out) (acc : Option (Uuid × Bytes)) :
    lastSnap c (e :: es) (o :: os) acc = lastSnap c es os (snapUpd c e o acc) := by
  cases e <;> rfl

theorem snapPair_cCreate (x : CSt) : snapPair (cCreate x) = snapPair x := by
  rcases x with ⟨_ | cl, d, vs⟩ <;> simp [cCreate, snapPair]

theorem snapPair_cAddVersion (cfg : Config) (x : CSt) (p : Uuid) (seg : Bytes) (newId : Uuid) (now : Int) :
    snapPair (cAddVersion cfg x p seg newId now).2 = snapPair x := by
  rcases x with ⟨_ | cl, d, vs⟩
  · simp [cAddVersion]
  · simp only [cAddVersion]
    split
    · rfl
    · rcases cl with ⟨l, _ | sn⟩ <;> cases d <;> simp [snapPair, bump]

theorem snapPair_cAddSnapshot (P : Params) (x : CSt) (v : Uuid) (data : Bytes) (now : Int) :
    snapPair (cAddSnapshot P x v data now).2 =
      if (cAddSnapshot P x v data now).1 = .asDone true then some (v, data) else snapPair x := by
  obtain ⟨h1, h2⟩ := C10_effect P x v data now
  by_cases h : (cAddSnapshot P x v data now).1 = .asDone true
  · obtain ⟨c, _, he⟩ := h1 h
    rw [if_pos h, he]; rfl
  · rw [if_neg h, h2 h]

/-- one request changes the (snapshot version, data) pair of its client exactly as `lastSnap` records it -/
theorem snapPair_cstep (S : Sys) (e : Ev) (x : CSt) (c : Uuid) (hc : e.client = some c) :
    snapPair (cstep S e x).2 = snapUpd c e (cstep S e x).1 (snapPair x) := by
  cases e with
  | av c' p seg newId now => simp only [cstep, snapUpd, snapPair_cAddVersion, snapPair_cCreate]
  | avLib c' p seg newId now => simp only [cstep, snapUpd, snapPair_cAddVersion]
  | create c' => simp only [cstep, snapUpd, snapPair_cCreate]
  | gcv c' p => rfl
  | «as» c' v d now =>
    simp only [Ev.client, Option.some.injEq] at hc
    simp only [cstep, snapUpd, snapPair_cAddSnapshot, hc, true_and]
  | gs c' => rfl
  | reopen => rfl

/-- an accepted AddSnapshot answer belongs to the client the event names -/
theorem snapUpd_other (S : Sys) (e : Ev) (a : AS) (c d : Uuid) (hc : e.client = some d) (hd : c ≠ d)
    (acc : Option (Uuid × Bytes)) : snapUpd c e (asStep S e a).1 acc = acc := by
  cases e <;> simp only [snapUpd]
  simp only [Ev.client, Option.some.injEq] at hc
  subst hc
  simp [Ne.symm hd]

theorem snapPair_asStep (S : Sys) (e : Ev) (a : AS) (c : Uuid) :
    snapPair ((asStep S e a).2.st c) = snapUpd c e (asStep S e a).1 (snapPair (a.st c)) := by
  cases hc : e.client with
  | none =>
    rw [asStep_none S e a hc]
    cases e <;> first | rfl | simp [Ev.client] at hc
  | some d =>
    by_cases hd : c = d
    · subst hd
      rw [asStep_same S e a c hc, snapPair_cstep S e (a.st c) c hc]
      simp [asStep, hc]
    · rw [asStep_other S e a d c hc hd, snapUpd_other S e a c d hc hd]

/-- the invariant-free core of `asRunH_lastSnap` -/
theorem asRunH_lastSnap' (S : Sys) (h : List Ev) (a : AS) (c : Uuid) :
    snapPair ((asRunH S h a).2.st c) = lastSnap c h (asRunH S h a).1 (snapPair (a.st c)) := by
  induction h generalizing a with
  | nil => rfl
  | cons e es ih =>
    simp only [asRunH, lastSnap_cons]
    rw [ih (asStep S e a).2, snapPair_asStep]

/-- `cGetSnapshot` answers with the record's pair -/
theorem cGetSnapshot_eq (x : CSt) :
    cGetSnapshot x = match snapPair x with
      | some (v, d) => Out.snap v d
      | none => if x.client = none then Out.noSuchClient else Out.noSnap := by
  rcases x with ⟨_ | ⟨l, _ | sn⟩, _ | d, vs⟩ <;> simp [cGetSnapshot, snapPair]

/-! ### the property -/

/-- abstract level: after any history the record's (snapshot version, data) pair is the one of the last accepted
    upload (id and bytes from the SAME event), or what it was before if none was accepted -/
theorem asRunH_lastSnap (S : Sys) (h : List Ev) (a : AS) (c : Uuid) (_hinv : Inv a) (seen : List Uuid)
    (_hseen : Seen a seen) (_hf : Fresh h seen) :
    snapPair ((asRunH S h a).2.st c) = lastSnap c h (asRunH S h a).1 (snapPair (a.st c)) :=
  asRunH_lastSnap' S h a c

/-- C11 (a): on every backend, after any fresh history from the empty database, GetSnapshot returns exactly
    that pair, or not-found -/
theorem C11_latest_snapshot {σ} (I : Impl σ) (S : Sys) (hS : S.ensure = ensureClientFixed) (h : List Ev)
    (hf : Fresh h []) (c : Uuid) :
    (((Ev.gs c).req S).run I.B I.mode (runH I.B I.mode S h I.init).2).1 =
      match lastSnap c h (runH I.B I.mode S h I.init).1 none with
      | some (v, d) => Out.snap v d
      | none => if ((I.abs (runH I.B I.mode S h I.init).2).st c).client = none then Out.noSuchClient else Out.noSnap := by
  obtain ⟨s', h1, h2, hg⟩ := hist_init I S hS h hf
  have hr1 : (runH I.B I.mode S h I.init).1 = (asRunH S h {}).1 := by simp only [runH, h1]
  have hr2 : (runH I.B I.mode S h I.init).2 = s' := by simp only [runH, h1]
  obtain ⟨s'', g1, _, _⟩ := req_good_nodraw I S hS (.gs c) s' hg rfl
  rw [hr1, hr2]
  simp only [ReqM.run, g1]
  have hl := asRunH_lastSnap' S h {} c
  rw [show snapPair (({} : AS).st c) = none from rfl] at hl
  rw [← hl, ← h2]
  simp only [asStep, Ev.client, cstep]
  exact cGetSnapshot_eq _

/-- the abstract replica walk over a record -/
def walkOuts (x : CSt) : Nat → Uuid → List Out
  | 0, _ => []
  | n+1, p => match cGetChild x p with | .found v => .found v :: walkOuts x n v.id | o => [o]

theorem walkOuts_found (x : CSt) (n : Nat) (p : Uuid) (v : Version) (h : cGetChild x p = .found v) :
    walkOuts x (n + 1) p = .found v :: walkOuts x n v.id := by
  simp only [walkOuts, h]

theorem walkOuts_notFound (x : CSt) (n : Nat) (p : Uuid) (h : cGetChild x p = .notFound) :
    walkOuts x (n + 1) p = [.notFound] := by
  simp only [walkOuts, h]

/-- walking from the end of any prefix of the chain yields the remaining versions and then not-found -/
theorem walkOuts_from (x : CSt) (hx : CInv x) (hc : x.client ≠ none) (pre suf : List Version)
    (hv : x.versions = pre ++ suf) :
    walkOuts x (suf.length + 1) (lastId (baseOf x.versions) pre) = suf.map Out.found ++ [Out.notFound] := by
  obtain ⟨cl, hcl⟩ := Option.ne_none_iff_exists'.1 hc
  induction suf generalizing pre with
  | nil =>
    rw [List.append_nil] at hv
    apply walkOuts_notFound
    have hf := find_parent_last _ _ hx.wf
    have hl := hx.latest cl hcl
    rw [← hv]
    simp only [cGetChild, hcl, hf, hl, decide_true, Bool.true_or, ↓reduceIte]
  | cons y ys ih =>
    have hwf := hx.wf
    have hyp : y.parent = lastId (baseOf x.versions) pre := by
      have := hwf.1; rw [hv] at this
      have h2 := ((isChain_append_gen _ pre (y :: ys)).1 this).2.1
      rw [hv]; exact h2
    have hfind := find_parent_of_mem _ _ hwf y (by rw [hv]; simp)
    rw [hyp] at hfind
    have hget : cGetChild x (lastId (baseOf x.versions) pre) = .found y := by
      simp only [cGetChild, hcl, hfind]
    rw [List.length_cons, walkOuts_found x _ _ y hget]
    have := ih (pre ++ [y]) (by rw [hv]; simp)
    rw [lastId_append] at this
    rw [this]; rfl

/-- every id of a chain (or its base) is the end of a prefix -/
theorem split_at_id (b : Uuid) (vs : List Version) (v : Uuid) (h : v ∈ b :: vids vs) :
    ∃ pre suf, vs = pre ++ suf ∧ v = lastId b pre := by
  induction vs generalizing b with
  | nil =>
    simp only [vids_nil, List.mem_singleton] at h
    exact ⟨[], [], rfl, h⟩
  | cons x xs ih =>
    rcases List.mem_cons.1 h with h | h
    · exact ⟨[], x :: xs, rfl, h⟩
    · obtain ⟨pre, suf, h1, h2⟩ := ih x.id h
      exact ⟨x :: pre, suf, by rw [h1]; rfl, h2⟩

/-- C11 (b): the snapshot version is a usable base: for every record satisfying the invariant, walking child
    versions from the snapshot version yields only `found` answers — exactly the versions after it, in order —
    and then not-found at the latest; never gone -/
theorem C11_usable_base (x : CSt) (hx : CInv x) (v : Uuid) (h : curSnap x = some v) :
    ∃ pre suf, x.versions = pre ++ suf ∧ v = lastId (baseOf x.versions) pre ∧
      walkOuts x (suf.length + 1) v = suf.map Out.found ++ [Out.notFound] := by
  obtain ⟨c, _, hc, _, _⟩ := curSnap_eq_some x v h
  have hm := (mem_anc x v).1 (C10_on_chain x hx v h).1
  obtain ⟨pre, suf, h1, h2⟩ := split_at_id _ _ v hm
  refine ⟨pre, suf, h1, h2, ?_⟩
  rw [h2]
  exact walkOuts_from x hx (by simp [hc]) pre suf h1

/-- the same walk from the base returns the whole chain (used by C01 as well) -/
theorem walkOuts_from_base (x : CSt) (hx : CInv x) (hc : x.client ≠ none) :
    walkOuts x (x.versions.length + 1) (baseOf x.versions) = x.versions.map Out.found ++ [Out.notFound] :=
  walkOuts_from x hx hc [] x.versions rfl

/-! ### non-vacuity -/

/-- a history: two versions, an accepted snapshot for the first, a declined one (unknown version), an accepted
    one for the second by ANOTHER upload; `lastSnap` picks the last accepted (id, bytes) pair -/
example :
    let d1 : Bytes := ⟨#[1]⟩
    let d2 : Bytes := ⟨#[2]⟩
    let d3 : Bytes := ⟨#[3]⟩
    let h : List Ev := [.av ⟨1⟩ Uuid.nil .empty ⟨10⟩ 0, .av ⟨1⟩ ⟨10⟩ .empty ⟨11⟩ 0, .as ⟨1⟩ ⟨10⟩ d1 0,
      .as ⟨1⟩ ⟨99⟩ d2 0, .as ⟨2⟩ ⟨11⟩ d2 0, .as ⟨1⟩ ⟨11⟩ d3 0, .as ⟨1⟩ ⟨10⟩ d1 0]
    let r := asRunH { cfg := ⟨14, 100⟩ } h {}
    lastSnap ⟨1⟩ h r.1 none = some (⟨11⟩, d3) ∧ cGetSnapshot (r.2.st ⟨1⟩) = .snap ⟨11⟩ d3 ∧
    lastSnap ⟨2⟩ h r.1 none = none ∧ cGetSnapshot (r.2.st ⟨2⟩) = .noSuchClient ∧
    r.1.drop 2 = [.asDone true, .asDone false, .noSuchClient, .asDone true, .asDone false] := by
  decide

/-- walking from the snapshot version 5 of the seven-version chain: 6, 7, then not-found -/
example : let x : CSt := { client := some ⟨⟨7⟩, some ⟨⟨5⟩, 0, 2⟩⟩, data := some .empty, versions := c10Chain }
    walkOuts x 3 ⟨5⟩ = [.found ⟨⟨6⟩, ⟨5⟩, .empty⟩, .found ⟨⟨7⟩, ⟨6⟩, .empty⟩, .notFound] ∧
    walkOuts x 8 Uuid.nil = c10Chain.map Out.found ++ [.notFound] := by
  decide

end Tcs
