import Tcs.Proofs.ReqFault
import Tcs.Proofs.HttpProofs
namespace Tcs

/-! # C04 – atomicity and durability of the SQLite backend across crashes

A crash of the process (or power loss) at storage-call index `k` is the fault oracle `crashFrom k`: no call with an
index ≥ `k` (transaction begins included) takes effect. Transactions work on a copy that is installed by `commit`
(`TxnSt.durable`), which is what SQLite's journal gives. The theorems hold for every backend whose `commit` call
succeeds and leaves the tables alone (`CommitId`), in particular for the SQLite model (`C04_sql_commit`). -/

/-- C04 (a) no half-applied write: for every HTTP request, every backend state, every crash point: the database that
    survives is a state between two transactions of the request's fault-free run (for the single-transaction operations:
    exactly the state before or the state after; for a first AddVersion additionally the state where only the (empty)
    client record exists) -/
theorem C04_atomic {σ} (B : Backend σ) (hB : CommitId B) (h : HttpCfg) (hS : h.ensure = ensureClientFixed) (r : Request)
    (k : Nat) (s : σ) :
    ((serve h r).runF B (crashFrom k) 0 s).2.1 ∈ (serve h r).txnStates B s :=
  crash_state_between_txns B hB (serve h r) (allCommitLast_serve h (.inl hS) r) k 0 s

/-- every handler is fail-closed: once a transaction and all later ones fail, the response is a 500, never a success -/
theorem failsClosed_serve (h : HttpCfg) (r : Request) :
    FailsClosed (fun resp : Response => ¬ resp.status < 400) (serve h r) := by
  rw [serve_factor]
  split
  · exact FailsClosed.done _
  · exact FailsClosed.done _
  · exact FailsClosed.done _
  · apply failsClosed_map
    have hreq := failsClosed_req (sysOf h) ‹Ev›
    generalize Ev.req (sysOf h) ‹Ev› = p at hreq
    induction hreq with
    | done a => exact FailsClosed.done _
    | txn cl body k _ hbad ih =>
      refine FailsClosed.txn cl body k ih ?_
      rw [hbad]
      decide

/-- C04 (b), general form: under a crash at index `k` a request either ran entirely before the crash point, and then
    response, database and call count are those of the crash-free run, or it is answered with an error status (≥ 400;
    in fact 500) -/
theorem C04_ack_or_error {σ} (B : Backend σ) (h : HttpCfg) (r : Request) (k n : Nat) (s : σ) :
    (serve h r).runF B (crashFrom k) n s = (serve h r).runF B noFault n s ∨
    ¬ ((serve h r).runF B (crashFrom k) n s).1.status < 400 :=
  crash_dichotomy B _ (serve h r) (failsClosed_serve h r) k n s

/-- C04 (b) acknowledged ⇒ durable: if, despite a crash point at index k, the request still produced a success response
    (status < 400), then the crash point lies after everything the request did: the response and the surviving database
    are those of the crash-free run -/
theorem C04_ack_durable {σ} (B : Backend σ) (hB : CommitId B) (h : HttpCfg) (hS : h.ensure = ensureClientFixed)
    (r : Request) (k : Nat) (s : σ)
    (hok : ((serve h r).runF B (crashFrom k) 0 s).1.status < 400) :
    ((serve h r).runF B (crashFrom k) 0 s).1 = ((serve h r).run B .snapshotCommit s).1 ∧
    ((serve h r).runF B (crashFrom k) 0 s).2.1 = ((serve h r).run B .snapshotCommit s).2 := by
  have _ := hB
  have _ := hS
  rcases C04_ack_or_error B h r k 0 s with heq | hbad
  · rw [heq]
    exact reqRunF_noFault B (serve h r) 0 s
  · exact absurd hok hbad

/-- C04 (b'), the crash point of an acknowledged request lies after its last storage call: every call index the
    request consumed (begins included) is below `k` -/
theorem C04_ack_before_crash {σ} (B : Backend σ) (h : HttpCfg) (r : Request) (k : Nat) (s : σ)
    (hok : ((serve h r).runF B (crashFrom k) 0 s).1.status < 400) :
    ((serve h r).runF B (crashFrom k) 0 s).2.2 ≤ k := by
  generalize hp : serve h r = p at hok
  have hfc : FailsClosed (fun resp : Response => ¬ resp.status < 400) p := hp ▸ failsClosed_serve h r
  clear hp
  suffices H : ∀ n, (p.runF B (crashFrom k) n s).1.status < 400 →
      (p.runF B (crashFrom k) n s).2.2 ≤ k ∨ (p.runF B (crashFrom k) n s).2.2 = n by
    rcases H 0 hok with h1 | h1
    · exact h1
    · rw [h1]; exact Nat.zero_le k
  clear hok
  induction hfc generalizing s with
  | done a => exact fun n _ => .inr rfl
  | txn cl body kk _ hbad ih =>
    intro n hok
    left
    rcases Nat.lt_or_ge n k with hn | hn
    · have e : (ReqM.txn cl body kk).runF B (crashFrom k) n s =
          (kk (body.runF B cl (crashFrom k) (n + 1) ⟨s, s, false⟩).1).runF B (crashFrom k)
            (body.runF B cl (crashFrom k) (n + 1) ⟨s, s, false⟩).2.2
            (body.runF B cl (crashFrom k) (n + 1) ⟨s, s, false⟩).2.1.durable := by
        simp only [ReqM.runF, crashFrom_lt hn]
      rw [e] at hok ⊢
      rcases Nat.lt_or_ge k (body.runF B cl (crashFrom k) (n + 1) ⟨s, s, false⟩).2.2 with hlt | hge
      · -- the body consumed index k: it failed, and so does everything after it
        exfalso
        have hk : crashFrom k k ≠ .ok := by
          rw [crashFrom_ge (Nat.le_refl k)]; exact fun h => FaultKind.noConfusion h
        have hnone := runF_fault_none B cl (crashFrom k) body (n + 1) ⟨s, s, false⟩ ⟨k, hn, hlt, hk⟩
        rw [hnone, (reqRunF_crashed B _ k _ (Nat.le_of_lt hlt) _).1] at hok
        exact hbad hok
      · rcases ih _ _ _ hok with h1 | h1
        · exact h1
        · rw [h1]; exact hge
    · exfalso
      rw [(reqRunF_crashed B _ k n hn s).1] at hok
      exact hbad hok

/-- C04 (c) = C05: a success value of a transaction is only produced after its commit returned (structural) -/
theorem C04_ack_after_commit (cfg : Config) (P : Params) (p v : Uuid) (seg : Bytes) (newId : Uuid) (now : Int) :
    CommitLast (addVersion cfg p seg newId now) ∧ CommitLast (addSnapshot P v seg now) ∧
    CommitLast (getChildVersion p) ∧ CommitLast getSnapshot ∧ CommitLast ensureClientFixed :=
  ⟨commitLast_addVersion cfg p seg newId now, commitLast_addSnapshot P v seg now, commitLast_getChildVersion p,
    commitLast_getSnapshot, commitLast_ensureFixed⟩

/-- the SQLite model satisfies the side condition -/
theorem C04_sql_commit : CommitId SqlB := commitId_sql

end Tcs
