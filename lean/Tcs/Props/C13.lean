import Tcs.Props.C09
namespace Tcs

/-! # C13 – all storage backends, and a reopened database, behave identically -/

/-- any two backends tied to the abstract storage give the same responses to the same fresh history -/
theorem C13_any_two_backends {σ τ} (I : Impl σ) (J : Impl τ) (S : Sys) (hS : S.ensure = ensureClientFixed)
    (h : List Ev) (hf : Fresh h []) :
    (runH I.B I.mode S h I.init).1 = (runH J.B J.mode S h J.init).1 ∧
    I.abs (runH I.B I.mode S h I.init).2 = J.abs (runH J.B J.mode S h J.init).2 := by
  obtain ⟨i1, i2⟩ := runH_init I S hS h hf
  obtain ⟨j1, j2⟩ := runH_init J S hS h hf
  exact ⟨by rw [i1, j1], by rw [i2, j2]⟩

/-- the two shipped backends -/
theorem C13_backends_agree (S : Sys) (hS : S.ensure = ensureClientFixed) (h : List Ev) (hf : Fresh h []) :
    (runH MemB .inPlace S h {}).1 = (runH SqlB .snapshotCommit S h {}).1 :=
  (C13_any_two_backends memImpl sqlImpl S hS h hf).1

/-- no storage error ever occurs in a fresh history (so no response is a 500 "merely because of the backend") -/
theorem C13_no_storage_error {σ} (I : Impl σ) (S : Sys) (hS : S.ensure = ensureClientFixed) (h : List Ev)
    (hf : Fresh h []) : (runHC I.B I.mode S h I.init).2.2 = true := by
  obtain ⟨s', h1, _, _⟩ := hist_init I S hS h hf
  rw [h1]

def notReopen (e : Ev) : Bool := e.client.isSome

/-- abstract level: dropping the `.reopen` events changes no other answer and not the final state -/
theorem asRunH_reopen (S : Sys) (h : List Ev) (a : AS) :
    selectOuts notReopen h (asRunH S h a).1 = (asRunH S (h.filter notReopen) a).1 ∧
    (asRunH S h a).2 = (asRunH S (h.filter notReopen) a).2 := by
  induction h generalizing a with
  | nil => exact ⟨rfl, rfl⟩
  | cons e es ih =>
    cases hc : e.client with
    | none =>
      have hk : notReopen e = false := by simp [notReopen, hc]
      obtain ⟨i1, i2⟩ := ih a
      rw [List.filter_cons_of_neg (by rw [hk]; exact Bool.false_ne_true)]
      simp only [asRunH, selectOuts_cons, hk, Bool.false_eq_true, if_false, List.nil_append,
        asStep_none S e a hc]
      exact ⟨i1, i2⟩
    | some c =>
      have hk : notReopen e = true := by simp [notReopen, hc]
      obtain ⟨i1, i2⟩ := ih (asStep S e a).2
      rw [List.filter_cons_of_pos hk]
      simp only [asRunH, selectOuts_cons, hk, if_true, List.singleton_append]
      exact ⟨by rw [i1], i2⟩

/-- reopening the database (event `.reopen`) at arbitrary points changes no other response and not the final state -/
theorem C13_reopen {σ} (I : Impl σ) (S : Sys) (hS : S.ensure = ensureClientFixed) (h : List Ev) (hf : Fresh h []) :
    selectOuts notReopen h (runH I.B I.mode S h I.init).1 = (runH I.B I.mode S (h.filter notReopen) I.init).1 ∧
    I.abs (runH I.B I.mode S h I.init).2 = I.abs (runH I.B I.mode S (h.filter notReopen) I.init).2 := by
  obtain ⟨h1, h2⟩ := runH_init I S hS h hf
  obtain ⟨f1, f2⟩ := runH_init I S hS (h.filter notReopen) (fresh_filter notReopen h [] [] (fun _ hi => hi) hf)
  rw [h1, h2, f1, f2]
  exact asRunH_reopen S h {}

/-- the events dropped by `notReopen` are exactly the `.reopen` events, and each of them answers `reopened` -/
theorem notReopen_false (e : Ev) : notReopen e = false ↔ e = .reopen := by
  cases e <;> simp [notReopen, Ev.client]

/-- non-vacuity, on the history of `C09Ex`: the reopen in the middle is answered `reopened` and nothing else moves -/
example : (asRunH C09Ex.S C09Ex.h {}).1.length = 8 ∧ (C09Ex.h.filter notReopen).length = 7 ∧
    selectOuts notReopen C09Ex.h (runH SqlB .snapshotCommit C09Ex.S C09Ex.h {}).1 =
      (runH MemB .inPlace C09Ex.S (C09Ex.h.filter notReopen) {}).1 := by decide

end Tcs
