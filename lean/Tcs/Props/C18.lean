import Tcs.Props.C02
namespace Tcs

/-! # C18 – reads and rejected writes leave stored state untouched -/

/-- the non-mutating outcomes: every read; a conflicting AddVersion; a declined AddSnapshot; any
    request answered no-such-client; a reopen -/
def nonMutating (e : Ev) (o : Out) : Bool :=
  match e, o with
  | .gcv .., _ => true
  | .gs .., _ => true
  | .reopen, _ => true
  | .av .., .avConflict _ => true
  | .avLib .., .avConflict _ => true
  | .avLib .., .noSuchClient => true
  | .as .., .asDone false => true
  | .as .., .noSuchClient => true
  | _, _ => false

/-- specification level, for EVERY record: a non-mutating outcome returns the record unchanged -/
theorem C18_spec (S : Sys) (e : Ev) (x : CSt) (h : nonMutating e (cstep S e x).1 = true) : (cstep S e x).2 = x := by
  rcases x with ⟨_ | cl, d, vs⟩
  · cases e <;> simp_all [nonMutating, cstep, cAddVersion, cCreate, cAddSnapshot]
  · cases e with
    | av c p seg newId now =>
      simp only [cstep, cCreate, cAddVersion] at h ⊢
      split at h <;> simp_all [nonMutating]
    | avLib c p seg newId now =>
      simp only [cstep, cAddVersion] at h ⊢
      split at h <;> simp_all [nonMutating]
    | create c => simp [nonMutating] at h
    | gcv c p => rfl
    | «as» c v dd now =>
      simp only [cstep, cAddSnapshot] at h ⊢
      split
      · rfl
      · split
        · simp_all [nonMutating]
        · rfl
    | gs c => rfl
    | reopen => rfl

/-- and no version id is added to the global id set -/
theorem C18_no_id (e : Ev) (o : Out) (h : nonMutating e o = true) : addedId e o = [] := by
  cases e <;> cases o <;> simp_all [nonMutating, addedId]

/-- On every backend, from every reachable state: after a non-mutating outcome the complete
    protocol-visible state — every client's versions, latest pointer, snapshot, snapshot bookkeeping,
    and the set of stored ids — is exactly what it was. -/
theorem C18_noop {σ} (I : Impl σ) (S : Sys) (hS : S.ensure = ensureClientFixed) (s : σ) (hg : Good I s) (e : Ev)
    (hf : ∀ n, e.drawn = some n → n ∉ (I.abs s).ids)
    (h : nonMutating e (asStep S e (I.abs s)).1 = true) :
    ∃ s', (e.req S).runC I.B I.mode s = ((asStep S e (I.abs s)).1, s', true) ∧ I.abs s' = I.abs s := by
  obtain ⟨s', h1, h2, _⟩ := req_good I S hS e s hg hf
  refine ⟨s', h1, ?_⟩
  rw [h2]
  cases hc : e.client with
  | none => simp [asStep, hc]
  | some c =>
    simp only [asStep, hc] at h ⊢
    rw [C18_spec S e _ h, C18_no_id e _ h]
    simp [upd_self]

example : nonMutating (.gcv ⟨1⟩ ⟨2⟩) .gone = true ∧ nonMutating (.av ⟨1⟩ ⟨2⟩ ByteArray.empty ⟨3⟩ 0) (.avOk ⟨3⟩ .high) = false := by decide

end Tcs
