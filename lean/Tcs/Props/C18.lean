import Tcs.Props.C02
import Tcs.Props.C10
import Tcs.Proofs.NoWrite
namespace Tcs

/-! # C18 – reads and rejected writes leave stored state untouched -/

/-- the non-mutating outcomes: every read; a conflicting AddVersion; a declined AddSnapshot; any
    request answered no-such-client; a reopen -/
def nonMutating (e : Ev) (o : Out) : Bool :=
  match e, o with
  | .gcv .., _ => true
  | .gs .., _ => true
  | .reopen, _ => true
  | .av .., .avConflict _ => true
  | .avLib .., .avConflict _ => true
  | .avLib .., .noSuchClient => true
  | .as .., .asDone false => true
  | .as .., .noSuchClient => true
  | _, _ => false

/-- specification level, for EVERY record: a non-mutating outcome returns the record unchanged -/
theorem C18_spec (S : Sys) (e : Ev) (x : CSt) (h : nonMutating e (cstep S e x).1 = true) : (cstep S e x).2 = x := by
  rcases x with ⟨_ | cl, d, vs⟩
  · cases e <;> simp_all [nonMutating, cstep, cAddVersion, cCreate, cAddSnapshot]
  · cases e with
    | av c p seg newId now =>
      simp only [cstep, cCreate, cAddVersion] at h ⊢
      split at h <;> simp_all [nonMutating]
    | avLib c p seg newId now =>
      simp only [cstep, cAddVersion] at h ⊢
      split at h <;> simp_all [nonMutating]
    | create c => simp [nonMutating] at h
    | gcv c p => rfl
    | «as» c v dd now =>
      simp only [cstep, cAddSnapshot] at h ⊢
      split
      · rfl
      · split
        · simp_all [nonMutating]
        · rfl
    | gs c => rfl
    | reopen => rfl

/-- and no version id is added to the global id set -/
theorem C18_no_id (e : Ev) (o : Out) (h : nonMutating e o = true) : addedId e o = [] := by
  cases e <;> cases o <;> simp_all [nonMutating, addedId]

/-- On every backend, from every reachable state: after a non-mutating outcome the complete
    protocol-visible state — every client's versions, latest pointer, snapshot, snapshot bookkeeping,
    and the set of stored ids — is exactly what it was. -/
theorem C18_noop {σ} (I : Impl σ) (S : Sys) (hS : S.ensure = ensureClientFixed) (s : σ) (hg : Good I s) (e : Ev)
    (hf : ∀ n, e.drawn = some n → n ∉ (I.abs s).ids)
    (h : nonMutating e (asStep S e (I.abs s)).1 = true) :
    ∃ s', (e.req S).runC I.B I.mode s = ((asStep S e (I.abs s)).1, s', true) ∧ I.abs s' = I.abs s := by
  obtain ⟨s', h1, h2, _⟩ := req_good I S hS e s hg hf
  refine ⟨s', h1, ?_⟩
  rw [h2]
  cases hc : e.client with
  | none => simp [asStep, hc]
  | some c =>
    simp only [asStep, hc] at h ⊢
    rw [C18_spec S e _ h, C18_no_id e _ h]
    simp [upd_self]

/-- **Table level.** On any backend whose read calls are pure (both shipped backends: `readsPure_sql`,
    `readsPure_mem`), from ANY state – no invariant, no reachability –, a single-transaction request that completes
    with a non-mutating outcome leaves the backend's concrete state (the two SQL tables row for row, the four hash
    maps entry for entry) exactly as it was: such an outcome is only ever returned on a path that made no write call
    and no commit. (The HTTP AddVersion answers a conflict from its first transaction, which is the `avLib` case.) -/
theorem C18_tables {σ} (B : Backend σ) (hB : ReadsPure B) (mode : TxnMode) (S : Sys) (e : Ev) (s : σ)
    (he : match e with | .gcv .. | .gs .. | .as .. | .avLib .. => True | _ => False)
    (hok : ((e.req S).runC B mode s).2.2 = true)
    (h : nonMutating e ((e.req S).runC B mode s).1 = true) :
    ((e.req S).runC B mode s).2.1 = s := by
  have key : ∀ {α : Type} (c : Uuid) (body : TxnM (Except SrvErr α)) (f : α → Out) (P : Except SrvErr α → Prop),
      ReadOnlyUnless P body → ((one c body f).runC B mode s).2.2 = true →
      (∀ x, P x → nonMutating e (match x with | .ok a => f a | .error _ => .noSuchClient) = false) →
      nonMutating e ((one c body f).runC B mode s).1 = true → ((one c body f).runC B mode s).2.1 = s := by
    intro α c body f P hro hflag hP hnm
    unfold one at hflag hnm ⊢
    simp only [ReqM.runC] at hflag hnm ⊢
    generalize hr : body.run B mode c s = q at hflag hnm ⊢
    obtain ⟨r, s'⟩ := q
    simp only at hflag hnm ⊢
    cases r with
    | none => simp [ReqM.runC] at hflag
    | some x =>
      have hx : ¬ P x := by
        intro hpx
        have := hP x hpx
        cases x with
        | ok a => simp only [ReqM.runC] at hnm; rw [this] at hnm; cases hnm
        | error er => cases er; simp only [ReqM.runC] at hnm; rw [this] at hnm; cases hnm
      have := run_readOnly B hB mode c P body hro s s' x hr hx
      cases x with
      | ok a => simp only [ReqM.runC]; exact this
      | error er => cases er; simp only [ReqM.runC]; exact this
  cases e with
  | gcv c p => exact key c _ gcvOut _ (rou_getChildVersion p) hok (fun x hx => absurd hx id) h
  | gs c => exact key c _ gsOut _ rou_getSnapshot hok (fun x hx => absurd hx id) h
  | «as» c v d now =>
    refine key c _ .asDone _ (rou_addSnapshot S.params v d now) hok ?_ h
    intro x hx; subst hx; rfl
  | avLib c p seg n now =>
    refine key c _ avOut _ (rou_addVersion S.cfg p seg n now) hok ?_ h
    rintro x ⟨v, u, rfl⟩; rfl
  | av c p seg n now => exact absurd he id
  | create c => exact absurd he id
  | reopen => exact absurd he id

/-- the two shipped backends -/
theorem C18_tables_sql (S : Sys) (e : Ev) (s : Sql)
    (he : match e with | .gcv .. | .gs .. | .as .. | .avLib .. => True | _ => False)
    (hok : ((e.req S).runC SqlB .snapshotCommit s).2.2 = true)
    (h : nonMutating e ((e.req S).runC SqlB .snapshotCommit s).1 = true) :
    ((e.req S).runC SqlB .snapshotCommit s).2.1 = s := C18_tables SqlB readsPure_sql _ S e s he hok h

theorem C18_tables_mem (S : Sys) (e : Ev) (s : Mem)
    (he : match e with | .gcv .. | .gs .. | .as .. | .avLib .. => True | _ => False)
    (hok : ((e.req S).runC MemB .inPlace s).2.2 = true)
    (h : nonMutating e ((e.req S).runC MemB .inPlace s).1 = true) :
    ((e.req S).runC MemB .inPlace s).2.1 = s := C18_tables MemB readsPure_mem _ S e s he hok h

example : nonMutating (.gcv ⟨1⟩ ⟨2⟩) .gone = true ∧ nonMutating (.av ⟨1⟩ ⟨2⟩ ByteArray.empty ⟨3⟩ 0) (.avOk ⟨3⟩ .high) = false := by decide

end Tcs
