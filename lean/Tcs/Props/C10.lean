import Tcs.Proofs.Impl
namespace Tcs

/-! # C10 – AddSnapshot replaces the stored snapshot exactly for a recent, newer version -/

/-- the version id of the stored snapshot, if any -/
def curSnap (x : CSt) : Option Uuid := x.client.bind fun c => c.snap.map (·.vid)

/-- the client's chain from the latest backwards: `[latest, parent of latest, …, first id, base]` -/
def anc (x : CSt) : List Uuid := ancestors (baseOf x.versions) x.versions

/-! ### auxiliary facts -/

theorem curSnap_some (x : CSt) (c : Client) (hc : x.client = some c) : curSnap x = c.snap.map (·.vid) := by
  simp [curSnap, hc]

theorem curSnap_eq_some (x : CSt) (v : Uuid) (h : curSnap x = some v) :
    ∃ c sn, x.client = some c ∧ c.snap = some sn ∧ sn.vid = v := by
  rcases x with ⟨_ | c, d, vs⟩
  · simp [curSnap] at h
  · simp only [curSnap, Option.bind_some, Option.map_eq_some_iff] at h
    obtain ⟨sn, h1, h2⟩ := h
    exact ⟨c, sn, rfl, h1, h2⟩

theorem anc_nodup (x : CSt) (hx : CInv x) : (anc x).Nodup := by
  exact (List.reverse_perm _).nodup_iff.2 hx.nodup

theorem mem_anc (x : CSt) (v : Uuid) : v ∈ anc x ↔ v ∈ baseOf x.versions :: vids x.versions := by
  simp only [anc, ancestors, List.mem_reverse]

/-- only the base (the last entry of `anc`) can be nil -/
theorem anc_nonNil (x : CSt) (hx : CInv x) : ∀ i, i + 1 < (anc x).length → (anc x)[i]? ≠ some Uuid.nil := by
  intro i hi h
  have hl : anc x = (vids x.versions).reverse ++ [baseOf x.versions] := by
    simp [anc, ancestors]
  rw [hl] at hi h
  simp only [List.length_append, List.length_reverse, List.length_cons, List.length_nil] at hi
  rw [List.getElem?_append_left (by simpa using (by omega : i < (vids x.versions).length))] at h
  have hm : Uuid.nil ∈ (vids x.versions).reverse := List.mem_of_getElem? h
  exact hx.nonNil (List.mem_reverse.1 hm)

/-- in a duplicate-free list two positions holding the same element coincide -/
theorem nodup_getElem?_inj {α} {l : List α} (h : l.Nodup) {i j : Nat} {a : α}
    (hi : l[i]? = some a) (hj : l[j]? = some a) : i = j := by
  obtain ⟨hil, hia⟩ := List.getElem?_eq_some_iff.1 hi
  obtain ⟨hjl, hja⟩ := List.getElem?_eq_some_iff.1 hj
  exact (List.getElem_inj (h₀ := hil) (h₁ := hjl) h).1 (hia.trans hja.symm)

theorem idxOf_le_of_getElem? {l : List Uuid} {i : Nat} {a : Uuid} (h : l[i]? = some a) : l.idxOf a ≤ i := by
  induction l generalizing i with
  | nil => simp at h
  | cons x xs ih =>
    rw [List.idxOf_cons]
    by_cases hxa : x = a
    · simp [hxa]
    · cases i with
      | zero => simp at h; exact absurd h hxa
      | succ i =>
        have := ih (i := i) (by simpa using h)
        have hb : (x == a) = false := by simp [hxa]
        rw [hb, cond_false]; omega

theorem getElem?_idxOf_of_mem {l : List Uuid} {a : Uuid} (h : a ∈ l) : l[l.idxOf a]? = some a := by
  have hl := List.idxOf_lt_length_of_mem h
  rw [List.getElem?_eq_getElem hl, List.getElem_idxOf hl]

/-- the acceptance test of `cAddSnapshot`, as a scan over the ancestors -/
theorem cAddSnapshot_accept (P : Params) (x : CSt) (hx : CInv x) (c : Client) (hc : x.client = some c) (v : Uuid)
    (data : Bytes) (now : Int) :
    (cAddSnapshot P x v data now).1 = .asDone true ↔
      some v ≠ curSnap x ∧ scan v (curSnap x) P.searchLen (anc x) = true := by
  have hw := walkBack_eq_scan _ _ hx.wf v (curSnap x) P.searchLen
  rw [← hx.latest c hc] at hw
  rw [curSnap_some x c hc] at hw ⊢
  unfold cAddSnapshot
  simp only [hc]
  by_cases h1 : some v = c.snap.map (·.vid)
  · simp [h1]
  · simp only [h1, ↓reduceIte, hw, anc]
    cases scan v (Option.map (fun x => x.vid) c.snap) P.searchLen (ancestors (baseOf x.versions) x.versions) <;> simp [h1]

/-! ### the property -/

/-- C10 acceptance rule, for every record satisfying the invariant (i.e. every reachable record), window = `P.searchLen` -/
theorem C10_accept_iff (P : Params) (x : CSt) (hx : CInv x) (hc : x.client ≠ none) (v : Uuid) (data : Bytes) (now : Int) :
    (cAddSnapshot P x v data now).1 = .asDone true ↔
      v ≠ Uuid.nil ∧ some v ≠ curSnap x ∧
      ∃ i, i < P.searchLen ∧ (anc x)[i]? = some v ∧ ∀ j, j < i → ∀ u, (anc x)[j]? = some u → some u ≠ curSnap x := by
  obtain ⟨c, hc'⟩ := Option.ne_none_iff_exists'.1 hc
  rw [cAddSnapshot_accept P x hx c hc' v data now, scan_true_iff v (curSnap x) P.searchLen (anc x) (anc_nonNil x hx)]
  constructor
  · rintro ⟨h1, h2, i, hi, hget, hprev⟩
    exact ⟨h2, h1, i, hi, hget, fun j hj u hu => (hprev j hj u hu).2⟩
  · rintro ⟨h2, h1, i, hi, hget, hprev⟩
    refine ⟨h1, h2, i, hi, hget, fun j hj u hu => ⟨?_, hprev j hj u hu⟩⟩
    intro he
    subst he
    have := nodup_getElem?_inj (anc_nodup x hx) hu hget
    omega

/-- the stated window is five -/
theorem C10_window_five : ({} : Params).searchLen = 5 := rfl

/-- success either way: for a known client the answer is `asDone _`, never an error -/
theorem C10_told_success (P : Params) (x : CSt) (hc : x.client ≠ none) (v : Uuid) (data : Bytes) (now : Int) :
    ∃ b, (cAddSnapshot P x v data now).1 = .asDone b := by
  rcases x with ⟨_ | c, d, vs⟩
  · exact absurd rfl hc
  · simp only [cAddSnapshot]
    split
    · exact ⟨false, rfl⟩
    · split
      · exact ⟨true, rfl⟩
      · exact ⟨false, rfl⟩

/-- **whatever the window is** (as long as it is not empty): a snapshot at the client's latest version, while another
    version (or none) holds the snapshot, is accepted. This is the one case of acceptance the oracle of C11 decides
    without asking the implementation (`tools/oracles.py`, `o_c11`). -/
theorem C10_latest_accepted_any_window (P : Params) (hP : 1 ≤ P.searchLen) (x : CSt) (hx : CInv x) (hc : x.client ≠ none)
    (v : Uuid) (data : Bytes) (now : Int) (hlatest : (anc x)[0]? = some v) (hnil : v ≠ Uuid.nil) (hcur : some v ≠ curSnap x) :
    (cAddSnapshot P x v data now).1 = .asDone true := by
  rw [C10_accept_iff P x hx hc v data now]
  exact ⟨hnil, hcur, 0, by omega, hlatest, fun j hj => absurd hj (by omega)⟩

/-- **whatever the window is**: a snapshot at an id that is neither one of the client's own versions nor the parent its
    chain started from is declined. This is the one case of a decline the oracle of C18 decides without asking the
    implementation (`o_c18`: a version that another client was given). -/
theorem C10_off_chain_declined_any_window (P : Params) (x : CSt) (hx : CInv x) (hc : x.client ≠ none)
    (v : Uuid) (data : Bytes) (now : Int) (hoff : v ∉ baseOf x.versions :: vids x.versions) :
    (cAddSnapshot P x v data now).1 = .asDone false := by
  obtain ⟨b, hb⟩ := C10_told_success P x hc v data now
  cases b with
  | false => exact hb
  | true =>
    obtain ⟨_, _, i, _, hget, _⟩ := (C10_accept_iff P x hx hc v data now).1 hb
    exact absurd ((mem_anc x v).1 (List.mem_of_getElem? hget)) hoff

/-- effect: replaced ⇒ record becomes (v, now, 0) with the uploaded bytes, versions and latest untouched;
    declined ⇒ nothing changes -/
theorem C10_effect (P : Params) (x : CSt) (v : Uuid) (data : Bytes) (now : Int) :
    ((cAddSnapshot P x v data now).1 = .asDone true →
        ∃ c, x.client = some c ∧ (cAddSnapshot P x v data now).2 =
          { client := some { latest := c.latest, snap := some ⟨v, now, 0⟩ }, data := some data, versions := x.versions }) ∧
    ((cAddSnapshot P x v data now).1 ≠ .asDone true → (cAddSnapshot P x v data now).2 = x) := by
  rcases x with ⟨_ | c, d, vs⟩
  · simp [cAddSnapshot]
  · simp only [cAddSnapshot]
    split
    · simp
    · split
      · simp
      · simp

/-- the snapshot version is always on the chain (a stored version or the base) -/
theorem C10_on_chain (x : CSt) (hx : CInv x) (v : Uuid) (h : curSnap x = some v) : v ∈ anc x ∧ v ≠ Uuid.nil := by
  obtain ⟨c, sn, hc, hs, rfl⟩ := curSnap_eq_some x v h
  obtain ⟨_, h2, h3, _⟩ := hx.snapSome c sn hc hs
  exact ⟨(mem_anc x sn.vid).2 h2, h3⟩

/-- never backwards: on replacement the new snapshot version is strictly newer (closer to the latest) than the old one -/
theorem C10_moves_forward (P : Params) (x : CSt) (hx : CInv x) (v old : Uuid) (data : Bytes) (now : Int)
    (ho : curSnap x = some old) (h : (cAddSnapshot P x v data now).1 = .asDone true) :
    (anc x).idxOf v < (anc x).idxOf old := by
  obtain ⟨c, _, hc, _, _⟩ := curSnap_eq_some x old ho
  obtain ⟨_, hne, i, _, hget, hprev⟩ := (C10_accept_iff P x hx (by simp [hc]) v data now).1 h
  have hvi := idxOf_le_of_getElem? hget
  have hold := getElem?_idxOf_of_mem (C10_on_chain x hx old ho).1
  rcases Nat.lt_or_ge ((anc x).idxOf v) ((anc x).idxOf old) with hlt | hge
  · exact hlt
  · exfalso
    rcases Nat.lt_or_ge ((anc x).idxOf old) i with h1 | h1
    · exact hprev _ h1 old hold ho.symm
    · have : (anc x).idxOf old = i := by omega
      rw [this, hget] at hold
      exact hne (hold.trans ho.symm)

/-- adding versions never moves the snapshot version backwards either: its distance from the BASE is unchanged
    (ancestors grow at the head) -/
theorem C10_anc_grows (x : CSt) (v : Version) :
    anc { x with versions := x.versions ++ [v] } = v.id :: ancestors (baseOf (x.versions ++ [v])) x.versions := by
  simp only [anc, ancestors_append]

/-- concrete backends: the request completes without a storage error with the specification's answer and effect -/
theorem C10_on_backend {σ} (I : Impl σ) (S : Sys) (hS : S.ensure = ensureClientFixed) (s : σ) (hg : Good I s)
    (c v : Uuid) (data : Bytes) (now : Int) :
    ∃ s', ((Ev.as c v data now).req S).runC I.B I.mode s = ((cAddSnapshot S.params ((I.abs s).st c) v data now).1, s', true) ∧
      (I.abs s').st c = (cAddSnapshot S.params ((I.abs s).st c) v data now).2 ∧
      (∀ d, d ≠ c → (I.abs s').st d = (I.abs s).st d) ∧ (I.abs s').ids = (I.abs s).ids := by
  obtain ⟨s', h1, h2, _⟩ := req_good_nodraw I S hS (.as c v data now) s hg rfl
  refine ⟨s', ?_, ?_, ?_, ?_⟩
  · simpa [asStep, Ev.client, cstep] using h1
  · rw [h2]; simp [asStep, Ev.client, cstep]
  · intro d hd; rw [h2]; simp [asStep, Ev.client, upd, hd]
  · rw [h2]; simp [asStep, Ev.client, addedId]

/-! ### non-vacuity -/

/-- seven versions `1 ← 2 ← … ← 7` from the nil base; `anc = [7,6,5,4,3,2,1,nil]` -/
def c10Chain : List Version :=
  [⟨⟨1⟩, Uuid.nil, .empty⟩, ⟨⟨2⟩, ⟨1⟩, .empty⟩, ⟨⟨3⟩, ⟨2⟩, .empty⟩, ⟨⟨4⟩, ⟨3⟩, .empty⟩,
   ⟨⟨5⟩, ⟨4⟩, .empty⟩, ⟨⟨6⟩, ⟨5⟩, .empty⟩, ⟨⟨7⟩, ⟨6⟩, .empty⟩]

/-- no snapshot yet: the 5th most recent version (3) is accepted, the 6th (2) is declined, nil is declined -/
example : let x : CSt := { client := some ⟨⟨7⟩, none⟩, versions := c10Chain }
    (cAddSnapshot {} x ⟨3⟩ .empty 0).1 = .asDone true ∧ (cAddSnapshot {} x ⟨2⟩ .empty 0).1 = .asDone false ∧
    (cAddSnapshot {} x Uuid.nil .empty 0).1 = .asDone false ∧ (cAddSnapshot {} x ⟨7⟩ .empty 0).1 = .asDone true := by
  decide

/-- snapshot at 5: newer versions are accepted, 5 itself and older ones (behind it) are declined -/
example : let x : CSt := { client := some ⟨⟨7⟩, some ⟨⟨5⟩, 0, 2⟩⟩, data := some .empty, versions := c10Chain }
    (cAddSnapshot {} x ⟨6⟩ .empty 0).1 = .asDone true ∧ (cAddSnapshot {} x ⟨5⟩ .empty 0).1 = .asDone false ∧
    (cAddSnapshot {} x ⟨4⟩ .empty 0).1 = .asDone false ∧ (cAddSnapshot {} x ⟨3⟩ .empty 0).1 = .asDone false ∧
    curSnap (cAddSnapshot {} x ⟨6⟩ .empty 9).2 = some ⟨6⟩ ∧ anc x = [⟨7⟩, ⟨6⟩, ⟨5⟩, ⟨4⟩, ⟨3⟩, ⟨2⟩, ⟨1⟩, Uuid.nil] := by
  decide

/-- the unspecified corner: a non-nil base inside the window is accepted by the model -/
example : let x : CSt := { client := some ⟨⟨2⟩, none⟩, versions := [⟨⟨1⟩, ⟨9⟩, .empty⟩, ⟨⟨2⟩, ⟨1⟩, .empty⟩] }
    (cAddSnapshot {} x ⟨9⟩ .empty 0).1 = .asDone true := by
  decide

end Tcs
