import Tcs.Props.C03
import Tcs.Proofs.HttpProofs
namespace Tcs

/-! # C03 at the HTTP entry

The handlers are `serve h r`; by `serve_factor` a request that passes validation is the protocol
request `e.req` followed by the response encoding and the default header. Interleaving does not
look at responses, so the interleaved run of the handlers is, step for step, the interleaved run
of the protocol requests with every response encoded – and `C03_linearizable_partial` applies to
the latter. -/

variable {σ : Type}

def Th.mapResp {α β : Type} (f : α → β) : Th σ α → Th σ β
  | .idle p => .idle (p.map f)
  | .outside p => .outside (p.map f)
  | .inTxn cl st body k => .inTxn cl st body (fun r => (k r).map f)
  | .finished r => .finished (f r)

def Conc.mapResp {α β : Type} (f : α → β) (s : Conc σ α) : Conc σ β :=
  ⟨s.db, s.lock, s.threads.map (Th.mapResp f)⟩

theorem set_mapResp {α β : Type} (f : α → β) (l : List (Th σ α)) (t : Nat) (x : Th σ α) :
    (l.set t x).map (Th.mapResp f) = (l.map (Th.mapResp f)).set t (Th.mapResp f x) := by
  rw [List.map_set]

theorem stepSmall_mapResp {α β : Type} (B : Backend σ) (mode : TxnMode) (f : α → β) (s : Conc σ α) (t : Nat) :
    stepSmall B mode (s.mapResp f) t = (stepSmall B mode s t).map (Conc.mapResp f) := by
  unfold stepSmall Conc.mapResp
  simp only [List.getElem?_map]
  cases hth : s.threads[t]? with
  | none => rfl
  | some th =>
    simp only [Option.map_some]
    cases th with
    | idle p => simp [Th.mapResp, set_mapResp]
    | finished r => simp [Th.mapResp]
    | outside p =>
      cases p with
      | done r => simp [Th.mapResp, ReqM.map, set_mapResp]
      | txn cl body k =>
        simp only [Th.mapResp, ReqM.map]
        cases s.lock <;> simp [Th.mapResp, set_mapResp]
    | inTxn cl st body k =>
      cases body with
      | ret a => simp [Th.mapResp, set_mapResp]
      | call c k' =>
        simp only [Th.mapResp]
        cases stepCall B cl c st <;> simp [Th.mapResp, set_mapResp]

theorem runSmall_mapResp {α β : Type} (B : Backend σ) (mode : TxnMode) (f : α → β) (s : Conc σ α) (sch : List Nat) :
    runSmall B mode (s.mapResp f) sch = (runSmall B mode s sch).mapResp f := by
  induction sch generalizing s with
  | nil => rfl
  | cons t ts ih =>
    unfold runSmall
    rw [stepSmall_mapResp]
    cases stepSmall B mode s t with
    | none => exact ih s
    | some s' => exact ih s'

/-- **C03 through the HTTP handlers.** Requests that pass validation (`parseReq h r = .ev e`): the interleaved run of the
    HANDLERS under any schedule is the interleaved run of the protocol requests with each response encoded
    (`respond`) and given the default header – same database, same lock, thread by thread. So everything
    `C03_linearizable_partial` says about the protocol-level run holds of the handlers' run, response by response. -/
theorem C03_http_run (I : Impl σ) (h : HttpCfg) (rs : List Request) (evs : List Ev)
    (hparse : rs.map (parseReq h) = evs.map Parsed.ev) (s0 : σ) (sch : List Nat) :
    runSmall I.B I.mode ⟨s0, none, (rs.map (serve h)).map Th.idle⟩ sch =
      (runSmall I.B I.mode (cinit (sysOf h) evs s0) sch).mapResp (fun o => addCC (respond o)) := by
  rw [← runSmall_mapResp]
  congr 1
  unfold cinit Conc.mapResp
  simp only [List.map_map]
  congr 1
  -- thread by thread: serve h r = (e.req S).map (addCC ∘ respond)
  have hlen : rs.length = evs.length := by simpa using congrArg List.length hparse
  apply List.ext_getElem
  · simp [hlen]
  · intro i h1 h2
    simp only [List.length_map] at h1 h2
    simp only [List.getElem_map, Function.comp, Th.mapResp]
    have hp : parseReq h rs[i] = Parsed.ev evs[i] := by
      have := congrArg (fun l => l[i]?) hparse
      simpa [List.getElem?_map, List.getElem?_eq_getElem h1, List.getElem?_eq_getElem h2] using this
    rw [serve_factor, hp]

/-- in particular: the response a handler sends is `addCC (respond o)` for the outcome `o` of its protocol request in the
    protocol-level run (which is linearizable) -/
theorem C03_http_responses (I : Impl σ) (h : HttpCfg) (rs : List Request) (evs : List Ev)
    (hparse : rs.map (parseReq h) = evs.map Parsed.ev) (s0 : σ) (sch : List Nat) (t : Nat) (o : Out)
    (ho : (runSmall I.B I.mode (cinit (sysOf h) evs s0) sch).threads[t]? = some (Th.finished o)) :
    (runSmall I.B I.mode ⟨s0, none, (rs.map (serve h)).map Th.idle⟩ sch).threads[t]? = some (Th.finished (addCC (respond o))) := by
  rw [C03_http_run I h rs evs hparse s0 sch]
  simp [Conc.mapResp, List.getElem?_map, ho, Th.mapResp]


/-! ## the library entry

`Server::get_child_version`, `add_version`, `add_snapshot`, `get_snapshot` called directly are ONE transaction each
(`Ev.req` of `.gcv`, `.avLib`, `.as`, `.gs` is `one c body f`). `C03_reduction_prefix` turns every interleaving of such
calls into a run in which each transaction is a single step; the lemma below says that this single step IS the
whole request, executed sequentially on the database as it is at that moment. So for library calls the reduced run is
literally a one-at-a-time execution in the order of the transaction steps – strict linearizability, with no assumption
on ids and no F3 (which needs the three-transaction handler). -/

theorem C03_library_step {α : Type} (B : Backend σ) (mode : TxnMode) (c : Uuid) (body : TxnM (Except SrvErr α)) (f : α → Out)
    (a : Atomic σ Out) (t : Nat) (h : a.threads[t]? = some (.outside (one c body f))) :
    stepAtomic B mode a t =
      some { db := ((one c body f).runC B mode a.db).2.1,
             threads := a.threads.set t (.outside (.done ((one c body f).runC B mode a.db).1)) } := by
  unfold one at h ⊢
  rw [stepAtomic_txn B mode a t c body _ h]
  simp only [ReqM.runC]
  cases hr : (body.run B mode c a.db).1 with
  | none => simp [ReqM.runC]
  | some x =>
    cases x with
    | ok v => simp [ReqM.runC]
    | error e => cases e; simp [ReqM.runC]

end Tcs
