import Tcs.Proofs.Reduction
import Tcs.Proofs.LinImpl
import Tcs.Props.C01
import Tcs.Props.C14
namespace Tcs

/-! # C03 – concurrent requests for one client behave as if executed one at a time

The theorem is about the small-step interleaving semantics `runSmall` (`Model/Sem/Conc.lean`): any
number of requests, each the *program* of the HTTP handlers (`Ev.req`), interleaved by an arbitrary
schedule at the granularity of individual storage calls and transaction begin/end, on any backend
tied to the abstract storage (`Impl`: both shipped backends). The only thing assumed of the
environment is what `stepSmall` says: a transaction can begin only while no other is open.

Three layers: `C03_reduction_prefix` (interleaved ≡ transaction-atomic, prefix by prefix),
`runinv_run` (atomic programs on the backend ≡ the specification machine, given fresh ids),
`machine_linearizable` (the machine is linearizable modulo F3). -/

variable {σ : Type}

/-- the initial configuration: nobody invoked yet -/
def cinit (S : Sys) (evs : List Ev) (s0 : σ) : Conc σ Out := ⟨s0, none, (evs.map (·.req S)).map Th.idle⟩
def ainit (S : Sys) (evs : List Ev) (s0 : σ) : Atomic σ Out := ⟨s0, (evs.map (·.req S)).map Th.idle⟩

/-- "request `t` had been answered before request `u` was invoked" in the execution under schedule `sch` -/
def Precedes (I : Impl σ) (S : Sys) (evs : List Ev) (s0 : σ) (sch : List Nat) (t u : Nat) : Prop :=
  ∃ (p q : List Nat) (o : Out) (pr : ReqM Out), sch = p ++ q ∧
    (runSmall I.B I.mode (cinit S evs s0) p).threads[t]? = some (Th.finished o) ∧
    (runSmall I.B I.mode (cinit S evs s0) p).threads[u]? = some (Th.idle pr)

/-- Environment assumption 1: ids drawn by the server (`Uuid::new_v4`) are non-nil, pairwise different, not in use
    initially, and not among the drawing request's own arguments. -/
def DistinctIds (evs : List Ev) (seen0 : List Uuid) : Prop :=
  ∀ (t : Nat) (e : Ev) (n : Uuid), evs[t]? = some e → e.drawn = some n →
    n ≠ Uuid.nil ∧ n ∉ seen0 ∧ n ∉ e.argIds ∧ ∀ (u : Nat) (e' : Ev), u ≠ t → evs[u]? = some e' → e'.drawn ≠ some n

/-- Environment assumption 2 (causality): a request names an id drawn for another request only if that request had
    been answered before this one was invoked (clients learn ids from responses only). -/
def Causal (I : Impl σ) (S : Sys) (evs : List Ev) (s0 : σ) (sch : List Nat) : Prop :=
  ∀ (t u : Nat) (e e' : Ev) (n : Uuid), evs[t]? = some e → evs[u]? = some e' → e.drawn = some n → n ∈ e'.argIds →
    Precedes I S evs s0 sch t u

theorem red_thread {ρ : Type} (B : Backend σ) (s : Conc σ ρ) (a : Atomic σ ρ) (h : Red B s a) (t : Nat) (x : Th σ ρ)
    (hx : s.threads[t]? = some x) : ∃ y, a.threads[t]? = some y ∧ ThRel B s.db x y := by
  obtain ⟨ht, hget⟩ := List.getElem?_eq_some_iff.mp hx
  have hta : t < a.threads.length := h.len ▸ ht
  exact ⟨a.threads[t], List.getElem?_eq_getElem hta, hget ▸ h.rel t ht hta⟩

theorem cst_empty (x : CSt) (h1 : x.client = none) (h2 : x.versions = []) (h3 : x.data = none) : x = {} := by
  cases x; simp_all

theorem seqRun_asRunH (S : Sys) (evs : List Ev) (l : List Nat) (a : AS) (h : ∀ t ∈ l, t < evs.length) :
    (seqRun S evs l a).1 = (asRunH S (evsOf evs l) a).2 ∧ (seqRun S evs l a).2.map Prod.snd = (asRunH S (evsOf evs l) a).1 := by
  induction l generalizing a with
  | nil => exact ⟨rfl, rfl⟩
  | cons u us ih =>
    have hu : u < evs.length := h u (by simp)
    have he : evs[u]? = some evs[u] := List.getElem?_eq_getElem hu
    have hev : evsOf evs (u :: us) = evs[u] :: evsOf evs us := by simp [evsOf, he]
    obtain ⟨i1, i2⟩ := ih (asStep S evs[u] a).2 (fun t ht => h t (by simp [ht]))
    rw [hev]
    simp only [seqRun, he, asRunH, List.map_cons]
    exact ⟨i1, by rw [i2]⟩

theorem asStep_no_storageError (S : Sys) (e : Ev) (a : AS) : (asStep S e a).1 ≠ Out.storageError := by
  cases hc : e.client with
  | none => simp [asStep, hc]
  | some c =>
    simp only [asStep, hc]
    cases e with
    | av c' p seg n now => simp only [cstep, cAddVersion]; split <;> (try split) <;> simp
    | avLib c' p seg n now => simp only [cstep, cAddVersion]; split <;> (try split) <;> simp
    | create c' => simp [cstep]
    | gcv c' p => simp only [cstep, cGetChild]; split <;> (try split) <;> (try split) <;> simp
    | «as» c' v d now => simp only [cstep, cAddSnapshot]; split <;> (try split) <;> (try split) <;> simp
    | gs c' => simp only [cstep, cGetSnapshot]; split <;> (try split) <;> (try split) <;> simp
    | reopen => simp [Ev.client] at hc

theorem asRunH_no_storageError (S : Sys) (h : List Ev) (a : AS) : ∀ o ∈ (asRunH S h a).1, o ≠ Out.storageError := by
  induction h generalizing a with
  | nil => intro o ho; simp [asRunH] at ho
  | cons e es ih =>
    intro o ho
    simp only [asRunH, List.mem_cons] at ho
    rcases ho with rfl | ho
    · exact asStep_no_storageError S e a
    · exact ih _ o ho

/-- The common core of the two linearizability theorems below: request sets that are all-HTTP or all-library
    (`ReqMix`), responses related by `RespRel` (equal, or – only when an HTTP AddVersion is among the requests –
    indistinguishable for an HTTP client modulo F3). -/
theorem C03_linearizable_core (I : Impl σ) (S : Sys) (hS : S.ensure = ensureClientFixed) (evs : List Ev)
    (hmix : ReqMix evs) (s0 : σ) (seen0 : List Uuid)
    (hrep : I.Rep s0) (hinv : Inv (I.abs s0)) (hseen : Seen (I.abs s0) seen0)
    (sch : List Nat) (hdist : DistinctIds evs seen0) (hcausal : Causal I S evs s0 sch)
    (hfin : ∀ x ∈ (runSmall I.B I.mode (cinit S evs s0) sch).threads, ∃ o, x = Th.finished o) :
    ∃ order : List Nat, order.Perm (List.range evs.length) ∧
      (∀ t u, Precedes I S evs s0 sch t u → Before order t u) ∧
      Fresh (evsOf evs order) seen0 ∧
      ∃ s' outs, runHC I.B I.mode S (evsOf evs order) s0 = (outs, s', true) ∧
        (∀ c, (I.abs (runSmall I.B I.mode (cinit S evs s0) sch).db).st c = (I.abs s').st c) ∧
        (I.abs (runSmall I.B I.mode (cinit S evs s0) sch).db).ids = (I.abs s').ids ∧
        Good I s' ∧ (∀ o' ∈ outs, o' ≠ Out.storageError) ∧
        ∀ (i t : Nat), order[i]? = some t →
          ∃ o' e o, outs[i]? = some o' ∧ evs[t]? = some e ∧
            (runSmall I.B I.mode (cinit S evs s0) sch).threads[t]? = some (Th.finished o) ∧ RespRel evs e o o' := by
  -- layer 1: reduction, prefix by prefix
  obtain ⟨sched', _, hred, hpre⟩ := C03_reduction_prefix I.B I.mode (cinit S evs s0) (ainit S evs s0)
    (red_init I.B s0 (evs.map (·.req S))) sch
  -- precedence, transported to the atomic run
  have hprecA : ∀ t u, Precedes I S evs s0 sch t u → ∃ p' q' x y, sched' = p' ++ q' ∧
      (runAtomic I.B I.mode (ainit S evs s0) p').threads[t]? = some x ∧ x.isFinished = true ∧
      (runAtomic I.B I.mode (ainit S evs s0) p').threads[u]? = some y ∧ y.isIdle = true := by
    rintro t u ⟨p, q, o, pr, hpq, ht, hu⟩
    obtain ⟨p', q', hs', hr⟩ := hpre p q hpq
    obtain ⟨x, hx, hxr⟩ := red_thread I.B _ _ hr t _ ht
    obtain ⟨y, hy, hyr⟩ := red_thread I.B _ _ hr u _ hu
    refine ⟨p', q', x, y, hs', hx, ?_, hy, ?_⟩
    · cases hxr; rfl
    · cases hyr; rfl
  -- layer 2: the lock-step run against the machine
  let a0 := I.abs s0
  let m0 := minit a0 evs
  have hnc : ∀ c, (a0.st c).client = none → a0.st c = {} := by
    intro c hc
    obtain ⟨h1, h2⟩ := (hinv.each c).noClient hc
    exact cst_empty _ hc h1 h2
  have hri0 : RunInv I S evs a0 seen0 (ainit S evs s0) m0 := by
    refine ⟨⟨hrep, rfl, ?_, by simp [ainit], by simp [m0, minit]⟩, ⟨hinv, hseen, ?_⟩, linstate_init S evs a0 hnc, trivial⟩
    · intro t e he
      refine ⟨.idle (e.req S), .idle, ?_, ?_, .idle e⟩
      · simp [ainit, List.getElem?_map, he]
      · simp [m0, minit, List.getElem?_map, he]
    · intro t e c he _ hp
      simp [m0, minit, List.getElem?_map, he] at hp
  have hcb : ∀ s1 t s2, sched' = s1 ++ t :: s2 →
      RunInv I S evs a0 seen0 (runAtomic I.B I.mode (ainit S evs s0) s1) (mrun S evs m0 s1) →
      ∀ m' e, mstep S evs (mrun S evs m0 s1) t = some m' → m'.log = (mrun S evs m0 s1).log ++ [.lin t] → evs[t]? = some e →
        FreshEv e (seenAt seen0 evs (mrun S evs m0 s1)) := by
    intro s1 t s2 hs hri m' e hm hl he
    unfold FreshEv
    cases hd : e.drawn with
    | none => trivial
    | some n =>
      obtain ⟨h1, h2, h3, h4⟩ := hdist t e n he hd
      refine ⟨h1, ?_, h3⟩
      -- t has not been linearized yet, so it is not finished
      have hst := mstep_rel S evs _ m' t hm
      have htph : ∃ ph, (mrun S evs m0 s1).ph[t]? = some ph ∧ (ph = .ready ∨ ph = .retry) := by
        cases hst with
        | lin e' he' ph hp hph hn => exact ⟨ph, hp, hph⟩
        | invoke e' he' hp => exact absurd hl (by intro h; have := List.append_cancel_left h; simp at this)
        | respond e' he' o hp => exact absurd hl (by intro h; have := List.append_cancel_left h; simp at this)
        | toCreate e' he' ph hp hph hn => exact absurd hl (by intro h; have := congrArg List.length h; simp at this)
        | create e' he' hp => exact absurd hl (by intro h; have := congrArg List.length h; simp at this)
      obtain ⟨pht, hpt, hpht⟩ := htph
      intro hmem
      rw [seenAt, mem_seenFold] at hmem
      rcases hmem with hmem | ⟨e', he'mem, hmem⟩
      · exact h2 hmem
      · -- e' is the event of a thread u already linearized
        simp only [evsOf, List.mem_filterMap] at he'mem
        obtain ⟨u, hu, heu⟩ := he'mem
        have hlinu : Act.lin u ∈ (mrun S evs m0 s1).log := (mem_linOrder _ _).1 hu
        obtain ⟨ou, hou⟩ := (hri.lin.pl.lin u).1 hlinu
        have hut : u ≠ t := by
          intro h; subst h; rw [hpt] at hou
          rcases hpht with rfl | rfl <;> rcases hou with hou | hou <;> cases hou
        rcases hmem with hmem | hmem
        · -- n is an argument of e': then t had finished before u was invoked; impossible
          obtain ⟨p', q', x, y, hs', hx, hxf, hy, hyi⟩ := hprecA t u (hcausal t u e e' n he heu hd hmem)
          -- thread states at s1
          obtain ⟨xt, pt, hxt, hpt', hrt⟩ := hri.arel.th t e he
          obtain ⟨xu, pu, hxu, hpu, hru⟩ := hri.arel.th u e' heu
          rw [hpt] at hpt'; cases hpt'
          have hxt_nf : xt.isFinished = false := by
            rcases hpht with rfl | rfl <;> cases hrt <;> rfl
          have hxu_ni : xu.isIdle = false := by
            rcases hou with hou | hou <;> (rw [hou] at hpu; cases hpu; cases hru; rfl)
          have hsplit : s1 ++ (t :: s2) = p' ++ q' := by rw [← hs, hs']
          rcases List.append_eq_append_iff.mp hsplit with ⟨d, hd1, _⟩ | ⟨d, hd1, _⟩
          · -- p' = s1 ++ d : u not idle at s1, so not idle at p'
            rw [hd1, runAtomic_append] at hy
            obtain ⟨y', hy', hyi'⟩ := (runAtomic_mono I.B I.mode _ d u).1 xu hxu hxu_ni
            rw [hy] at hy'; cases hy'
            rw [hyi] at hyi'; cases hyi'
          · -- s1 = p' ++ d : t finished at p', so finished at s1
            rw [hd1, runAtomic_append] at hxt
            obtain ⟨x', hx', hxf'⟩ := (runAtomic_mono I.B I.mode _ d t).2 x hx hxf
            rw [hxt] at hx'; cases hx'
            rw [hxt_nf] at hxf'; cases hxf'
        · exact h4 u e' hut heu hmem
  have hriF := runinv_run I S hS evs hmix a0 seen0 sched' (ainit S evs s0) m0 hri0 hcb
  -- all threads of the machine are finished, with the responses of the interleaved run
  have hthread : ∀ (t : Nat) (e : Ev), evs[t]? = some e → ∃ o, (mrun S evs m0 sched').ph[t]? = some (Phase.finished o) ∧
      (runSmall I.B I.mode (cinit S evs s0) sch).threads[t]? = some (Th.finished o) := by
    intro t e he
    obtain ⟨x, ph, hx, hp, hr⟩ := hriF.arel.th t e he
    have htl : t < (runSmall I.B I.mode (cinit S evs s0) sch).threads.length := by
      rw [hred.len, hriF.arel.lenA]; exact (List.getElem?_eq_some_iff.mp he).1
    have hct := List.getElem?_eq_getElem htl
    obtain ⟨o, ho⟩ := hfin _ (List.getElem_mem htl)
    obtain ⟨y, hy, hyr⟩ := red_thread I.B _ _ hred t _ hct
    rw [ho] at hyr
    cases hyr
    rw [hx] at hy; cases hy
    cases hr
    exact ⟨o, hp, by rw [hct, ho]⟩
  have hmfin : allFinished (mrun S evs m0 sched') := by
    intro p hp
    obtain ⟨t, ht, hpt⟩ := List.getElem_of_mem hp
    have hte : t < evs.length := hriF.arel.lenM ▸ ht
    obtain ⟨o, ho, _⟩ := hthread t evs[t] (List.getElem?_eq_getElem hte)
    rw [List.getElem?_eq_getElem ht, hpt] at ho
    exact ⟨o, Option.some.inj ho⟩
  -- layer 3: the machine is linearizable
  obtain ⟨hperm, hrt, hst, hids, hfst, houts⟩ := machine_linearizable S evs hmix a0 hnc sched' hmfin
  have hfreshO : Fresh (evsOf evs (linOrder (mrun S evs m0 sched').log)) seen0 := hriF.fresh
  have hlt : ∀ t ∈ linOrder (mrun S evs m0 sched').log, t < evs.length := by
    intro t ht; exact List.mem_range.mp ((List.Perm.mem_iff hperm).mp ht)
  obtain ⟨q1, q2⟩ := seqRun_asRunH S evs _ a0 hlt
  obtain ⟨s', hs1, hs2, hgood'⟩ := hist_good I S hS _ s0 seen0 hrep hinv hseen hfreshO
  refine ⟨linOrder (mrun S evs m0 sched').log, hperm, ?_, hfreshO, s', _, hs1, ?_, ?_, hgood', asRunH_no_storageError S _ _, ?_⟩
  · -- real-time order
    intro t u hprec
    obtain ⟨p', q', x, y, hs', hx, hxf, hy, hyi⟩ := hprecA t u hprec
    have hriP := runinv_prefix I S hS evs hmix a0 seen0 sched' (ainit S evs s0) m0 hri0 hcb p' q' hs'
    have htl : t < evs.length := by
      rw [← hriP.arel.lenA]; exact (List.getElem?_eq_some_iff.mp hx).1
    have hul : u < evs.length := by
      rw [← hriP.arel.lenA]; exact (List.getElem?_eq_some_iff.mp hy).1
    have het := List.getElem?_eq_getElem htl
    have heu := List.getElem?_eq_getElem hul
    generalize evs[t] = et at het
    generalize evs[u] = eu at heu
    obtain ⟨x', pt, hx', hpt, hrt'⟩ := hriP.arel.th t et het
    obtain ⟨y', pu, hy', hpu, hru'⟩ := hriP.arel.th u eu heu
    rw [hx] at hx'; cases hx'
    rw [hy] at hy'; cases hy'
    have hpl2 := pl2_run S evs a0 p'
    have hresp : Act.respond t ∈ (mrun S evs m0 p').log := by
      cases hrt' with
      | finished e o => exact hpl2.fin t o hpt
      | _ => simp [Th.isFinished] at hxf
    have hninv : Act.invoke u ∉ (mrun S evs m0 p').log := by
      cases hru' with
      | idle e => exact hpl2.idle u hpu
      | _ => simp [Th.isIdle] at hyi
    obtain ⟨suf, hsuf⟩ := mrun_log S evs (mrun S evs m0 p') q'
    have hfinal : (mrun S evs m0 sched').log = (mrun S evs m0 p').log ++ suf := by
      rw [hs', mrun_append]; exact hsuf
    obtain ⟨ou, hou, _⟩ := hthread u eu heu
    have hinvF : Act.invoke u ∈ (mrun S evs m0 sched').log :=
      (pl2_run S evs a0 sched').inv u _ hou (by simp)
    rw [hfinal, List.mem_append] at hinvF
    have hinS : Act.invoke u ∈ suf := by
      rcases hinvF with h | h
      · exact absurd h hninv
      · exact h
    apply hrt t u
    show Before (mrun S evs m0 sched').log _ _
    rw [hfinal]
    exact before_of_mem_append _ _ _ _ hresp hinS
  · intro c
    rw [hred.db, hs2, ← q1]
    show (I.abs (runAtomic I.B I.mode (ainit S evs s0) sched').db).st c = _
    rw [hriF.arel.abs]
    exact hst c
  · rw [hred.db, hs2, ← q1]
    show (I.abs (runAtomic I.B I.mode (ainit S evs s0) sched').db).ids = _
    rw [hriF.arel.abs]
    exact hids
  · intro i t hi
    rw [← hfst, List.getElem?_map] at hi
    cases hL : (seqRun S evs (linOrder (mrun S evs m0 sched').log) a0).2[i]? with
    | none => rw [hL] at hi; cases hi
    | some pr =>
      rw [hL] at hi
      simp only [Option.map_some, Option.some.injEq] at hi
      have hmem : (t, pr.2) ∈ (seqRun S evs (linOrder (mrun S evs m0 sched').log) a0).2 := by
        have := List.mem_of_getElem? hL
        rw [← hi]; exact this
      obtain ⟨e, o, he, hph, hresp⟩ := houts t pr.2 hmem
      obtain ⟨o2, ho2, hc2⟩ := hthread t e he
      have : o2 = o := by
        have h1 : (mrun S evs m0 sched').ph[t]? = some (Phase.finished o) := hph
        rw [ho2] at h1; cases h1; rfl
      subst this
      refine ⟨pr.2, e, o2, ?_, he, hc2, hresp⟩
      rw [← q2, List.getElem?_map, hL]; rfl


/-- **C03 (partial: modulo F3; the storage lock is the environment's).** For every backend tied to the abstract
    storage, every state reachable without faults (`Rep`, `Inv`), every finite set of HTTP-level requests (any mix of
    AddVersion / GetChildVersion / AddSnapshot / GetSnapshot, new and existing clients) and every schedule at
    storage-call granularity under which all requests complete: there is an order of the requests, a permutation
    respecting real-time precedence, whose one-at-a-time execution on the same backend meets no storage error, ends
    in the same protocol-visible state, and gives every request a response that an HTTP client cannot tell from the
    one it got – except that an AddSnapshot may have been answered 200 where the one-at-a-time run says 404 (F3). -/
theorem C03_linearizable_partial (I : Impl σ) (S : Sys) (hS : S.ensure = ensureClientFixed) (evs : List Ev)
    (hhttp : ∀ e ∈ evs, e.isHttp = true) (s0 : σ) (seen0 : List Uuid)
    (hrep : I.Rep s0) (hinv : Inv (I.abs s0)) (hseen : Seen (I.abs s0) seen0)
    (sch : List Nat) (hdist : DistinctIds evs seen0) (hcausal : Causal I S evs s0 sch)
    (hfin : ∀ x ∈ (runSmall I.B I.mode (cinit S evs s0) sch).threads, ∃ o, x = Th.finished o) :
    ∃ order : List Nat, order.Perm (List.range evs.length) ∧
      (∀ t u, Precedes I S evs s0 sch t u → Before order t u) ∧
      Fresh (evsOf evs order) seen0 ∧
      ∃ s' outs, runHC I.B I.mode S (evsOf evs order) s0 = (outs, s', true) ∧
        (∀ c, (I.abs (runSmall I.B I.mode (cinit S evs s0) sch).db).st c = (I.abs s').st c) ∧
        (I.abs (runSmall I.B I.mode (cinit S evs s0) sch).db).ids = (I.abs s').ids ∧
        Good I s' ∧ (∀ o' ∈ outs, o' ≠ Out.storageError) ∧
        ∀ (i t : Nat), order[i]? = some t →
          ∃ o' e o, outs[i]? = some o' ∧ evs[t]? = some e ∧
            (runSmall I.B I.mode (cinit S evs s0) sch).threads[t]? = some (Th.finished o) ∧ sameRespF3 e o o' := by
  obtain ⟨order, h1, h2, h3, s', outs, h4, h5, h6, hg, h7, h8⟩ :=
    C03_linearizable_core I S hS evs (.inl hhttp) s0 seen0 hrep hinv hseen sch hdist hcausal hfin
  refine ⟨order, h1, h2, h3, s', outs, h4, h5, h6, hg, h7, ?_⟩
  intro i t hi
  obtain ⟨o', e, o, q1, q2, q3, q4⟩ := h8 i t hi
  exact ⟨o', e, o, q1, q2, q3, q4.weaken⟩

/-- **C03 through the library interface (strict: no relaxation).** When the requests are `Server::add_version`,
    `get_child_version`, `add_snapshot`, `get_snapshot` called directly – each one transaction, no client creation –
    every request gets *exactly* the response of the one-at-a-time execution, and the final protocol-visible state
    is that execution's. (F3 needs the HTTP AddVersion's separate creation transaction; without it there is nothing
    to relax.) -/
theorem C03_library_linearizable (I : Impl σ) (S : Sys) (hS : S.ensure = ensureClientFixed) (evs : List Ev)
    (hlib : ∀ e ∈ evs, e.isLib = true) (s0 : σ) (seen0 : List Uuid)
    (hrep : I.Rep s0) (hinv : Inv (I.abs s0)) (hseen : Seen (I.abs s0) seen0)
    (sch : List Nat) (hdist : DistinctIds evs seen0) (hcausal : Causal I S evs s0 sch)
    (hfin : ∀ x ∈ (runSmall I.B I.mode (cinit S evs s0) sch).threads, ∃ o, x = Th.finished o) :
    ∃ order : List Nat, order.Perm (List.range evs.length) ∧
      (∀ t u, Precedes I S evs s0 sch t u → Before order t u) ∧
      Fresh (evsOf evs order) seen0 ∧
      ∃ s' outs, runHC I.B I.mode S (evsOf evs order) s0 = (outs, s', true) ∧
        (∀ c, (I.abs (runSmall I.B I.mode (cinit S evs s0) sch).db).st c = (I.abs s').st c) ∧
        (I.abs (runSmall I.B I.mode (cinit S evs s0) sch).db).ids = (I.abs s').ids ∧
        Good I s' ∧ (∀ o' ∈ outs, o' ≠ Out.storageError) ∧
        ∀ (i t : Nat), order[i]? = some t →
          ∃ o, outs[i]? = some o ∧ (runSmall I.B I.mode (cinit S evs s0) sch).threads[t]? = some (Th.finished o) := by
  obtain ⟨order, h1, h2, h3, s', outs, h4, h5, h6, hg, h7, h8⟩ :=
    C03_linearizable_core I S hS evs (.inr hlib) s0 seen0 hrep hinv hseen sch hdist hcausal hfin
  refine ⟨order, h1, h2, h3, s', outs, h4, h5, h6, hg, h7, ?_⟩
  intro i t hi
  obtain ⟨o', e, o, q1, q2, q3, q4⟩ := h8 i t hi
  rcases q4 with rfl | ⟨⟨e', he', hav⟩, _⟩
  · exact ⟨o, q1, q3⟩
  · have := hlib e' he'
    cases e' <;> simp [Ev.isAv, Ev.isLib] at hav this

/-! ## from the empty database, for the two shipped backends; the "in particular" clauses -/

theorem respond_status_500 (o : Out) : (respond o).status = 500 ↔ o = Out.storageError := by
  cases o <;> simp [respond, refuse, Refusal.status]

/-- the one-at-a-time run is an ordinary fresh sequential history from the empty database: everything proved about
    sequential histories (C01, C02, C07 – C13, C18) applies to it -/
theorem C03_from_init (I : Impl σ) (S : Sys) (hS : S.ensure = ensureClientFixed) (evs : List Ev)
    (hhttp : ∀ e ∈ evs, e.isHttp = true) (sch : List Nat) (hdist : DistinctIds evs []) (hcausal : Causal I S evs I.init sch)
    (hfin : ∀ x ∈ (runSmall I.B I.mode (cinit S evs I.init) sch).threads, ∃ o, x = Th.finished o) :
    ∃ order : List Nat, order.Perm (List.range evs.length) ∧
      (∀ t u, Precedes I S evs I.init sch t u → Before order t u) ∧
      Fresh (evsOf evs order) [] ∧
      (∀ c, (I.abs (runSmall I.B I.mode (cinit S evs I.init) sch).db).st c =
        (I.abs (runH I.B I.mode S (evsOf evs order) I.init).2).st c) ∧
      (runHC I.B I.mode S (evsOf evs order) I.init).2.2 = true ∧
      ∀ (i t : Nat), order[i]? = some t →
        ∃ o' e o, (runH I.B I.mode S (evsOf evs order) I.init).1[i]? = some o' ∧ o' ≠ Out.storageError ∧ evs[t]? = some e ∧
          (runSmall I.B I.mode (cinit S evs I.init) sch).threads[t]? = some (Th.finished o) ∧ sameRespF3 e o o' := by
  obtain ⟨order, h1, h2, h3, s', outs, h4, h5, _, _, h7, h8⟩ :=
    C03_linearizable_partial I S hS evs hhttp I.init [] I.rep_init (by rw [I.abs_init]; exact inv_init)
      (by rw [I.abs_init]; exact seen_init []) sch hdist hcausal hfin
  have hrun : runH I.B I.mode S (evsOf evs order) I.init = (outs, s') := by unfold runH; rw [h4]
  refine ⟨order, h1, h2, h3, ?_, by rw [h4], ?_⟩
  · intro c; rw [hrun]; exact h5 c
  · intro i t hi
    obtain ⟨o', e, o, q1, q2, q3, q4⟩ := h8 i t hi
    exact ⟨o', e, o, by rw [hrun]; exact q1, h7 o' (List.mem_of_getElem? q1), q2, q3, q4⟩

/-- no request is answered with a server error merely because another request overlapped it -/
theorem C03_no_overlap_5xx (I : Impl σ) (S : Sys) (hS : S.ensure = ensureClientFixed) (evs : List Ev)
    (hhttp : ∀ e ∈ evs, e.isHttp = true) (s0 : σ) (seen0 : List Uuid)
    (hrep : I.Rep s0) (hinv : Inv (I.abs s0)) (hseen : Seen (I.abs s0) seen0)
    (sch : List Nat) (hdist : DistinctIds evs seen0) (hcausal : Causal I S evs s0 sch)
    (hfin : ∀ x ∈ (runSmall I.B I.mode (cinit S evs s0) sch).threads, ∃ o, x = Th.finished o)
    (t : Nat) (ht : t < evs.length) :
    ∃ o, (runSmall I.B I.mode (cinit S evs s0) sch).threads[t]? = some (Th.finished o) ∧ (respond o).status ≠ 500 := by
  obtain ⟨order, h1, _, _, s', outs, _, _, _, _, h7, h8⟩ :=
    C03_linearizable_partial I S hS evs hhttp s0 seen0 hrep hinv hseen sch hdist hcausal hfin
  have hmem : t ∈ order := (List.Perm.mem_iff h1).mpr (List.mem_range.mpr ht)
  obtain ⟨i, hi⟩ := List.mem_iff_getElem?.mp hmem
  obtain ⟨o', e, o, q1, q2, q3, q4⟩ := h8 i t hi
  refine ⟨o, q3, ?_⟩
  have ho' := h7 o' (List.mem_of_getElem? q1)
  rcases q4 with hq | ⟨_, rfl, _⟩
  · intro h500
    have : (respond o').status = 500 := by rw [← hq]; exact h500
    exact ho' ((respond_status_500 o').1 this)
  · simp [respond]

theorem mem_accepted (c : Uuid) (h : List Ev) (outs : List Out) (i : Nat) (e : Ev) (o : Out) (v : Version)
    (he : h[i]? = some e) (ho : outs[i]? = some o) (hc : e.client = some c) (hv : v ∈ appended e o) :
    v ∈ accepted c h outs := by
  induction h generalizing i outs with
  | nil => simp at he
  | cons x xs ih =>
    cases outs with
    | nil => simp at ho
    | cons y ys =>
      cases i with
      | zero =>
        simp only [List.getElem?_cons_zero, Option.some.injEq] at he ho
        subst he; subst ho
        simp [accepted, hc, hv]
      | succ j =>
        simp only [List.getElem?_cons_succ] at he ho
        simp only [accepted, List.mem_append]
        exact .inr (ih ys j he ho)

theorem evsOf_getElem (evs : List Ev) (order : List Nat) (hlt : ∀ x ∈ order, x < evs.length) (i t : Nat)
    (hi : order[i]? = some t) : (evsOf evs order)[i]? = evs[t]? := by
  induction order generalizing i with
  | nil => simp at hi
  | cons x xs ih =>
    have hx : x < evs.length := hlt x (by simp)
    have hxe : evs[x]? = some evs[x] := List.getElem?_eq_getElem hx
    have hcons : evsOf evs (x :: xs) = evs[x] :: evsOf evs xs := by simp [evsOf, hxe]
    rw [hcons]
    cases i with
    | zero =>
      simp only [List.getElem?_cons_zero, Option.some.injEq] at hi
      subst hi
      simp only [List.getElem?_cons_zero, hxe]
    | succ j =>
      simp only [List.getElem?_cons_succ] at hi ⊢
      exact ih (fun y hy => hlt y (by simp [hy])) j hi

theorem asRunH_out_drawn (S : Sys) (h : List Ev) (a : AS) (i : Nat) (e : Ev) (v : Uuid) (u : Urgency)
    (he : h[i]? = some e) (ho : (asRunH S h a).1[i]? = some (.avOk v u)) : e.drawn = some v := by
  induction h generalizing a i with
  | nil => simp at he
  | cons x xs ih =>
    cases i with
    | zero =>
      simp only [List.getElem?_cons_zero, Option.some.injEq, asRunH] at he ho
      subst he
      cases hc : x.client with
      | none => simp [asStep, hc] at ho
      | some c => rw [asStep_out S x a c hc] at ho; exact avOk_id S x _ v u ho
    | succ j =>
      simp only [List.getElem?_cons_succ, asRunH] at he ho
      exact ih _ j he ho

/-- two overlapping AddVersion requests are never both accepted on the same parent -/
theorem C03_no_double_accept (I : Impl σ) (S : Sys) (hS : S.ensure = ensureClientFixed) (evs : List Ev)
    (hhttp : ∀ e ∈ evs, e.isHttp = true) (sch : List Nat) (hdist : DistinctIds evs []) (hcausal : Causal I S evs I.init sch)
    (hfin : ∀ x ∈ (runSmall I.B I.mode (cinit S evs I.init) sch).threads, ∃ o, x = Th.finished o)
    (t u : Nat) (htu : t ≠ u) (c p : Uuid) (seg1 seg2 : Bytes) (n1 n2 : Uuid) (now1 now2 : Int)
    (het : evs[t]? = some (.av c p seg1 n1 now1)) (heu : evs[u]? = some (.av c p seg2 n2 now2))
    (v1 v2 : Uuid) (u1 u2 : Urgency)
    (hrt : (runSmall I.B I.mode (cinit S evs I.init) sch).threads[t]? = some (Th.finished (.avOk v1 u1)))
    (hru : (runSmall I.B I.mode (cinit S evs I.init) sch).threads[u]? = some (Th.finished (.avOk v2 u2))) : False := by
  obtain ⟨order, h1, _, h3, _, _, h8⟩ := C03_from_init I S hS evs hhttp sch hdist hcausal hfin
  have hlt : ∀ x ∈ order, x < evs.length := fun x hx => List.mem_range.mp ((List.Perm.mem_iff h1).mp hx)
  have houts := (hist_accepted I S hS (evsOf evs order) h3).2.1
  have key : ∀ (t : Nat) (seg : Bytes) (n : Uuid) (now : Int) (v : Uuid) (ur : Urgency),
      evs[t]? = some (.av c p seg n now) →
      (runSmall I.B I.mode (cinit S evs I.init) sch).threads[t]? = some (Th.finished (.avOk v ur)) →
      n = v ∧ (⟨v, p, seg⟩ : Version) ∈ accepted c (evsOf evs order) (runH I.B I.mode S (evsOf evs order) I.init).1 := by
    intro t seg n now v ur he hr
    have ht : t < evs.length := (List.getElem?_eq_some_iff.mp he).1
    have hmem : t ∈ order := (List.Perm.mem_iff h1).mpr (List.mem_range.mpr ht)
    obtain ⟨i, hi⟩ := List.mem_iff_getElem?.mp hmem
    obtain ⟨o', e, o, q1, _, q2, q3, q4⟩ := h8 i t hi
    rw [he] at q2; cases q2
    rw [hr] at q3; cases q3
    have ho' : o' = .avOk v ur := by
      rcases q4 with hq | ⟨hf, _, _⟩
      · have := C14_respond_injective _ _ hq
        cases o' <;> simp [expectedDecode] at this
        obtain ⟨rfl, rfl⟩ := this; rfl
      · exact absurd hf (by simp)
    subst ho'
    have hev : (evsOf evs order)[i]? = some (.av c p seg n now) := by rw [evsOf_getElem evs order hlt i t hi, he]
    refine ⟨?_, mem_accepted c _ _ i _ _ _ hev q1 rfl (by simp [appended])⟩
    have q1' := q1
    rw [houts] at q1'
    have := asRunH_out_drawn S _ _ i _ v ur hev q1'
    simpa [Ev.drawn] using this
  obtain ⟨e1, m1⟩ := key t seg1 n1 now1 v1 u1 het hrt
  obtain ⟨e2, m2⟩ := key u seg2 n2 now2 v2 u2 heu hru
  have heq := C01_no_shared_parent I S hS (evsOf evs order) h3 c _ _ m1 m2 rfl
  have hv : v1 = v2 := by injection heq
  have := (hdist t _ n1 het rfl).2.2.2 u _ (Ne.symm htu) heu
  apply this
  simp only [Ev.drawn]
  rw [e1, hv, ← e2]


/-! ## non-vacuity, and the F3 witness -/

namespace C03Ex
def S : Sys := { cfg := ⟨14, 100⟩ }
/-- X = a first AddVersion for a never-seen client, B = an AddSnapshot, Y = another first AddVersion -/
def evs : List Ev :=
  [ .av ⟨1⟩ Uuid.nil ⟨#[1]⟩ ⟨10⟩ 0, .as ⟨1⟩ ⟨77⟩ ⟨#[7]⟩ 0, .av ⟨1⟩ Uuid.nil ⟨#[2]⟩ ⟨11⟩ 0 ]
/-- X runs its first two transactions (no such client; create) and stalls; B runs completely; only then Y is
    invoked and runs completely; X resumes -/
def sch : List Nat := List.replicate 9 0 ++ List.replicate 12 1 ++ List.replicate 20 2 ++ List.replicate 12 0

def observed : List (Option Out) := (runSmall sqlImpl.B sqlImpl.mode (cinit S evs sqlImpl.init) sch).threads.map Th.resp

/-- what the SQLite model answers under that schedule: X 409, B **200**, Y 200 -/
example : observed = [some (.avConflict ⟨11⟩), some (.asDone false), some (.avOk ⟨11⟩ .high)] := by decide

/-- B had been answered before Y was invoked -/
example : Precedes sqlImpl S evs sqlImpl.init sch 1 2 :=
  ⟨List.replicate 9 0 ++ List.replicate 12 1, List.replicate 20 2 ++ List.replicate 12 0, .asDone false, evs[2].req S,
    by simp [sch], by rfl, by rfl⟩

theorem evs_cases (t : Nat) (e : Ev) (h : evs[t]? = some e) :
    (t = 0 ∧ e = evs[0]) ∨ (t = 1 ∧ e = evs[1]) ∨ (t = 2 ∧ e = evs[2]) := by
  match t, h with
  | 0, h => simp [evs] at h ⊢; exact h.symm
  | 1, h => simp [evs] at h ⊢; exact h.symm
  | 2, h => simp [evs] at h ⊢; exact h.symm
  | (k+3), h => simp [evs] at h

/-- the hypotheses of `C03_from_init` are satisfiable: this execution meets all of them -/
example : (∀ e ∈ evs, e.isHttp = true) ∧ DistinctIds evs [] ∧ Causal sqlImpl S evs sqlImpl.init sch ∧
    (∀ x ∈ (runSmall sqlImpl.B sqlImpl.mode (cinit S evs sqlImpl.init) sch).threads, ∃ o, x = Th.finished o) := by
  refine ⟨by decide, ?_, ?_, ?_⟩
  · intro t e n he hd
    rcases evs_cases t e he with ⟨rfl, rfl⟩ | ⟨rfl, rfl⟩ | ⟨rfl, rfl⟩ <;> simp [evs, Ev.drawn] at hd <;> subst hd <;>
    · refine ⟨by decide, by simp, by decide, ?_⟩
      intro u e' hu he'
      rcases evs_cases u e' he' with ⟨rfl, rfl⟩ | ⟨rfl, rfl⟩ | ⟨rfl, rfl⟩ <;> first | exact absurd rfl hu | decide
  · intro t u e e' n he he' hd hn
    exfalso
    rcases evs_cases t e he with ⟨rfl, rfl⟩ | ⟨rfl, rfl⟩ | ⟨rfl, rfl⟩ <;> simp [evs, Ev.drawn] at hd <;> subst hd <;>
    · rcases evs_cases u e' he' with ⟨rfl, rfl⟩ | ⟨rfl, rfl⟩ | ⟨rfl, rfl⟩ <;> revert hn <;> decide
  · have h : (runSmall sqlImpl.B sqlImpl.mode (cinit S evs sqlImpl.init) sch).threads.map Th.resp =
        [some (.avConflict ⟨11⟩), some (.asDone false), some (.avOk ⟨11⟩ .high)] := by decide
    intro x hx
    obtain ⟨i, hi, rfl⟩ := List.getElem_of_mem hx
    have hi' : ((runSmall sqlImpl.B sqlImpl.mode (cinit S evs sqlImpl.init) sch).threads.map Th.resp)[i]? =
        some (Th.resp (runSmall sqlImpl.B sqlImpl.mode (cinit S evs sqlImpl.init) sch).threads[i]) := by
      simp [hi]
    rw [h] at hi'
    generalize (runSmall sqlImpl.B sqlImpl.mode (cinit S evs sqlImpl.init) sch).threads[i] = th at hi'
    have hsome : ∃ o, Th.resp th = some o := by
      match i, hi' with
      | 0, h0 => exact ⟨_, (Option.some.inj h0).symm⟩
      | 1, h0 => exact ⟨_, (Option.some.inj h0).symm⟩
      | 2, h0 => exact ⟨_, (Option.some.inj h0).symm⟩
      | (k+3), h0 => simp at h0
    obtain ⟨o, ho⟩ := hsome
    cases th <;> simp [Th.resp] at ho
    exact ⟨o, by rw [ho]⟩

/-- responses of the one-at-a-time run of the requests in a given order, as an HTTP client sees them -/
def seqResponses (order : List Nat) : List Response :=
  (runH sqlImpl.B sqlImpl.mode S (evsOf evs order) sqlImpl.init).1.map respond
def observedIn (order : List Nat) : List Response :=
  order.filterMap fun t => ((observed[t]?).bind id).map respond

/-- **F3, as a theorem about the model.** The three orders below are all the permutations of the three requests in
    which B (1) comes before Y (2), as real time demands. None of them gives the requests the responses they got:
    B is answered 200 only if X went first, but then X is accepted and Y conflicts. So the strict reading of C03 is
    false of this execution; `C03_linearizable_partial` shows that the relaxation `sameRespF3` is all it takes. -/
theorem C03_relaxation_needed :
    ∀ order ∈ [[0, 1, 2], [1, 0, 2], [1, 2, 0]], seqResponses order ≠ observedIn order := by decide

end C03Ex

/-! ## non-vacuity of the library-level theorem -/

namespace C03LibEx
open C03Ex (S)

/-- the state after the client has been created (by an earlier, completed request) -/
def s1 := (runHC sqlImpl.B sqlImpl.mode S [.create ⟨1⟩] sqlImpl.init).2.1

/-- two library AddVersions on the same parent and a GetChildVersion, all overlapping -/
def evs : List Ev :=
  [ .avLib ⟨1⟩ Uuid.nil ⟨#[1]⟩ ⟨10⟩ 0, .avLib ⟨1⟩ Uuid.nil ⟨#[2]⟩ ⟨11⟩ 0, .gcv ⟨1⟩ Uuid.nil ]
/-- round-robin at storage-call granularity -/
def sch : List Nat := (List.replicate 14 [0, 1, 2]).flatten

def observed : List (Option Out) := (runSmall sqlImpl.B sqlImpl.mode (cinit S evs s1) sch).threads.map Th.resp

/-- one accepted, the other refused with the accepted id, the reader sees the accepted version -/
example : observed = [some (.avOk ⟨10⟩ .high), some (.avConflict ⟨10⟩), some (.found ⟨⟨10⟩, Uuid.nil, ⟨#[1]⟩⟩)] := by decide

theorem evs_cases (t : Nat) (e : Ev) (h : evs[t]? = some e) :
    (t = 0 ∧ e = evs[0]) ∨ (t = 1 ∧ e = evs[1]) ∨ (t = 2 ∧ e = evs[2]) := by
  match t, h with
  | 0, h => simp [evs] at h ⊢; exact h.symm
  | 1, h => simp [evs] at h ⊢; exact h.symm
  | 2, h => simp [evs] at h ⊢; exact h.symm
  | (k+3), h => simp [evs] at h

theorem s1_good : sqlImpl.Rep s1 ∧ Inv (sqlImpl.abs s1) ∧ Seen (sqlImpl.abs s1) [] := by
  obtain ⟨s', h1, h2, hg⟩ := hist_init sqlImpl S rfl [.create ⟨1⟩] (by simp [Fresh, FreshEv, Ev.drawn])
  have hs : s' = s1 := by unfold s1; rw [h1]
  subst hs
  refine ⟨hg.rep, hg.inv, ?_⟩
  rw [h2]
  refine ⟨?_, ?_⟩
  · intro i hi; simp [asRunH, asStep, Ev.client, cstep, addedId] at hi
  · intro c hc
    exfalso; apply hc
    simp only [asRunH, asStep, Ev.client, cstep]
    by_cases h : c = ⟨1⟩
    · subst h; simp [upd_same, cCreate]
    · simp [upd_other _ _ _ _ h]

/-- the hypotheses of `C03_library_linearizable` are satisfiable: this execution meets all of them -/
example : (∀ e ∈ evs, e.isLib = true) ∧ sqlImpl.Rep s1 ∧ Inv (sqlImpl.abs s1) ∧ Seen (sqlImpl.abs s1) [] ∧
    DistinctIds evs [] ∧ Causal sqlImpl S evs s1 sch ∧
    (∀ x ∈ (runSmall sqlImpl.B sqlImpl.mode (cinit S evs s1) sch).threads, ∃ o, x = Th.finished o) := by
  refine ⟨by decide, s1_good.1, s1_good.2.1, s1_good.2.2, ?_, ?_, ?_⟩
  · intro t e n he hd
    rcases evs_cases t e he with ⟨rfl, rfl⟩ | ⟨rfl, rfl⟩ | ⟨rfl, rfl⟩ <;> simp [evs, Ev.drawn] at hd <;> subst hd <;>
    · refine ⟨by decide, by simp, by decide, ?_⟩
      intro u e' hu he'
      rcases evs_cases u e' he' with ⟨rfl, rfl⟩ | ⟨rfl, rfl⟩ | ⟨rfl, rfl⟩ <;> first | exact absurd rfl hu | decide
  · intro t u e e' n he he' hd hn
    exfalso
    rcases evs_cases t e he with ⟨rfl, rfl⟩ | ⟨rfl, rfl⟩ | ⟨rfl, rfl⟩ <;> simp [evs, Ev.drawn] at hd <;> subst hd <;>
    · rcases evs_cases u e' he' with ⟨rfl, rfl⟩ | ⟨rfl, rfl⟩ | ⟨rfl, rfl⟩ <;> revert hn <;> decide
  · have h : (runSmall sqlImpl.B sqlImpl.mode (cinit S evs s1) sch).threads.map Th.resp =
        [some (.avOk ⟨10⟩ .high), some (.avConflict ⟨10⟩), some (.found ⟨⟨10⟩, Uuid.nil, ⟨#[1]⟩⟩)] := by decide
    intro x hx
    obtain ⟨i, hi, rfl⟩ := List.getElem_of_mem hx
    have hi' : ((runSmall sqlImpl.B sqlImpl.mode (cinit S evs s1) sch).threads.map Th.resp)[i]? =
        some (Th.resp (runSmall sqlImpl.B sqlImpl.mode (cinit S evs s1) sch).threads[i]) := by
      simp [hi]
    rw [h] at hi'
    generalize (runSmall sqlImpl.B sqlImpl.mode (cinit S evs s1) sch).threads[i] = th at hi'
    have hsome : ∃ o, Th.resp th = some o := by
      match i, hi' with
      | 0, h0 => exact ⟨_, (Option.some.inj h0).symm⟩
      | 1, h0 => exact ⟨_, (Option.some.inj h0).symm⟩
      | 2, h0 => exact ⟨_, (Option.some.inj h0).symm⟩
      | (k+3), h0 => simp at h0
    obtain ⟨o, ho⟩ := hsome
    cases th <;> simp [Th.resp] at ho
    exact ⟨o, by rw [ho]⟩

end C03LibEx

/-! ## the two entries must not be mixed -/

namespace C03MixEx
open C03Ex (S)

/-- X = an HTTP AddVersion for a never-seen client, L = a library AddVersion (no client creation) for the same client -/
def evs : List Ev := [ .av ⟨1⟩ Uuid.nil ⟨#[1]⟩ ⟨10⟩ 0, .avLib ⟨1⟩ Uuid.nil ⟨#[2]⟩ ⟨11⟩ 0 ]
/-- X runs its first two transactions (no such client; create) and stalls; L runs completely; X resumes -/
def sch : List Nat := List.replicate 9 0 ++ List.replicate 12 1 ++ List.replicate 12 0

def observed : List (Option Out) := (runSmall sqlImpl.B sqlImpl.mode (cinit S evs sqlImpl.init) sch).threads.map Th.resp

/-- L is accepted on the empty record X's creation transaction left behind; X then conflicts with it -/
example : observed = [some (.avConflict ⟨11⟩), some (.avOk ⟨11⟩ .high)] := by decide

def seqOuts (order : List Nat) : List (Nat × Out) :=
  order.zip (runH sqlImpl.B sqlImpl.mode S (evsOf evs order) sqlImpl.init).1

/-- **Why `ReqMix` excludes request sets that mix the two entries.** In no one-at-a-time order is the library AddVersion
    accepted: alone it meets no client (`noSuchClient`), after X it conflicts with X's version. So this execution of the
    model is not linearizable, in any sense of "same response": the hypothesis "all-HTTP or all-library" of
    `C03_linearizable_core` cannot be dropped. (The shipped server only ever runs the HTTP entry.) -/
theorem C03_mix_not_linearizable :
    ∀ order ∈ [[0, 1], [1, 0]], (1, Out.avOk ⟨11⟩ .high) ∉ seqOuts order := by decide

end C03MixEx

end Tcs
