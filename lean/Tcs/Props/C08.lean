import Tcs.Props.C02
import Tcs.Proofs.ChainProofs
namespace Tcs

/-! # C08 – GetChildVersion answers found / not-found / gone consistently with AddVersion -/

/-- would an AddVersion with parent `p` be accepted in this record? (the library-level rule; the HTTP
    handler first creates a never-seen client, which then accepts) -/
def wouldAccept (x : CSt) (p : Uuid) : Bool := latestOf x = Uuid.nil || p = latestOf x

/-- Specification level, for EVERY record (reachable or not): if a stored version has parent `p` the
    first such version is returned; otherwise not-found exactly when AddVersion(p) would be accepted and
    gone exactly when it would be rejected; a never-seen client gets no-such-client (HTTP: 404). -/
theorem C08_decision (x : CSt) (p : Uuid) :
    (∀ v, x.versions.find? (·.parent = p) = some v → x.client ≠ none → cGetChild x p = .found v) ∧
    (x.versions.find? (·.parent = p) = none → x.client ≠ none →
        (cGetChild x p = .notFound ↔ wouldAccept x p = true) ∧ (cGetChild x p = .gone ↔ wouldAccept x p = false) ∧
        (cGetChild x p = .notFound ∨ cGetChild x p = .gone)) ∧
    (x.client = none → cGetChild x p = .noSuchClient) := by
  rcases x with ⟨_ | cl, d, vs⟩
  · simp [cGetChild]
  · refine ⟨?_, ?_, ?_⟩
    · intro v hv _; simp [cGetChild, hv]
    · intro hv _
      simp only [cGetChild, hv, wouldAccept, latestOf]
      by_cases h1 : cl.latest = p
      · subst h1; simp
      · have h1' : ¬ p = cl.latest := fun h => h1 h.symm
        by_cases h2 : cl.latest = Uuid.nil <;> simp [h1, h1', h2]
    · intro h; simp at h

/-- the AddVersion side of the equivalence is the real acceptance rule (C02) -/
theorem C08_matches_add_version (S : Sys) (x : CSt) (hc : x.client ≠ none) (c p : Uuid) (seg : Bytes) (newId : Uuid) (now : Int) :
    (wouldAccept x p = true ↔ ∃ u, (cstep S (.av c p seg newId now) x).1 = .avOk newId u) ∧
    (wouldAccept x p = false ↔ ∃ l, (cstep S (.av c p seg newId now) x).1 = .avConflict l) := by
  have h := C02_spec S x c p seg newId now
  simp only [wouldAccept, Bool.or_eq_true, decide_eq_true_eq]
  by_cases hh : latestOf x = Uuid.nil ∨ p = latestOf x
  · simp only [hh, ↓reduceIte] at h
    constructor
    · simp [hh, h.1]
    · simp only [h.1, reduceCtorEq, exists_false, iff_false]
      rcases hh with hh | hh <;> simp [hh]
  · simp only [hh, ↓reduceIte] at h
    constructor
    · simp [hh, h.1]
    · simp [h.1]
      simpa [not_or] using hh

/-- in reachable records a found child is THE child: exactly the accepted version whose parent is `p` -/
theorem C08_found_is_the_child (x : CSt) (hx : CInv x) (v : Version) (hv : v ∈ x.versions) (hc : x.client ≠ none) :
    cGetChild x v.parent = .found v := by
  have := find_parent_of_mem _ _ ⟨hx.chain, hx.nodup⟩ v hv
  exact (C08_decision x v.parent).1 v this hc

/-- at the latest version the answer is not-found (a replica that is up to date is told so) -/
theorem C08_latest_not_found (x : CSt) (hx : CInv x) (cl : Client) (hc : x.client = some cl) :
    cGetChild x cl.latest = .notFound := by
  have hf := find_parent_last _ _ ⟨hx.chain, hx.nodup⟩
  rw [← hx.latest cl hc] at hf
  unfold cGetChild
  rw [hc]
  simp only [hf]
  simp

/-- on every backend, from every reachable state: GetChildVersion answers as the specification says, and changes nothing -/
theorem C08_on_backend {σ} (I : Impl σ) (S : Sys) (hS : S.ensure = ensureClientFixed) (s : σ) (hg : Good I s) (c p : Uuid) :
    ∃ s', ((Ev.gcv c p).req S).runC I.B I.mode s = (cGetChild ((I.abs s).st c) p, s', true) ∧ I.abs s' = I.abs s := by
  obtain ⟨s', h1, h2, _⟩ := req_good_nodraw I S hS (.gcv c p) s hg rfl
  refine ⟨s', by simpa [asStep, Ev.client, cstep] using h1, ?_⟩
  rw [h2]
  simp [asStep, Ev.client, cstep, addedId, upd_self]

example : let x : CSt := { client := some ⟨⟨7⟩, none⟩, versions := [⟨⟨7⟩, Uuid.nil, ByteArray.empty⟩] }
    cGetChild x Uuid.nil = .found ⟨⟨7⟩, Uuid.nil, ByteArray.empty⟩ ∧ cGetChild x ⟨7⟩ = .notFound ∧ cGetChild x ⟨5⟩ = .gone := by decide

end Tcs
