import Tcs.Proofs.Impl
namespace Tcs

/-! # C02 – AddVersion is an atomic compare-and-append on the latest version -/

/-- the client's latest version as the protocol sees it (`nil` = no versions yet / never seen) -/
def latestOf (x : CSt) : Uuid := match x.client with | some c => c.latest | none => Uuid.nil

def snapOf (x : CSt) : Option Snapshot := x.client.bind (·.snap)

/-- Specification level: the HTTP-level AddVersion is accepted exactly when the client has no versions
    yet or `p` is its latest; accepted ⇒ answer carries `newId`, which becomes the latest and is stored
    with exactly the submitted parent and payload, the counter is bumped, nothing else changes;
    rejected ⇒ the answer names the latest and the record is unchanged (up to the bare creation of a
    never-seen client, which cannot happen on rejection). -/
theorem C02_spec (S : Sys) (x : CSt) (c p : Uuid) (seg : Bytes) (newId : Uuid) (now : Int) :
    let r := cstep S (.av c p seg newId now) x
    if latestOf x = Uuid.nil ∨ p = latestOf x then
      r.1 = .avOk newId (urgency S.cfg now (snapOf x)) ∧
      latestOf r.2 = newId ∧
      r.2.versions = x.versions ++ [⟨newId, p, seg⟩] ∧
      snapOf r.2 = (snapOf x).map bump ∧ r.2.data = x.data
    else
      r.1 = .avConflict (latestOf x) ∧ r.2 = x := by
  rcases x with ⟨_ | cl, d, vs⟩
  · simp [cstep, cAddVersion, cCreate, latestOf, snapOf, urgency]
  · by_cases h1 : cl.latest = Uuid.nil
    · simp [cstep, cAddVersion, cCreate, latestOf, snapOf, h1]
    · by_cases h2 : p = cl.latest
      · simp [cstep, cAddVersion, cCreate, latestOf, snapOf, h2]
      · simp [cstep, cAddVersion, cCreate, latestOf, snapOf, h1, h2]

/-- On every backend, from every reachable (good) state, for every fresh drawn id: the request
    completes without a storage error with exactly the specification's answer and effect, and the
    records of all other clients are untouched. -/
theorem C02_atomic_compare_append {σ} (I : Impl σ) (S : Sys) (hS : S.ensure = ensureClientFixed) (s : σ) (hg : Good I s)
    (c p : Uuid) (seg : Bytes) (newId : Uuid) (now : Int) (hfresh : newId ∉ (I.abs s).ids) :
    ∃ s', ((Ev.av c p seg newId now).req S).runC I.B I.mode s =
            ((cstep S (.av c p seg newId now) ((I.abs s).st c)).1, s', true) ∧
          (I.abs s').st c = (cstep S (.av c p seg newId now) ((I.abs s).st c)).2 ∧
          (∀ d, d ≠ c → (I.abs s').st d = (I.abs s).st d) := by
  obtain ⟨s', h1, h2, _⟩ := req_good I S hS (.av c p seg newId now) s hg (by intro n hn; simp [Ev.drawn] at hn; subst hn; exact hfresh)
  refine ⟨s', ?_, ?_, ?_⟩
  · simpa [asStep, Ev.client] using h1
  · rw [h2]; simp [asStep, Ev.client]
  · intro d hd; rw [h2]; simp [asStep, Ev.client, upd, hd]

/-- the accepted id is never one that is already stored for any client, and is the drawn id -/
theorem C02_new_id_never_issued {σ} (I : Impl σ) (S : Sys) (s : σ) (c p : Uuid) (seg : Bytes) (newId : Uuid) (now : Int)
    (hfresh : newId ∉ (I.abs s).ids) (hg : Good I s) (v : Uuid) (u : Urgency)
    (h : (cstep S (.av c p seg newId now) ((I.abs s).st c)).1 = .avOk v u) :
    v = newId ∧ ∀ d, ∀ w ∈ ((I.abs s).st d).versions, w.id ≠ v := by
  have hv := avOk_id S _ _ v u h
  simp [Ev.drawn] at hv
  subst hv
  exact ⟨rfl, fun d w hw hid => hfresh (hid ▸ hg.inv.ids d w hw)⟩

/-- non-vacuity: a client with one version, parent = latest is accepted, a stale parent is rejected -/
example : let x : CSt := { client := some ⟨⟨7⟩, none⟩, versions := [⟨⟨7⟩, Uuid.nil, ByteArray.empty⟩] }
    (cstep { cfg := ⟨14, 100⟩ } (.av ⟨1⟩ ⟨7⟩ ByteArray.empty ⟨9⟩ 0) x).1 = .avOk ⟨9⟩ .high ∧
    (cstep { cfg := ⟨14, 100⟩ } (.av ⟨1⟩ Uuid.nil ByteArray.empty ⟨9⟩ 0) x).1 = .avConflict ⟨7⟩ := by
  decide

end Tcs
