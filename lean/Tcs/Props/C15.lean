import Tcs.Proofs.HttpProofs
namespace Tcs

/-! # C15 – malformed or oversized requests are answered 4xx and change nothing; no 5xx -/

/-- a refused request is answered 4xx (400, 403 or 404) without any storage access -/
theorem C15_refused (h : HttpCfg) (r : Request) (f : Refusal) (hp : parseReq h r = .refused f) :
    serve h r = .done (addCC (refuse f)) ∧ (400 ≤ (refuse f).status ∧ (refuse f).status < 500) := by
  refine ⟨by rw [serve_factor, hp], ?_⟩
  cases f <;> simp [refuse, Refusal.status]

theorem C15_unknown_route (h : HttpCfg) (r : Request) (hp : parseReq h r = .unknown) : serve h r = .done (addCC { status := 404 }) := by
  rw [serve_factor, hp]

/-- hence it opens no transaction and leaves every backend state untouched -/
theorem C15_refused_no_storage {σ} (B : Backend σ) (mode : TxnMode) (h : HttpCfg) (r : Request) (s : σ)
    (hp : ∀ e, parseReq h r ≠ .ev e) : ((serve h r).run B mode s).2 = s ∧ (serve h r).txnCount B mode s = 0 := by
  rw [serve_factor]
  cases hq : parseReq h r with
  | index => exact ⟨rfl, rfl⟩
  | unknown => exact ⟨rfl, rfl⟩
  | refused f => exact ⟨rfl, rfl⟩
  | ev e => exact absurd hq (hp e)

/-- the size limit is inclusive, for every chunking -/
theorem C15_limit_inclusive (maxSize : Nat) (chunks : List Bytes) :
    (assemble maxSize chunks ByteArray.empty).isSome ↔ (chunks.map (·.size)).sum ≤ maxSize := by
  rw [assemble_empty]
  split <;> simp [*]

/-- an oversized body is refused with 400 on both upload routes -/
theorem C15_oversized (maxSize : Nat) (chunks : List Bytes) (h : maxSize < (chunks.map (·.size)).sum) :
    assemble maxSize chunks ByteArray.empty = none := by
  rw [assemble_empty, if_neg (by omega)]

theorem respond_500 (o : Out) : (respond o).status = 500 ↔ o = .storageError := by
  cases o <;> simp [respond, refuse, Refusal.status]

/-- the specification never answers with a storage error -/
theorem cstep_ne_storageError (S : Sys) (e : Ev) (x : CSt) : (cstep S e x).1 ≠ .storageError := by
  cases e with
  | av c p seg newId now =>
    simp only [cstep, cAddVersion]
    split
    · simp
    · split <;> simp
  | avLib c p seg newId now =>
    simp only [cstep, cAddVersion]
    split
    · simp
    · split <;> simp
  | create c => simp [cstep]
  | gcv c p =>
    simp only [cstep, cGetChild]
    split
    · simp
    · split
      · simp
      · split <;> simp
  | «as» c v d now =>
    simp only [cstep, cAddSnapshot]
    split
    · simp
    · split
      · simp
      · split <;> simp
  | gs c =>
    simp only [cstep, cGetSnapshot]
    split
    · simp
    · split
      · simp
      · split <;> simp
  | reopen => simp [cstep]

theorem asStep_ne_storageError (S : Sys) (e : Ev) (a : AS) : (asStep S e a).1 ≠ .storageError := by
  unfold asStep
  split
  · simp
  · exact cstep_ne_storageError S e _

/-- the only id a parsed request draws is the request's `newId` -/
theorem parseReq_ev_drawn (h : HttpCfg) (r : Request) (e : Ev) (hp : parseReq h r = .ev e) (n : Uuid)
    (hn : e.drawn = some n) : n = r.newId := by
  obtain ⟨c, _, he⟩ := parseReq_ev_inv h r e hp
  rcases he with ⟨p, rfl⟩ | ⟨p, b, rfl, _⟩ | rfl | ⟨v, b, rfl, _⟩ <;> simp [Ev.drawn] at hn
  exact hn.symm

/-- no 5xx: on every backend, from every reachable state, a request (whose drawn id is fresh) is never answered with a server error -/
theorem C15_no_5xx {σ} (I : Impl σ) (h : HttpCfg) (hS : h.ensure = ensureClientFixed) (r : Request) (s : σ) (hg : Good I s)
    (hf : r.newId ∉ (I.abs s).ids) : ((serve h r).run I.B I.mode s).1.status ≠ 500 ∧ ((serve h r).runC I.B I.mode s).2.2 = true := by
  rw [serve_factor]
  cases hp : parseReq h r with
  | index => exact ⟨by simp [ReqM.run, ReqM.runC, addCC], rfl⟩
  | unknown => exact ⟨by simp [ReqM.run, ReqM.runC, addCC], rfl⟩
  | refused f => exact ⟨by cases f <;> simp [ReqM.run, ReqM.runC, addCC, refuse, Refusal.status], rfl⟩
  | ev e =>
    obtain ⟨s', h1, _, _⟩ := req_good I (sysOf h) hS e s hg (by
      intro n hn; rw [parseReq_ev_drawn h r e hp n hn]; exact hf)
    simp only [map_runC, ReqM.run, h1, addCC, and_true]
    intro h5
    exact asStep_ne_storageError _ _ _ ((respond_500 _).1 h5)

end Tcs
