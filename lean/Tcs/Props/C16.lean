import Tcs.Proofs.HttpProofs
namespace Tcs

/-! # C16 – the allow-list is enforced on every endpoint -/

/-- no storage access at all -/
def noTxn {α} : ReqM α → Prop | .done _ => True | .txn .. => False

/-- the client-id check of a request whose header parses to `c` -/
theorem clientIdHeader_parsed (allow : Option (List Uuid)) (r : Request) (c : Uuid)
    (hc : (header r "x-client-id").bind (fun v => (toStr v).bind parseUuid) = some c) :
    clientIdHeader allow r = match allow with
      | some l => if c ∈ l then .ok c else .error .forbidden
      | none => .ok c := by
  unfold clientIdHeader
  cases hh : header r "x-client-id" with
  | none => rw [hh] at hc; simp at hc
  | some v =>
    rw [hh] at hc
    simp only [Option.bind_some] at hc
    simp only [hc]
    cases allow <;> rfl

/-- a request is only turned into a protocol request after the client-id check has passed, for that client -/
theorem parseReq_ev_client (h : HttpCfg) (r : Request) (e : Ev) (hp : parseReq h r = .ev e) :
    ∃ c, clientIdHeader h.allow r = .ok c ∧ e.client = some c := by
  obtain ⟨c, hc, he⟩ := parseReq_ev_inv h r e hp
  refine ⟨c, hc, ?_⟩
  rcases he with ⟨p, rfl⟩ | ⟨p, b, rfl, _⟩ | rfl | ⟨v, b, rfl, _⟩ <;> rfl

/-- the allow-list is consulted only through the client-id check: when that check fails, a request that
    would be served under another list is refused with exactly the check's refusal -/
theorem parseReq_check_fails (h h' : HttpCfg) (r : Request) (e : Ev) (f : Refusal)
    (hwf : parseReq h' r = .ev e) (hcid : clientIdHeader h.allow r = .error f) : parseReq h r = .refused f := by
  unfold parseReq at hwf ⊢
  split
  · rename_i h1 h2; simp only [h1, h2] at hwf; cases hwf
  · rename_i h1 h2; simp only [h1, h2] at hwf
    split at hwf
    · cases hwf
    · simp only [hcid]
  · rename_i h1 h2; simp only [h1, h2] at hwf
    split at hwf
    · cases hwf
    · split at hwf
      · cases hwf
      · rename_i hct; simp only [hct, ↓reduceIte, hcid]
  · rename_i h1 h2; simp only [h1, h2] at hwf
    simp only [hcid]
  · rename_i h1 h2; simp only [h1, h2] at hwf
    split at hwf
    · cases hwf
    · split at hwf
      · cases hwf
      · rename_i hct; simp only [hct, ↓reduceIte, hcid]
  · rename_i n1 n2 n3 n4 n5
    exfalso
    split at hwf
    · exact n1 ‹_› ‹_›
    · exact n2 _ ‹_› ‹_›
    · exact n3 _ ‹_› ‹_›
    · exact n4 ‹_› ‹_›
    · exact n5 _ ‹_› ‹_›
    · cases hwf

theorem refusal_status (f : Refusal) : (refuse f).status = 403 ∨ (refuse f).status = 400 ∨ (refuse f).status = 404 := by
  cases f <;> simp [refuse, Refusal.status]

/-- a request whose X-Client-Id parses to an id that is not on the configured list: refused with 403 (or 400/404 if it is ALSO otherwise malformed), never reaches storage, independent of the state -/
theorem C16_unlisted (h : HttpCfg) (l : List Uuid) (hl : h.allow = some l) (r : Request) (c : Uuid)
    (hc : (header r "x-client-id").bind (fun v => (toStr v).bind parseUuid) = some c) (hn : c ∉ l) (hidx : parseReq h r ≠ .index) :
    noTxn (serve h r) ∧ ∃ resp, serve h r = .done resp ∧ (resp.status = 403 ∨ resp.status = 400 ∨ resp.status = 404) := by
  have hcid : clientIdHeader h.allow r = .error .forbidden := by
    rw [clientIdHeader_parsed h.allow r c hc, hl]; simp [hn]
  rw [serve_factor]
  cases hp : parseReq h r with
  | index => exact absurd hp hidx
  | unknown => exact ⟨trivial, _, rfl, Or.inr (Or.inr rfl)⟩
  | refused f => exact ⟨trivial, _, rfl, refusal_status f⟩
  | ev e =>
    obtain ⟨c', hc', _⟩ := parseReq_ev_client h r e hp
    rw [hcid] at hc'; cases hc'

/-- … and it is 403 whenever the request is otherwise well-formed (i.e. it would be served without the list) -/
theorem C16_unlisted_403 (h : HttpCfg) (l : List Uuid) (hl : h.allow = some l) (r : Request) (c : Uuid)
    (hc : (header r "x-client-id").bind (fun v => (toStr v).bind parseUuid) = some c) (hn : c ∉ l)
    (e : Ev) (hwf : parseReq { h with allow := none } r = .ev e) : serve h r = .done (addCC (refuse .forbidden)) := by
  have hcid : clientIdHeader h.allow r = .error .forbidden := by
    rw [clientIdHeader_parsed h.allow r c hc, hl]; simp [hn]
  rw [serve_factor, parseReq_check_fails h { h with allow := none } r e .forbidden hwf hcid]

/-- listed clients are served exactly as if no list existed -/
theorem C16_listed_transparent (h : HttpCfg) (l : List Uuid) (r : Request) (c : Uuid)
    (hc : (header r "x-client-id").bind (fun v => (toStr v).bind parseUuid) = some c) (hin : c ∈ l) :
    serve { h with allow := some l } r = serve { h with allow := none } r := by
  have e1 : clientIdHeader (some l) r = .ok c := by rw [clientIdHeader_parsed _ r c hc]; simp [hin]
  have e2 : clientIdHeader none r = .ok c := by rw [clientIdHeader_parsed _ r c hc]
  simp only [serve, route, e1, e2]

/-- with no list every well-formed client id passes the client-id check -/
theorem C16_no_list (r : Request) (c : Uuid) (hc : (header r "x-client-id").bind (fun v => (toStr v).bind parseUuid) = some c) :
    clientIdHeader none r = .ok c := by
  rw [clientIdHeader_parsed _ r c hc]

/-- an empty list refuses everyone -/
theorem C16_empty_list (r : Request) (c : Uuid) (hc : (header r "x-client-id").bind (fun v => (toStr v).bind parseUuid) = some c) :
    clientIdHeader (some []) r = .error .forbidden := by
  rw [clientIdHeader_parsed _ r c hc]; simp

end Tcs
