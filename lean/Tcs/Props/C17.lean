import Tcs.Model.Config
namespace Tcs

/-! # C17 – the server binary honours its command-line and environment configuration
    Theorems about the resolution model `resolve`; that the real `main` behaves as
    `serve (httpCfgOf (resolve argv env))` is what the process-level correspondence establishes. -/

/-- a value given on the command line replaces the environment value entirely (every argument) -/
theorem C17_flag_over_env (flag : List String) (hf : flag ≠ []) (env env' : Option String) (d : Bool) :
    rawValues flag env d = rawValues flag env' d := by
  simp [rawValues, hf]

theorem C17_resolve_ignores_env_when_flags (c : Cli) (hl : c.listenFlag ≠ []) (hd : c.dataDirFlag ≠ []) (ha : c.allowFlag ≠ [])
    (hv : c.versionsFlag ≠ []) (hy : c.daysFlag ≠ []) (e1 e2 e3 e4 e5 : Option String) :
    resolve { c with listenEnv := e1, dataDirEnv := e2, allowEnv := e3, versionsEnv := e4, daysEnv := e5 } = resolve c := by
  simp [resolve, versionsOf, daysOf, allowOf, single, rawValues, hl, hd, ha, hv, hy]

/-- without a flag the environment variable is used -/
theorem C17_env_used_when_no_flag (env : Option String) (d : Bool) :
    rawValues [] env d = env.map (fun e => if d then e.splitOn "," else [e]) := by
  cases env <;> simp [rawValues]

/-- defaults: 14 days, 100 versions, /var/lib/taskchampion-sync-server, no allow-list -/
theorem C17_defaults (l : List String) (hl : l ≠ []) :
    resolve { listenFlag := l } =
      some { dataDir := "/var/lib/taskchampion-sync-server", snapshotVersions := 100, snapshotDays := 14, allow := none,
             listen := l.flatMap (·.splitOn ",") } := by
  simp [resolve, versionsOf, daysOf, allowOf, single, rawValues, hl, DEFAULT_DATA_DIR, DEFAULT_VERSIONS, DEFAULT_DAYS]

/-- no listen address at all is a usage error (the argument is required) -/
theorem C17_listen_required (c : Cli) (h1 : c.listenFlag = []) (h2 : c.listenEnv = none) : resolve c = none := by
  simp [resolve, rawValues, h1, h2]

/-- every address given – by repeated flag or ','-separated – is in the bind list, in order, and nothing else -/
theorem resolve_some (c : Cli) (a : ServerArgs) (h : resolve c = some a) :
    ∃ listen versions days allow,
      rawValues c.listenFlag c.listenEnv true = some listen ∧
      versionsOf c = some versions ∧ daysOf c = some days ∧ allowOf c = some allow ∧
      a = { dataDir := (single c.dataDirFlag c.dataDirEnv).getD DEFAULT_DATA_DIR, snapshotVersions := versions, snapshotDays := days, allow := allow, listen := listen } := by
  simp only [resolve, Option.bind_eq_some_iff, Option.some.injEq] at h
  obtain ⟨l, hl, v, hv, d, hd, al, ha, rfl⟩ := h
  exact ⟨l, v, d, al, hl, hv, hd, ha, rfl⟩

theorem rawValues_eq (flag : List String) (env : Option String) :
    rawValues flag env true = (if flag ≠ [] then some (flag.flatMap (·.splitOn ",")) else env.map (fun e => e.splitOn ",")) := by
  by_cases hf : flag = []
  · cases env <;> simp [rawValues, hf]
  · simp [rawValues, hf]

theorem C17_listen_all (c : Cli) (a : ServerArgs) (h : resolve c = some a) :
    a.listen = (if c.listenFlag ≠ [] then c.listenFlag else c.listenEnv.toList).flatMap (·.splitOn ",") := by
  obtain ⟨l, v, d, al, hl, _, _, _, rfl⟩ := resolve_some c a h
  rw [rawValues_eq] at hl
  by_cases hf : c.listenFlag = []
  · cases he : c.listenEnv <;> simp_all
  · simp_all

/-- the allow-list is absent iff neither flag nor variable is present; otherwise exactly the parsed ids -/
theorem C17_allowlist_exact (c : Cli) (a : ServerArgs) (h : resolve c = some a) :
    (a.allow = none ↔ (c.allowFlag = [] ∧ c.allowEnv = none)) ∧
    (∀ l, a.allow = some l → ((if c.allowFlag ≠ [] then c.allowFlag else c.allowEnv.toList).flatMap (·.splitOn ",")).mapM (fun s => parseUuid s.toUTF8.toList) = some l) := by
  obtain ⟨l0, v, d, al, _, _, _, ha, rfl⟩ := resolve_some c a h
  simp only [allowOf, rawValues_eq] at ha
  by_cases hf : c.allowFlag = []
  · cases he : c.allowEnv with
    | none =>
      simp only [hf, ne_eq, not_true_eq_false, ↓reduceIte, he, Option.map_none, Option.some.injEq] at ha
      subst ha
      simp [hf, he]
    | some e =>
      simp only [hf, ne_eq, not_true_eq_false, ↓reduceIte, he, Option.map_some, Option.map_eq_some_iff] at ha
      obtain ⟨ul, hul, rfl⟩ := ha
      simpa [hf, he] using hul
  · simp only [hf, ne_eq, not_false_eq_true, ↓reduceIte, Option.map_eq_some_iff] at ha
    obtain ⟨ul, hul, rfl⟩ := ha
    simpa [hf] using hul

/-- the targets handed to the server are the resolved ones -/
theorem C17_wiring (a : ServerArgs) : (httpCfgOf a).cfg = ⟨a.snapshotDays, a.snapshotVersions⟩ ∧ (httpCfgOf a).allow = a.allow := ⟨rfl, rfl⟩

example : rawValues ["x", "y"] (some "z") false = some ["x", "y"] ∧ rawValues [] (some "z") false = some ["z"] ∧
    rawValues [] none true = none := by decide

/-- the server either listens on EVERY address given or does not come up: a single address that cannot be bound
    aborts start-up (each `bind` is followed by `?` in `main`) -/
theorem C17_listen_all_or_nothing (a : ServerArgs) (busy : List String) :
    (∀ l, startup a busy = some l → l = a.listen ∧ ∀ x ∈ a.listen, x ∉ busy) ∧
    (startup a busy = none ↔ ∃ x ∈ a.listen, x ∈ busy) := by
  unfold startup
  constructor
  · intro l h
    split at h
    · cases h
    · next hn =>
      simp only [Option.some.injEq] at h
      refine ⟨h.symm, fun x hx hb => hn ?_⟩
      simp only [List.any_eq_true, List.contains_iff_mem]
      exact ⟨x, hx, hb⟩
  · constructor
    · intro h
      split at h
      · next hy => simpa [List.any_eq_true, List.contains_iff_mem] using hy
      · cases h
    · rintro ⟨x, hx, hb⟩
      rw [if_pos]
      simp only [List.any_eq_true, List.contains_iff_mem]
      exact ⟨x, hx, hb⟩

end Tcs
