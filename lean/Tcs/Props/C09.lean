import Tcs.Proofs.Impl
namespace Tcs

/-! # C09 – clients are isolated from one another

    Two-run non-interference: what a client is answered, and what is stored for it, depends only on
    that client's own requests — not on the requests of other clients, not even when it quotes
    version ids that belong to other clients. -/

/-- the outputs at the positions of the events selected by `keep` -/
def selectOuts (keep : Ev → Bool) : List Ev → List Out → List Out
  | e :: es, o :: os => (if keep e then [o] else []) ++ selectOuts keep es os
  | _, _ => []

def isOf (c : Uuid) (e : Ev) : Bool := e.client = some c

theorem isOf_true (c : Uuid) (e : Ev) : isOf c e = true ↔ e.client = some c := by
  simp [isOf]

theorem selectOuts_cons (keep : Ev → Bool) (e : Ev) (es : List Ev) (o : Out) (os : List Out) :
    selectOuts keep (e :: es) (o :: os) = (if keep e then [o] else []) ++ selectOuts keep es os := rfl

/-- frame: an event of another client (or a reopen) leaves `c`'s record untouched -/
theorem C09_frame (S : Sys) (e : Ev) (a : AS) (c : Uuid) (h : e.client ≠ some c) :
    (asStep S e a).2.st c = a.st c := by
  cases hd : e.client with
  | none => rw [asStep_none S e a hd]
  | some d =>
    have hne : c ≠ d := by
      intro hcd
      apply h
      rw [hd, hcd]
    exact asStep_other S e a d c hd hne

/-- an event of `c` reads and writes only `c`'s record: same record ⇒ same answer and same new record -/
theorem C09_own_record_only (S : Sys) (e : Ev) (a a' : AS) (c : Uuid) (hc : e.client = some c)
    (h : a.st c = a'.st c) :
    (asStep S e a).1 = (asStep S e a').1 ∧ (asStep S e a).2.st c = (asStep S e a').2.st c := by
  constructor
  · simp only [asStep, hc, h]
  · rw [asStep_same S e a c hc, asStep_same S e a' c hc, h]

/-- abstract level: the answers `c` receives in a history equal, position by position, the answers it
    receives when only its own requests are run (whatever ids those requests quote), and its record
    ends up the same -/
theorem asRunH_projection (S : Sys) (h : List Ev) (a a' : AS) (c : Uuid) (hst : a.st c = a'.st c) :
    selectOuts (isOf c) h (asRunH S h a).1 = (asRunH S (h.filter (isOf c)) a').1 ∧
    (asRunH S h a).2.st c = (asRunH S (h.filter (isOf c)) a').2.st c := by
  induction h generalizing a a' with
  | nil => exact ⟨rfl, hst⟩
  | cons e es ih =>
    cases hk : isOf c e with
    | true =>
      have hc : e.client = some c := (isOf_true c e).mp hk
      obtain ⟨h1, h2⟩ := C09_own_record_only S e a a' c hc hst
      obtain ⟨i1, i2⟩ := ih (asStep S e a).2 (asStep S e a').2 h2
      rw [List.filter_cons_of_pos hk]
      simp only [asRunH, selectOuts_cons, hk, if_true, List.singleton_append]
      exact ⟨by rw [h1, i1], i2⟩
    | false =>
      have hc : e.client ≠ some c := by
        intro hc
        rw [(isOf_true c e).mpr hc] at hk
        cases hk
      have h2 : (asStep S e a).2.st c = a'.st c := by rw [C09_frame S e a c hc, hst]
      obtain ⟨i1, i2⟩ := ih (asStep S e a).2 a' h2
      rw [List.filter_cons_of_neg (by rw [hk]; exact Bool.false_ne_true)]
      simp only [asRunH, selectOuts_cons, hk, Bool.false_eq_true, if_false, List.nil_append]
      exact ⟨i1, i2⟩

theorem freshEv_mono (e : Ev) (seen seen' : List Uuid) (hsub : ∀ i ∈ seen', i ∈ seen) (hf : FreshEv e seen) :
    FreshEv e seen' := by
  unfold FreshEv at hf ⊢
  cases hd : e.drawn with
  | none => trivial
  | some n =>
    rw [hd] at hf
    exact ⟨hf.1, fun hm => hf.2.1 (hsub n hm), hf.2.2⟩

theorem seenAfter_mono (e : Ev) (seen seen' : List Uuid) (hsub : ∀ i ∈ seen', i ∈ seen) :
    ∀ i ∈ seenAfter e seen', i ∈ seenAfter e seen := by
  intro i hi
  unfold seenAfter at hi ⊢
  rcases List.mem_append.mp hi with hi | hi
  · exact List.mem_append.mpr (Or.inl hi)
  · exact List.mem_append.mpr (Or.inr (hsub i hi))

theorem seenAfter_sup (e : Ev) (seen : List Uuid) : ∀ i ∈ seen, i ∈ seenAfter e seen := by
  intro i hi
  unfold seenAfter
  exact List.mem_append.mpr (Or.inr hi)

/-- freshness survives projection -/
theorem fresh_filter (keep : Ev → Bool) (h : List Ev) (seen seen' : List Uuid) (hsub : ∀ i ∈ seen', i ∈ seen)
    (hf : Fresh h seen) : Fresh (h.filter keep) seen' := by
  induction h generalizing seen seen' with
  | nil => exact hf
  | cons e es ih =>
    rw [fresh_cons] at hf
    cases hk : keep e with
    | true =>
      rw [List.filter_cons_of_pos hk, fresh_cons]
      exact ⟨freshEv_mono e seen seen' hsub hf.1,
        ih (seenAfter e seen) (seenAfter e seen') (seenAfter_mono e seen seen' hsub) hf.2⟩
    | false =>
      rw [List.filter_cons_of_neg (by rw [hk]; exact Bool.false_ne_true)]
      exact ih (seenAfter e seen) seen' (fun i hi => seenAfter_sup e seen i (hsub i hi)) hf.2

/-- a fresh history from the empty database, in terms of `runH` -/
theorem runH_init {σ} (I : Impl σ) (S : Sys) (hS : S.ensure = ensureClientFixed) (h : List Ev) (hf : Fresh h []) :
    (runH I.B I.mode S h I.init).1 = (asRunH S h {}).1 ∧ I.abs (runH I.B I.mode S h I.init).2 = (asRunH S h {}).2 := by
  obtain ⟨s', h1, h2, _⟩ := hist_init I S hS h hf
  unfold runH
  rw [h1]
  exact ⟨rfl, h2⟩

/-- C09 (two-run non-interference), on every backend: run `h`; run the projection of `h` onto client `c`
    alone on a fresh database; `c` receives the same responses, position by position — even when its
    requests quote version ids that belong to other clients (the events carry the drawn ids, so both
    runs draw the same ids) -/
theorem C09_noninterference {σ} (I : Impl σ) (S : Sys) (hS : S.ensure = ensureClientFixed) (h : List Ev)
    (hf : Fresh h []) (c : Uuid) :
    selectOuts (isOf c) h (runH I.B I.mode S h I.init).1 = (runH I.B I.mode S (h.filter (isOf c)) I.init).1 ∧
    (I.abs (runH I.B I.mode S h I.init).2).st c =
      (I.abs (runH I.B I.mode S (h.filter (isOf c)) I.init).2).st c := by
  obtain ⟨h1, h2⟩ := runH_init I S hS h hf
  obtain ⟨f1, f2⟩ := runH_init I S hS (h.filter (isOf c)) (fresh_filter (isOf c) h [] [] (fun _ hi => hi) hf)
  rw [h1, h2, f1, f2]
  exact asRunH_projection S h {} {} c rfl

theorem C09_noninterference_sql (S : Sys) (hS : S.ensure = ensureClientFixed) (h : List Ev) (hf : Fresh h []) (c : Uuid) :
    selectOuts (isOf c) h (runH SqlB .snapshotCommit S h {}).1 = (runH SqlB .snapshotCommit S (h.filter (isOf c)) {}).1 ∧
    (Sql.abs (runH SqlB .snapshotCommit S h {}).2).st c =
      (Sql.abs (runH SqlB .snapshotCommit S (h.filter (isOf c)) {}).2).st c :=
  C09_noninterference sqlImpl S hS h hf c

theorem C09_noninterference_mem (S : Sys) (hS : S.ensure = ensureClientFixed) (h : List Ev) (hf : Fresh h []) (c : Uuid) :
    selectOuts (isOf c) h (runH MemB .inPlace S h {}).1 = (runH MemB .inPlace S (h.filter (isOf c)) {}).1 ∧
    (Mem.abs (runH MemB .inPlace S h {}).2).st c =
      (Mem.abs (runH MemB .inPlace S (h.filter (isOf c)) {}).2).st c :=
  C09_noninterference memImpl S hS h hf c

theorem asRunH_append_c09 (S : Sys) (h₁ h₂ : List Ev) (a : AS) :
    (asRunH S (h₁ ++ h₂) a).1 = (asRunH S h₁ a).1 ++ (asRunH S h₂ (asRunH S h₁ a).2).1 ∧
    (asRunH S (h₁ ++ h₂) a).2 = (asRunH S h₂ (asRunH S h₁ a).2).2 := by
  induction h₁ generalizing a with
  | nil => exact ⟨rfl, rfl⟩
  | cons e es ih =>
    obtain ⟨i1, i2⟩ := ih (asStep S e a).2
    simp only [List.cons_append, asRunH, i1, i2]
    exact ⟨trivial, trivial⟩

/-- the other direction of isolation: requests of other clients never change `c`'s stored record -/
theorem C09_others_cannot_change {σ} (I : Impl σ) (S : Sys) (hS : S.ensure = ensureClientFixed) (h : List Ev)
    (hf : Fresh h []) (c : Uuid) (e : Ev) (he : e.client ≠ some c) (hfe : Fresh (h ++ [e]) []) :
    (I.abs (runH I.B I.mode S (h ++ [e]) I.init).2).st c = (I.abs (runH I.B I.mode S h I.init).2).st c := by
  rw [(runH_init I S hS h hf).2, (runH_init I S hS (h ++ [e]) hfe).2, (asRunH_append_c09 S h [e] {}).2]
  exact C09_frame S e (asRunH S h {}).2 c he

/-! ## Non-vacuity: a concrete two-client history in which client A quotes client B's version id -/

namespace C09Ex
def S : Sys := { cfg := ⟨14, 100⟩ }
def A : Uuid := ⟨1⟩
def B : Uuid := ⟨2⟩
/-- B stores version 20; A stores version 10, then asks for the child of 20 (B's id), tries to append onto 20,
    and offers a snapshot at 20; B reads in between; the database is reopened; A reads its own chain -/
def h : List Ev :=
  [ .av B Uuid.nil ByteArray.empty ⟨20⟩ 0, .av A Uuid.nil ByteArray.empty ⟨10⟩ 0, .gcv A ⟨20⟩,
    .av A ⟨20⟩ ByteArray.empty ⟨11⟩ 0, .gcv B Uuid.nil, .as A ⟨20⟩ ByteArray.empty 0, .reopen, .gcv A Uuid.nil ]
def expected : List Out :=
  [.avOk ⟨10⟩ .high, .gone, .avConflict ⟨10⟩, .asDone false, .found ⟨⟨10⟩, Uuid.nil, ByteArray.empty⟩]

/-- the hypothesis of `C09_noninterference` is satisfiable by this history -/
theorem h_fresh : Fresh h [] := by
  simp [h, Fresh, FreshEv, seenAfter, Ev.drawn, Ev.argIds, Uuid.nil, A, B]

/-- specification level: A's answers in the full run and in its solo run, evaluated -/
example : selectOuts (isOf A) h (asRunH S h {}).1 = expected ∧ (asRunH S (h.filter (isOf A)) {}).1 = expected ∧
    (h.filter (isOf A)).length = 5 ∧ (asRunH S h {}).1.length = 8 := by decide

/-- both shipped backends, evaluated: quoting B's id 20 gets A `gone` / a conflict / a refused snapshot,
    exactly as if B did not exist -/
example : selectOuts (isOf A) h (runH MemB .inPlace S h {}).1 = expected ∧
    (runH MemB .inPlace S (h.filter (isOf A)) {}).1 = expected := by decide
example : selectOuts (isOf A) h (runH SqlB .snapshotCommit S h {}).1 = expected ∧
    (runH SqlB .snapshotCommit S (h.filter (isOf A)) {}).1 = expected := by decide

/-- the theorem instantiated on the concrete history -/
example : selectOuts (isOf A) h (runH SqlB .snapshotCommit S h {}).1 = (runH SqlB .snapshotCommit S (h.filter (isOf A)) {}).1 :=
  (C09_noninterference_sql S rfl h h_fresh A).1
end C09Ex

end Tcs
