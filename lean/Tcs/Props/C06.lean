import Tcs.Proofs.HttpProofs
namespace Tcs

/-! # C06 – payloads are returned byte for byte -/

/-- for every payload and EVERY splitting of it into chunks (including empty chunks) the assembled body is the payload -/
theorem C06_assemble (maxSize : Nat) (chunks : List Bytes) (h : (chunks.map (·.size)).sum ≤ maxSize) :
    assemble maxSize chunks ByteArray.empty = some (chunks.foldl (· ++ ·) ByteArray.empty) := by
  rw [assemble_empty, if_pos h]

theorem C06_chunking_irrelevant (maxSize : Nat) (c1 c2 : List Bytes) (h : c1.foldl (· ++ ·) ByteArray.empty = c2.foldl (· ++ ·) ByteArray.empty)
    (h1 : (c1.map (·.size)).sum ≤ maxSize) : assemble maxSize c1 ByteArray.empty = assemble maxSize c2 ByteArray.empty := by
  have hs : (c1.map (·.size)).sum = (c2.map (·.size)).sum := by
    have := congrArg ByteArray.size h
    simpa [foldl_append_size] using this
  rw [C06_assemble maxSize c1 h1, C06_assemble maxSize c2 (hs ▸ h1), h]

/-- the fold is plain concatenation: a payload cut anywhere into two (or more) chunks is reassembled -/
theorem C06_split_anywhere (maxSize : Nat) (a b : Bytes) (h : (a ++ b).size ≤ maxSize) :
    assemble maxSize [a, b] ByteArray.empty = some (a ++ b) ∧ assemble maxSize [a ++ b] ByteArray.empty = some (a ++ b) := by
  rw [ByteArray.size_append] at h
  constructor
  · rw [C06_assemble _ _ (by simpa using h)]; simp
  · rw [C06_assemble _ _ (by simpa [ByteArray.size_append] using h)]; simp

/-- the stored payload of an accepted version is the uploaded body, and GetChildVersion's response body is that stored payload, with its id and parent -/
theorem C06_version_roundtrip (S : Sys) (x : CSt) (c p : Uuid) (seg : Bytes) (newId : Uuid) (now : Int) (u : Urgency)
    (h : (cstep S (.av c p seg newId now) x).1 = .avOk newId u) (hx : CInv x) (hfr : FreshFor (cCreate x) newId p) :
    cGetChild (cstep S (.av c p seg newId now) x).2 p = .found ⟨newId, p, seg⟩ ∧ (respond (.found ⟨newId, p, seg⟩)).body = seg := by
  refine ⟨?_, rfl⟩
  have hinv : CInv (cstep S (.av c p seg newId now) x).2 :=
    cinv_cAddVersion S.cfg _ (cinv_cCreate x hx) p seg newId now hfr
  have hv := cstep_versions S (.av c p seg newId now) x
  rw [h] at hv
  simp only [appended] at hv
  have hmem : (⟨newId, p, seg⟩ : Version) ∈ (cstep S (.av c p seg newId now) x).2.versions := by
    rw [hv]; simp
  have hfind := find_parent_of_mem _ _ hinv.wf ⟨newId, p, seg⟩ hmem
  unfold cGetChild
  cases hc : (cstep S (.av c p seg newId now) x).2.client with
  | none =>
    have := (hinv.noClient hc).1
    rw [this] at hmem; cases hmem
  | some cl => simp only [hfind]

/-- the snapshot bytes returned are the uploaded ones, with the version id of the same upload -/
theorem C06_snapshot_roundtrip (P : Params) (x : CSt) (v : Uuid) (data : Bytes) (now : Int)
    (h : (cAddSnapshot P x v data now).1 = .asDone true) : cGetSnapshot (cAddSnapshot P x v data now).2 = .snap v data := by
  unfold cAddSnapshot at h ⊢
  cases hc : x.client with
  | none => simp [hc] at h
  | some cl =>
    simp only [hc] at h ⊢
    split at h
    · simp at h
    · split at h
      · rename_i h1 h2
        simp only [h1, h2, ↓reduceIte, cGetSnapshot]
      · simp at h

/-- end to end at the HTTP level: the response to GetChildVersion carries exactly the stored payload -/
theorem C06_response_body (v : Version) : (addCC (respond (.found v))).body = v.seg ∧
    decode (addCC (respond (.found v))) = .child v := by
  refine ⟨rfl, ?_⟩
  simp [decode, addCC, respond]

end Tcs
