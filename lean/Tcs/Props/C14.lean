import Tcs.Proofs.HttpProofs
namespace Tcs

/-! # C14 – HTTP responses encode protocol outcomes exactly -/

theorem urgency_header_roundtrip (u : Urgency) : urgencyOfHeader (urgencyHeader u) = some u := by
  cases u <;> rfl

/-- the encoding is faithful: decoding the response (status + the three protocol headers + content type + body) gives back the outcome -/
theorem C14_decode_respond (o : Out) : decode (addCC (respond o)) = expectedDecode o := by
  cases o with
  | avOk v u => simp [decode, addCC, respond, expectedDecode, urgency_header_roundtrip]
  | avConflict l => simp [decode, addCC, respond, expectedDecode]
  | found v => simp [decode, addCC, respond, expectedDecode]
  | notFound => simp [decode, addCC, respond, expectedDecode, refuse, Refusal.status]
  | gone => simp [decode, addCC, respond, expectedDecode]
  | asDone b => simp [decode, addCC, respond, expectedDecode]
  | snap v d => simp [decode, addCC, respond, expectedDecode]
  | noSnap => simp [decode, addCC, respond, expectedDecode, refuse, Refusal.status]
  | noSuchClient => simp [decode, addCC, respond, expectedDecode, refuse, Refusal.status]
  | storageError => simp [decode, addCC, respond, expectedDecode]
  | reopened => simp [decode, addCC, respond, expectedDecode]
  | created => simp [decode, addCC, respond, expectedDecode]

/-- hence two outcomes a client must tell apart are never encoded alike -/
theorem C14_respond_injective (o o' : Out) (h : respond o = respond o') : expectedDecode o = expectedDecode o' := by
  rw [← C14_decode_respond, ← C14_decode_respond, h]

/-- each handler answers with the encoding of the protocol outcome of the same request on the same state, for every backend -/
theorem C14_handler_uses_respond {σ} (B : Backend σ) (mode : TxnMode) (h : HttpCfg) (r : Request) (e : Ev) (hp : parseReq h r = .ev e) (s : σ) :
    ((serve h r).run B mode s).1 = addCC (respond ((e.req (sysOf h)).run B mode s).1) ∧
    ((serve h r).run B mode s).2 = ((e.req (sysOf h)).run B mode s).2 := by
  rw [serve_factor, hp]
  simp only [map_run, and_self]

/-- the status/header table of the property, outcome by outcome -/
theorem C14_table :
    (∀ v u, (respond (.avOk v u)).status = 200 ∧ (respond (.avOk v u)).vid = some v ∧ (respond (.avOk v u)).pvid = none ∧
        ((respond (.avOk v u)).snapreq = none ↔ u = .none) ∧ ((respond (.avOk v u)).snapreq = some "urgency=low" ↔ u = .low) ∧ ((respond (.avOk v u)).snapreq = some "urgency=high" ↔ u = .high)) ∧
    (∀ l, (respond (.avConflict l)).status = 409 ∧ (respond (.avConflict l)).pvid = some l ∧ (respond (.avConflict l)).vid = none) ∧
    (∀ v, (respond (.found v)).status = 200 ∧ (respond (.found v)).vid = some v.id ∧ (respond (.found v)).pvid = some v.parent ∧ (respond (.found v)).ctype = some HS_CT ∧ (respond (.found v)).body = v.seg) ∧
    (respond .notFound).status = 404 ∧ (respond .gone).status = 410 ∧ (respond .noSuchClient).status = 404 ∧
    (∀ b, (respond (.asDone b)).status = 200) ∧
    (∀ v d, (respond (.snap v d)).status = 200 ∧ (respond (.snap v d)).vid = some v ∧ (respond (.snap v d)).ctype = some SNAP_CT ∧ (respond (.snap v d)).body = d) ∧
    (respond .noSnap).status = 404 := by
  refine ⟨fun v u => ⟨rfl, rfl, rfl, ?_, ?_, ?_⟩, fun l => ⟨rfl, rfl, rfl⟩, fun v => ⟨rfl, rfl, rfl, rfl, rfl⟩, rfl, rfl, rfl,
    fun b => rfl, fun v d => ⟨rfl, rfl, rfl, rfl⟩, rfl⟩ <;> cases u <;> simp [respond, urgencyHeader]

end Tcs
