import Tcs.Model.History
open Tcs

def hexOfBytes (b : Bytes) : String :=
  if b.size = 0 then "-" else String.ofList (b.toList.flatMap fun x => [Char.ofNat (hexDigit (x.toNat / 16)).toNat, Char.ofNat (hexDigit (x.toNat % 16)).toNat])

def bytesOfHex (s : String) : Option Bytes :=
  if s = "-" then some ByteArray.empty else
  let rec go : List UInt8 → ByteArray → Option ByteArray
    | a :: b :: rest, acc => match hexVal a, hexVal b with
      | some x, some y => go rest (acc.push (x * 16 + y).toUInt8)
      | _, _ => none
    | [], acc => some acc
    | _, _ => none
  go s.toUTF8.toList ByteArray.empty

def uuidOf (s : String) : Option Uuid := parseUuid s.toUTF8.toList
def showU (u : Uuid) : String := String.fromUTF8! ⟨(hyphenated u).toArray⟩
def showUrg : Urgency → String | .none => "none" | .low => "low" | .high => "high"

def showOut : Out → String
  | .avOk v u => s!"avOk {showU v} {showUrg u}" | .avConflict l => s!"conflict {showU l}"
  | .found v => s!"found {showU v.id} {showU v.parent} {hexOfBytes v.seg}" | .notFound => "notFound" | .gone => "gone"
  | .asDone a => s!"asDone {a}" | .snap v d => s!"snap {showU v} {hexOfBytes d}" | .noSnap => "noSnap"
  | .noSuchClient => "nsc" | .storageError => "ERR" | .reopened => "reopened"

inductive St | mem (m : Mem) | sql (s : Sql)

def stepSt (S : Sys) (e : Ev) : St → Out × St
  | .mem m => let (o, m') := (e.req S).run MemB .inPlace m; (o, .mem m')
  | .sql s => let (o, s') := (e.req S).run SqlB .snapshotCommit s; (o, .sql s')

def parseEv (ws : List String) : Option Ev :=
  match ws with
  | ["av", c, p, seg, nid, now] => do
    let n ← if nid = "-" then some ⟨340282366920938463463374607431768211455⟩ else uuidOf nid
    some (.av (← uuidOf c) (← uuidOf p) (← bytesOfHex seg) n (← now.toInt?))
  | ["gcv", c, p] => do some (.gcv (← uuidOf c) (← uuidOf p))
  | ["as", c, v, d, now] => do some (.as (← uuidOf c) (← uuidOf v) (← bytesOfHex d) (← now.toInt?))
  | ["gs", c] => do some (.gs (← uuidOf c))
  | ["reopen"] => some .reopen
  | _ => none

partial def loop (h : IO.FS.Stream) (S : Sys) (st : St) : IO Unit := do
  let line ← h.getLine
  if line.isEmpty then return ()
  let l := line.trimAscii.toString
  let lhs := (l.splitOn " => ").head!
  match lhs.splitOn " " with
  | ["backend", "mem"] => IO.println l; loop h S (.mem {})
  | ["backend", "sql"] => IO.println l; loop h S (.sql {})
  | ["cfg", d, v] => IO.println l; loop h { S with cfg := ⟨d.toInt!, v.toNat!⟩ } st
  | ws =>
    match parseEv ws with
    | none => IO.println s!"{lhs} => bad-op"; loop h S st
    | some e =>
      let (o, st') := stepSt S e st
      IO.println s!"{lhs} => {showOut o}"
      loop h S st'

def main (args : List String) : IO Unit := do
  let ensure := if args.contains "pinned" then ensureClientPinned else ensureClientFixed
  loop (← IO.getStdin) { cfg := ⟨14, 100⟩, ensure := ensure } (.mem {})
