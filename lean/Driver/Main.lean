import Tcs.Model.History
import Tcs.Model.Sem.Fault
import Tcs.Model.Sem.Conc
import Tcs.Model.Config
import Tcs.Model.Rows
import Tcs.Generated.ParamsImpl
open Tcs

/-! Line-protocol driver: re-executes, on the model, the operations the harness ran on the real
    code, and prints the model's observation for each. Core-only imports: links natively. -/

namespace Drv

def hexChar (n : Nat) : Char := Char.ofNat (hexDigit n).toNat

def hexOfBytes (b : ByteArray) : String := Id.run do
  let mut s := ""
  for x in b do
    s := s.push (hexChar (x.toNat / 16))
    s := s.push (hexChar (x.toNat % 16))
  return s

def bytesOfHexStr (s : String) : Option ByteArray := Id.run do
  let u := s.toUTF8
  if u.size % 2 ≠ 0 then return none
  let mut acc := ByteArray.emptyWithCapacity (u.size / 2)
  let mut i := 0
  while i < u.size do
    match hexVal u[i]!, hexVal u[i+1]! with
    | some x, some y => acc := acc.push (x * 16 + y).toUInt8
    | _, _ => return none
    i := i + 2
  return some acc

/-- `-` | `hex:…` | `rle:<bytehex>*<n>,…` -/
def parseBlob (s : String) : Option ByteArray :=
  if s = "-" then some ByteArray.empty
  else if s.startsWith "hex:" then bytesOfHexStr (s.drop 4).toString
  else if s.startsWith "rle:" then Id.run do
    let mut acc := ByteArray.empty
    for part in (s.drop 4).toString.splitOn "," do
      match part.splitOn "*" with
      | [bx, n] =>
        match bytesOfHexStr bx, n.toNat? with
        | some b, some k =>
          if b.size ≠ 1 then return none
          acc := acc ++ ByteArray.mk (Array.replicate k b[0]!)
        | _, _ => return none
      | _ => return none
    return some acc
  else none

def runsOf (b : ByteArray) : Array (UInt8 × Nat) := Id.run do
  let mut runs : Array (UInt8 × Nat) := #[]
  for x in b do
    if runs.size > 0 && runs[runs.size - 1]!.1 == x then
      runs := runs.modify (runs.size - 1) fun (y, n) => (y, n + 1)
    else
      if runs.size > 257 then return runs
      runs := runs.push (x, 1)
  return runs

def showBlob (b : ByteArray) : String :=
  if b.size = 0 then "-"
  else if b.size > 64 then
    let runs := runsOf b
    if runs.size ≤ 256 then
      "rle:" ++ ",".intercalate (runs.toList.map fun (x, n) => s!"{hexChar (x.toNat / 16)}{hexChar (x.toNat % 16)}*{n}")
    else "hex:" ++ hexOfBytes b
  else "hex:" ++ hexOfBytes b

def fnv64 (b : ByteArray) : UInt64 := Id.run do
  let mut h : UInt64 := 0xcbf29ce484222325
  for x in b do
    h := h ^^^ x.toUInt64
    h := h * 0x100000001b3
  return h

def hex16 (h : UInt64) : String :=
  String.ofList ((List.range 16).reverse.map fun i => hexChar ((h.toNat >>> (4 * i)) % 16))

def showShort (b : ByteArray) : String :=
  if b.size = 0 then "-"
  else if b.size ≤ 32 then "hex:" ++ hexOfBytes b
  else s!"fnv:{b.size}:{hex16 (fnv64 b)}"

def uuidOf (s : String) : Option Uuid := parseUuid s.toUTF8.toList
def showU (u : Uuid) : String := String.fromUTF8! ⟨(hyphenated u).toArray⟩
def showUrg : Urgency → String | .none => "none" | .low => "low" | .high => "high"
def reservedId : Uuid := ⟨340282366920938463463374607431768211455⟩

inductive St | mem (m : Mem) | sql (s : Sql)

inductive CSt' | mem (c : Conc Mem Response) | sql (c : Conc Sql Response)

structure Ctx where
  st : St := .mem {}
  sys : Sys := { cfg := ⟨14, 100⟩, params := Params.impl }
  allow : Option (List Uuid) := none
  followAv : Bool := false
  followSnap : Bool := false
  spy : Bool := false
  faultRun : Bool := false
  pending : List (Nat × FaultKind × Option (String × Nat)) := []
  conc : Option CSt' := none
  progs : List (ReqM Response) := []
  lateBegin : List Nat := []

def Ctx.http (c : Ctx) : HttpCfg := { cfg := c.sys.cfg, params := c.sys.params, allow := c.allow, ensure := c.sys.ensure }

def runReq {α} (st : St) (p : ReqM α) : α × St :=
  match st with
  | .mem m => let (o, m') := p.run MemB .inPlace m; (o, .mem m')
  | .sql s => let (o, s') := p.run SqlB .snapshotCommit s; (o, .sql s')

def countTxns {α} (st : St) (p : ReqM α) : Nat :=
  match st with
  | .mem m => p.txnCount MemB .inPlace m
  | .sql s => p.txnCount SqlB .snapshotCommit s

def faultFn (fs : List (Nat × FaultKind)) : Nat → FaultKind := fun n =>
  match fs.find? (·.1 = n) with | some (_, k) => k | none => .ok

/-- run a request under the pending faults (SQLite transaction semantics); returns also how many faults were hit -/
def runReqF' {α} (st : St) (fs : List (Nat × FaultKind)) (p : ReqM α) : α × St × Nat :=
  match st with
  | .sql s =>
    let (o, s', n) := p.runF SqlB (faultFn fs) 0 s
    (o, .sql s', (fs.filter (·.1 < n)).length)
  | .mem m =>
    let (o, m', n) := p.runF MemB (faultFn fs) 0 m
    (o, .mem m', (fs.filter (·.1 < n)).length)

/-- `fault <index> before|after [<call>#<occurrence>] …`: the call the implementation's fault hit is identified by its
    name and occurrence within the request when the harness says so (then a rewrite of the implementation that adds,
    drops or reorders *reads* does not shift the fault to another call of the model), else by its index -/
partial def parseFaults : List String → List (Nat × FaultKind × Option (String × Nat))
  | i :: k :: rest =>
    let (ident, rest') : Option (String × Nat) × List String :=
      match rest with
      | w :: more =>
        match w.splitOn "#" with
        | [name, occ] => (match occ.toNat? with | some o => (some (name, o), more) | none => (none, rest))
        | _ => (none, rest)
      | [] => (none, rest)
    match i.toNat?, k with
    | some n, "before" => (n, .failBefore, ident) :: parseFaults rest'
    | some n, "after" => (n, .failAfter, ident) :: parseFaults rest'
    | _, _ => parseFaults rest'
  | _ => []

/-- names of the calls of a transaction body in its fault-free run (for locating a fault by call identity) -/
def txnNames {σ α} (B : Backend σ) (cl : Uuid) : TxnM α → TxnSt σ → List String → List String × Option α × TxnSt σ
  | .ret a, st, acc => (acc, some a, st)
  | .call c k, st, acc =>
    match stepCallF B cl .ok c st with
    | .abort st' => (acc ++ [c.name], none, st')
    | .cont r st' => txnNames B cl (k r) st' (acc ++ [c.name])

def reqNames {σ α} (B : Backend σ) : ReqM α → σ → List String → List String
  | .done _, _, acc => acc
  | .txn cl body k, s, acc =>
    let r := txnNames B cl body ⟨s, s, false⟩ (acc ++ ["begin"])
    reqNames B (k r.2.1) r.2.2.durable r.1

/-- index of the `occ`-th (1-based) occurrence of `name` -/
def nthIndex (names : List String) (name : String) (occ : Nat) : Option Nat :=
  let idxs := (names.zipIdx.filter (·.1 = name)).map (·.2)
  if occ = 0 then none else idxs[occ - 1]?

def locateFaults (names : List String) (fs : List (Nat × FaultKind × Option (String × Nat))) : List (Nat × FaultKind) :=
  fs.map fun (i, k, ident) =>
    match ident with
    | none => (i, k)
    | some (name, occ) => match nthIndex names name occ with | some j => (j, k) | none => (1000000, k)

/-- run a request under the pending faults; returns also how many faults were hit -/
def runReqF {α} (st : St) (fs : List (Nat × FaultKind × Option (String × Nat))) (p : ReqM α) : α × St × Nat :=
  let names := match st with | .sql s => reqNames SqlB p s [] | .mem m => reqNames MemB p m []
  runReqF' st (locateFaults names fs) p

def execCall (st : St) (cl : Uuid) (c : Call) : Except StorageErr c.Resp :=
  match st with
  | .mem m => (Mem.exec cl c m).1
  | .sql s => (Sql.exec cl c s).1

def showOut : Out → String
  | .avOk v u => s!"ok {showU v} {showUrg u}" | .avConflict l => s!"conflict {showU l}"
  | .found v => s!"found {showU v.id} {showU v.parent} {showBlob v.seg}" | .notFound => "notfound" | .gone => "gone"
  | .asDone a => s!"ok acc={if a then 1 else 0}" | .snap v d => s!"some {showU v} {showBlob d}" | .noSnap => "none"
  | .noSuchClient => "nsc" | .storageError => "err" | .reopened => "ok" | .created => "ok"

def parseEv (ws : List String) : Option Ev :=
  match ws with
  | ["av", c, p, seg, nid, now] => do
    let n ← if nid = "-" then some reservedId else uuidOf nid
    some (.avLib (← uuidOf c) (← uuidOf p) (← parseBlob seg) n (← now.toInt?))
  | ["hav", c, p, seg, nid, now] => do
    let n ← if nid = "-" then some reservedId else uuidOf nid
    some (.av (← uuidOf c) (← uuidOf p) (← parseBlob seg) n (← now.toInt?))
  | ["create", c] => do some (.create (← uuidOf c))
  | ["gcv", c, p] => do some (.gcv (← uuidOf c) (← uuidOf p))
  | ["as", c, v, d, now] => do some (.as (← uuidOf c) (← uuidOf v) (← parseBlob d) (← now.toInt?))
  | ["gs", c] => do some (.gs (← uuidOf c))
  | ["reopen"] => some .reopen
  | _ => none

def dumpClient (st : St) (c : Uuid) (ids : List Uuid) : String := Id.run do
  let mut s := ""
  match execCall st c .getClient with
  | .error _ => return "err"
  | .ok none => s := "latest=none snap=- data=none"
  | .ok (some cl) =>
    s := s!"latest={showU cl.latest}"
    match cl.snap with
    | none => s := s ++ " snap=- data=none"
    | some sn =>
      s := s ++ s!" snap={showU sn.vid},{sn.ts},{sn.since}"
      let d := match execCall st c (.getSnapshotData sn.vid) with
        | .ok (some d) => showShort d
        | .ok none => "none"
        | .error _ => "err"
      s := s ++ s!" data={d}"
  for id in ids do
    match execCall st c (.getVersion id) with
    | .ok (some v) => s := s ++ s!" V:{showU id}={showU v.id}/{showU v.parent}/{showShort v.seg}"
    | _ => pure ()
  for id in ids do
    match execCall st c (.getByParent id) with
    | .ok (some v) => s := s ++ s!" P:{showU id}={showU v.id}"
    | _ => pure ()
  return s

def insertSorted {α} (key : α → Nat) (x : α) : List α → List α
  | [] => [x]
  | y :: ys => if key x ≤ key y then x :: y :: ys else y :: insertSorted key x ys
def sortBy {α} (key : α → Nat) (l : List α) : List α := l.foldl (fun acc x => insertSorted key x acc) []

def rawDump (st : St) : String :=
  match st with
  | .mem _ => "n/a"
  | .sql s =>
    let o {α} (f : α → String) : Option α → String | none => "NULL" | some a => f a
    let cs := (sortBy (·.clientId.val) s.clients).map fun r =>
      s!"C:{showU r.clientId},{showU r.latest},{o showU r.snapVid},{o toString r.since},{o toString r.ts},{o showShort r.snap}"
    let vs := (sortBy (·.versionId.val) s.versions).map fun r =>
      s!"V:{showU r.versionId},{showU r.clientId},{showU r.parent},{showShort r.seg}"
    if cs.isEmpty && vs.isEmpty then "empty" else " ".intercalate (cs ++ vs)

def optS (f : String → String) : Option String → String | none => "-" | some s => f s
def encS (s : String) : String := "hex:" ++ hexOfBytes s.toUTF8

def showResp (r : Response) : String :=
  s!"{r.status} vid={match r.vid with | some v => showU v | none => "-"} pvid={match r.pvid with | some v => showU v | none => "-"} sr={match r.snapreq with | some "urgency=low" => "low" | some "urgency=high" => "high" | some o => "other:" ++ hexOfBytes o.toUTF8 | none => "-"} ct={optS encS r.ctype} cc={optS encS r.cc} body={showBlob r.body}"

/-- `http METHOD path k (name=hexvalue)*k n (blob)*n newid now` -/
def parseHttp (ws : List String) : Option Request := do
  match ws with
  | "http" :: m :: path :: k :: rest =>
    let k ← k.toNat?
    if rest.length < k + 1 then none
    let hs ← (rest.take k).mapM fun h =>
      match h.splitOn "=" with
      | [n, v] => do
        let b ← if v = "-" then some ByteArray.empty else bytesOfHexStr v
        some (n, b.toList)
      | _ => none
    let rest := rest.drop k
    match rest with
    | n :: rest =>
      let n ← n.toNat?
      if rest.length ≠ n + 2 then none
      let chunks ← (rest.take n).mapM parseBlob
      match rest.drop n with
      | [nid, now] =>
        let nid ← if nid = "-" then some reservedId else uuidOf nid
        some { method := m, path := path, headers := hs, chunks := chunks, newId := nid, now := (← now.toInt?) }
      | _ => none
    | _ => none
  | _ => none

def snapVidOf (st : St) (c : Uuid) : Option Uuid :=
  match execCall st c .getClient with
  | .ok (some cl) => cl.snap.map (·.vid)
  | _ => none

/-- description of a thread state, for trace validation -/
def thDesc {σ} : Th σ Response → String
  | .idle _ => "idle"
  | .outside (.done _) => "done"
  | .outside (.txn ..) => "want-begin"
  | .inTxn _ _ (.ret _) _ => "at-end"
  | .inTxn _ _ (.call c _) _ => "call:" ++ c.name
  | .finished _ => "finished"

def concThreadDesc (c : CSt') (t : Nat) : String :=
  match c with
  | .mem c => (c.threads[t]?.map thDesc).getD "none"
  | .sql c => (c.threads[t]?.map thDesc).getD "none"

def concStep (c : CSt') (t : Nat) : Option CSt' :=
  match c with
  | .mem c => (stepSmall MemB .inPlace c t).map .mem
  | .sql c => (stepSmall SqlB .snapshotCommit c t).map .sql

def concResp (c : CSt') (t : Nat) : Option Response :=
  match c with
  | .mem c => c.threads[t]?.bind Th.resp
  | .sql c => c.threads[t]?.bind Th.resp

def concDb (c : CSt') : St := match c with | .mem c => .mem c.db | .sql c => .sql c.db

def mkConc (st : St) (progs : List (ReqM Response)) : CSt' :=
  match st with
  | .mem m => .mem ⟨m, none, progs.map .idle⟩
  | .sql s => .sql ⟨s, none, progs.map .idle⟩

def kvOf (ws : List String) (k : String) : Option String :=
  (ws.filterMap fun w => match w.splitOn "=" with | [a, b] => if a = k then some b else none | _ => none).head?

/-- apply a decision of the implementation that this check does not own (follow mode, DESIGN 3.6) -/
def force (st : St) (c : Uuid) (body : TxnM Unit) : St :=
  (runReq st (.txn c body fun _ => .done ())).2

def forceSnap (st : St) (c v : Uuid) (d : ByteArray) (now : Int) : St :=
  force st c (do call (.setSnapshot ⟨v, now, 0⟩ d); call .commit)
def forceAv (st : St) (c v p : Uuid) (seg : ByteArray) : St :=
  force st c (do call (.addVersion v p seg); call .commit)

def implAcc (obs : String) : Option Bool :=
  if (obs.splitOn "acc=1").length > 1 then some true else if (obs.splitOn "acc=0").length > 1 then some false else none

def step (ctx : Ctx) (lhs : String) (implObs : String := "") : Ctx × String :=
  let ws := lhs.splitOn " "
  match ws with
  | "run" :: _ =>
    let st := if kvOf ws "backend" = some "sql" then St.sql {} else St.mem {}
    let days := ((kvOf ws "days").bind String.toInt?).getD 14
    let vers := ((kvOf ws "versions").bind String.toNat?).getD 100
    let allow := match kvOf ws "allow" with
      | none | some "none" => none
      | some "" | some "empty" => some []
      | some l => some ((l.splitOn ",").filterMap uuidOf)
    let ensure := if kvOf ws "ensure" = some "pinned" then ensureClientPinned else ensureClientFixed
    ({ ctx with st := st, sys := { cfg := ⟨days, vers⟩, params := Params.impl, ensure := ensure }, allow := allow, spy := kvOf ws "spy" = some "1", faultRun := kvOf ws "faults" = some "1", pending := [] }, "")
  | "end" :: _ => (ctx, "")
  | "fault" :: rest => ({ ctx with pending := parseFaults rest }, "")
  | ["prefill", c, k, snapat, now, ids] =>
    match uuidOf c, k.toNat?, snapat.toInt?, now.toInt? with
    | some c, some k, some snapat, some now =>
      let chain := if ids = "-" then [] else (ids.splitOn ",").filterMap uuidOf
      if k = 0 then ({ ctx with conc := none, progs := [], lateBegin := [] }, "") else
      let st1 := (runReq ctx.st ((Ev.create c).req ctx.sys)).2
      let (st2, _) := chain.foldl (fun (acc : St × (Uuid × Nat)) v =>
          let (st, (p, i)) := acc
          ((runReq st ((Ev.avLib c p (ByteArray.mk #[0xA0, i.toUInt8]) v now).req { ctx.sys with cfg := ⟨14, 100⟩ })).2, (v, i + 1))) (st1, (Uuid.nil, 0))
      let st3 := if snapat ≥ 0 then
          match chain[snapat.toNat]? with
          | some v => (runReq st2 ((Ev.as c v (ByteArray.mk #[0x5A, snapat.toNat.toUInt8]) now).req ctx.sys)).2
          | none => st2
        else st2
      ({ ctx with st := st3, conc := none, progs := [], lateBegin := [] }, "")
    | _, _, _, _ => (ctx, "bad-op")
  | "req" :: _t :: rest =>
    match parseHttp rest with
    | none => (ctx, "bad-op")
    | some r => ({ ctx with progs := ctx.progs ++ [serve ctx.http r] }, "")
  | ["ev", t, label] =>
    match t.toNat? with
    | none => (ctx, "bad-op")
    | some t =>
      let c := ctx.conc.getD (mkConc ctx.st ctx.progs)
      let d := concThreadDesc c t
      let fin (c' : CSt') (msg : String) (late : List Nat := ctx.lateBegin) : Ctx × String :=
        ({ ctx with conc := some c', st := concDb c', lateBegin := late }, msg)
      -- Reads inside an open transaction are not part of what the trace comparison pins (they change nothing, in the model
      -- by `readsPure_*`): a read of the implementation that is not the model thread's next call is accepted without a
      -- step, and the model thread's outstanding reads are run just before its next write / end. What IS compared: the
      -- transaction boundaries, every write and their order, who holds the lock, and (line `res`) the responses.
      let isRead (l : String) : Bool := l = "call:get_client" || l = "call:get_version_by_parent" || l = "call:get_version" || l = "call:get_snapshot_data"
      let rec skipReads (c : CSt') (fuel : Nat) : CSt' :=
        match fuel with
        | 0 => c
        | fuel + 1 => if isRead (concThreadDesc c t) then (match concStep c t with | some c' => skipReads c' fuel | none => c) else c
      let stepOr (expect : String) : Ctx × String :=
        if d = expect then
          match concStep c t with
          | some c' => fin c' "ok"
          | none => fin c s!"mismatch:model-cannot-step-from-{d}"
        else fin c s!"mismatch:model-thread-is-{d}"
      match label with
      | "start" => stepOr "idle"
      | "want-begin" =>
        -- the lock is taken at `begun`, never here: between a thread's `want-begin` and its `begun` another waiter may
        -- be given the lock by the implementation, and which waiter gets it is not the model's to decide
        if d = "want-begin" then fin c "ok" (t :: ctx.lateBegin)
        else fin c s!"mismatch:model-thread-is-{d}"
      | "begun" =>
        if ctx.lateBegin.contains t then
          match concStep c t with
          | some c' => fin c' "ok" (ctx.lateBegin.filter (· ≠ t))
          | none => fin c "mismatch:implementation-began-a-transaction-while-the-model-lock-is-held"
        else if d.startsWith "call:" || d = "at-end" then fin c "ok" else fin c s!"mismatch:model-thread-is-{d}"
      | "blocked" =>
        -- informational: the implementation may find the lock still taken for a moment after the holder's `end` was
        -- logged (the log entry precedes the release), so nothing is demanded of the model's lock here
        if ctx.lateBegin.contains t then fin c "ok" else fin c "mismatch:blocked-without-want-begin"
      | "begin-failed" => fin c "mismatch:begin-failed"
      | "end" =>
        let c := skipReads c 64
        let d := concThreadDesc c t
        if d = "at-end" then (match concStep c t with | some c' => fin c' "ok" | none => fin c "mismatch:cannot-end")
        else if d = "want-begin" || d = "done" then fin c "ok"      -- already released by a failed call
        else fin c s!"mismatch:model-thread-is-{d}"
      | "finish" => stepOr "done"
      | l =>
        if !l.startsWith "call:" then fin c "bad-op"
        else if isRead l then
          if d = l then stepOr l
          else if d.startsWith "call:" || d = "at-end" then fin c "ok"      -- inside a transaction: tolerated, no step
          else fin c s!"mismatch:read-outside-a-transaction:model-thread-is-{d}"
        else
          let c := skipReads c 64
          let d := concThreadDesc c t
          if d = l then
            match concStep c t with
            | some c' => fin c' "ok"
            | none => fin c s!"mismatch:model-cannot-step-from-{d}"
          else fin c s!"mismatch:model-thread-is-{d}"
  | ["res", t] =>
    match t.toNat?, ctx.conc with
    | some t, some c => (ctx, match concResp c t with | some r => showResp r | none => s!"no-response:{concThreadDesc c t}")
    | _, _ => (ctx, "bad-op")
  | "illegal" :: _ => (ctx, "")
  | "seq" :: _ => (ctx, "")
  | "crash" :: _ => (ctx, "")
  | "config" :: rest =>
    let fl (k : String) : List String := match kvOf rest k with | none | some "-" => [] | some v => v.splitOn ";"
    let en (k : String) : Option String := match kvOf rest k with | none | some "-" => none | some "(empty)" => some "" | some v => some v
    let cli : Cli := { listenFlag := fl "l", listenEnv := en "L", dataDirFlag := fl "d", dataDirEnv := en "D",
                       allowFlag := fl "c", allowEnv := en "C", versionsFlag := fl "sv", versionsEnv := en "SV",
                       daysFlag := fl "sd", daysEnv := en "SD" }
    match resolve cli with
    | none => (ctx, "usage-error")
    | some a =>
      let busy : List String := match kvOf rest "busy" with | none | some "-" => [] | some v => v.splitOn ";"
      if (startup a busy).isNone then (ctx, "failed bind") else
      let h := httpCfgOf a
      let al := match a.allow with | none => "none" | some l => if l.isEmpty then "empty" else ",".intercalate (l.map showU)
      ({ ctx with st := .sql {}, sys := { cfg := h.cfg, params := Params.impl, ensure := ctx.sys.ensure }, allow := a.allow },
       s!"ok listen={",".intercalate a.listen} dir={a.dataDir} days={a.snapshotDays} versions={a.snapshotVersions} allow={al}")
  | "pool" :: _ => (ctx, "")
  | ["restart"] => (ctx, "ok")
  | ["dircheck"] => (ctx, "ok")
  | "xhttp" :: _ => (ctx, "")
  | "xcmp" :: _ => (ctx, "")
  | "open" :: _ => (ctx, "")
  | "nowalk" :: _ => (ctx, "empty")
  | "expect" :: _ => (ctx, "")
  | ["rawload", "empty"] => ({ ctx with st := .sql {} }, "ok clients=0 versions=0")
  | "rawload" :: rows =>
    -- the rows as stored (ids are TEXT); they are decoded by the model's `decodeDb` (Model/Rows.lean), the function
    -- `C19_row_roundtrip` is about: ids parsed by `Uuid::parse_str`, exactly as `sqlite/src/lib.rs` reads them
    let txtRaw (f : String) : Option (List UInt8) :=
      if f.startsWith "t:" then (bytesOfHexStr (f.drop 2).toString).map (·.toList) else none
    let optF {α} (f : String) (g : String → Option α) : Option (Option α) := if f = "NULL" then some none else (g f).map some
    let raw : Option RawDb := rows.foldlM (fun (acc : RawDb) (w : String) =>
      if w.startsWith "C:" then
        match (w.drop 2).toString.splitOn "," with
        | [cid, lat, sv, since, ts, blob] => do
          let r : RawClientRow := { clientId := ← txtRaw cid, latest := ← txtRaw lat, snapVid := ← optF sv txtRaw,
                                    since := ← optF since String.toNat?, ts := ← optF ts String.toInt?, snap := ← optF blob parseBlob }
          some { acc with clients := acc.clients ++ [r] }
        | _ => none
      else if w.startsWith "V:" then
        match (w.drop 2).toString.splitOn "," with
        | [vid, cid, par, blob] => do
          some { acc with versions := acc.versions ++ [⟨← txtRaw vid, ← txtRaw cid, ← txtRaw par, ← parseBlob blob⟩] }
        | _ => none
      else none) ({} : RawDb)
    match raw.bind decodeDb with
    | some s => ({ ctx with st := .sql s }, s!"ok clients={s.clients.length} versions={s.versions.length}")
    | none => (ctx, "decode-error")
  | "dump" :: c :: rest =>
    match uuidOf c with
    | none => (ctx, "bad-op")
    | some c =>
      let ids := match rest with | [l] => (l.splitOn ",").filterMap uuidOf | _ => []
      (ctx, dumpClient ctx.st c ids)
  | ["rawdump"] => (ctx, rawDump ctx.st)
  | ["set_snapshot", c, vid, ts, since, d] =>
    match uuidOf c, uuidOf vid, ts.toInt?, since.toNat?, parseBlob d with
    | some c, some vid, some ts, some since, some d =>
      let (ok, st') := runReq ctx.st (.txn c (do call (.setSnapshot ⟨vid, ts, since⟩ d); call .commit) fun r => .done r.isSome)
      ({ ctx with st := st' }, if ok then "ok" else "err")
    | _, _, _, _, _ => (ctx, "bad-op")
  | "http" :: _ =>
    match parseHttp ws with
    | none => (ctx, "bad-op")
    | some r =>
      let isAs := (r.path.splitOn "/add-snapshot/").length > 1
      let cid := (header r "x-client-id").bind fun v => (toStr v).bind parseUuid
      let before := cid.bind (snapVidOf ctx.st)
      let (resp, st', hit) :=
        if ctx.faultRun then runReqF ctx.st ctx.pending (serve ctx.http r)
        else let (a, b) := runReq ctx.st (serve ctx.http r); (a, b, 0)
      let after := cid.bind (snapVidOf st')
      let macc := before ≠ after
      let acc := if isAs then s!" acc={if macc then 1 else 0}" else ""
      -- follow mode: take over the implementation's decision when it differs
      let st'' :=
        if isAs && ctx.followSnap then
          match implAcc implObs, cid, (r.path.splitOn "/add-snapshot/")[1]? with
          | some ia, some c, some seg =>
            if ia = macc then st' else
            if ia then
              match pathId ((seg.splitOn "?").head!), assemble ctx.sys.params.maxSizeSnap r.chunks ByteArray.empty with
              | some v, some body => forceSnap st' c v body r.now
              | _, _ => st'
            else ctx.st
          | _, _, _ => st'
        else if (r.path.splitOn "/add-version/").length > 1 && ctx.followAv then
          let iok := implObs.startsWith "200 "
          let mok := resp.status = 200
          if iok = mok then st' else
          if iok then
            match cid, ((r.path.splitOn "/add-version/")[1]?).bind (fun seg => pathId ((seg.splitOn "?").head!)), assemble ctx.sys.params.maxSize r.chunks ByteArray.empty with
            | some c, some p, some body =>
              let st1 := force st' c ensureClientFixed
              forceAv st1 c r.newId p body
            | _, _, _ => st'
          else ctx.st
        else st'
      let spy := if ctx.spy then s!" txns={countTxns ctx.st (serve ctx.http r)}" else ""
      let fl := if ctx.faultRun then s!" consumed={hit}" else ""
      ({ ctx with st := st'', pending := [] }, showResp resp ++ acc ++ spy ++ fl)
  | _ =>
    match parseEv ws with
    | none => (ctx, "bad-op")
    | some e =>
      let (o, st', hit) :=
        if ctx.faultRun then runReqF ctx.st ctx.pending (e.req ctx.sys)
        else let (a, b) := runReq ctx.st (e.req ctx.sys); (a, b, 0)
      let fl := if ctx.faultRun && (match e with | .create _ => false | _ => true) then s!" consumed={hit}" else ""
      let st'' :=
        match e, o with
        | .as c v d now, .asDone macc =>
          if ctx.followSnap then
            match implAcc implObs with
            | some ia => if ia = macc then st' else if ia then forceSnap st' c v d now else ctx.st
            | none => st'
          else st'
        | .avLib c p seg newId _, .avOk .. =>
          if ctx.followAv && implObs.startsWith "conflict" then ctx.st else st'
        | .avLib c p seg newId _, .avConflict _ =>
          if ctx.followAv && implObs.startsWith "ok " then forceAv st' c newId p seg else st'
        | _, _ => st'
      ({ ctx with st := st'', pending := [] }, showOut o ++ fl)

partial def loop (h : IO.FS.Stream) (out : IO.FS.Stream) (ctx : Ctx) : IO Unit := do
  let line ← h.getLine
  if line.isEmpty then return ()
  let l := line.trimAscii.toString
  if l.startsWith "#" || l.isEmpty then
    out.putStrLn l
    loop h out ctx
  else
    let parts := l.splitOn " => "
    let lhs := parts.head!
    let (ctx', obs) := step ctx lhs (parts.getD 1 "")
    if obs.isEmpty then out.putStrLn lhs else out.putStrLn s!"{lhs} => {obs}"
    loop h out ctx'

end Drv

def main (args : List String) : IO Unit := do
  let out ← IO.getStdout
  Drv.loop (← IO.getStdin) out { followAv := args.contains "follow-av", followSnap := args.contains "follow-snap" }
