// LD_PRELOAD recorder of the file-system operations a process issues on files under $IOREC_DIR
// (pwrite/write/ftruncate/fsync/fdatasync/unlink/rename), with the written data, appended to $IOREC_LOG.
// Marks: unlink("/tcsmark/<text>") is logged as a MARK record and not forwarded.
// Record: "IOR1" u8 op | u64 off | u64 len | u16 pathlen | path | data[len if op is a write]
#define _GNU_SOURCE
#include <dlfcn.h>
#include <fcntl.h>
#include <stdarg.h>
#include <stdint.h>
#include <stdio.h>
#include <stdlib.h>
#include <string.h>
#include <unistd.h>
#include <pthread.h>
#include <sys/types.h>

enum { OP_PWRITE = 1, OP_TRUNC = 2, OP_FSYNC = 3, OP_UNLINK = 4, OP_RENAME = 5, OP_MARK = 6 };
static int logfd = -1;
static const char *dirpfx = NULL;
static pthread_mutex_t mu = PTHREAD_MUTEX_INITIALIZER;
static ssize_t (*real_write)(int, const void *, size_t);
static int (*real_open)(const char *, int, ...);

static void init(void) {
  if (logfd >= 0 || logfd == -2) return;
  real_write = dlsym(RTLD_NEXT, "write");
  real_open = dlsym(RTLD_NEXT, "open");
  const char *p = getenv("IOREC_LOG");
  dirpfx = getenv("IOREC_DIR");
  if (!p || !dirpfx) { logfd = -2; return; }
  logfd = real_open(p, O_WRONLY | O_CREAT | O_APPEND, 0644);
  if (logfd < 0) logfd = -2;
}
static int fdpath(int fd, char *out, size_t n) {
  char l[64];
  snprintf(l, sizeof l, "/proc/self/fd/%d", fd);
  ssize_t k = readlink(l, out, n - 1);
  if (k < 0) return 0;
  out[k] = 0;
  return 1;
}
static int wanted(const char *path) { return dirpfx && strncmp(path, dirpfx, strlen(dirpfx)) == 0; }
static void rec(uint8_t op, const char *path, uint64_t off, uint64_t len, const void *data) {
  if (logfd < 0) return;
  uint16_t pl = (uint16_t)strlen(path);
  size_t dl = (op == OP_PWRITE) ? (size_t)len : 0;
  size_t tot = 4 + 1 + 8 + 8 + 2 + pl + dl;
  char *b = malloc(tot);
  if (!b) return;
  memcpy(b, "IOR1", 4);
  b[4] = (char)op;
  memcpy(b + 5, &off, 8);
  memcpy(b + 13, &len, 8);
  memcpy(b + 21, &pl, 2);
  memcpy(b + 23, path, pl);
  if (dl) memcpy(b + 23 + pl, data, dl);
  pthread_mutex_lock(&mu);
  size_t done = 0;
  while (done < tot) {
    ssize_t k = real_write(logfd, b + done, tot - done);
    if (k <= 0) break;
    done += (size_t)k;
  }
  pthread_mutex_unlock(&mu);
  free(b);
}

ssize_t pwrite64(int fd, const void *buf, size_t n, off64_t off) {
  static ssize_t (*r)(int, const void *, size_t, off64_t);
  if (!r) r = dlsym(RTLD_NEXT, "pwrite64");
  init();
  ssize_t x = r(fd, buf, n, off);
  char p[512];
  if (x > 0 && logfd >= 0 && fdpath(fd, p, sizeof p) && wanted(p)) rec(OP_PWRITE, p, (uint64_t)off, (uint64_t)x, buf);
  return x;
}
ssize_t pwrite(int fd, const void *buf, size_t n, off_t off) { return pwrite64(fd, buf, n, off); }
ssize_t write(int fd, const void *buf, size_t n) {
  init();
  if (logfd >= 0 && fd != logfd) {
    char p[512];
    if (fdpath(fd, p, sizeof p) && wanted(p)) {
      off_t off = lseek(fd, 0, SEEK_CUR);
      ssize_t x = real_write(fd, buf, n);
      if (x > 0) rec(OP_PWRITE, p, (uint64_t)off, (uint64_t)x, buf);
      return x;
    }
  }
  if (!real_write) real_write = dlsym(RTLD_NEXT, "write");
  return real_write(fd, buf, n);
}
int fsync(int fd) {
  static int (*r)(int);
  if (!r) r = dlsym(RTLD_NEXT, "fsync");
  init();
  int x = r(fd);
  char p[512];
  if (logfd >= 0 && fdpath(fd, p, sizeof p) && wanted(p)) rec(OP_FSYNC, p, 0, 0, NULL);
  return x;
}
int fdatasync(int fd) {
  static int (*r)(int);
  if (!r) r = dlsym(RTLD_NEXT, "fdatasync");
  init();
  int x = r(fd);
  char p[512];
  if (logfd >= 0 && fdpath(fd, p, sizeof p) && wanted(p)) rec(OP_FSYNC, p, 0, 0, NULL);
  return x;
}
int ftruncate64(int fd, off64_t len) {
  static int (*r)(int, off64_t);
  if (!r) r = dlsym(RTLD_NEXT, "ftruncate64");
  init();
  int x = r(fd, len);
  char p[512];
  if (logfd >= 0 && fdpath(fd, p, sizeof p) && wanted(p)) rec(OP_TRUNC, p, 0, (uint64_t)len, NULL);
  return x;
}
int ftruncate(int fd, off_t len) { return ftruncate64(fd, len); }
int unlink(const char *path) {
  static int (*r)(const char *);
  if (!r) r = dlsym(RTLD_NEXT, "unlink");
  init();
  if (strncmp(path, "/tcsmark/", 9) == 0) {
    rec(OP_MARK, path + 9, 0, 0, NULL);
    return -1;
  }
  int x = r(path);
  if (logfd >= 0 && x == 0 && wanted(path)) rec(OP_UNLINK, path, 0, 0, NULL);
  return x;
}
int rename(const char *a, const char *b) {
  static int (*r)(const char *, const char *);
  if (!r) r = dlsym(RTLD_NEXT, "rename");
  init();
  int x = r(a, b);
  if (logfd >= 0 && x == 0 && (wanted(a) || wanted(b))) {
    char both[1024];
    snprintf(both, sizeof both, "%s\n%s", a, b);
    rec(OP_RENAME, both, 0, 0, NULL);
  }
  return x;
}
