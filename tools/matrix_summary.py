#!/usr/bin/env python3
"""Summarise a seedmatrix output directory: which checks report which seeded change.
usage: matrix_summary.py <dir> > table.md      X = violation with a failing input, n = violation, no-failing-input-found, . = quiet, ? = infra error"""
import sys, os, re
d = sys.argv[1]
ids = [f'C{i:02d}' for i in range(1, 21)]
rows = []
for f in sorted(os.listdir(d), key=lambda x: (x.split('-')[0], int(re.sub(r'\D', '', x.split('-')[1].split('.')[0]) or 0)) if '-' in x else (x, 0)):
    if not f.endswith('.log'): continue
    name = f[:-4]
    txt = open(os.path.join(d, f)).read()
    cell = {}
    for i in ids:
        if re.search(r'VIOLATION property=%s .*no-failing-input-found' % i, txt): cell[i] = 'n'
        elif re.search(r'VIOLATION property=%s ' % i, txt): cell[i] = 'X'
        elif re.search(r'^\[%s\] ' % i, txt, re.M): cell[i] = '.'
        elif 'INFRA' in txt and not re.search(r'^\[%s\] ' % i, txt, re.M): cell[i] = '?'
        else: cell[i] = ' '
    rows.append((name, cell))
print('| change | ' + ' | '.join(i[1:] for i in ids) + ' | own | others |')
print('|---|' + '---|' * (len(ids) + 2))
tot_own = tot = 0
for name, cell in rows:
    own = name.split('-')[0]
    o = cell.get(own, ' ')
    others = sum(1 for i in ids if i != own and cell[i] in 'Xn')
    tot += 1; tot_own += o in 'Xn'
    print(f'| {name} | ' + ' | '.join(cell[i] for i in ids) + f' | {o} | {others} |')
print(f'\n{tot_own} of {tot} reported by the check of their own property.')
