#!/usr/bin/env python3
"""Confirm a seeded change in a scratch worktree (outside /repo and /verif): demo passes without the change,
the full suite passes with it, the demo fails with it. On success file it under /verif/seeded/<name>/."""
import sys, os, subprocess, json, re, shutil, time

def sh(cmd, cwd=None, timeout=3600):
    p = subprocess.run(cmd, cwd=cwd, shell=True, stdout=subprocess.PIPE, stderr=subprocess.STDOUT, timeout=timeout, env=dict(os.environ, CARGO_NET_OFFLINE='true'))
    return p.returncode, p.stdout.decode(errors='replace')

def main(src, name, prop, needs):
    src = os.path.abspath(src)
    wt = '/tmp/wt_confirm_' + name.replace('/', '_')
    sh(f'git -C /repo worktree remove --force {wt}')
    rc, out = sh(f'git -C /repo worktree add -q --detach {wt} HEAD')
    if rc: print(out); return 2
    res = {'property': prop, 'name': name, 'needs': needs, 'ran': []}
    try:
        sh(f'cp -r /repo/target {wt}/target')
        patch, demo = os.path.join(src, 'patch.diff'), os.path.join(src, 'demo.diff')
        rc, out = sh(f'git apply --check {patch}', cwd=wt)
        if rc: print('patch does not apply to HEAD:', out[:300]); res['status'] = 'patch-does-not-apply'; return finish(res, src, name, False)
        rc, out = sh(f'git apply {demo}', cwd=wt)
        if rc: print('demo does not apply:', out[:300]); res['status'] = 'demo-does-not-apply'; return finish(res, src, name, False)
        tests = re.findall(r'^\+\+\+ b/(\w+)/tests/(\w+)\.rs', open(demo).read(), re.M)
        crate = {'core': 'taskchampion-sync-server-core', 'sqlite': 'taskchampion-sync-server-storage-sqlite', 'server': 'taskchampion-sync-server'}
        cmds = [f'cargo test --offline -p {crate[c]} --test {t}' for c, t in tests]
        if not cmds: print('no demo test found'); res['status'] = 'no-demo'; return finish(res, src, name, False)
        for c in cmds:
            rc, out = sh(c, cwd=wt)
            res['ran'].append({'cmd': c, 'with_change': False, 'rc': rc})
            if rc: print('demo FAILS without the change:', out[-600:]); res['status'] = 'demo-fails-on-clean-tree'; return finish(res, src, name, False)
        rc, out = sh(f'git apply {patch}', cwd=wt)
        rc, out = sh('cargo test --workspace --offline', cwd=wt)
        res['ran'].append({'cmd': 'cargo test --workspace --offline', 'with_change': True, 'rc': rc})
        # the workspace run includes the demo (expected to fail); the EXISTING tests must pass:
        sh(f'git apply -R {demo}', cwd=wt)
        rc, out = sh('cargo test --workspace --offline', cwd=wt)
        res['ran'].append({'cmd': 'cargo test --workspace --offline (existing suite only)', 'with_change': True, 'rc': rc})
        if rc: print('existing suite FAILS with the change:', out[-600:]); res['status'] = 'suite-fails'; return finish(res, src, name, False)
        sh(f'git apply {demo}', cwd=wt)
        failed = False
        for c in cmds:
            rc, out = sh(c, cwd=wt)
            res['ran'].append({'cmd': c, 'with_change': True, 'rc': rc})
            failed = failed or rc != 0
        if not failed: print('demo PASSES with the change'); res['status'] = 'demo-passes-with-change'; return finish(res, src, name, False)
        res['status'] = 'confirmed'
        return finish(res, src, name, True)
    finally:
        sh(f'git -C /repo worktree remove --force {wt}')
        shutil.rmtree(wt, ignore_errors=True)

def finish(res, src, name, ok):
    print(name, res['status'])
    if ok:
        dst = os.path.join('/verif/seeded', name)
        os.makedirs(dst, exist_ok=True)
        for f in ('patch.diff', 'demo.diff', 'notes.md'):
            if os.path.exists(os.path.join(src, f)):
                shutil.copy(os.path.join(src, f), dst)
        res['confirmed_at_repo_head'] = subprocess.check_output(['git', '-C', '/repo', 'log', '-1', '--format=%h']).decode().strip()
        json.dump(res, open(os.path.join(dst, 'meta.json'), 'w'), indent=1)
    return 0 if ok else 1

if __name__ == '__main__':
    sys.exit(main(sys.argv[1], sys.argv[2], sys.argv[3], sys.argv[4] if len(sys.argv) > 4 else ''))
