#!/bin/bash
# run every check once (quick tier) and validate the evidence files
cd /verif
for i in 01 02 03 04 05 06 07 08 09 10 11 12 13 14 15 16 17 18 19 20; do
  ./check C$i ${1:+--tier $1} 2>&1 | grep -E "^\[C|VIOLATION|INFRA|KNOWN" | cut -c1-220
done
python3-vt - <<'PY'
import json,jsonschema,glob
sch=json.load(open('/root/.vp/EVIDENCE.schema.json'))
bad=0
for f in sorted(glob.glob('/verif/evidence/*.json')):
    try: jsonschema.validate(json.load(open(f)), sch)
    except Exception as e: bad+=1; print('INVALID',f,str(e)[:200])
print('evidence files valid' if not bad else f'{bad} invalid')
PY
