"""Translate the declarative part of server/src/bin/taskchampion-sync-server.rs – the clap argument definitions of
`command()`, the field wiring of `ServerArgs::new`, and what `main` hands to `ServerConfig`, `WebServer::new`,
`SqliteStorage::new` and `HttpServer::bind` – from /repo's CURRENT source into Lean data (Tcs/Generated/CliSrc.lean).
The tie theorems (Proofs/CliSrcTie.lean) state that this data is what the resolution model `resolve` / `httpCfgOf` /
`startup` (Model/Config.lean) was written for: flag and environment names, delimiters, append/required, defaults,
value types, and which resolved value goes where."""
import re, os, sys, json

REPO = '/repo'

def lstr(x):
    return '"' + x.replace('\\', '\\\\').replace('"', '\\"') + '"'

def balanced(src, i, open_ch='(', close_ch=')'):
    """src[i] is just after an opening bracket; returns index just after the matching close"""
    depth = 1; j = i; in_str = False
    while depth and j < len(src):
        ch = src[j]
        if in_str:
            if ch == '\\': j += 1
            elif ch == '"': in_str = False
        else:
            if ch == '"': in_str = True
            elif ch == open_ch: depth += 1
            elif ch == close_ch: depth -= 1
        j += 1
    return j

def strip_tests(src):
    i = src.find('#[cfg(test)]')
    return src if i < 0 else src[:i]

def fn_body(src, name):
    m = re.search(r'fn\s+' + re.escape(name) + r'\b[^({;]*\(', src)
    if not m: raise ValueError(f'fn {name} not found')
    j = balanced(src, m.end())
    k = src.index('{', j)
    return src[k + 1:balanced(src, k + 1, '{', '}') - 1]

def parse_args(body, defaults):
    out = []
    for m in re.finditer(r'\.arg\s*\(', body):
        j = balanced(body, m.end())
        chain = body[m.end():j - 1]
        a = re.search(r'arg!\s*\(', chain)
        if not a: raise ValueError('arg without arg! macro')
        aj = balanced(chain, a.end())
        spec = chain[a.end():aj - 1]
        short = re.search(r'(?<![\w-])-(\w)\b', spec.split('--')[0] + ' ')
        lm = re.search(r'--\s*"?([\w-]+)"?', spec)
        if not lm: raise ValueError(f'no long name in {spec!r}')
        rest = chain[aj:]
        env = re.search(r'\.env\s*\(\s*"([^"]*)"\s*\)', rest)
        delim = re.search(r"\.value_delimiter\s*\(\s*'(.)'\s*\)", rest)
        action = re.search(r'\.action\s*\(\s*ArgAction::(\w+)\s*\)', rest)
        req = re.search(r'\.required\s*\(\s*(true|false)\s*\)', rest)
        dv = re.search(r'\.default_value\s*\(\s*([^)]*?)\s*\)', rest)
        vp = re.search(r'\.value_parser\s*\(', rest)
        parser = 'string'
        if vp:
            pj = balanced(rest, vp.end())
            ptxt = re.sub(r'\s+', '', rest[vp.end():pj - 1])
            parser = {'ValueParser::string()': 'string', 'ValueParser::os_string()': 'os_string'}.get(ptxt) or (re.fullmatch(r'value_parser!\((\w+)\)', ptxt).group(1) if re.fullmatch(r'value_parser!\((\w+)\)', ptxt) else ptxt)
        default = None
        if dv:
            d = dv.group(1).strip()
            if d.startswith('"'):
                default = d.strip('"')
            elif d in defaults:
                default = defaults[d]
            else:
                default = 'expr:' + d
        out.append({'long': lm.group(1), 'short': short.group(1) if short else None, 'env': env.group(1) if env else None,
                    'delimiter': delim.group(1) if delim else None, 'append': bool(action and action.group(1) == 'Append'),
                    'required': bool(req and req.group(1) == 'true'), 'default': default, 'parser': parser})
    return out

def default_bindings(body):
    """`let default_snapshot_versions = defaults.snapshot_versions.to_string();` -> name -> 'ServerConfig::default().snapshot_versions'"""
    out = {}
    dv = None
    m = re.search(r'let\s+(\w+)\s*=\s*ServerConfig::default\(\)\s*;', body)
    if m: dv = m.group(1)
    for n, base, field in re.findall(r'let\s+(\w+)\s*=\s*(\w+)\.(\w+)\.to_string\(\)\s*;', body):
        if base == dv:
            out[n] = 'ServerConfig::default().' + field
    return out

def _subst(body, name, expr):
    """replace the local `name` by `expr` where it is used as a value (not `.name`, not `::name`, not the field name of
    `name: …`, not a binder `let name` / `for name in` / `|name|`)"""
    return re.sub(r'(?<![\w.:|])(?<!let )(?<!for )(?<!mut )' + re.escape(name) + r'\b(?!\s*:(?!:))(?!\s*\()(?!\s*\|)', lambda _m: expr, body)

def _expand_shorthand(body):
    """`ServerConfig { snapshot_days, snapshot_versions: v }` -> every field written as `field: value`"""
    def fix(m):
        fields = []
        for f in split_top(m.group(2)):
            f = f.strip()
            if not f: continue
            fields.append(f'{f}: {f}' if re.fullmatch(r'\w+', f) else f)
        return m.group(1) + '{ ' + ', '.join(fields) + ' }'
    return re.sub(r'(?<!let )(\b(?:ServerConfig|ServerArgs|Self)\s*)\{([^{}]*)\}', fix, body)

_SIMPLE = [r'\w+', r'\w+\.\w+', r'SqliteStorage::new\(\s*[\w.]+\s*\)\s*\?', r'\*?\s*matches\s*\.[^;{}]*']

def inline_locals(body, keep=()):
    """Data flow through immutable locals, by substitution: `let ServerArgs { a, b: c, .. } = x;` binds a ↦ x.a, c ↦ x.b;
    `let n = e;` with a side-effect-free or single-use `e` of the shapes in _SIMPLE binds n ↦ e. The result is the body with
    those bindings removed and every use replaced – the direct shape the wiring is read from. (`let mut`, bindings whose
    value is anything else, and names in `keep` are left alone.)"""
    for _ in range(40):
        m = re.search(r'let\s+(?:\w+::)*[A-Z]\w*\s*\{([^{}]*)\}\s*=\s*(\w+|ServerArgs::new\(\s*matches\s*\))\s*;', body)
        if m:
            rest = body[m.end():]
            srcname = m.group(2) if re.fullmatch(r'\w+', m.group(2)) else 'server_args'
            for f in split_top(m.group(1)):
                f = f.strip()
                if not f or f == '..': continue
                fld, loc = ([x.strip() for x in f.split(':', 1)] if ':' in f else (f, f))
                if not re.fullmatch(r'\w+', loc): raise ValueError('nested destructuring')
                rest = _subst(_expand_shorthand(rest), loc, f'{srcname}.{fld}')
            body = body[:m.start()] + rest
            continue
        body = _expand_shorthand(body)
        for m in re.finditer(r'let\s+(\w+)\s*(?::[^=;]+)?=\s*([^;]+);', body):
            name, expr = m.group(1), m.group(2).strip()
            if name in keep or name == 'mut' or not any(re.fullmatch(p, expr, re.S) for p in _SIMPLE):
                continue
            body = body[:m.start()] + _subst(body[m.end():], name, expr)
            break
        else:
            return body
    raise ValueError('local bindings do not settle')

def wiring(src):
    w = []
    nb = inline_locals(fn_body(src[src.index('impl ServerArgs'):], 'new'), keep=('matches',))
    for field, expr in re.findall(r'(\w+)\s*:\s*\*?\s*matches\s*\.\s*(get_one|get_many)[^"]*"([\w-]+)"', nb) and \
            [(f, k) for f, _, k in re.findall(r'(\w+)\s*:\s*\*?\s*matches\s*\.\s*(get_one|get_many)[^"]*"([\w-]+)"', nb)]:
        w.append((f'ServerArgs.{field}', f'arg:{expr}'))
    mb = fn_body(src, 'main')
    # the name of the local that holds the parsed arguments is not part of the wiring: it is called `server_args` here
    m = re.search(r'let\s+(\w+)\s*(?::\s*ServerArgs\s*)?=\s*ServerArgs::new\(\s*matches\s*\)\s*;', mb)
    if m and m.group(1) != 'server_args':
        if re.search(r'\bserver_args\b', mb): raise ValueError('two names for the parsed arguments')
        mb = mb[:m.start()] + 'let server_args = ServerArgs::new(matches);' + _subst(mb[m.end():], m.group(1), 'server_args')
    mb = inline_locals(mb, keep=('matches', 'server_args', 'config', 'server', 'http_server'))
    # the translator reads the wiring off ONE function body; a `main` that delegates the construction to helpers is beyond
    # it (it would need data flow through parameters): say so, and leave the wiring to the runs of the real executable
    if not re.search(r'WebServer::new\s*\(', mb) or not re.search(r'\.bind\s*\(', mb):
        raise ValueError('main does not construct the WebServer and bind the addresses itself')
    m = re.search(r'ServerConfig\s*\{([^}]*)\}', mb)
    if m:
        for f, e in re.findall(r'(\w+)\s*:\s*([\w.:()]+)', m.group(1)):
            w.append((f'ServerConfig.{f}', re.sub(r'\s+', '', e)))
    else:
        m2 = re.search(r'let\s+config\s*=\s*([^;]+);', mb)
        w.append(('ServerConfig', re.sub(r'\s+', '', m2.group(1)) if m2 else '?'))
    m = re.search(r'WebServer::new\s*\(', mb)
    if m:
        j = balanced(mb, m.end())
        args = [re.sub(r'\s+', '', a) for a in split_top(mb[m.end():j - 1])]
        for k, a in enumerate(args):
            w.append((f'WebServer::new.{k}', a))
    m = re.search(r'for\s+(\w+)\s+in\s+([\w.]+)\s*\{', mb)
    if m:
        lb = mb[m.end():balanced(mb, m.end(), '{', '}') - 1]
        b = re.search(r'\.bind\s*\(\s*(\w+)\s*\)\s*(\?)?', lb)
        w.append(('bind', f'each:{m.group(2)}:{"?" if b and b.group(2) else "no-?"}' if b and b.group(1) == m.group(1) else 'loop-without-bind'))
    else:
        b = re.search(r'\.bind\s*\(([^)]*)\)\s*(\?)?', mb)
        w.append(('bind', 'single-call:' + (re.sub(r'\s+', '', b.group(1)) if b else '?')))
    # the wiring is a finite map (which source feeds which field / parameter): the ORDER in which a struct literal lists its
    # fields is not part of it
    # shapes the translator understands (anything else - values passed through locals, destructuring - needs data flow)
    d = dict(w)
    ok = (sum(1 for k, v in w if k.startswith('ServerArgs.') and v.startswith('arg:')) == 5
          and all(re.fullmatch(r'\w+\.\w+', v) for k, v in w if k.startswith('ServerConfig.'))
          and re.fullmatch(r'\w+', d.get('WebServer::new.0', '')) and re.fullmatch(r'\w+\.\w+', d.get('WebServer::new.1', ''))
          and re.fullmatch(r'SqliteStorage::new\(\w+\.\w+\)\?', d.get('WebServer::new.2', ''))
          and re.fullmatch(r'each:\w+\.\w+:\??(no-\?)?', d.get('bind', '')))
    if not ok:
        raise ValueError('the wiring goes through locals or destructuring (beyond this translator)')
    return sorted(w)

def split_top(s):
    out, depth, cur = [], 0, ''
    for ch in s:
        if ch in '([{': depth += 1
        elif ch in ')]}': depth -= 1
        if ch == ',' and depth == 0:
            out.append(cur); cur = ''
        else:
            cur += ch
    if cur.strip(): out.append(cur)
    return out

STATED_ARGS = [
 {'long': 'listen', 'short': 'l', 'env': 'LISTEN', 'delimiter': ',', 'append': True, 'required': True, 'default': None, 'parser': 'string'},
 {'long': 'data-dir', 'short': 'd', 'env': 'DATA_DIR', 'delimiter': None, 'append': False, 'required': False, 'default': '/var/lib/taskchampion-sync-server', 'parser': 'os_string'},
 {'long': 'allow-client-id', 'short': 'C', 'env': 'CLIENT_ID', 'delimiter': ',', 'append': True, 'required': False, 'default': None, 'parser': 'Uuid'},
 {'long': 'snapshot-versions', 'short': None, 'env': 'SNAPSHOT_VERSIONS', 'delimiter': None, 'append': False, 'required': False, 'default': 'ServerConfig::default().snapshot_versions', 'parser': 'u32'},
 {'long': 'snapshot-days', 'short': None, 'env': 'SNAPSHOT_DAYS', 'delimiter': None, 'append': False, 'required': False, 'default': 'ServerConfig::default().snapshot_days', 'parser': 'i64'},
]
STATED_WIRING = sorted([
 ('ServerArgs.data_dir', 'arg:data-dir'), ('ServerArgs.snapshot_versions', 'arg:snapshot-versions'), ('ServerArgs.snapshot_days', 'arg:snapshot-days'),
 ('ServerArgs.client_id_allowlist', 'arg:allow-client-id'), ('ServerArgs.listen_addresses', 'arg:listen'),
 ('ServerConfig.snapshot_days', 'server_args.snapshot_days'), ('ServerConfig.snapshot_versions', 'server_args.snapshot_versions'),
 ('WebServer::new.0', 'config'), ('WebServer::new.1', 'server_args.client_id_allowlist'), ('WebServer::new.2', 'SqliteStorage::new(server_args.data_dir)?'),
 ('bind', 'each:server_args.listen_addresses:?'),
])

def extract():
    source = {}
    try:
        src = strip_tests(re.sub(r'//[^\n]*', '', open(os.path.join(REPO, 'server/src/bin/taskchampion-sync-server.rs')).read()))
        cb = fn_body(src, 'command')
        args = parse_args(cb, default_bindings(cb)); source['args'] = 'translated'
    except Exception as e:
        args = STATED_ARGS; source['args'] = f'not-translated ({e}); behavioural correspondence only'
    try:
        w = wiring(src); source['wiring'] = 'translated'
    except Exception as e:
        w = STATED_WIRING; source['wiring'] = f'not-translated ({e}); behavioural correspondence only'
    return args, w, source

def render(args, w):
    def opt(x, f=lstr): return 'none' if x is None else f'(some {f(x)})'
    def ch(c): return f"'{c}'"
    L = ["/- GENERATED by tools/clap2lean.py from /repo's current server/src/bin/taskchampion-sync-server.rs on every check run. Do not edit. -/",
         'import Tcs.Model.CliSpec', 'namespace Tcs', 'namespace CliSrc', 'def args : List ArgSpec :=', '  [']
    L.append(',\n'.join(f"    {{ long := {lstr(a['long'])}, short := {opt(a['short'], ch)}, env := {opt(a['env'])}, delimiter := {opt(a['delimiter'], ch)}, append := {str(a['append']).lower()}, required := {str(a['required']).lower()}, default := {opt(a['default'])}, parser := {lstr(a['parser'])} }}" for a in args))
    L += ['  ]', 'def wiring : List (String × String) :=', '  [' + ', '.join(f'({lstr(a)}, {lstr(b)})' for a, b in w) + ']', 'end CliSrc', 'end Tcs', '']
    return '\n'.join(L)

def extract_and_write(path):
    args, w, source = extract()
    txt = render(args, w)
    os.makedirs(os.path.dirname(path), exist_ok=True)
    old = open(path).read() if os.path.exists(path) else None
    if old != txt:
        open(path, 'w').write(txt)
    return {'source': source, 'differs_from_stated': {'args': args != STATED_ARGS, 'wiring': [tuple(x) for x in w] != STATED_WIRING}}

if __name__ == '__main__':
    print(json.dumps(extract_and_write(sys.argv[1] if len(sys.argv) > 1 else '/verif/lean/Tcs/Generated/CliSrc.lean'), indent=1))
