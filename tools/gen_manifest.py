#!/usr/bin/env python3
"""Regenerate MANIFEST.json from tools/props.py so that the two never disagree."""
import json, os, sys
sys.path.insert(0, os.path.dirname(os.path.abspath(__file__)))
import props
ALL = [json.loads(l)['id'] for l in open('/verif/properties.jsonl')]
import manifest_text
TEXT = {k: {'text': v[0], 'design_ref': 'DESIGN.md section ' + v[1], 'note': manifest_text.COMMON_NOTE, 'technique': manifest_text.TECH} for k, v in manifest_text.T.items()}
checks, na = [], []
for pid in ALL:
    if pid in props.PROPS and not props.PROPS[pid].get('unclaimed'):
        sp = props.PROPS[pid]
        t = TEXT.get(pid, {})
        proof = len(sp['theorems']) > 0
        c = {
            'property_id': pid,
            'quick_cmd': f'./check {pid} --tier quick',
            'thorough_cmd': f'./check {pid} --tier thorough',
            'evidence_file': f'/verif/evidence/{pid}.json',
            'replay_cmd_template': f'./check {pid} --replay {{path}}',
            'engine': 'lean4-model+correspondence',
            'level_claimed': {'category': sp['level'] if proof else 'exploration',
                              'text': t.get('text', '') if proof else 'theorems for this property are not registered yet: differential check of the Lean model against the implementation plus an independent property oracle on implementation traces',
                              'design_ref': t.get('design_ref', f'DESIGN.md section 5, {pid}')},
            'level_note': t.get('note', 'Lean kernel + axioms propext/Classical.choice/Quot.sound; hand-written model tied to the code by the correspondence check of every run; see DESIGN.md section 4'),
            'technique': t.get('technique', 'Lean 4 theorems over a hand-written model + differential correspondence check against the Rust implementation + independent oracle'),
        }
        checks.append(c)
    else:
        na.append({'property_id': pid, 'reason': TEXT.get(pid, {}).get('na_reason', 'not claimed yet: the check for this property is still being built (see DESIGN.md section 9 for the order of work)')})
m = {
    'version': 1,
    'setup_cmd': './setup.sh',
    'hooks': {'guard': '--cfg tcss_verif', 'enable': 'no source hooks are needed: the harness wraps the public Storage trait and drives the public Server/WebServer API (DESIGN.md 3.2)',
              'baseline_off_cmd': 'cd /repo && cargo test --workspace --no-fail-fast --offline', 'source_commits': [], 'add_only': True},
    'engines': [{'name': 'lean4-model+correspondence', 'path': '/verif/lean', 'serves_properties': [c['property_id'] for c in checks],
                 'kind_free_text': 'Lean 4 model + theorems (lean/Tcs), native line-protocol driver (lean/Driver), Rust harness over the real crates (harness/), Python comparator and oracles (tools/)'}],
    'checks': checks,
    'not_applicable': na,
    'notes': 'All checks: ./check <id>. Findings: known_findings.json. Design: DESIGN.md.',
}
json.dump(m, open('/verif/MANIFEST.json', 'w'), indent=1)
print(f'{len(checks)} checks, {len(na)} not claimed')
