"""Per-property specification: theorems (proof obligations), correspondence plan, owned scope tags, oracles."""
import os, json, time, collections
from tcslib import *
import oracles as O

TRUSTED = [
    "Lean 4.33.0 kernel; axioms limited to propext, Classical.choice, Quot.sound (audited per theorem with #print axioms)",
    "hand-written Lean model (lean/Tcs/Model) of the Rust code; tied to /repo only by the correspondence check of this run",
    "the harness (harness/), the comparator and oracles (tools/), the Lean driver (lean/Driver)",
    "SQLite, rusqlite, std::sync::Mutex, HashMap, actix-web, uuid, chrono, clap are modelled, not verified (DESIGN.md section 4)",
    "Fresh: server-drawn version ids (Uuid::new_v4) are non-nil and never repeat",
]

def hist(profile, n, setups, **kw):
    a = {'profile': profile, 'setups': setups}
    a.update(kw)
    return {'scen': 'hist', 'args': a, 'n': n}

ALL3 = 'mem:lib,sql:lib,sqlre:lib'
LIBHTTP = 'mem:lib,sql:lib,sqlre:lib,mem:http,sql:http'

PROPS = {}

def relabel(orc, sentence):
    """an oracle of another property, evaluated for this one (its failures are reported under this property's sentence)"""
    def f(run):
        out = []
        for x in orc(run):
            x = dict(x)
            x['sentence'] = sentence + ' [' + x.get('sentence', '') + ']'
            out.append(x)
        return out
    return f

def relabel_if(orc, sentence, words):
    """as relabel, keeping only the failures whose own sentence mentions one of `words`"""
    def f(run):
        out = []
        for x in orc(run):
            if any(w in x.get('sentence', '') for w in words):
                x = dict(x)
                x['sentence'] = sentence + ' [' + x.get('sentence', '') + ']'
                out.append(x)
        return out
    return f

def sched(n, **kw):
    return {'scen': 'sched', 'args': dict(kw), 'n': n}

def grammar(n, per, **kw):
    a = {'per': per}
    a.update(kw)
    return {'scen': 'grammar', 'args': a, 'n': n}

def P(pid, **kw):
    kw.setdefault('module', f'Tcs.Props.{pid}')
    kw.setdefault('theorems', [])
    kw.setdefault('owned', set())
    kw.setdefault('oracles', [])
    kw.setdefault('aligned', [])       # list of (setupA, setupB, sentence)
    kw.setdefault('level', 'proof')
    PROPS[pid] = kw

P('C01', theorems=['Tcs.C01_stored_eq_accepted', 'Tcs.C01_no_shared_parent', 'Tcs.C01_chain_walk', 'Tcs.C01_chain_walk_sql', 'Tcs.C01_chain_walk_mem'],
  owned={'av.kind', 'av.id', 'av.latest', 'gcv.kind', 'gcv.ids', 'gcv.payload', 'dump.own.latest', 'dump.own.versions', 'dump.own.children', 'dump.other.latest', 'dump.other.versions', 'dump.other.children'},
  oracles=[O.o_c01, relabel(O.o_c03, 'C01: no two versions share a parent and every accepted version stays on the chain, also when requests overlap')],
  plan={'quick': [hist('default', 260, LIBHTTP), sched(60, mix='av', corpus='0'), sched(24, mix='av', corpus='0', probe='1')], 'thorough': [hist('default', 4000, LIBHTTP), hist('long', 600, LIBHTTP), sched(1500, mix='av', corpus='0'), sched(200, mix='av', corpus='0', probe='1')]})
P('C02', needs_binary=True, theorems=['Tcs.C02_spec', 'Tcs.C02_atomic_compare_append', 'Tcs.C02_new_id_never_issued'],
  owned={'av.kind', 'av.id', 'av.latest', 'dump.own.latest', 'dump.own.versions', 'dump.own.children', 'dump.own.since', 'http.status.av', 'http.headers.av'},
  oracles=[O.o_c02, O.o_c02_bin, relabel(O.o_c03, 'C02: an AddVersion is accepted exactly when its parent is the latest version at that moment, also when requests overlap')],
  plan={'quick': [hist('default', 220, LIBHTTP), sched(60, mix='av', corpus='0'), {'scen': 'py:c17', 'args': {}, 'n': 12, 'shards': 6}], 'thorough': [hist('default', 4000, LIBHTTP), sched(1500, mix='av', corpus='0'), {'scen': 'py:c17', 'args': {}, 'n': 60, 'shards': 12}]})
P('C07', needs_binary=True, theorems=['Tcs.C07_immutable', 'Tcs.C07_prefix', 'Tcs.C07_immutable_sql', 'Tcs.C07_immutable_mem'],
  owned={'gcv.kind', 'gcv.ids', 'gcv.payload'},
  oracles=[O.o_c07, relabel(O.o_c03, 'C07: a version, once accepted, is returned unchanged by every later GetChildVersion of its parent, also when requests overlap'), relabel(O.o_c04_bin, 'C07: a version, once accepted, is returned by every later GetChildVersion of its parent - also after the real executable was killed under load and restarted')],
  plan={'quick': [hist('c07', 220, LIBHTTP), sched(60, mix='gcvav', corpus='0'), sched(24, mix='av', corpus='0', probe='1'), {'scen': 'py:c17', 'args': {'mode': 'crashbin'}, 'n': 3, 'shards': 3}],
        'thorough': [hist('c07deep', 2500, LIBHTTP), sched(1500, mix='gcvav', corpus='0'), sched(200, mix='av', corpus='0', probe='1'), {'scen': 'py:c17', 'args': {'mode': 'crashbin'}, 'n': 24, 'shards': 8}]})
P('C08', theorems=['Tcs.C08_decision', 'Tcs.C08_matches_add_version', 'Tcs.C08_found_is_the_child', 'Tcs.C08_latest_not_found', 'Tcs.C08_on_backend'],
  owned={'gcv.kind', 'av.kind', 'http.status.gcv', 'http.status.av'},
  oracles=[O.o_c08, relabel(O.o_c03, 'C08: GetChildVersion answers not-found / gone exactly as an AddVersion at that moment would be accepted / rejected, also when requests overlap')],
  plan={'quick': [hist('c08', 220, LIBHTTP), sched(60, mix='gcvav', corpus='0')], 'thorough': [hist('c08', 3000, LIBHTTP), sched(1500, mix='gcvav', corpus='0')]})
P('C10', theorems=['Tcs.C10_latest_accepted_any_window', 'Tcs.C10_off_chain_declined_any_window', 'Tcs.C10_accept_iff', 'Tcs.C10_window_five', 'Tcs.C10_told_success', 'Tcs.C10_effect', 'Tcs.C10_on_chain', 'Tcs.C10_moves_forward', 'Tcs.C10_anc_grows', 'Tcs.C10_on_backend'],
  owned={'snap.accept', 'dump.own.snap', 'dump.own.since', 'dump.own.ts', 'dump.own.data', 'as.kind'},
  oracles=[O.o_c10, relabel(O.o_c03, 'C10: a snapshot is accepted exactly when the four conditions hold at that moment and the stored snapshot only moves forward, also when requests overlap')],
  plan={'quick': [hist('c10', 260, 'mem:lib,sql:lib,sql:http'), sched(120, mix='asav', corpus='0', minprefill='3')],
        'thorough': [hist('c10', 5000, 'mem:lib,sql:lib,sql:http'), sched(1500, mix='asav', corpus='0', minprefill='3')]})
P('C11', theorems=['Tcs.asRunH_lastSnap', 'Tcs.C11_latest_snapshot', 'Tcs.C11_usable_base', 'Tcs.walkOuts_from_base', 'Tcs.C10_latest_accepted_any_window', 'Tcs.C10_moves_forward'],
  owned={'snap.vid', 'snap.payload', 'gs.kind', 'gcv.kind'},
  oracles=[O.o_c11, relabel(O.o_c03, 'C11: GetSnapshot returns the most recently accepted snapshot, also with AddSnapshot overlapping GetSnapshot, AddVersion and other AddSnapshots under the controlled scheduler')],
  plan={'quick': [hist('c11', 220, LIBHTTP), sched(120, mix='asav', corpus='0', minprefill='3')], 'thorough': [hist('c11', 4000, LIBHTTP), sched(1500, mix='asav', corpus='0', minprefill='3')]})
P('C09', theorems=['Tcs.C09_frame', 'Tcs.C09_own_record_only', 'Tcs.asRunH_projection', 'Tcs.fresh_filter', 'Tcs.C09_noninterference', 'Tcs.C09_noninterference_sql', 'Tcs.C09_noninterference_mem', 'Tcs.C09_others_cannot_change'],
  owned={'av.kind', 'av.latest', 'gcv.kind', 'gcv.ids', 'gcv.payload', 'snap.accept', 'snap.vid', 'snap.payload', 'gs.kind', 'as.kind', 'state.dump'},
  oracles=[O.o_c09_frame], proj=True,
  plan={'quick': [hist('c09', 200, 'mem:lib,sql:lib,sql:http', proj='1'), hist('c09', 60, 'sqlre:lib')], 'thorough': [hist('c09', 3000, 'mem:lib,sql:lib,sql:http', proj='1'), hist('c09', 1000, 'sqlre:lib')]})
P('C13', theorems=['Tcs.C13_any_two_backends', 'Tcs.C13_backends_agree', 'Tcs.C13_no_storage_error', 'Tcs.C13_reopen'],
  owned={'av.kind', 'av.latest', 'av.urgency', 'gcv.kind', 'gcv.ids', 'gcv.payload', 'snap.accept', 'snap.vid', 'snap.payload', 'gs.kind', 'as.kind', 'state.dump'},
  oracles=[O.o_c13_max],
  aligned=[('mem:lib', 'sql:lib', 'C13: the same request history yields the same responses on every storage backend'),
           ('sql:lib', 'sqlre:lib', 'C13: closing and reopening the database between any two requests changes no later response')],
  plan={'quick': [hist('c13', 260, ALL3), {'scen': 'maxrow', 'args': {}, 'n': 2, 'shards': 2}, {'scen': 'urgency', 'args': {'shards': 8}, 'n': 8, 'shards': 8}], 'thorough': [hist('c13', 6000, ALL3), hist('long', 500, ALL3), {'scen': 'maxrow', 'args': {}, 'n': 8, 'shards': 4}, {'scen': 'urgency', 'args': {'shards': 16, 'dense': '1'}, 'n': 16, 'shards': 16}]})
P('C18', theorems=['Tcs.C18_spec', 'Tcs.C18_no_id', 'Tcs.C18_noop', 'Tcs.C18_tables', 'Tcs.C18_tables_sql', 'Tcs.C18_tables_mem', 'Tcs.readsPure_sql', 'Tcs.readsPure_mem', 'Tcs.run_readOnly', 'Tcs.C10_off_chain_declined_any_window'],
  owned={'noop.dump'},
  oracles=[O.o_c18, relabel(O.o_c15, 'C18: any refused request leaves every client\'s stored state exactly as it was')],
  plan={'quick': [hist('default', 220, LIBHTTP), grammar(6, 120, lists='none,one'), {'scen': 'urgency', 'args': {'shards': 8}, 'n': 8, 'shards': 8}], 'thorough': [hist('default', 4000, LIBHTTP), grammar(60, 300, lists='none,one,many'), {'scen': 'urgency', 'args': {'shards': 16, 'dense': '1'}, 'n': 16, 'shards': 16}]})

P('C03', theorems=['Tcs.C03_linearizable_partial', 'Tcs.C03_library_linearizable', 'Tcs.C03_linearizable_core', 'Tcs.C03MixEx.C03_mix_not_linearizable', 'Tcs.C03_from_init', 'Tcs.C03_no_overlap_5xx', 'Tcs.C03_no_double_accept', 'Tcs.C03Ex.C03_relaxation_needed',
                   'Tcs.C03_http_run', 'Tcs.C03_http_responses', 'Tcs.C03_library_step', 'Tcs.machine_linearizable', 'Tcs.runinv_run', 'Tcs.arel_step', 'Tcs.linrel_step', 'Tcs.C03_reduction_prefix',
                   'Tcs.red_step', 'Tcs.C03_reduction', 'Tcs.C03_reduction_sublist', 'Tcs.red_init', 'Tcs.red_resp', 'Tcs.red_db'],
  module='Tcs.Props.C03Http',
  owned={'conc.trace', 'conc.resp', 'dump.own', 'dump.other'},
  oracles=[O.o_c03, O.o_overlap_done],
  plan={'quick': [{'scen': 'sched', 'args': {}, 'n': 180}, {'scen': 'sched', 'args': {'probe': '1', 'corpus': '0'}, 'n': 24}, {'scen': 'overlap', 'args': {}, 'n': 8}], 'thorough': [{'scen': 'sched', 'args': {}, 'n': 4000}, {'scen': 'sched', 'args': {'probe': '1', 'corpus': '0'}, 'n': 300}]})
P('C04', needs_binary=True, theorems=['Tcs.C04_atomic', 'Tcs.C04_ack_durable', 'Tcs.C04_ack_after_commit', 'Tcs.C04_sql_commit', 'Tcs.C04_ack_or_error', 'Tcs.C04_ack_before_crash', 'Tcs.crash_state_between_txns', 'Tcs.allCommitLast_serve'],
  owned={'av.kind', 'as.kind', 'http.status.av', 'http.status.as', 'http.headers.av', 'snap.accept', 'state.dump'},
  oracles=[O.o_c04, O.o_c04_bin],
  plan={'quick': [{'scen': 'crash', 'args': {}, 'n': 8}, {'scen': 'py:c17', 'args': {'mode': 'crashbin'}, 'n': 3, 'shards': 3}],
        'thorough': [{'scen': 'crash', 'args': {'subsets': 10}, 'n': 60}, {'scen': 'crash', 'args': {'big': '1'}, 'n': 6}, {'scen': 'py:c17', 'args': {'mode': 'crashbin'}, 'n': 40, 'shards': 8}]})
P('C17', theorems=['Tcs.C17_flag_over_env', 'Tcs.C17_resolve_ignores_env_when_flags', 'Tcs.C17_env_used_when_no_flag', 'Tcs.C17_defaults', 'Tcs.C17_listen_required', 'Tcs.C17_listen_all', 'Tcs.C17_allowlist_exact', 'Tcs.C17_wiring', 'Tcs.C17_listen_all_or_nothing'], needs_binary=True,
  owned={'cfg.start', 'cfg.listen', 'cfg.dir', 'cfg.restart', 'http.status', 'http.urgency', 'http.headers'},
  oracles=[O.o_c17],
  plan={'quick': [{'scen': 'py:c17', 'args': {}, 'n': 24, 'shards': 8}], 'thorough': [{'scen': 'py:c17', 'args': {}, 'n': 300, 'shards': 12}]})
P('C19', theorems=['Tcs.C19_row_roundtrip', 'Tcs.C19_encode_injective', 'Tcs.hyphenated_length', 'Tcs.hyphenated_hyphens', 'Tcs.hyphenated_lower', 'Tcs.parse_hyphenated', 'Tcs.hyphenated_inj', 'Tcs.parseUuid_lt'],
  module='Tcs.Proofs.RowProofs',
  owned={'fixture.decode', 'state.dump', 'gcv.kind', 'gcv.ids', 'gcv.payload', 'http.status', 'http.headers', 'http.body', 'av.kind'},
  oracles=[O.o_c19],
  plan={'quick': [{'scen': 'fixture', 'args': {'shards': 4}, 'n': 4, 'shards': 4}], 'thorough': [{'scen': 'fixture', 'args': {'shards': 7}, 'n': 7, 'shards': 7}]})
P('C05', theorems=['Tcs.fault_safety', 'Tcs.runF_noFault', 'Tcs.commitId_sql', 'Tcs.commitLast_getChildVersion', 'Tcs.commitLast_addVersion', 'Tcs.commitLast_addSnapshot', 'Tcs.commitLast_getSnapshot', 'Tcs.commitLast_ensureFixed', 'Tcs.single_txn_fault', 'Tcs.allCommitLast_req', 'Tcs.allCommitLast_serve', 'Tcs.reqRunF_noFault', 'Tcs.crash_state_between_txns'],
  module='Tcs.Proofs.ReqFault',
  owned={'av.kind', 'gcv.kind', 'as.kind', 'gs.kind', 'http.status', 'state.dump', 'fault.consumed'},
  oracles=[O.o_c05],
  plan={'quick': [{'scen': 'fault', 'args': {}, 'n': 24}], 'thorough': [{'scen': 'fault', 'args': {}, 'n': 400}, {'scen': 'fault', 'args': {'double': '1'}, 'n': 200}]})
P('C12', needs_binary=True, theorems=['Tcs.asRunH_countSince', 'Tcs.C12_counter', 'Tcs.C12_only_inputs', 'Tcs.C12_levels', 'Tcs.C12_thresholds_ordered', 'Tcs.C12_monotone', 'Tcs.C12_no_overflow', 'Tcs.C12_meets_spec', 'Tcs.C12_pinned_overflow', 'Tcs.C12_fix_conservative'],
  owned={'av.urgency', 'http.urgency.av', 'dump.own.since', 'av.kind'},
  oracles=[O.o_c12_urgency, O.o_c12_counter, relabel_if(O.o_c17, 'C12: the urgency is determined by the CONFIGURED targets, including 0 - as the real executable takes them from its flags and environment', ['snapshot targets'])],
  plan={'quick': [{'scen': 'urgency', 'args': {'shards': 8}, 'n': 8, 'shards': 8}, hist('c10', 60, 'mem:lib,sql:lib,sql:http'), {'scen': 'py:c17', 'args': {}, 'n': 18, 'shards': 6}],
        'thorough': [{'scen': 'urgency', 'args': {'shards': 16, 'dense': '1'}, 'n': 16, 'shards': 16}, hist('c10', 2000, 'mem:lib,sql:lib,sql:http'), {'scen': 'py:c17', 'args': {}, 'n': 120, 'shards': 12}]})
P('C14', needs_binary=True, theorems=['Tcs.C14_decode_respond', 'Tcs.C14_handler_uses_respond', 'Tcs.C14_table', 'Tcs.C14_respond_injective', 'Tcs.serve_factor'],
  owned={'http.status.av', 'http.status.gcv', 'http.status.as', 'http.status.gs', 'http.headers.av', 'http.headers.gcv', 'http.headers.as', 'http.headers.gs', 'http.urgency.av', 'http.ctype.gcv', 'http.ctype.gs', 'http.body.gcv', 'http.body.gs'},
  oracles=[O.o_c14_table, O.o_c14_unseen],
  aligned=[('mem:http', 'mem:lib', 'C14: every HTTP response decodes to exactly the library outcome of the same request on a twin storage'),
           ('sql:http', 'sql:lib', 'C14: every HTTP response decodes to exactly the library outcome of the same request on a twin storage')],
  plan={'quick': [hist('default', 200, 'mem:http,mem:lib,sql:http,sql:lib'), hist('mid', 8, 'mem:http,mem:lib'), grammar(8, 120, wf='1', lists='none'), grammar(6, 120, lists='none'), {'scen': 'py:c17', 'args': {}, 'n': 12, 'shards': 6}],
        'thorough': [hist('default', 3000, 'mem:http,mem:lib,sql:http,sql:lib'), hist('mid', 120, 'mem:http,mem:lib,sql:http,sql:lib'), grammar(64, 300, wf='1', lists='none'), grammar(40, 300, lists='none'), {'scen': 'py:c17', 'args': {}, 'n': 60, 'shards': 12}]})
P('C15', needs_binary=True, theorems=['Tcs.C15_refused', 'Tcs.C15_unknown_route', 'Tcs.C15_refused_no_storage', 'Tcs.C15_limit_inclusive', 'Tcs.C15_oversized', 'Tcs.C15_no_5xx', 'Tcs.serve_factor'],
  owned={'http.status', 'noop.dump', 'calls.txns'},
  oracles=[O.o_c15, O.o_c15_bin],
  plan={'quick': [grammar(16, 160, lists='none,one'), grammar(2, 24, big='1', backends='mem', lists='none'), {'scen': 'py:c17', 'args': {'mode': 'malformed'}, 'n': 4, 'shards': 4}],
        'thorough': [grammar(160, 300, lists='none,one,many'), grammar(8, 60, big='1', backends='mem,sql', lists='none'), {'scen': 'py:c17', 'args': {'mode': 'malformed'}, 'n': 40, 'shards': 8}]})
P('C16', theorems=['Tcs.C16_unlisted', 'Tcs.C16_unlisted_403', 'Tcs.C16_listed_transparent', 'Tcs.C16_no_list', 'Tcs.C16_empty_list', 'Tcs.serve_factor'], needs_binary=True,
  owned={'http.status', 'calls.txns', 'noop.dump'},
  oracles=[O.o_c16, relabel_if(O.o_c17, 'C16: with an allow-list configured, every request carrying any other client id is refused with 403 and listed clients are served - by the real executable, whatever its log level', ['allow-list', 'listed clients', 'same history'])],
  plan={'quick': [grammar(24, 150, lists='one,many,empty,none'), {'scen': 'py:c17', 'args': {}, 'n': 18, 'shards': 6}],
        'thorough': [grammar(240, 300, lists='one,many,empty,none'), {'scen': 'py:c17', 'args': {}, 'n': 120, 'shards': 12}]})
P('C20', theorems=['Tcs.C20_all_responses', 'Tcs.C20_value', 'Tcs.C20_wrapper_idempotent'], needs_binary=True,
  owned={'http.cache'},
  oracles=[O.o_c20],
  plan={'quick': [grammar(12, 160), hist('default', 40, 'mem:http,sql:http'), {'scen': 'fault', 'args': {}, 'n': 8}, {'scen': 'py:c17', 'args': {'mode': 'broken'}, 'n': 3, 'shards': 3}],
        'thorough': [grammar(120, 300), hist('default', 600, 'mem:http,sql:http'), {'scen': 'fault', 'args': {}, 'n': 100}, {'scen': 'py:c17', 'args': {'mode': 'broken'}, 'n': 24, 'shards': 8}, {'scen': 'py:c17', 'args': {}, 'n': 24, 'shards': 8}]})
P('C06', theorems=['Tcs.C06_assemble', 'Tcs.C06_chunking_irrelevant', 'Tcs.C06_split_anywhere', 'Tcs.C06_version_roundtrip', 'Tcs.C06_snapshot_roundtrip', 'Tcs.C06_response_body', 'Tcs.assemble_spec'],
  owned={'gcv.payload', 'snap.payload', 'http.body.gcv', 'http.body.gs', 'gcv.ids', 'snap.vid'},
  oracles=[O.o_c06, relabel(O.o_overlap_done, 'C06: the bytes uploaded are stored however the upload was split into network chunks - also when another upload arrives at the same time')],
  plan={'quick': [hist('c06', 120, 'mem:http,sql:http,sqlre:lib'), hist('mid', 8, 'mem:http,sql:http'), hist('c06', 24, 'mem:http,sql:http', stall='1'), {'scen': 'overlap', 'args': {}, 'n': 16}],
        'thorough': [hist('c06', 1500, 'mem:http,sql:http,sqlre:lib'), hist('mid', 120, 'mem:http,sql:http'), hist('c06', 300, 'mem:http,sql:http', stall='1'), {'scen': 'overlap', 'args': {}, 'n': 400}]})

# ---------------------------------------------------------------------------------------------------

def histogram(runs):
    h = collections.Counter()
    for run in runs:
        h[f'setup:{run.setup}'] += 1
        for r in run.recs:
            if r.op in ('av', 'gcv', 'as', 'gs'):
                o = r.i_out[0] if isinstance(r.i_out, tuple) else str(r.i_out)
                if r.op == 'as' and r.i_out[0] == 'ok':
                    o = 'accepted' if r.i_out[1] == '1' else 'declined'
                h[f'{r.op}:{o}'] += 1
                if r.meta and 'class' in r.meta and r.meta.get('_first'):
                    h[f'class:{r.meta["class"]}'] += 1
    return dict(h)

def nontrivial_key(r):
    if r.ws[0] == 'crash':
        return None if r.impl == 'same' else ('crash', r.ws[2].split('/')[0], r.ws[3], r.ws[4], hash(r.impl) % 100000)
    if r.ws[0] == 'res':
        ih = parse_http_obs(r.impl)
        return ('res', r.ws[1], (ih or {}).get('status'), (r.meta or {}).get('kinds'))
    if r.ws[0] == 'ev' and r.ws[2] == 'want-begin':
        return ('ev', r.ws[1], (r.meta or {}).get('kinds'), r.lineno % 7)
    if r.op not in ('av', 'gcv', 'as', 'gs', 'http'):
        return None
    o = r.i_out[0] if isinstance(r.i_out, tuple) else str(r.i_out)
    if o in ('nsc', 'err', 'missing', 'panic'):
        return None
    m = r.meta or {}
    extra = ''
    if r.op == 'as' and isinstance(r.i_out, tuple) and len(r.i_out) > 1:
        extra = r.i_out[1]
    if r.op == 'http' and isinstance(r.i_out, tuple) and r.i_out[1]:
        o = str(r.i_out[1].get('status'))
        extra = (r.req or {}).get('method', '') + ':' + m.get('defects', '')
    return (r.op, o, extra, m.get('class'), m.get('pos'), m.get('chainlen'), m.get('op'), m.get('form'))

def evidence_path(pid):
    return os.path.join(os.path.dirname(os.path.dirname(os.path.abspath(__file__))), 'evidence', f'{pid}.json')

def write_evidence(pid, ev):
    os.makedirs(os.path.dirname(evidence_path(pid)), exist_ok=True)
    json.dump(ev, open(evidence_path(pid), 'w'), indent=1, default=str)

def known_matches(pid, failure, known):
    for k in known:
        if k.get('status') == 'open' and k.get('property') == pid:
            pat = k.get('match', {}).get('sentence_contains')
            det = k.get('match', {}).get('detail_contains')
            if pat and pat in failure.get('sentence', '') and (not det or det in failure.get('detail', '')):
                return k
    return None

def analyse(pid, spec, paths, R):
    """-> (runs, in_scope, out_scope, oracle_failures)"""
    runs = []
    for p in paths:
        rs = parse_trace(p, p + '.model')
        for r in rs:
            r.src = p
        runs += rs
    ins, outs, fails = [], [], []
    for run in runs:
        i, o = compare_run(run, spec['owned'])
        ins += [(run, r, t) for (r, t) in i]
        outs += [(run, r, t) for (r, t) in o]
        for orc in spec['oracles']:
            try:
                for f in orc(run):
                    fails.append((run, f))
            except Exception as e:
                import traceback
                raise R.Infra(f'oracle {orc.__name__} crashed on run {run.header[:80]}: {traceback.format_exc()[-1500:]}')
    if spec.get('proj'):
        full = {}
        for run in runs:
            if 'proj' not in run.kv:
                full[(run.src, run.h, run.setup)] = run
        for run in runs:
            if 'proj' in run.kv:
                f = full.get((run.src, run.h, run.setup))
                if f is None:
                    continue
                c = run.clients[int(run.kv['proj'])]
                for fl in O.align_compare(f, run, 'C09: the responses a client receives are the same whether or not other clients\' requests are interleaved with its own', only_client=c):
                    fl['detail'] = f'client {c}: ' + fl['detail']
                    fails.append((f, fl))
    if spec['aligned']:
        byh = collections.defaultdict(dict)
        for run in runs:
            if 'proj' not in run.kv:
                byh[(run.src, run.h)][run.setup] = run
        for key, d in byh.items():
            for (sa, sb, sentence) in spec['aligned']:
                # the same HISTORY on two set-ups: same clients (scenarios that draw fresh ids per set-up are not aligned)
                if sa in d and sb in d and d[sa].clients == d[sb].clients:
                    for f in O.align_compare(d[sa], d[sb], sentence):
                        fails.append((d[sa], f))
    return runs, ins, outs, fails

def decide(pid, tier, seed, workdir, R, t0):
    spec = PROPS[pid]
    if 'decide' in spec:
        return spec['decide'](pid, tier, seed, workdir, R, t0)
    proof = R.proof_stage(pid, thorough=(tier == 'thorough'))
    if spec.get('needs_binary'):
        os.environ['VERIF_BUILD_BINARY'] = '1'
    R.build_harness()
    paths = R.run_plan(pid, spec['plan'][tier], seed, workdir, R.follow_flags(spec['owned']))
    runs, ins, outs, fails = analyse(pid, spec, paths, R)
    return conclude(pid, tier, seed, t0, R, spec, proof, runs, ins, outs, fails, workdir)

def shrink_hist(pid, spec, run, f, R, workdir, budget=40):
    """delta debugging over the operation list of a failing history (scenario `hist`): operations are state-relative, so
    any sub-list is a meaningful history; a candidate is kept if the SAME oracle sentence still fails on the real code"""
    plan = R.PLAN_OF.get(getattr(run, 'src', None))
    if not plan or plan['scen'] != 'hist' or 'proj' in run.kv or os.environ.get('VERIF_NO_SHRINK') == '1':
        return None
    idx = sorted({int(r.meta['i']) for r in run.recs if r.meta and str(r.meta.get('i', '')).isdigit()})
    if len(idx) < 3:
        return None
    n0 = max(idx) + 1
    sentence = f['sentence']
    a0 = {k: v for k, v in plan['args'].items() if k != 'proj'}
    a0.update({'n': 1, 'first': run.h, 'setups': run.setup})
    tries = [0]
    def fails(keep):
        if tries[0] >= budget:
            return None
        tries[0] += 1
        a = dict(a0, keep=','.join(map(str, keep)) if keep else 'none')
        p = os.path.join(workdir, f'shrink_{tries[0]}.lines')
        R.PLAN_OF[p] = {'scen': 'hist', 'args': {k: v for k, v in a.items() if k not in ('n', 'first')}, 'flags': plan['flags']}
        R.run_shard(('hist', a, p, tuple(plan['flags'])))
        _, _, _, fs = analyse(pid, spec, [p], R)
        for (r2, f2) in fs:
            if f2.get('sentence') == sentence:
                return (r2, f2)
        return None
    keep, best, n = list(range(n0)), None, 2
    while len(keep) >= 2 and tries[0] < budget:
        chunk = max(1, len(keep) // n)
        reduced = False
        for i in range(0, len(keep), chunk):
            cand = keep[:i] + keep[i + chunk:]
            res = fails(cand)
            if res:
                keep, best, n, reduced = cand, res, max(n - 1, 2), True
                break
        if not reduced:
            if chunk == 1:
                break
            n = min(len(keep), n * 2)
    return (keep, best, n0) if best else None

def conclude(pid, tier, seed, t0, R, spec, proof, runs, ins, outs, fails, workdir, extra_cov=None, widen=True):
    known = R.load_known()
    real_fails, known_hits = [], []
    for run, f in fails:
        k = known_matches(pid, f, known)
        if k:
            known_hits.append((k, f))
        else:
            real_fails.append((run, f))
    proof_broken = bool(proof['problems']) or proof['discharged'] != proof['obligations']
    params_differ = bool(proof.get('params') and proof['params'].get('differs_from_stated'))
    corr_broken = bool(ins)
    verdict = 'held'
    replay = None
    if real_fails:
        run, f = real_fails[0]
        extra = None
        try:
            sh = shrink_hist(pid, spec, run, f, R, workdir)
            if sh:
                keep, (run2, f2), n0 = sh
                run, f = run2, f2
                extra = {'shrunk_from_ops': n0, 'shrunk_to_ops': len(keep), 'kept_op_indices': keep}
        except Exception as e:        # shrinking is a convenience; the unshrunk case is a valid replay
            extra = {'shrink_error': str(e)[:200]}
        replay = R.write_replay(pid, 'oracle', run, f, None, extra)
        verdict = 'violation'
    elif proof_broken or corr_broken:
        # widen the search for a concrete failing input before reporting
        found = None
        if widen and tier == 'quick' and 'plan' in spec and 'thorough' in spec['plan'] and os.environ.get('VERIF_NO_WIDEN') != '1':
            try:
                wplan = [dict(it, n=min(it.get('n', 1), 500)) for it in spec['plan']['thorough']]
                paths2 = R.run_plan(pid + 'w', wplan, seed + 1, workdir, R.follow_flags(spec['owned']))
                _, _, _, fails2 = analyse(pid, spec, paths2, R)
                fails2 = [(r, f) for (r, f) in fails2 if not known_matches(pid, f, known)]
                if fails2:
                    found = fails2[0]
            except R.Infra:
                found = None
        if found:
            replay = R.write_replay(pid, 'oracle', found[0], found[1], None)
            verdict = 'violation'
        else:
            if corr_broken:
                run, r, tags = ins[0]
                d = {'tag': ','.join(tags), 'line': r.lineno, 'lhs': r.lhs[:400], 'impl': str(r.impl)[:400], 'model': str(r.model)[:400]}
                replay = R.write_replay(pid, 'correspondence', run, d, f'correspondence scope tag {",".join(tags)} no longer checks')
            else:
                replay = R.write_replay(pid, 'theorem', None, None, '; '.join(proof['problems'])[:2000] or 'obligations != discharged')
            verdict = 'violation-nofail'
    # evidence
    keys = set()
    nrec = 0
    for run in runs:
        for r in run.recs:
            nrec += 1
            k = nontrivial_key(r)
            if k:
                keys.add(k)
    samples = []
    for run in runs[:2]:
        samples.append({'run': run.header, 'first_ops': [f'{r.lhs[:160]} => {str(r.impl)[:120]}' for r in run.recs if r.op not in ('dump', 'rawdump')][:6]})
    cov = {
        'obligations': proof['obligations'], 'discharged': proof['discharged'], 'checker_cmd': proof.get('checker_cmd', ''),
        'trusted_base': TRUSTED, 'theorems': proof['theorems'], 'proof_problems': proof['problems'],
        'evaluations': nrec, 'distinct_nontrivial': len(keys),
        'rule': 'one evaluation = one operation record of an implementation trace (request or state dump); non-trivial = a request answered with a protocol outcome (not no-such-client/error); distinct by (operation, outcome, id class of the argument, window position, chain length, generator op kind)',
        'samples': samples, 'traces_validated_against_impl': len(runs),
        'histogram': histogram(runs),
        'model_disagreements_in_scope': len(ins), 'out_of_scope_disagreements': len(outs),
        'out_of_scope_tags': dict(collections.Counter(t for (_, _, ts) in outs for t in ts)),
        'oracle_failures': len(real_fails), 'known_findings_hit': len(known_hits),
        'params_impl': proof.get('params'),
        'translated_source': proof.get('translated_source'), 'source_ties_not_available': proof.get('ties_not_available', []),
    }
    if extra_cov:
        cov.update(extra_cov)
    level = spec['level'] if proof['obligations'] > 0 else 'exploration'
    ev = {'property_id': pid, 'tier': tier, 'seed': seed, 'level': level, 'coverage': cov,
          'assumptions': TRUSTED, 'wall_s': round(time.time() - t0, 1), 'violations': 0 if verdict == 'held' else 1}
    write_evidence(pid, ev)
    seen = set()
    for k, f in known_hits:
        if k['id'] not in seen:
            seen.add(k['id'])
            print(f"KNOWN-FINDING: property={pid} {k['what']}")
    print(f"[{pid}] tier={tier} seed={seed} theorems {proof['discharged']}/{proof['obligations']} runs={len(runs)} records={nrec} distinct={len(keys)} in-scope-diffs={len(ins)} out-of-scope-diffs={len(outs)} oracle-failures={len(real_fails)} wall={ev['wall_s']}s")
    if verdict == 'held':
        return 0
    if real_fails[:1] or verdict == 'violation':
        f = (real_fails[0][1] if real_fails else None)
        if f:
            print(f"  oracle: {f['sentence']} :: {f['detail'][:300]}")
    if proof['problems']:
        print('  proof stage: ' + '; '.join(proof['problems'])[:600])
    if ins:
        run, r, tags = ins[0]
        print(f"  first in-scope difference [{','.join(tags)}] line {r.lineno}: impl={str(r.impl)[:160]} model={str(r.model)[:160]}")
    print(f"VIOLATION property={pid} replay={replay}" + (' no-failing-input-found' if verdict == 'violation-nofail' else ''))
    return 1

def replay(pid, path, R):
    """re-run exactly the recorded case (same scenario, arguments, seed and history index) against the current tree"""
    doc = json.load(open(path))
    spec = PROPS[pid]
    print(json.dumps({k: doc.get(k) for k in ('property', 'kind', 'run_header', 'oracle_failure', 'first_difference', 'broken_obligation')}, indent=1)[:2500])
    rr = doc.get('rerun')
    if not rr:
        print('this replay names a broken proof obligation / correspondence only; nothing to re-execute')
        return 1
    R.build_harness()
    workdir = os.path.join(R.OUT, f'replay_{pid}_{os.getpid()}')
    os.makedirs(workdir, exist_ok=True)
    a = dict(rr['args'])
    h = int(rr['h'])
    if rr['scen'] in ('urgency', 'fixture'):
        item = {'scen': rr['scen'], 'args': a, 'n': int(a.get('shards', 1)), 'shards': int(a.get('shards', 1))}
        paths = R.run_plan(pid + 'r', [item], int(a.get('seed', 0)), workdir, rr.get('flags', ()))
    else:
        a['n'] = 1; a['first'] = h
        p = os.path.join(workdir, 'replay.lines')
        R.PLAN_OF[p] = {'scen': rr['scen'], 'args': a, 'flags': rr.get('flags', [])}
        R.run_shard((rr['scen'], a, p, tuple(rr.get('flags', ()))))
        paths = [p]
    runs, ins, outs, fails = analyse(pid, spec, paths, R)
    runs_h = [r for r in runs if r.h == h] or runs
    known = R.load_known()
    fails = [(r, f) for (r, f) in fails if r.h == h or rr['scen'] in ('urgency', 'fixture')]
    real = [(r, f) for (r, f) in fails if not known_matches(pid, f, known)]
    for r, f in fails:
        k = known_matches(pid, f, known)
        if k:
            print(f"KNOWN-FINDING: property={pid} {k['what']}")
    ins_h = [(run, r, t) for (run, r, t) in ins if run.h == h or rr['scen'] in ('urgency', 'fixture')]
    print(f'[{pid}] replay of h={h}: runs={len(runs_h)} oracle-failures={len(real)} in-scope-differences={len(ins_h)}')
    if real:
        print('  oracle: ' + real[0][1]['sentence'] + ' :: ' + real[0][1]['detail'][:300])
        print(f'VIOLATION property={pid} replay={path}')
        return 1
    if ins_h:
        run, r, t = ins_h[0]
        print(f"  difference [{','.join(t)}] impl={str(r.impl)[:160]} model={str(r.model)[:160]}")
        print(f'VIOLATION property={pid} replay={path} no-failing-input-found')
        return 1
    return 0

# ---------------------------------------------------------------------------------------------------
# source ties: theorems about terms GENERATED from /repo's current source (tools/urgency2lean.py, sql2lean.py, server2lean.py,
# clap2lean.py). (module, theorems, source keys that must have been translated)
T_ = 'Tcs.Proofs.SqlTie.'
SV = 'Tcs.Proofs.ServerSrcTie.'   # one module per operation: a change to one operation leaves the ties of the others standing
PROPS['C12']['ties'] = [('Tcs.Proofs.UrgencySrcTie', ['Tcs.C12_src_for_days', 'Tcs.C12_src_for_versions_since'], ['urgency:forDays', 'urgency:forVersionsSince']),
                        (T_ + 'AddVersion', ['Tcs.sqlSrc_addVersion'], ['sql:addVersion'])]
PROPS['C13']['ties'] = [(T_ + 'All', ['Tcs.sqlSrc_tie'], ['sql:getClient', 'sql:newClient', 'sql:setSnapshot', 'sql:getSnapshotData', 'sql:getByParent', 'sql:getVersion', 'sql:addVersion', 'sql:commitStmts']),
                        (T_ + 'Open', ['Tcs.sqlSrc_open_statements'], ['sql:openStmts'])]
PROPS['C09']['ties'] = [(T_ + 'GetByParent', ['Tcs.sqlSrc_getByParent'], ['sql:getByParent']), (T_ + 'GetVersion', ['Tcs.sqlSrc_getVersion'], ['sql:getVersion'])]
PROPS['C03']['ties'] = [(T_ + 'Begin', ['Tcs.sqlSrc_begin_immediate'], ['sql:beginStmts'])]
PROPS['C04']['ties'] = [(T_ + 'CommitStmt', ['Tcs.sqlSrc_commit_stmt'], ['sql:commitStmts']), (T_ + 'Conn', ['Tcs.sqlSrc_conn_no_pragma'], ['sql:connStmts']),
                        (T_ + 'Open', ['Tcs.sqlSrc_open_statements'], ['sql:openStmts']), (T_ + 'NoOther', ['Tcs.sqlSrc_no_other_sql'], ['sql:unaccounted'])]
PROPS['C05']['ties'] = [(T_ + 'CommitStmt', ['Tcs.sqlSrc_commit_stmt'], ['sql:commitStmts']), (T_ + 'NoOther', ['Tcs.sqlSrc_no_other_sql'], ['sql:unaccounted'])]
PROPS['C19']['ties'] = [(T_ + 'Open', ['Tcs.sqlSrc_open_statements'], ['sql:openStmts']), (T_ + 'SetSnapshot', ['Tcs.sqlSrc_setSnapshot'], ['sql:setSnapshot']),
                        (T_ + 'GetClient', ['Tcs.sqlSrc_getClient'], ['sql:getClient'])]
# the protocol operations of core/src/server.rs, translated statement by statement
PROPS['C02']['ties'] = [(SV + 'AddVersion', ['Tcs.serverSrc_addVersion'], ['server:addVersion'])]
# GetChildVersion writes nothing: its tie is up to the order of its two reads (ServerSrcTie/GetChildSem.lean; the step-for-step tie of the pinned source stays in GetChild.lean, unregistered)
PROPS['C08']['ties'] = [(SV + 'GetChildSem', ['Tcs.serverSrc_getChildVersion_sem', 'Tcs.serverSrc_getChildVersion_sem_sql', 'Tcs.serverSrc_getChildVersion_sem_mem', 'Tcs.readsOk_sql', 'Tcs.readsOk_mem'], ['server:getChildVersion'])]
PROPS['C10']['ties'] = [(SV + 'AddSnapshot', ['Tcs.serverSrc_addSnapshot', 'Tcs.serverSrc_addSnapshot_impl', 'Tcs.serverSrc_loop'], ['server:addSnapshot'])]
PROPS['C11']['ties'] = [(SV + 'GetSnapshot', ['Tcs.serverSrc_getSnapshot'], ['server:getSnapshot'])]
# the clap declarations and the wiring of main
PROPS['C17']['ties'] = [('Tcs.Proofs.CliSrcTie', ['Tcs.cliSrc_args', 'Tcs.cliSrc_wiring', 'Tcs.cliSrc_resolve'], ['cli:args', 'cli:wiring']),
                        # the wiring map INTERPRETED: every resolved value reaches the constructor parameter the model assumes (Proofs/CliWire.lean)
                        ('Tcs.Proofs.CliWire', ['Tcs.cliSrc_wire'], ['cli:wiring']),
                        # both halves composed: flags + environment -> what main constructs, source = model (Proofs/CliSrcAll.lean)
                        ('Tcs.Proofs.CliSrcAll', ['Tcs.cliSrc_main', 'Tcs.cliSrc_main_some', 'Tcs.cliSrc_main_none'], ['cli:args', 'cli:wiring'])]
# the HTTP handlers of server/src/api/*.rs, translated statement by statement (tools/handlers2lean.py)
H_ = 'Tcs.Proofs.HandlerTie.'
def _add_ties(pid, ties):
    PROPS[pid].setdefault('ties', [])
    PROPS[pid]['ties'] = PROPS[pid]['ties'] + ties
_add_ties('C16', [(H_ + 'ClientId', ['Tcs.handlerSrc_clientIdHeader'], ['handlers:clientIdHeader'])])
_add_ties('C06', [(H_ + 'Bodies', ['Tcs.handlerSrc_addVersionBody', 'Tcs.handlerSrc_addSnapshotBody'], ['handlers:addVersion', 'handlers:addSnapshot'])])
_add_ties('C14', [(H_ + 'GetChild', ['Tcs.handlerSrc_getChildVersion'], ['handlers:getChildVersion']),
                  (H_ + 'GetSnap', ['Tcs.handlerSrc_getSnapshot'], ['handlers:getSnapshot']),
                  (H_ + 'AddVersion', ['Tcs.handlerSrc_loop', 'Tcs.handlerSrc_ensure'], ['handlers:addVersion'])])
# ... insensitive to the ORDER of the validation steps (refusal-set semantics, DESIGN 3.3 / section 14)
_add_ties('C15', [(H_ + 'AddVersionSem', ['Tcs.handlerSrc_addVersion_sem'], ['handlers:addVersion']),
                  (H_ + 'AddSnapshotSem', ['Tcs.handlerSrc_addSnapshot_sem'], ['handlers:addSnapshot'])])
_add_ties('C20', [(H_ + 'Routes', ['Tcs.handlerSrc_routes'], ['handlers:routes', 'handlers:defaultHeaders'])])
# WebServer::new / WebServer::config (server/src/lib.rs) and the in-memory backend (core/src/inmemory.rs)
_add_ties('C16', [(H_ + 'WebNew', ['Tcs.handlerSrc_webNew'], ['handlers:web'])])
_add_ties('C20', [(H_ + 'Scope', ['Tcs.handlerSrc_scope'], ['handlers:web'])])
_add_ties('C13', [('Tcs.Proofs.MemSrcTie', ['Tcs.memSrc_tie'], ['mem:getClient', 'mem:newClient', 'mem:setSnapshot', 'mem:getSnapshotData', 'mem:getByParent', 'mem:getVersion', 'mem:addVersion'])])
