"""Translate the in-memory storage backend (core/src/inmemory.rs: the eight `StorageTxn` methods of `InnerTxn`) from /repo's
CURRENT source into state-passing Lean functions over the four maps (Tcs/Generated/MemSrc.lean):

  self.guard.F.get(&K).cloned() / .get(&K)        ->  alLookup m.F K
  self.guard.F.contains_key(&K)                   ->  (alLookup m.F K).isSome
  self.guard.F.insert(K, V);                      ->  m := { m with F := (alInsert m.F K V).1 }
  if self.guard.F.insert(K, V).is_some() { bail } ->  the insertion happens, then the old value decides
  let c = self.guard.clients.get_mut(&K).ok_or_else(..)?;  c.snapshot = Some(s);          ->  read, rebuild the record, write back
  if let Some(c) = self.guard.clients.get_mut(&K) { c.latest_version_id = v; if let Some(ref mut s) = c.snapshot { s.versions_since += 1; } } else { bail }
                                                   ->  read, rebuild the record, write back
  return Err(anyhow!(..)) / bail!(..) / `?` on None ->  (.error _, m)   -- the state as modified SO FAR (no rollback)
  Ok(e)                                            ->  (.ok e, m)

The tie theorem (Proofs/MemSrcTie.lean) states that the generated functions are `Mem.exec`, call by call, on every state,
up to the text of error messages. Anything outside the subset: `not-translated`."""
import re, os, sys, json
sys.path.insert(0, os.path.dirname(os.path.abspath(__file__)))
from server2lean import tokenize, PE
from handlers2lean import HParser

REPO = '/repo'
MAPS = {'clients', 'snapshots', 'versions', 'children'}

def strip_tests(src):
    i = src.find('#[cfg(test)]')
    return src if i < 0 else src[:i]

class MEmit:
    def __init__(self, params):
        self.params = params       # rust param name -> lean name
        self.vars = {}             # local -> ('client', leanname) etc.
    def key(self, e):
        # &self.client_id | &(self.client_id, x) | (self.client_id, x) | self.client_id
        if e == ('field', ('var', 'self'), 'client_id'): return 'cl'
        if e[0] == 'tuple' and len(e[1]) == 2 and e[1][0] == ('field', ('var', 'self'), 'client_id'):
            return f'(cl, {self.val(e[1][1])})'
        raise PE(f'map key {e}')
    def map_of(self, e):
        # self.guard.F
        if e[0] == 'field' and e[1] == ('field', ('var', 'self'), 'guard') and e[2] in MAPS: return e[2]
        return None
    def val(self, e):
        if e[0] == 'var':
            if e[1] == 'None': return 'none'
            if e[1] in self.vars: return self.vars[e[1]]          # locals shadow parameters
            if e[1] in self.params: return self.params[e[1]]
            raise PE(f'unknown variable {e[1]}')
        if e[0] == 'call' and e[1] == 'Some': return f'(some {self.val(e[2][0])})'
        if e[0] == 'struct':
            fs = dict(e[2])
            if e[1] == 'Client': return f'(⟨{self.val(fs["latest_version_id"])}, {self.val(fs["snapshot"])}⟩ : Client)'
            if e[1] == 'Version': return f'(⟨{self.val(fs["version_id"])}, {self.val(fs["parent_version_id"])}, {self.val(fs["history_segment"])}⟩ : Version)'
            raise PE(f'struct {e[1]}')
        if e[0] == 'method':
            recv, m, a = e[1], e[2], e[3]
            if m == 'cloned' and not a: return self.val(recv)
            if m == 'get' and self.map_of(recv): return f'(alLookup m.{self.map_of(recv)} {self.key(a[0])})'
            if m == 'contains_key' and self.map_of(recv): return f'(alLookup m.{self.map_of(recv)} {self.key(a[0])}).isSome'
        raise PE(f'value {e[0]} {e[2] if e[0] == "method" else ""}')
    def err(self):
        return '(.error (.err "")'
    # ---- statements; `st` is the Lean name of the current state (always `m`, rebound by `let m := …`)
    def seq(self, stmts):
        stmts = [s for s in stmts if s != ('skip',)]
        if not stmts: raise PE('falls off the end')
        s, rest = stmts[0], stmts[1:]
        k = s[0]
        if k == 'assign' or (k == 'expr' and s[1][0] == 'bin'):
            raise PE('assignment')
        if k == 'fieldassign':
            if s[1] == ('field', ('var', 'self'), 'written'): return self.seq(rest)
            raise PE('field assignment outside the known patterns')
        if k == 'return':
            e = s[1]
            if e[0] == 'call' and e[1] == 'Err': return f'{self.err()}, m)'
            if e[0] == 'call' and e[1] == 'Ok': return f'(.ok {self.okval(e[2][0])}, m)'
            raise PE('return')
        if k == 'bail':
            return f'{self.err()}, m)'
        if k == 'let':
            pat, e = s[1], s[2]
            v = pat[1]
            # let client = X.ok_or_else(|| anyhow!(..))?;
            if e[0] == 'try' and e[1][0] == 'method' and e[1][2] == 'ok_or_else':
                inner = e[1][1]
                if inner[0] == 'method' and inner[2] == 'get_mut' and self.map_of(inner[1]) == 'clients':
                    # the record is read now; the statements that assign its fields rebuild it and write it back
                    return self.get_mut_client(v, self.key(inner[3][0]), rest, else_err=True)
                src = self.val(inner)
                self.vars[v] = v
                return f'match {src} with\n  | none => {self.err()}, m)\n  | some {v} =>\n  {self.seq(rest)}'
            # plain let
            self.vars[v] = v
            return f'let {v} := {self.val(e)}\n  {self.seq(rest)}'
        if k == 'expr':
            e = s[1]
            # self.guard.F.insert(K, V);
            if e[0] == 'method' and e[2] == 'insert' and self.map_of(e[1]) and s[2]:
                f = self.map_of(e[1])
                return f'let m := {{ m with {f} := (alInsert m.{f} {self.key(e[3][0])} {self.val(e[3][1])}).1 }}\n  {self.seq(rest)}'
            if e[0] == 'if':
                cond, then, els = e[1], e[2], e[3]
                # if self.guard.F.insert(K, V).is_some() { bail }
                if cond[0] == 'method' and cond[2] == 'is_some' and cond[1][0] == 'method' and cond[1][2] == 'insert' and self.map_of(cond[1][1]):
                    f = self.map_of(cond[1][1]); ins = cond[1]
                    if els is not None: raise PE('else after insert test')
                    t = self.seq(then + rest) if not self.ends(then) else self.seq(then)
                    return (f'let _ins := alInsert m.{f} {self.key(ins[3][0])} {self.val(ins[3][1])}\n  let m := {{ m with {f} := _ins.1 }}\n'
                            f'  if _ins.2.isSome then {t}\n  else\n  {self.seq(rest)}')
                c = self.cond(cond)
                t = self.seq(then if self.ends(then) else then + rest)
                if els is None:
                    return f'if {c} then {t}\n  else\n  {self.seq(rest)}'
                return f'if {c} then {t}\n  else\n  {self.seq(els if self.ends(els) else els + rest)}'
            if e[0] == 'iflet':
                pat, scrut, then, els = e[1], e[2], e[3], e[4]
                if not (pat[0] == 'pctor' and pat[1] == 'Some' and pat[2][0] == 'pvar'): raise PE('if-let pattern')
                v = pat[2][1]
                if scrut[0] == 'method' and scrut[2] == 'get_mut' and self.map_of(scrut[1]) == 'clients':
                    if els is None or not self.ends(els): raise PE('get_mut without failing else')
                    return self.get_mut_client(v, self.key(scrut[3][0]), then + rest, else_err=True, else_block=els)
                sc = self.val(scrut)            # evaluated in the scope BEFORE the pattern variable is bound
                saved = dict(self.vars)
                el = self.seq((els or []) if els and self.ends(els) else (els or []) + rest)
                self.vars = dict(saved); self.vars[v] = v
                t = self.seq(then if self.ends(then) else then + rest)
                self.vars = saved
                return f'match {sc} with\n  | some {v} =>\n  {t}\n  | none =>\n  {el}'
            if e[0] == 'call' and e[1] == 'Ok' and not s[2]:
                return f'(.ok {self.okval(e[2][0])}, m)'
        raise PE(f'statement {k} {s[1][0] if len(s) > 1 and isinstance(s[1], tuple) else ""}')
    def okval(self, e):
        if e == ('tuple', []): return '()'
        return self.val(e)
    def ends(self, stmts):
        stmts = [s for s in (stmts or []) if s != ('skip',)]
        if not stmts: return False
        last = stmts[-1]
        return last[0] in ('return', 'bail') or (last[0] == 'expr' and not last[2] and last[1][0] == 'call' and last[1][1] in ('Ok', 'Err'))
    def cond(self, c):
        if c[0] == 'method' and c[2] == 'contains_key': return self.val(c)
        # Some(&version_id) != client.snapshot.as_ref().map(|snap| &snap.version_id)
        if c[0] == 'bin' and c[1] == '!=' and c[2][0] == 'call' and c[2][1] == 'Some':
            l = self.val(c[2][2][0])
            r = c[3]
            if r[0] == 'method' and r[2] == 'map' and r[3][0][0] == 'closure':
                base = r[1]
                if base[0] == 'method' and base[2] == 'as_ref': base = base[1]
                if base[0] == 'field' and base[2] == 'snapshot' and base[1][0] == 'var':
                    body = r[3][0][2]
                    if body[0] == 'field' and body[2] == 'version_id':
                        return f'some {l} ≠ {self.val(base[1])}.snap.map (·.vid)'
        raise PE('condition')
    def get_mut_client(self, v, key, stmts, else_err, else_block=None):
        """statements that assign fields of the client record obtained by get_mut, up to the first other statement"""
        stmts = [s for s in stmts if s != ('skip',)]
        latest, snap = f'{v}.latest', f'{v}.snap'
        i = 0
        while i < len(stmts):
            s = stmts[i]
            if s[0] == 'fieldassign' and s[1][0] == 'field' and s[1][1] == ('var', v):
                fld = s[1][2]
                if fld == 'latest_version_id': latest = self.val(s[3])
                elif fld == 'snapshot': snap = self.val(s[3])
                else: raise PE(f'field {fld}')
                i += 1; continue
            # if let Some(ref mut snap) = client.snapshot { snap.versions_since += 1; }
            if s[0] == 'expr' and s[1][0] == 'iflet' and s[1][2] == ('field', ('var', v), 'snapshot') and s[1][4] is None:
                body = [x for x in s[1][3] if x != ('skip',)]
                sv = s[1][1][2][1]
                if len(body) == 1 and body[0][0] == 'fieldassign' and body[0][1] == ('field', ('var', sv), 'versions_since') and body[0][2] == '+=':
                    snap = f'({snap}).map (fun (s : Snapshot) => {{ s with since := s.since + {self.val_num(body[0][3])} }})'
                    i += 1; continue
                raise PE('snapshot update')
            break
        rest = stmts[i:]
        self.vars[v] = v
        wb = f'let m := {{ m with clients := (alInsert m.clients {key} (⟨{latest}, {snap}⟩ : Client)).1 }}\n  {self.seq(rest)}'
        return f'match alLookup m.clients {key} with\n  | none => {self.err()}, m)\n  | some {v} =>\n  {wb}'
    def val_num(self, e):
        if e[0] == 'num': return str(e[1])
        raise PE('number')

class MParser(HParser):
    def stmt(self):
        # anyhow::bail!(..)
        if self.kind() == 'id':
            k = 0
            while self.kind(k) == 'id' or self.peek(k) == '::': k += 1
            if self.peek(k) == '!' and self.t[self.i + k - 1][1] == 'bail':
                self.skip_macro(); return ('bail',)
        # field assignment / compound assignment:  a.b = e;  a.b += e;
        save = self.i
        try:
            if self.kind() == 'id' and self.peek(1) == '.':
                lhs = self.postfix(('var', self.eat()))
                if self.peek() in ('=', '+=', '-='):
                    op = self.eat(); e = self.expr(); self.eat(';')
                    return ('fieldassign', lhs, op, e)
        except PE:
            pass
        self.i = save
        return super().stmt()
    def pattern(self):
        if self.at('ref'):
            self.eat('ref')
            if self.at('mut'): self.eat('mut')
        return super().pattern()
    def primary(self):
        if self.at('||'):
            self.eat('||'); return ('closure', [], self.expr())
        # anyhow::anyhow!(..) as an expression
        if self.kind() == 'id' and self.is_macro():
            self.skip_macro_expr(); return ('macro',)
        return super().primary()
    def skip_macro_expr(self):
        while not self.at('!'): self.eat()
        self.eat('!')
        open_ch = self.eat(); close = {'(': ')', '[': ']', '{': '}'}[open_ch]; depth = 1
        while depth:
            tk = self.eat()
            if tk == open_ch: depth += 1
            elif tk == close: depth -= 1

METHODS = [('getClient', 'get_client', [], 'Option Client'), ('newClient', 'new_client', ['l'], 'Unit'),
           ('setSnapshot', 'set_snapshot', ['sn', 'd'], 'Unit'), ('getSnapshotData', 'get_snapshot_data', ['v'], 'Option Bytes'),
           ('getByParent', 'get_version_by_parent', ['p'], 'Option Version'), ('getVersion', 'get_version', ['v'], 'Option Version'),
           ('addVersion', 'add_version', ['v', 'p', 'seg'], 'Unit')]
PTYPES = {'l': 'Uuid', 'sn': 'Snapshot', 'd': 'Bytes', 'v': 'Uuid', 'p': 'Uuid', 'seg': 'Bytes'}

def translate(src, lean, rust, pnames, rty):
    k = src.find('impl StorageTxn for')
    m = re.search(r'fn\s+' + rust + r'\s*\(', src[k:])
    if not m: raise PE(f'fn {rust} not found')
    sub = src[k + m.start():]
    # formal parameter names, by position (after &mut self)
    sig = sub[sub.index('(') + 1:]
    depth = 1; j = 0
    while depth:
        depth += {'(': 1, ')': -1}.get(sig[j], 0); j += 1
    formals = [p.split(':')[0].strip() for p in sig[:j - 1].split(',') if ':' in p and 'self' not in p.split(':')[0]]
    if len(formals) != len(pnames): raise PE('arity')
    p = MParser(tokenize(sub))
    depth = 0
    while True:
        tk = p.peek()
        if tk == '(': depth += 1
        if tk == ')': depth -= 1
        if tk == '{' and depth == 0: break
        p.eat()
    body = p.block()
    em = MEmit(dict(zip(formals, pnames)))
    term = em.seq(body)
    sigl = ' '.join(f'({n} : {PTYPES[n]})' for n in pnames)
    return f'def {lean} (cl : Uuid) {sigl} (m : Mem) : Except StorageErr ({rty}) × Mem :=\n  {term}\n'

def extract():
    parts, source = {}, {}
    try:
        src = strip_tests(re.sub(r'//[^\n]*', '', open(os.path.join(REPO, 'core/src/inmemory.rs')).read()))
    except Exception:
        src = ''
    for lean, rust, pn, rty in METHODS:
        try:
            parts[lean] = translate(src, lean, rust, pn, rty); source[lean] = 'translated'
        except Exception as e:
            parts[lean] = None; source[lean] = f'not-translated ({type(e).__name__}: {e}); behavioural correspondence only'
    return parts, source

def load_stated():
    p = os.path.join(os.path.dirname(os.path.abspath(__file__)), 'mem_src_stated.json')
    return json.load(open(p)) if os.path.exists(p) else {}

def render(parts, stated):
    L = ["/- GENERATED by tools/inmemory2lean.py from /repo's current core/src/inmemory.rs on every check run. Do not edit. -/",
         'import Tcs.Model.Mem', 'namespace Tcs', 'namespace MemSrc', '']
    for lean, _, _, _ in METHODS:
        L.append(parts[lean] if parts[lean] is not None else stated[lean])
    L += ['end MemSrc', 'end Tcs', '']
    return '\n'.join(L)

def extract_and_write(path):
    parts, source = extract()
    stated = load_stated()
    for k, v in parts.items():
        if v is None and k not in stated: raise RuntimeError(f'{k}: cannot translate and no stated text')
    txt = render(parts, stated)
    os.makedirs(os.path.dirname(path), exist_ok=True)
    old = open(path).read() if os.path.exists(path) else None
    if old != txt: open(path, 'w').write(txt)
    return {'source': source, 'differs_from_stated': {k: True for k, v in parts.items() if v is not None and stated.get(k) is not None and v != stated[k]}}

if __name__ == '__main__':
    out = sys.argv[1] if len(sys.argv) > 1 else '/verif/lean/Tcs/Generated/MemSrc.lean'
    if '--repo' in sys.argv: REPO = sys.argv[sys.argv.index('--repo') + 1]
    if '--write-stated' in sys.argv:
        parts, _ = extract()
        json.dump(parts, open(os.path.join(os.path.dirname(os.path.abspath(__file__)), 'mem_src_stated.json'), 'w'), indent=1)
    print(json.dumps(extract_and_write(out), indent=1))
