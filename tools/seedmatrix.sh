#!/bin/bash
# usage: tools/seedmatrix.sh <outdir> <seed-name>[:<ids,comma>] ...   -- for each seeded change: apply to /repo, run the checks (default: its own property), undo
set -u
out="$1"; shift
mkdir -p "$out"
cd /verif
bak="$(mktemp -d /tmp/evbak.XXXXXX)"; cp -r evidence "$bak/"   # seeded runs must not leave their evidence behind
for spec in "$@"; do
  name="${spec%%:*}"; ids="${spec#*:}"
  [ "$ids" = "$spec" ] && ids="${name%%-*}"
  if ! git -C /repo diff --quiet; then echo "/repo dirty; stop"; exit 9; fi
  pdir="/verif/seeded/$name"; [ -d "/verif/harmless/$name" ] && pdir="/verif/harmless/$name"
  git -C /repo apply "$pdir/patch.diff" || { echo "$name: patch does not apply" | tee "$out/$name.log"; continue; }
  : > "$out/$name.log"
  for id in ${ids//,/ }; do
    ./check "$id" 2>&1 | grep -E "^\[|VIOLATION|KNOWN|INFRA|oracle:|first in-scope|proof stage" | cut -c1-300 >> "$out/$name.log"
  done
  git -C /repo checkout -- . && git -C /repo clean -fdq
  echo "== $name: $(grep -c VIOLATION "$out/$name.log") violation line(s)"
done
rm -rf evidence && mv "$bak/evidence" evidence && rmdir "$bak"
