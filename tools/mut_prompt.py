#!/usr/bin/env python3
"""Print the prompt given to a fresh sub-agent that is asked to break one property (used for seeded-change tests)."""
import json, sys
pid = sys.argv[1]; wt = sys.argv[2]; out = sys.argv[3]
n = sys.argv[4] if len(sys.argv) > 4 else "2"
p = [json.loads(l) for l in open('/verif/properties.jsonl') if json.loads(l)['id'] == pid][0]
print(f"""You are testing a verification effort by seeding a realistic defect into a Rust code base.

The code base is taskchampion-sync-server (reference HTTP sync server for the TaskChampion protocol: crates `core` (protocol logic + in-memory storage), `sqlite` (SQLite storage), `server` (actix-web handlers + binary)). You have your own scratch git worktree of it at {wt} (create nothing elsewhere except under {out}). Do NOT read or write /verif or /repo; work only in {wt} and {out}. The sandbox has no network: always build and test with `--offline` (e.g. `cd {wt} && cargo test --workspace --offline`). To avoid a cold build you may first run `cp -r /repo/target {wt}/target`.

Here is a semantic property that the unchanged code base satisfies:

  Title: {p['title']}
  Statement: {p['statement']}
  Quantified over: {p['quantifier']['text']}

Your job: produce {n} DIFFERENT small source changes (each independent, each applied alone to the unchanged tree) to the non-test code of the repository that each BREAK this property, while
  (a) the workspace still compiles, and
  (b) the complete existing test suite still passes unchanged (`cargo test --workspace --offline`, all tests green; do not edit or delete existing tests), and
  (c) the change looks like something a developer could plausibly write (a refactoring slip, an optimisation, a 'simplification', an off-by-one, a wrong operator, a dropped clause, moved statement, changed SQL, changed constant...), not an obviously malicious special case such as `if id == magic`.
Prefer changes that need something SPECIFIC to manifest rather than ones that ordinary use would expose at once: a particular interleaving, a crash or fault at a particular point, a multi-step sequence of operations, an unusual input, a boundary value, or two cooperating sites that each look fine alone.

For each change k = 1..{n} deliver, under {out}/k/:
  - patch.diff : `git diff` of the source change only (must apply with `git apply` to the unchanged tree at the worktree's HEAD),
  - a demonstration: either demo.diff (a patch adding a NEW test file or new #[test] functions, no edits to existing tests) or a small standalone program/script, which FAILS with the change applied and PASSES on the unchanged tree, plus the exact command to run it,
  - notes.md : which clause of the property is violated, what is needed to make it manifest, and the observed output of the demonstration with and without the change, and confirmation that the full existing test suite passes with the change.
Verify all of that yourself by actually running the commands (suite with change: all pass; demo with change: fails; demo without change: passes). Leave the worktree with NO changes applied at the end (`git -C {wt} checkout -- . && git -C {wt} clean -fd -e target`). Report a short summary of the {n} changes at the end.""")
