"""Parsing of harness/driver traces, normalisation of observations, scope-tagged comparison,
and the property oracles (independent of the Lean model: they read only what the implementation answered)."""
import hashlib, re, collections

NIL = "00000000-0000-0000-0000-000000000000"

# ----------------------------------------------------------------------------- blobs

def blob_bytes(tok):
    if tok == '-' or tok == 'hex:':
        return b''
    if tok.startswith('hex:'):
        return bytes.fromhex(tok[4:])
    if tok.startswith('rle:'):
        out = bytearray()
        for part in tok[4:].split(','):
            b, n = part.split('*')
            out += bytes([int(b, 16)]) * int(n)
        return bytes(out)
    raise ValueError('bad blob ' + tok[:40])

def fnv64(b):
    h = 0xcbf29ce484222325
    for x in b:
        h ^= x
        h = (h * 0x100000001b3) & 0xFFFFFFFFFFFFFFFF
    return h

def blob_key(tok):
    """canonical comparison key of a full blob token"""
    try:
        b = blob_bytes(tok)
    except Exception:
        return ('bad', tok[:60])
    if len(b) <= 32:
        return ('b', b.hex())
    return ('h', len(b), hashlib.sha1(b).hexdigest())

def short_of_bytes(b):
    if len(b) == 0:
        return '-'
    if len(b) <= 32:
        return 'hex:' + b.hex()
    if len(b) > 4096:
        # python FNV over MiB payloads is slow; only computed when needed
        pass
    return 'fnv:%d:%016x' % (len(b), fnv64(b))

def unhex(tok):
    if tok == '-':
        return None
    if tok.startswith('hex:'):
        try:
            return bytes.fromhex(tok[4:]).decode('latin1')
        except Exception:
            return tok
    return tok

# ----------------------------------------------------------------------------- records

class Rec:
    __slots__ = ('src', 'lineno', 'lhs', 'impl', 'model', 'meta', 'kind', 'ws', 'op', 'client', 'arg', 'payload_tok', 'now', 'newid', 'req', 'i_out', 'm_out', 'opidx')
    def __repr__(self):
        return f"<{self.lineno}:{self.lhs[:80]} => {str(self.impl)[:80]}>"

class Run:
    def __init__(self, header, lineno):
        self.header = header
        self.lineno = lineno
        self.kv = dict(w.split('=', 1) for w in header.split()[1:] if '=' in w)
        self.recs = []
        self.dead = False
        self.clients = [c for c in self.kv.get('clients', '').split(',') if c]
    @property
    def setup(self): return self.kv.get('setup', '?')
    @property
    def entry(self): return self.kv.get('entry', 'lib')
    @property
    def backend(self): return self.kv.get('backend', '?')
    @property
    def h(self): return int(self.kv.get('h', '0'))
    def lines(self, with_model=False):
        out = [self.header]
        for r in self.recs:
            if r.meta is not None and r.meta.get('_first'):
                out.append(r.meta['_raw'])
            out.append(f"{r.lhs} => {r.impl}" if r.impl is not None else r.lhs)
        return out

def parse_meta(line):
    d = {'_raw': line}
    for w in line[1:].split():
        if '=' in w:
            k, v = w.split('=', 1)
            d[k] = v
    return d

HTTP_ROUTES = [('add-version', re.compile(r'^/v1/client/add-version/([^/?]*)')),
               ('get-child-version', re.compile(r'^/v1/client/get-child-version/([^/?]*)')),
               ('add-snapshot', re.compile(r'^/v1/client/add-snapshot/([^/?]*)')),
               ('snapshot', re.compile(r'^/v1/client/snapshot(?:\?.*)?$'))]

def parse_http_lhs(ws):
    # http METHOD path k (name=hexvalue)*k n (blob)*n newid now
    m, path, k = ws[1], ws[2], int(ws[3])
    hs = []
    for h in ws[4:4 + k]:
        n, v = h.split('=', 1)
        hs.append((n, b'' if v == '-' else bytes.fromhex(v)))
    rest = ws[4 + k:]
    n = int(rest[0])
    chunks = rest[1:1 + n]
    newid, now = rest[1 + n], rest[2 + n]
    return {'method': m, 'path': path, 'headers': hs, 'chunks': chunks, 'newid': newid, 'now': now}

def parse_http_obs(s):
    if s is None:
        return None
    ws = s.split()
    if not ws:
        return None
    if ws[0] in ('panic', 'bad-op') or not ws[0].isdigit():
        return {'status': ws[0]}
    d = {'status': int(ws[0])}
    for w in ws[1:]:
        if '=' in w:
            k, v = w.split('=', 1)
            d[k] = v
    return d

def norm_out(op, entry, obs, httpobs=None):
    """normalised outcome tuple, same vocabulary for library and HTTP entry"""
    if obs is None:
        return ('missing',)
    if entry == 'lib' and ' consumed=' in obs:
        obs = obs[:obs.index(' consumed=')]
    if entry == 'lib':
        ws = obs.split()
        if not ws:
            return ('empty',)
        if op == 'av':
            if ws[0] == 'ok': return ('ok', ws[1], ws[2])
            if ws[0] == 'conflict': return ('conflict', ws[1])
        elif op == 'gcv':
            if ws[0] == 'found': return ('found', ws[1], ws[2], blob_key(ws[3]))
            if ws[0] in ('notfound', 'gone'): return (ws[0],)
        elif op == 'as':
            if ws[0] == 'ok': return ('ok', ws[1].split('=')[1] if len(ws) > 1 else '?')
        elif op == 'gs':
            if ws[0] == 'some': return ('some', ws[1], blob_key(ws[2]))
            if ws[0] == 'none': return ('none',)
        elif op in ('create', 'reopen'):
            return (ws[0],)
        return (ws[0],)   # nsc / err / panic / bad-op
    else:
        d = httpobs
        st = d['status']
        if st in ('panic', 'bad-op'):
            return (st,)
        if st >= 500:
            return ('err', st)
        if op == 'av':
            if st == 200: return ('ok', d.get('vid', '-'), {'-': 'none'}.get(d.get('sr', '-'), d.get('sr', '-')))
            if st == 409: return ('conflict', d.get('pvid', '-'))
        elif op == 'gcv':
            if st == 200: return ('found', d.get('vid', '-'), d.get('pvid', '-'), blob_key(d.get('body', '-')))
            if st == 404: return ('notfound',)
            if st == 410: return ('gone',)
        elif op == 'as':
            if st == 200: return ('ok', d.get('acc', '?'))
            if st == 404: return ('nsc',)
        elif op == 'gs':
            if st == 200: return ('some', d.get('vid', '-'), blob_key(d.get('body', '-')))
            if st == 404: return ('none',)
        return ('status', st)

def classify(rec, run):
    ws = rec.ws
    k = ws[0]
    rec.op = None; rec.client = None; rec.arg = None; rec.payload_tok = None; rec.now = None; rec.newid = None; rec.req = None
    entry = 'lib'
    ih = mh = None
    if k == 'av' or k == 'hav':
        rec.op = 'av'; rec.client, rec.arg, rec.payload_tok, rec.newid, rec.now = ws[1], ws[2], ws[3], ws[4], int(ws[5])
    elif k == 'gcv':
        rec.op = 'gcv'; rec.client, rec.arg = ws[1], ws[2]
    elif k == 'as':
        rec.op = 'as'; rec.client, rec.arg, rec.payload_tok, rec.now = ws[1], ws[2], ws[3], int(ws[4])
    elif k == 'gs':
        rec.op = 'gs'; rec.client = ws[1]
    elif k == 'create':
        rec.op = 'create'; rec.client = ws[1]
    elif k == 'reopen':
        rec.op = 'reopen'
    elif k == 'dump':
        rec.op = 'dump'; rec.client = ws[1]
    elif k == 'rawdump':
        rec.op = 'rawdump'
    elif k == 'http':
        entry = 'http'
        try:
            rec.req = parse_http_lhs(ws)
        except Exception:
            rec.req = None
        rec.op = 'http'
        if rec.req:
            hs = [v for (n, v) in rec.req['headers'] if n == 'x-client-id']
            try:
                rec.client = hs[0].decode('ascii') if hs else None
            except Exception:
                rec.client = None
            rec.now = int(rec.req['now']) if rec.req['now'].lstrip('-').isdigit() else None
            rec.newid = rec.req['newid']
            wf = rec.meta is not None and rec.meta.get('op') in ('av', 'gcv', 'as', 'gs', 'gcv+av', 'walk', 'snapwalk', 'reread')
            if wf:
                for name, rx in HTTP_ROUTES:
                    m = rx.match(rec.req['path'])
                    if m:
                        rec.op = {'add-version': 'av', 'get-child-version': 'gcv', 'add-snapshot': 'as', 'snapshot': 'gs'}[name]
                        rec.arg = m.group(1) if m.groups() else None
                        if rec.op in ('av', 'as'):
                            body = b''.join(blob_bytes(c) for c in rec.req['chunks'])
                            rec.payload_tok = 'hex:' + body.hex() if len(body) <= 4096 else None
                        break
        ih = parse_http_obs(rec.impl); mh = parse_http_obs(rec.model)
    else:
        rec.op = k
    if rec.op in ('av', 'gcv', 'as', 'gs', 'create', 'reopen'):
        rec.i_out = norm_out(rec.op, entry, rec.impl, ih)
        rec.m_out = norm_out(rec.op, entry, rec.model, mh)
    elif rec.op == 'http':
        rec.i_out = ('http', ih) if ih else ('missing',)
        rec.m_out = ('http', mh) if mh else ('missing',)
    else:
        rec.i_out = rec.impl
        rec.m_out = rec.model

def body_of(rec):
    """uploaded payload bytes of an av/as record"""
    if rec.ws[0] == 'http':
        return b''.join(blob_bytes(c) for c in rec.req['chunks'])
    return blob_bytes(rec.payload_tok)

def parse_trace(impl_path, model_path=None):
    """returns list of Run"""
    runs = []
    cur = None
    meta = None
    mlines = None
    if model_path:
        with open(model_path) as f:
            mlines = f.read().split('\n')
    with open(impl_path) as f:
        for lineno, line in enumerate(f.read().split('\n')):
            if not line:
                continue
            if line.startswith('run '):
                cur = Run(line, lineno)
                runs.append(cur)
                meta = None
                continue
            if cur is None:
                continue
            if line.startswith('#'):
                meta = parse_meta(line)
                meta['_first'] = True
                continue
            if line.startswith('end '):
                cur.dead = 'dead=1' in line
                continue
            r = Rec()
            r.lineno = lineno
            if ' => ' in line:
                r.lhs, r.impl = line.split(' => ', 1)
            else:
                r.lhs, r.impl = line, None
            r.model = None
            if mlines is not None and lineno < len(mlines):
                ml = mlines[lineno]
                if ' => ' in ml:
                    ml_lhs, r.model = ml.split(' => ', 1)
                    if ml_lhs != r.lhs:
                        r.model = 'desync:' + ml[:80]
                else:
                    r.model = '' if ml == r.lhs else 'desync:' + ml[:80]
            r.meta = meta
            r.opidx = int(meta['i']) if meta and 'i' in meta else None
            if meta is not None:
                meta = dict(meta); meta['_first'] = False
            r.ws = r.lhs.split(' ')
            r.kind = r.ws[0]
            classify(r, cur)
            cur.recs.append(r)
    return runs

# ----------------------------------------------------------------------------- dumps

def parse_dump(s):
    """'latest=.. snap=.. data=.. V:probe=id/parent/short ... P:probe=child ...' -> dict"""
    if s is None:
        return None
    d = {'raw': s, 'latest': None, 'snap': None, 'data': None, 'V': {}, 'P': {}}
    for w in s.split():
        if w.startswith('latest='): d['latest'] = w[7:]
        elif w.startswith('snap='):
            v = w[5:]
            d['snap'] = None if v == '-' else tuple(v.split(','))
        elif w.startswith('data='): d['data'] = w[5:]
        elif w.startswith('V:'):
            probe, rest = w[2:].split('=', 1)
            d['V'][probe] = tuple(rest.split('/'))
        elif w.startswith('P:'):
            probe, child = w[2:].split('=', 1)
            d['P'][probe] = child
    return d

def dump_equal_mod_ts(a, b, tol=3):
    """compare two dump strings, tolerating a small difference in the snapshot timestamp"""
    if a == b:
        return True
    if a is None or b is None:
        return False
    wa, wb = a.split(), b.split()
    if len(wa) != len(wb):
        return False
    for x, y in zip(wa, wb):
        if x == y:
            continue
        if x.startswith('snap=') and y.startswith('snap=') and x != 'snap=-' and y != 'snap=-':
            xa, ya = x[5:].split(','), y[5:].split(',')
            if len(xa) == 3 and len(ya) == 3 and xa[0] == ya[0] and xa[2] == ya[2]:
                try:
                    if abs(int(xa[1]) - int(ya[1])) <= tol:
                        continue
                except ValueError:
                    pass
        if x.startswith('C:') and y.startswith('C:'):
            xa, ya = x.split(','), y.split(',')
            if len(xa) == len(ya) == 6 and xa[:4] == ya[:4] and xa[5] == ya[5]:
                try:
                    if abs(int(xa[4]) - int(ya[4])) <= tol:
                        continue
                except ValueError:
                    pass
        return False
    return True

# ----------------------------------------------------------------------------- model comparison (scope tags)

def tags_of_diff(rec):
    """which scope tags does a model/impl difference on this record belong to"""
    op = rec.op
    i, m = rec.i_out, rec.m_out
    if op == 'av':
        if i[0] != m[0]: return ['av.kind']
        if i[0] == 'ok':
            t = []
            if i[1] != m[1]: t.append('av.id')
            if i[2] != m[2]: t.append('av.urgency')
            return t
        if i[0] == 'conflict': return ['av.latest']
        return ['av.kind']
    if op == 'gcv':
        if i[0] != m[0]: return ['gcv.kind']
        if i[0] == 'found':
            t = []
            if i[1:3] != m[1:3]: t.append('gcv.ids')
            if i[3] != m[3]: t.append('gcv.payload')
            return t
        return ['gcv.kind']
    if op == 'as':
        if i[0] != m[0]: return ['as.kind']
        return ['snap.accept']
    if op == 'gs':
        if i[0] != m[0]: return ['gs.kind']
        t = []
        if i[0] == 'some':
            if i[1] != m[1]: t.append('snap.vid')
            if i[2] != m[2]: t.append('snap.payload')
        return t
    if op in ('dump', 'rawdump'):
        return ['state.dump']
    if op in ('create', 'reopen'):
        return ['lib.create']
    return ['other']

def http_field_diffs(rec, ignore_error_body=True):
    """field-level differences of an http record: list of tags"""
    ih = rec.i_out[1] if rec.i_out and rec.i_out[0] == 'http' else parse_http_obs(rec.impl)
    mh = rec.m_out[1] if rec.m_out and rec.m_out[0] == 'http' else parse_http_obs(rec.model)
    if ih is None or mh is None:
        return ['http.status']
    t = []
    if ih.get('status') != mh.get('status'):
        return ['http.status']
    for k in ('vid', 'pvid'):
        if ih.get(k) != mh.get(k):
            t.append('http.headers')
            break
    if ih.get('sr') != mh.get('sr'):
        t.append('http.urgency')
    st = ih.get('status')
    if ih.get('cc') != mh.get('cc'):
        t.append('http.cache')
    if st == 200:
        if ih.get('ct') != mh.get('ct') and (ih.get('body', '-') != '-' or mh.get('body', '-') != '-'):
            t.append('http.ctype')
        if blob_key(ih.get('body', '-')) != blob_key(mh.get('body', '-')):
            t.append('http.body')
    if 'acc' in ih or 'acc' in mh:
        if ih.get('acc') != mh.get('acc'):
            t.append('snap.accept')
    if 'txns' in ih and 'txns' in mh and ih['txns'] != mh['txns']:
        t.append('calls.txns')
    return t

def _fields(d):
    """comparable fields of a parsed dump"""
    sn = d['snap']
    return {'latest': d['latest'], 'snap': sn[0] if sn else None, 'since': int(sn[2]) if sn else None,
            'ts': int(sn[1]) if sn and sn[1].lstrip('-').isdigit() else None, 'data': d['data'],
            'versions': d['V'], 'children': d['P']}

def dump_diff_tags(impl, model, who, prev_impl=None, prev_model=None):
    """fine-grained tags for a client dump, comparing what CHANGED since the previous dump of that client on
    both sides (so that a divergence is attributed once, to the operation that caused it)"""
    a, b = parse_dump(impl), parse_dump(model)
    if a is None or b is None or impl in ('err', 'panic') or model in ('err', 'panic', 'bad-op'):
        return [] if impl == model else [f'dump.{who}.error']
    fa, fb = _fields(a), _fields(b)
    pa = _fields(parse_dump(prev_impl)) if prev_impl and prev_impl not in ('err', 'panic') else None
    pb = _fields(parse_dump(prev_model)) if prev_model and prev_model not in ('err', 'panic', 'bad-op') else None
    t = []
    for k in ('latest', 'snap', 'since', 'ts', 'data', 'versions', 'children'):
        x, y = fa[k], fb[k]
        if k == 'ts':
            same = (x is None and y is None) or (x is not None and y is not None and abs(x - y) <= 3)
        else:
            same = x == y
        if same:
            continue
        if pa is not None and pb is not None:
            # stale divergence: neither side changed this field in this step (or both by the same amount)
            if k == 'since' and None not in (x, y, pa[k], pb[k]) and fa['snap'] == pa['snap'] and fb['snap'] == pb['snap']:
                if x - pa[k] == y - pb[k]:
                    continue
            elif k in ('versions', 'children'):
                da = {p: v for p, v in x.items() if pa[k].get(p) != v}
                db = {p: v for p, v in y.items() if pb[k].get(p) != v}
                ra = {p for p in pa[k] if p not in x}
                rb = {p for p in pb[k] if p not in y}
                if da == db and ra == rb:
                    continue
            elif x == pa[k] and y == pb[k]:
                continue
        t.append(k)
    return [f'dump.{who}.{x}' for x in t]

def raw_rows(s, mask_ts=True):
    rows = set()
    if s is None or s in ('empty', 'n/a'):
        return rows
    for w in s.split():
        if mask_ts and w.startswith('C:'):
            f = w.split(',')
            if len(f) == 6:
                f[4] = '*' if f[4] != 'NULL' else 'NULL'
                w = ','.join(f)
        rows.add(w)
    return rows

REFUSAL_STATUS = {'method': 404, 'route': 404, 'pathid': 404, 'ctype': 400, 'cid': 400, 'emptybody': 400, 'toolarge': 400, 'unlisted': 403}

ALL_DUMP = {f'dump.{w}.{f}' for w in ('own', 'other') for f in ('latest', 'snap', 'since', 'ts', 'data', 'versions', 'children', 'error')} | {'dump.raw'}
OWN_CHAIN = {'dump.own.latest', 'dump.own.versions', 'dump.own.children', 'dump.raw'}

def compare_run(run, owned):
    """returns (in_scope, out_of_scope): lists of (rec, tags)"""
    ins, outs = [], []
    if 'state.dump' in owned:
        owned = set(owned) | ALL_DUMP
    last_client = None
    prev = {}          # client -> (impl dump, model dump)
    prev_raw = (None, None)
    cur_meta = None
    mutating = False
    for r in run.recs:
        if r.op not in ('dump', 'rawdump'):
            if r.client:
                last_client = r.client
            mraw = r.meta['_raw'] if r.meta else None
            if mraw != cur_meta:
                cur_meta = mraw
                mutating = False
            o = r.i_out if isinstance(r.i_out, tuple) else ()
            if (r.op == 'av' and o[:1] == ('ok',)) or (r.op == 'as' and o[:2] == ('ok', '1')) or r.op in ('create', 'reopen', 'http'):
                mutating = True
        if r.model is None:
            continue
        if r.op == 'rawdump':
            ia, ib = raw_rows(r.impl), raw_rows(r.model)
            if ia == ib:
                tags = []
            else:
                pa, pb = raw_rows(prev_raw[0]), raw_rows(prev_raw[1])
                tags = [] if (prev_raw[0] is not None and ia - pa == ib - pb and pa - ia == pb - ib) else ['dump.raw']
            prev_raw = (r.impl, r.model)
        elif r.op == 'dump':
            pi, pm = prev.get(r.client, (None, None))
            if dump_equal_mod_ts(r.impl, r.model):
                tags = []
            else:
                tags = dump_diff_tags(r.impl, r.model, 'own' if r.client == last_client else 'other', pi, pm)
            prev[r.client] = (r.impl, r.model)
        elif r.ws[0] == 'ev':
            tags = [] if r.impl == r.model else ['conc.trace']
        elif r.ws[0] == 'res':
            ih, mh = parse_http_obs(r.impl), parse_http_obs(r.model)
            same = ih is not None and mh is not None and all(ih.get(k) == mh.get(k) for k in ('status', 'vid', 'pvid', 'sr')) and blob_key(ih.get('body', '-') if ih.get('status') == 200 else '-') == blob_key(mh.get('body', '-') if mh.get('status') == 200 else '-')
            tags = [] if same else ['conc.resp']
        elif r.ws[0] == 'config':
            iw, mw = (r.impl or '').split(), (r.model or '').split()
            ik = dict(w.split('=', 1) for w in iw[1:] if '=' in w)
            mk = dict(w.split('=', 1) for w in mw[1:] if '=' in w)
            tags = []
            if (iw[:1] == ['ok']) != (mw[:1] == ['ok']):
                tags.append('cfg.start')
            elif iw[:1] == ['ok']:
                norm = lambda x: sorted(a.replace('localhost', '127.0.0.1') for a in x.split(',') if a)
                if norm(ik.get('listen', '')) != norm(mk.get('listen', '')):
                    tags.append('cfg.listen')
                if ik.get('dir') != mk.get('dir'):
                    tags.append('cfg.dir')
        elif r.ws[0] == 'rawload':
            tags = [] if (r.lhs.split(' => ')[-1] if False else (r.model or '')).startswith('ok') or r.model in (None, '') else ['fixture.decode']
        elif r.ws[0] in ('open', 'expect', 'nowalk'):
            tags = []
        elif r.ws[0] == 'restart':
            tags = [] if r.impl == r.model else ['cfg.restart']
        elif r.ws[0] == 'dircheck':
            tags = [] if r.impl == r.model else ['cfg.dir']
        elif r.ws[0] in ('req', 'prefill', 'seq', 'illegal', 'fault', 'crash', 'pool', 'xhttp', 'xcmp'):
            tags = []
        elif r.ws[0] == 'http':
            tags = http_field_diffs(r)
            # refusal-set semantics (DESIGN 3.3): a request with several independent defects may be refused with the
            # status of any of them - the ORDER of the validation steps is not part of any property
            defects = [d for d in ((r.meta or {}).get('defects') or '-').split('+') if d in REFUSAL_STATUS]
            if tags == ['http.status'] and len({REFUSAL_STATUS[d] for d in defects}) > 1:
                ih, mh = parse_http_obs(r.impl), parse_http_obs(r.model)
                allowed = {REFUSAL_STATUS[d] for d in defects}
                if ih and mh and ih.get('status') in allowed and mh.get('status') in allowed:
                    tags = []
            opn = r.op if r.op in ('av', 'gcv', 'as', 'gs') else ((r.meta or {}).get('route') if (r.meta or {}).get('route') in ('av', 'gcv', 'as', 'gs') else 'other')
            tags = [t + '.' + opn if t.startswith('http.') else t for t in tags]
        else:
            tags = [] if r.i_out == r.m_out else tags_of_diff(r)
        if tags and r.impl and r.model and ' consumed=' in r.impl and ' consumed=' in r.model:
            # fault runs: the injected fault is identified by the call it hit in the implementation (name, occurrence).
            # When only one side makes that call at all (a rewrite that adds or drops a read), one side was served an
            # error and the other was not: the two outcomes are not comparable, and neither is a statement of C05,
            # which the oracle checks on the implementation's own trace for every fault position.
            ci, cm = r.impl.rsplit(' consumed=', 1)[1].split()[0], r.model.rsplit(' consumed=', 1)[1].split()[0]
            if ci != cm:
                tags = ['fault.reach']
        if not tags:
            continue
        if r.op in ('dump', 'rawdump') and not mutating:
            tags = tags + ['noop.dump']
        if any(t in owned or t.rsplit('.', 1)[0] in owned for t in tags):
            ins.append((r, tags))
        else:
            outs.append((r, tags))
    return ins, outs
