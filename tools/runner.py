"""Orchestration of one property check (see ../check)."""
import sys, os, json, time, subprocess, re, shutil, hashlib, collections, concurrent.futures, traceback
from tcslib import *
import oracles
import props

VERIF = os.path.dirname(os.path.dirname(os.path.abspath(__file__)))
LEAN = os.path.join(VERIF, 'lean')
HARNESS = os.path.join(VERIF, 'harness')
CACHE = os.path.join(VERIF, '.cache')
OUT = os.path.join(VERIF, 'out')
DRIVER = os.path.join(LEAN, '.lake', 'build', 'bin', 'tcsdriver')
HBIN = os.path.join(CACHE, 'target', 'debug', 'tcs-harness')
ALLOWED_AXIOMS = {'propext', 'Classical.choice', 'Quot.sound'}
NCPU = min(16, os.cpu_count() or 4)

class Infra(Exception):
    pass

def sh(cmd, cwd=None, timeout=None, env=None, check=False):
    e = dict(os.environ)
    e.update({'CARGO_NET_OFFLINE': 'true'})
    if env:
        e.update(env)
    p = subprocess.run(cmd, cwd=cwd, shell=isinstance(cmd, str), stdout=subprocess.PIPE, stderr=subprocess.STDOUT, timeout=timeout, env=e)
    out = p.stdout.decode('utf8', 'replace')
    if check and p.returncode != 0:
        raise Infra(f'command failed ({p.returncode}): {cmd}\n{out[-3000:]}')
    return p.returncode, out

# ------------------------------------------------------------------------------------------ stage E/P

def extract_params():
    """literals the property statements mention, read from /repo's current source (fast path; the
    behavioural determination by the harness is the real tie)."""
    import extract_params as ep
    return ep.extract_and_write(os.path.join(LEAN, 'Tcs', 'Generated', 'ParamsImpl.lean'))

FORBIDDEN = re.compile(r'\b(sorry|admit|native_decide|bv_decide|implemented_by|unsafe)\b|^\s*axiom\s|maxHeartbeats\s+0', re.M)

def strip_comments(src):
    src = re.sub(r'/-.*?-/', '', src, flags=re.S)
    src = re.sub(r'--.*', '', src)
    return src

def module_closure(mod):
    """Tcs.* modules imported (transitively) by mod"""
    seen, todo = set(), [mod]
    while todo:
        m = todo.pop()
        if m in seen:
            continue
        seen.add(m)
        path = os.path.join(LEAN, *m.split('.')) + '.lean'
        if not os.path.exists(path):
            continue
        for line in open(path):
            mm = re.match(r'\s*import\s+(\S+)', line)
            if mm and (mm.group(1).startswith('Tcs.') or mm.group(1).startswith('Driver')):
                todo.append(mm.group(1))
    return sorted(seen)

def proof_stage(pid, thorough=False):
    """returns dict(obligations, discharged, theorems:[{name, axioms, ok}], problems:[...], checker_cmd)"""
    spec = props.PROPS[pid]
    res = {'obligations': len(spec['theorems']), 'discharged': 0, 'theorems': [], 'problems': [], 'params': None}
    try:
        res['params'] = extract_params()
    except Exception as e:
        res['problems'].append(f'parameter extraction failed: {e}')
    # source -> Lean translators (regenerated on every run; the source-tie theorems are proved about their output)
    try:
        import urgency2lean, sql2lean, server2lean, clap2lean, handlers2lean, inmemory2lean
        tr = {'urgency': urgency2lean.extract_and_write(os.path.join(LEAN, 'Tcs', 'Generated', 'UrgencySrc.lean')),
              'sql': sql2lean.extract_and_write(os.path.join(LEAN, 'Tcs', 'Generated', 'SqlSrc.lean')),
              'server': server2lean.extract_and_write(os.path.join(LEAN, 'Tcs', 'Generated', 'ServerSrc.lean')),
              'cli': clap2lean.extract_and_write(os.path.join(LEAN, 'Tcs', 'Generated', 'CliSrc.lean')),
              'handlers': handlers2lean.extract_and_write(os.path.join(LEAN, 'Tcs', 'Generated', 'HandlerSrc.lean')),
              'mem': inmemory2lean.extract_and_write(os.path.join(LEAN, 'Tcs', 'Generated', 'MemSrc.lean'))}
        res['translated_source'] = tr
        if res['params'] is not None:
            res['params']['translated_source'] = tr
    except Exception as e:
        res['problems'].append(f'source translation failed: {e}')
    mod = spec['module']
    res['checker_cmd'] = f'cd lean && lake build {mod} && lake env lean <audit of {len(spec["theorems"])} theorems with #print axioms>'
    if not spec['theorems']:
        return res
    rc, out = sh(['lake', 'build', mod], cwd=LEAN, timeout=1800)
    if rc != 0:
        res['problems'].append('lake build failed: ' + out[-2000:])
        res['build_log'] = out[-4000:]
        return res
    if 'declaration uses `sorry`' in out or "declaration uses 'sorry'" in out:
        res['problems'].append('sorry in build output')
    for m in module_closure(mod):
        path = os.path.join(LEAN, *m.split('.')) + '.lean'
        if os.path.exists(path):
            hit = FORBIDDEN.search(strip_comments(open(path).read()))
            if hit:
                res['problems'].append(f'forbidden token {hit.group(0).strip()!r} in {m}')
    os.makedirs(OUT, exist_ok=True)
    audit = os.path.join(OUT, f'Audit_{pid}.lean')
    with open(audit, 'w') as f:
        f.write(f'import {mod}\n')
        for t in spec['theorems']:
            f.write(f'#print axioms {t}\n')
    rc, out = sh(['lake', 'env', 'lean', audit], cwd=LEAN, timeout=600)
    # parse "'Name' depends on axioms: [a, b]" / "'Name' does not depend on any axioms"
    found = {}
    for m in re.finditer(r"'([^']+)' depends on axioms: \[([^\]]*)\]", out.replace('\n', ' ')):
        found[m.group(1)] = [a.strip() for a in m.group(2).split(',') if a.strip()]
    for m in re.finditer(r"'([^']+)' does not depend on any axioms", out):
        found[m.group(1)] = []
    for t in spec['theorems']:
        if t in found:
            ax = found[t]
            ok = set(ax) <= ALLOWED_AXIOMS
            res['theorems'].append({'name': t, 'axioms': ax, 'ok': ok})
            if ok:
                res['discharged'] += 1
            else:
                res['problems'].append(f'{t} depends on {ax}')
        else:
            res['theorems'].append({'name': t, 'axioms': None, 'ok': False})
            res['problems'].append(f'{t}: not found / does not check')
    if res['problems']:
        res['discharged'] = min(res['discharged'], res['obligations'] - 1) if any('forbidden' in p or 'sorry' in p for p in res['problems']) else res['discharged']
    # source ties: each is its own module (built separately, so that a statement that no longer matches breaks exactly
    # the obligations that are about it)
    for tie in spec.get('ties', []):
        tmod, tthms = tie[0], tie[1]
        srckeys = tie[2] if len(tie) > 2 else []
        res['obligations'] += len(tthms)
        # a tie is about the CURRENT source only if the translator could read it
        bad = []
        for key in srckeys:
            grp, name = key.split(':')
            st = ((res.get('translated_source') or {}).get(grp, {}).get('source', {}) or {}).get(name, 'missing')
            if st != 'translated':
                bad.append(f'{key}: {st}')
        if bad:
            # the translator could not read the current source: this second tie is not available on this run; the
            # hand-written model and the behavioural correspondence (the primary tie) decide. Recorded, not an alarm.
            res['obligations'] -= len(tthms)
            res.setdefault('ties_not_available', []).append({'module': tmod, 'theorems': tthms, 'why': bad})
            continue
        rc, out = sh(['lake', 'build', tmod], cwd=LEAN, timeout=1800)
        if rc != 0 and re.search(r'^error: Tcs/Generated/', out, re.M):
            # the translator's OUTPUT does not elaborate: it mis-read the current source (a limitation of the translator,
            # like a parse failure), so this tie is not available on this run - the correspondence decides
            errs = [l for l in out.splitlines() if l.startswith('error: Tcs/Generated/')][:2]
            res['obligations'] -= len(tthms)
            res.setdefault('ties_not_available', []).append({'module': tmod, 'theorems': tthms, 'why': ['generated term does not elaborate: ' + ' | '.join(e[:200] for e in errs)]})
            continue
        if rc != 0:
            errs = [l for l in out.splitlines() if l.startswith('error:')][:3]
            res['problems'].append(f'source tie {tmod} no longer checks against the current source (' + ' | '.join(e[:300] for e in errs) + ')')
            for t in tthms:
                res['theorems'].append({'name': t, 'axioms': None, 'ok': False, 'tie': tmod})
            continue
        audit = os.path.join(OUT, f'Audit_{pid}_{tmod.split(".")[-1]}.lean')
        with open(audit, 'w') as f:
            f.write(f'import {tmod}\n' + ''.join(f'#print axioms {t}\n' for t in tthms))
        rc, out = sh(['lake', 'env', 'lean', audit], cwd=LEAN, timeout=600)
        found = {}
        for m in re.finditer(r"'([^']+)' depends on axioms: \[([^\]]*)\]", out.replace('\n', ' ')):
            found[m.group(1)] = [a.strip() for a in m.group(2).split(',') if a.strip()]
        for m in re.finditer(r"'([^']+)' does not depend on any axioms", out):
            found[m.group(1)] = []
        for t in tthms:
            ok = t in found and set(found[t]) <= ALLOWED_AXIOMS
            res['theorems'].append({'name': t, 'axioms': found.get(t), 'ok': ok, 'tie': tmod})
            if ok:
                res['discharged'] += 1
            else:
                res['problems'].append(f'{t}: not found / does not check')
    if thorough and not res['problems']:
        rc, out = sh(['lake', 'env', 'leanchecker', mod], cwd=LEAN, timeout=1800)
        res['leanchecker'] = 'ok' if rc == 0 else out[-500:]
        if rc != 0:
            res['problems'].append('leanchecker: ' + out[-500:])
    return res

# ------------------------------------------------------------------------------------------ stage B

def build_harness():
    rc, out = sh(['cargo', 'build', '--offline', '--locked'], cwd=HARNESS, timeout=3600)
    if rc != 0:
        # a change to /repo that alters its dependency set would need a new lock; anything else is a compile error in /repo
        raise Infra('harness build failed:\n' + out[-3000:])
    if os.environ.get('VERIF_BUILD_BINARY') == '1':
        import c17
        try:
            c17.build_binary()
        except Exception as e:
            raise Infra(str(e))
    if not os.path.exists(DRIVER):
        rc, out = sh(['lake', 'build', 'tcsdriver'], cwd=LEAN, timeout=1800, check=True)
    return True

def run_driver(trace, model, flags=()):
    with open(trace, 'rb') as fi, open(model, 'wb') as fo:
        p = subprocess.run([DRIVER] + list(flags), stdin=fi, stdout=fo, stderr=subprocess.PIPE, timeout=3600)
    if p.returncode != 0:
        raise Infra('driver failed: ' + p.stderr.decode()[-1000:])

def run_shard(args):
    scen, hargs, path, flags = args
    if scen.startswith('py:'):
        t0 = time.time()
        import c17
        try:
            c17.main(path, int(hargs.get('seed', 0)), int(hargs.get('first', 0)), int(hargs.get('n', 1)), mode=hargs.get('mode', 'config'))
        except Exception as e:
            raise Infra(f'{scen} failed: {e}')
        run_driver(path, path + '.model', flags)
        return path, time.time() - t0
    cmd = [HBIN, scen] + [str(x) for kv in hargs.items() for x in ('--' + kv[0], kv[1])] + ['--out', path]
    t0 = time.time()
    p = subprocess.run(cmd, stdout=subprocess.PIPE, stderr=subprocess.PIPE, timeout=7200)
    if p.returncode != 0:
        raise Infra(f'harness {scen} failed rc={p.returncode}: {p.stderr.decode()[-2000:]}')
    run_driver(path, path + '.model', flags)
    return path, time.time() - t0

PLAN_OF = {}

def follow_flags(owned):
    f = []
    if 'av.kind' not in owned:
        f.append('follow-av')
    if 'snap.accept' not in owned:
        f.append('follow-snap')
    return f

def run_plan(pid, plan, seed, workdir, flags=()):
    """plan: list of dict(scen, args, shards, n) -> list of trace paths"""
    jobs = []
    for k, item in enumerate(plan):
        n = item.get('n', 1)
        shards = max(1, min(item.get('shards', NCPU), n))
        per = (n + shards - 1) // shards
        for s in range(shards):
            first = s * per
            cnt = min(per, n - first)
            if cnt <= 0:
                continue
            a = dict(item['args'])
            a['seed'] = seed
            a['n'] = cnt
            a['first'] = first
            if item['scen'] in ('urgency', 'fixture'):
                a['first'] = s
            jobs.append((item['scen'], a, os.path.join(workdir, f'{pid}_{k}_{s}.lines'), tuple(flags)))
    paths = []
    for (scen, a, path, fl) in jobs:
        PLAN_OF[path] = {'scen': scen, 'args': {k: v for k, v in a.items() if k not in ('n', 'first')}, 'flags': list(fl)}
    with concurrent.futures.ThreadPoolExecutor(max_workers=NCPU) as ex:
        for path, dt in ex.map(run_shard, jobs):
            paths.append(path)
    return paths

# ------------------------------------------------------------------------------------------ findings

def load_known():
    p = os.path.join(VERIF, 'known_findings.json')
    if not os.path.exists(p):
        return []
    return json.load(open(p))

# ------------------------------------------------------------------------------------------ main

def write_replay(pid, kind, run, failure, proof, extra=None):
    os.makedirs(os.path.join(OUT, 'replay'), exist_ok=True)
    path = os.path.join(OUT, 'replay', f'{pid}_{kind}_{int(time.time())}_{os.getpid()}.json')
    plan = PLAN_OF.get(getattr(run, 'src', None)) if run is not None else None
    doc = {'property': pid, 'kind': kind,
           'rerun': ({'scen': plan['scen'], 'args': plan['args'], 'flags': plan['flags'], 'h': run.h} if plan else None),
           'run_header': run.header if run else None,
           'lines': run.lines() if run else [],
           'oracle_failure': {k: v for k, v in failure.items()} if failure and 'sentence' in failure else None,
           'first_difference': failure if failure and 'tag' in failure else None,
           'broken_obligation': proof, 'extra': extra}
    json.dump(doc, open(path, 'w'), indent=1)
    return path

def shrink_run(pid, run, failing_oracle):
    """cut the history after the failing line (cheap shrink: the trace is replayable as recorded)"""
    return run

def main(argv):
    import argparse
    ap = argparse.ArgumentParser()
    ap.add_argument('pid')
    ap.add_argument('--tier', default=os.environ.get('VERIF_TIER', 'quick'))
    ap.add_argument('--replay')
    ap.add_argument('--keep', action='store_true')
    a = ap.parse_args(argv)
    pid = a.pid
    tier = a.tier if a.tier in ('quick', 'thorough') else 'quick'
    seed = int(os.environ.get('VERIF_SEED', '0') or 0)
    if pid not in props.PROPS:
        print(f'unknown property {pid}')
        return 2
    t0 = time.time()
    os.makedirs(OUT, exist_ok=True)
    # work directories left behind by runs that were killed (their process is gone): remove them, disk space is limited
    for d in os.listdir(OUT):
        m = re.fullmatch(r'work_C\d\d_(\d+)', d)
        if m and not os.path.exists(f'/proc/{m.group(1)}'):
            shutil.rmtree(os.path.join(OUT, d), ignore_errors=True)
    workdir = os.path.join(OUT, f'work_{pid}_{os.getpid()}')
    os.makedirs(workdir, exist_ok=True)
    try:
        if a.replay:
            return props.replay(pid, a.replay, sys.modules[__name__])
        rc = props.decide(pid, tier, seed, workdir, sys.modules[__name__], t0)
        return rc
    except Infra as e:
        print('INFRA-ERROR ' + str(e)[:3000])
        return 3
    except subprocess.TimeoutExpired as e:
        print('INFRA-ERROR timeout ' + str(e)[:500])
        return 3
    finally:
        if not a.keep:
            shutil.rmtree(workdir, ignore_errors=True)
