"""C17: the real executable, built from /repo's working tree, is started with generated configurations
(flags and/or environment), spoken to over loopback HTTP on every listen address, killed with SIGKILL and
restarted on the same directory. Emits protocol lines (config / http / reopen) for the Lean driver, which
answers with `serve (resolve argv env)`."""
import os, sys, subprocess, socket, time, random, tempfile, shutil, http.client, uuid, signal

REPO = '/repo'
TARGET = '/verif/.cache/target-repo'
BIN = os.path.join(TARGET, 'debug', 'taskchampion-sync-server')
HS_CT = 'application/vnd.taskchampion.history-segment'
SNAP_CT = 'application/vnd.taskchampion.snapshot'
NIL = '00000000-0000-0000-0000-000000000000'

def build_binary():
    env = dict(os.environ, CARGO_NET_OFFLINE='true')
    p = subprocess.run(['cargo', 'build', '--offline', '--locked', '--manifest-path', os.path.join(REPO, 'Cargo.toml'),
                        '--bin', 'taskchampion-sync-server', '--target-dir', TARGET],
                       stdout=subprocess.PIPE, stderr=subprocess.STDOUT, env=env)
    if p.returncode != 0:
        raise RuntimeError('binary build failed:\n' + p.stdout.decode()[-3000:])
    return BIN

def free_ports(n):
    socks, ports = [], []
    for _ in range(n):
        s = socket.socket(); s.bind(('127.0.0.1', 0)); socks.append(s); ports.append(s.getsockname()[1])
    for s in socks:
        s.close()
    return ports

def listening(port, timeout=0.2):
    try:
        s = socket.create_connection(('127.0.0.1', port), timeout=timeout); s.close(); return True
    except OSError:
        return False

def hexs(b):
    return b.hex() if b else '-'

def http_req(port, method, path, headers, body):
    c = http.client.HTTPConnection('127.0.0.1', port, timeout=5)
    c.request(method, path, body=body if body else None, headers=dict(headers))
    r = c.getresponse()
    data = r.read()
    h = {k.lower(): v for k, v in r.getheaders()}
    c.close()
    return r.status, h, data

def obs_line(status, h, data):
    enc = lambda v: ('hex:' + v.encode().hex()) if v is not None else '-'
    sr = h.get('x-snapshot-request')
    srv = '-' if sr is None else {'urgency=low': 'low', 'urgency=high': 'high'}.get(sr, 'other:' + sr.encode().hex())
    return f"{status} vid={h.get('x-version-id', '-')} pvid={h.get('x-parent-version-id', '-')} sr={srv} ct={enc(h.get('content-type'))} cc={enc(h.get('cache-control'))} body={'hex:' + data.hex() if data else '-'}"

def req_line(method, path, headers, body, newid, now):
    hs = ' '.join(f"{k.lower()}={hexs(v.encode())}" for k, v in headers)
    chunks = f"1 hex:{body.hex()}" if body else '0'
    return f"http {method} {path} {len(headers)} {hs} {chunks} {newid} {now}".replace('  ', ' ')

class Sess:
    def __init__(self, out, port):
        self.out, self.port = out, port
    def call(self, meta, method, path, headers, body=b'', kind='http'):
        now = int(time.time())
        st, h, data = http_req(self.port, method, path, headers, body)
        newid = h.get('x-version-id', '-') if (st == 200 and '/add-version/' in path) else '-'
        self.out.write(f"# {meta}\n")
        # the content-length / host headers http.client adds are not part of the model's request
        line = req_line(method, path, headers, body, newid, now) + ' => ' + obs_line(st, h, data) + '\n'
        # kind 'xhttp': a response observed in a situation the model does not describe (the storage has been destroyed
        # under the running server); judged by the property oracles only
        self.out.write(('x' + line) if kind == 'xhttp' else line)
        return st, h, data

def gen_config(rng):
    nl = rng.choice([1, 1, 2, 3])
    ports = free_ports(nl)
    addrs = [f"127.0.0.1:{p}" for p in ports]
    cfg = {'ports': ports}
    # listen: repeated flag / comma flag / env / env overridden by flag
    mode = rng.choice(['flags', 'comma', 'env', 'flag-over-env', 'short'])
    cli = {'l': [], 'L': None}
    if mode == 'flags': cli['l'] = addrs
    elif mode == 'short': cli['l'] = addrs; cfg['short'] = True
    elif mode == 'comma': cli['l'] = [','.join(addrs)]
    elif mode == 'env': cli['L'] = ','.join(addrs)
    else:
        cli['l'] = addrs; cli['L'] = '127.0.0.1:1'      # the environment value must be ignored
    # allow-list
    ids = [str(uuid.UUID(int=rng.getrandbits(128), version=4)) for _ in range(3)]
    am = rng.choice(['none', 'none', 'one-flag', 'many-flags', 'comma', 'env', 'flag-over-env'])
    cli['c'] = []; cli['C'] = None
    if am == 'one-flag': cli['c'] = [ids[0]]
    elif am == 'many-flags': cli['c'] = ids[:2]
    elif am == 'comma': cli['c'] = [ids[0] + ',' + ids[1]]
    elif am == 'env': cli['C'] = ids[0] + ',' + ids[2]
    elif am == 'flag-over-env': cli['c'] = [ids[1]]; cli['C'] = ids[0]
    cfg['ids'] = ids
    # targets
    cli['sv'] = []; cli['SV'] = None; cli['sd'] = []; cli['SD'] = None
    vm = rng.choice(['default', 'flag', 'env', 'flag-over-env'])
    v = rng.choice([1, 2, 3, 4])
    if vm == 'flag': cli['sv'] = [str(v)]
    elif vm == 'env': cli['SV'] = str(v)
    elif vm == 'flag-over-env': cli['sv'] = [str(v)]; cli['SV'] = '77'
    dm = rng.choice(['default', 'default', 'flag', 'env'])
    d = rng.choice([0, 1, 30])
    if dm == 'flag': cli['sd'] = [str(d)]
    elif dm == 'env': cli['SD'] = str(d)
    cli['d'] = []; cli['D'] = None
    cfg['dirmode'] = rng.choice(['flag', 'env', 'flag-over-env'])
    # directory names that are legal on disk but significant to URI / shell / SQL / glob syntax (no blank, ';', ',' or '=':
    # those are separators of the line protocol)
    cfg['dirname'] = rng.choice(DIRNAMES)
    cfg['log'] = rng.choice(['error', 'error', 'info', 'debug', 'warn', ''])
    cfg['cli'] = cli
    return cfg

DIRNAMES = ['data', 'data', 'data-\udcff', 'na\udcefve', 'site#1', 'q?mode', '100%', 'a%20b', '\u00fcn\u00ef', "it's", 'a&b', 'file:x', 'x+y', '[b]*', '$HOME', 'back\\slash']
DBFILE = 'taskchampion-sync-server.sqlite3'

def dircheck(work, datadir):
    """the data is IN the given directory: the database file is there, and nothing else appeared next to it"""
    entries = sorted(os.listdir(work))
    if entries != [os.path.basename(datadir)]:
        return 'stray:' + '|'.join(e.replace(' ', '_') for e in entries)
    if not os.path.isfile(os.path.join(datadir, DBFILE)):
        return 'nodb:' + '|'.join(sorted(os.listdir(datadir)))
    return 'ok'

def argv_env(cfg, datadir):
    cli = cfg['cli']
    argv, env = [], {}
    lf = '-l' if cfg.get('short') else '--listen'
    for a in cli['l']: argv += [lf, a]
    if cli['L'] is not None: env['LISTEN'] = cli['L']
    if cfg['dirmode'] == 'flag': argv += ['--data-dir', datadir]; cli['d'] = [datadir]
    elif cfg['dirmode'] == 'env': env['DATA_DIR'] = datadir; cli['D'] = datadir
    else: argv += ['-d', datadir]; env['DATA_DIR'] = datadir + '-ignored'; cli['d'] = [datadir]; cli['D'] = datadir + '-ignored'
    for c in cli['c']: argv += ['--allow-client-id', c]
    if cli['C'] is not None: env['CLIENT_ID'] = cli['C']
    for x in cli['sv']: argv += ['--snapshot-versions', x]
    if cli['SV'] is not None: env['SNAPSHOT_VERSIONS'] = cli['SV']
    for x in cli['sd']: argv += ['--snapshot-days', x]
    if cli['SD'] is not None: env['SNAPSHOT_DAYS'] = cli['SD']
    return argv, env

def config_line(cli):
    f = lambda l: ';'.join(l) if l else '-'
    e = lambda v: '-' if v is None else (v if v != '' else '(empty)')
    return f"config l={f(cli['l'])} L={e(cli['L'])} d={f(cli['d'])} D={e(cli['D'])} c={f(cli['c'])} C={e(cli['C'])} sv={f(cli['sv'])} SV={e(cli['SV'])} sd={f(cli['sd'])} SD={e(cli['SD'])}"

def expected(cli):
    """python re-statement of the rule: flag > env > default; ',' delimiter; append (the oracle's view)"""
    def raw(flag, env, delim):
        vs = flag if flag else ([env] if env is not None else None)
        if vs is None: return None
        return [y for x in vs for y in (x.split(',') if delim else [x])]
    listen = raw(cli['l'], cli['L'], True)
    allow = raw(cli['c'], cli['C'], True)
    sv = raw(cli['sv'], cli['SV'], False); sd = raw(cli['sd'], cli['SD'], False)
    dd = raw(cli['d'], cli['D'], False)
    return {'listen': listen, 'allow': allow, 'versions': int(sv[-1]) if sv else 100, 'days': int(sd[-1]) if sd else 14, 'dir': dd[-1] if dd else '/var/lib/taskchampion-sync-server'}

def start(binp, argv, env, quiet=False, log=None):
    e = {k: v for k, v in os.environ.items() if k not in ('LISTEN', 'DATA_DIR', 'CLIENT_ID', 'SNAPSHOT_VERSIONS', 'SNAPSHOT_DAYS', 'RUST_LOG')}
    e.update(env)
    # the log level is part of the environment the binary runs in (docker-compose.yml sets RUST_LOG=info): it must not
    # change what the server does. The log goes to a file: a pipe nobody reads blocks the server once it is full.
    if log is not None:
        e['RUST_LOG'] = log
    elif 'RUST_LOG' not in e:
        e['RUST_LOG'] = 'error'
    if e['RUST_LOG'] == '':
        del e['RUST_LOG']
    if quiet:
        return subprocess.Popen([binp] + argv, env=e, stdout=subprocess.DEVNULL, stderr=subprocess.DEVNULL)
    errf = tempfile.TemporaryFile()
    p = subprocess.Popen([binp] + argv, env=e, stdout=subprocess.DEVNULL, stderr=errf)
    p.errfile = errf
    return p

def stderr_tail(proc, n=300):
    try:
        proc.errfile.seek(0)
        return proc.errfile.read().decode(errors='replace')[-n:]
    except Exception:
        return ''

def wait_ports(proc, ports, timeout=20.0):
    t0 = time.time()
    while time.time() - t0 < timeout:
        if proc.poll() is not None:
            return False
        if all(listening(p) for p in ports):
            return True
        time.sleep(0.03)
    return False

def run_occupied(out, binp, rng, hi):
    """two or three listen addresses, one of which is held by another process: the server must not come up serving
    only the others (it serves on EVERY address given, or not at all)"""
    cfg = gen_config(rng)
    while len(cfg['ports']) < 2:
        cfg = gen_config(rng)
    base = os.environ.get('VERIF_SCRATCH', '/dev/shm')
    work = tempfile.mkdtemp(prefix='tcsc17', dir=base if os.path.isdir(base) else None)
    datadir = os.path.join(work, 'data')
    proc = None
    which = rng.randrange(len(cfg['ports']))
    holder = socket.socket()
    try:
        holder.setsockopt(socket.SOL_SOCKET, socket.SO_REUSEADDR, 0)
        holder.bind(('127.0.0.1', cfg['ports'][which])); holder.listen(1)
        argv, env = argv_env(cfg, datadir)
        cli = cfg['cli']
        exp = expected(cli)
        allow = exp['allow']
        out.write(f"run h={hi} setup=binary-occupied backend=sql entry=http binary=1 occupied=1 days={exp['days']} versions={exp['versions']} allow={'none' if allow is None else ','.join(allow)} clients=\n")
        proc = start(binp, argv, env)
        others = [p for i, p in enumerate(cfg['ports']) if i != which]
        t0 = time.time(); exited = False
        while time.time() - t0 < 4.0:
            if proc.poll() is not None:
                exited = True; break
            if all(listening(p) for p in others) and time.time() - t0 > 1.0:
                break
            time.sleep(0.05)
        up = [p for p in others if listening(p)] if not exited else []
        out.write(f"# i=0 op=config occupied={cfg['ports'][which]} expected_ports={','.join(map(str, cfg['ports']))}\n")
        state = 'failed' if exited else 'ok'
        out.write(config_line(cli) + f" busy=127.0.0.1:{cfg['ports'][which]} => {state} listen={','.join('127.0.0.1:' + str(p) for p in up)} dir={datadir if os.path.isdir(datadir) else '-'} days=? versions=? allow=?\n")
    finally:
        holder.close()
        if proc is not None and proc.poll() is None:
            proc.kill(); proc.wait()
        shutil.rmtree(work, ignore_errors=True)
        out.write(f"end h={hi} dead=0\n")

def run_config(out, binp, rng, hi):
    if hi % 6 == 5:
        return run_occupied(out, binp, rng, hi)
    base = os.environ.get('VERIF_SCRATCH', '/dev/shm')
    proc = None
    work = None
    try:
        # ports are chosen by binding and releasing them: another process (a parallel shard, another job on the machine) can
        # take one in between. A start that fails with "address in use" says nothing about the server: draw again.
        for attempt in range(4):
            cfg = gen_config(rng)
            if work: shutil.rmtree(work, ignore_errors=True)
            work = tempfile.mkdtemp(prefix='tcsc17', dir=base if os.path.isdir(base) else None)
            datadir = os.path.join(work, cfg['dirname'])
            argv, env = argv_env(cfg, datadir)
            proc = start(binp, argv, env, log=cfg['log'])
            ok = wait_ports(proc, cfg['ports'])
            if ok or proc.poll() is None or 'in use' not in stderr_tail(proc, 2000).lower():
                break
        cli = cfg['cli']
        exp = expected(cli)
        allow = exp['allow']
        out.write(f"run h={hi} setup=binary backend=sql entry=http binary=1 days={exp['days']} versions={exp['versions']} allow={'none' if allow is None else ','.join(allow)} clients=\n")
        up = [p for p in cfg['ports'] if listening(p)]
        # addresses from the environment that must NOT be served when a flag is given: port 1 is never ours
        out.write(f"# i=0 op=config listenmode={'short' if cfg.get('short') else 'x'} rustlog={cfg['log'] or 'unset'} expected_ports={','.join(map(str, cfg['ports']))}\n")
        out.write(config_line(cli) + f" => {'ok' if ok else 'failed'} listen={','.join('127.0.0.1:' + str(p) for p in up)} dir={datadir if os.path.isdir(datadir) else '-'} days=? versions=? allow=?\n")
        if not ok:
            err = stderr_tail(proc) if proc.poll() is not None else 'not listening'
            out.write(f"# startup: {err!r}\n".replace('\n', ' ') + '\n')
            return
        listed = allow[0] if allow else str(uuid.UUID(int=rng.getrandbits(128), version=4))
        unlisted = str(uuid.UUID(int=rng.getrandbits(128), version=4))
        k = 0
        latest = NIL
        chain = []
        nver = min(2 * exp['versions'] + 1, 7)
        for pi, port in enumerate(cfg['ports']):
            s = Sess(out, port)
            k += 1; s.call(f"i={k} op=http route=index port={pi}", 'GET', '/', [])
            if allow is not None:
                k += 1; s.call(f"i={k} op=http route=av unlisted=1 port={pi}", 'POST', f'/v1/client/add-version/{NIL}', [('Content-Type', HS_CT), ('X-Client-Id', unlisted)], b'x')
                k += 1; s.call(f"i={k} op=http route=gs unlisted=1 port={pi}", 'GET', '/v1/client/snapshot', [('X-Client-Id', unlisted)])
            for j in range(nver if pi == 0 else 1):
                k += 1
                st, h, _ = s.call(f"i={k} op=av port={pi} n={len(chain)}", 'POST', f'/v1/client/add-version/{latest}', [('Content-Type', HS_CT), ('X-Client-Id', listed)], bytes([65 + len(chain) % 26]))
                if st == 200 and 'x-version-id' in h:
                    latest = h['x-version-id']; chain.append(latest)
                if pi == 0 and j == 1:
                    k += 1; s.call(f"i={k} op=as port={pi}", 'POST', f'/v1/client/add-snapshot/{latest}', [('Content-Type', SNAP_CT), ('X-Client-Id', listed)], b'snap')
        # the other outcome classes, through the real executable (its `main` wraps the application in middleware of its own):
        # conflict, gone, not-found, no snapshot / snapshot, bad request
        s = Sess(out, cfg['ports'][0])
        if len(chain) >= 2:
            k += 1; s.call(f"i={k} op=av case=stale", 'POST', f'/v1/client/add-version/{chain[0]}', [('Content-Type', HS_CT), ('X-Client-Id', listed)], b'stale')
            k += 1; s.call(f"i={k} op=gcv case=found", 'GET', f'/v1/client/get-child-version/{chain[0]}', [('X-Client-Id', listed)])
        k += 1; s.call(f"i={k} op=gcv case=latest", 'GET', f'/v1/client/get-child-version/{latest}', [('X-Client-Id', listed)])
        k += 1; s.call(f"i={k} op=gcv case=unknown", 'GET', f'/v1/client/get-child-version/{uuid.UUID(int=rng.getrandbits(128), version=4)}', [('X-Client-Id', listed)])
        k += 1; s.call(f"i={k} op=gs case=now", 'GET', '/v1/client/snapshot', [('X-Client-Id', listed)])
        k += 1; s.call(f"i={k} op=http route=av case=badct", 'POST', f'/v1/client/add-version/{latest}', [('Content-Type', 'text/plain'), ('X-Client-Id', listed)], b'x')
        k += 1; s.call(f"i={k} op=http route=gs case=noid", 'GET', '/v1/client/snapshot', [])
        k += 1; s.call(f"i={k} op=http route=as case=empty", 'POST', f'/v1/client/add-snapshot/{latest}', [('Content-Type', SNAP_CT), ('X-Client-Id', listed)], b'')
        # crash and restart on the same directory with the same configuration
        proc.send_signal(signal.SIGKILL); proc.wait()
        out.write(f"# i={k + 1} op=reopen kill=9\n")
        out.write("reopen => ok\n")
        out.write(f"# i={k + 1} op=dircheck\ndircheck => {dircheck(work, datadir)}\n")
        proc = start(binp, argv, env, log=cfg['log'])
        ok2 = wait_ports(proc, cfg['ports'])
        out.write(f"# i={k + 2} op=restart\nrestart => {'ok' if ok2 else 'failed'}\n")
        def walk(k):
            s = Sess(out, cfg['ports'][-1])
            p = NIL
            for j in range(len(chain) + 1):
                st, h, _ = s.call(f"i={k} op=walk n={j}", 'GET', f'/v1/client/get-child-version/{p}', [('X-Client-Id', listed)])
                if st != 200:
                    break
                p = h.get('x-version-id', NIL)
            k += 1; s.call(f"i={k} op=gs", 'GET', '/v1/client/snapshot', [('X-Client-Id', listed)])
            return s, k
        if ok2:
            k += 3
            s, k = walk(k)
            k += 1; st, h, _ = s.call(f"i={k} op=av after-restart=1", 'POST', f'/v1/client/add-version/{latest}', [('Content-Type', HS_CT), ('X-Client-Id', listed)], b'after')
            if st == 200 and 'x-version-id' in h:
                latest = h['x-version-id']; chain.append(latest)
            # the data is in the directory and nowhere else: the directory, moved, serves the same history
            proc.send_signal(signal.SIGKILL); proc.wait()
            out.write(f"# i={k + 1} op=reopen kill=9 moved=1\nreopen => ok\n")
            moved = os.path.join(work, 'moved-' + cfg['dirname'])
            try:
                os.rename(datadir, moved)
            except OSError as e:
                # the directory given does not exist: the server kept its data somewhere else (reported by dircheck above)
                out.write(f"# i={k + 2} op=restart moved=1\nrestart => failed:the-directory-given-does-not-exist\n")
                return
            for junk in os.listdir(work):
                if junk != os.path.basename(moved):
                    jp = os.path.join(work, junk)
                    shutil.rmtree(jp, ignore_errors=True) if os.path.isdir(jp) else os.unlink(jp)
            argv3, env3 = argv_env(cfg, moved)
            proc = start(binp, argv3, env3, log=cfg['log'])
            ok3 = wait_ports(proc, cfg['ports'])
            out.write(f"# i={k + 2} op=restart moved=1\nrestart => {'ok' if ok3 else 'failed'}\n")
            if ok3:
                k += 3
                walk(k)
    finally:
        if proc is not None and proc.poll() is None:
            proc.kill(); proc.wait()
        shutil.rmtree(work, ignore_errors=True)
        out.write(f"end h={hi} dead=0\n")

def run_broken(out, binp, rng, hi):
    """the real executable, with its storage destroyed while it runs: every request that reaches the storage fails, and the
    responses to those failures come from the error handling of `main`, which no in-process run of the library exercises"""
    base = os.environ.get('VERIF_SCRATCH', '/dev/shm')
    work = tempfile.mkdtemp(prefix='tcsc17b', dir=base if os.path.isdir(base) else None)
    datadir = os.path.join(work, 'data')
    port = free_ports(1)[0]
    proc = None
    try:
        out.write(f"run h={hi} setup=binary-broken backend=sql entry=http binary=1 days=14 versions=100 allow=none clients=\n")
        proc = start(binp, ['--listen', f'127.0.0.1:{port}', '--data-dir', datadir], {}, quiet=True)
        ok = wait_ports(proc, [port])
        if not ok:
            out.write("# startup failed\n")
            return
        c = str(uuid.UUID(int=rng.getrandbits(128), version=4))
        s = Sess(out, port)
        st, h, _ = s.call("i=1 op=av", 'POST', f'/v1/client/add-version/{NIL}', [('Content-Type', HS_CT), ('X-Client-Id', c)], b'A')
        v = h.get('x-version-id', NIL)
        # well-formed requests whose TARGET is not an absolute path (RFC 9112 asterisk-form, absolute-form, a relative
        # reference): they reach the application's routing, so their answers are "responses from every route" too
        import socket as _socket
        def raw(method, target):
            k_ = f"{method} {target} HTTP/1.1\r\nHost: 127.0.0.1\r\nConnection: close\r\n\r\n".encode()
            so = _socket.create_connection(('127.0.0.1', port), timeout=5); so.sendall(k_)
            buf = b''
            while True:
                d = so.recv(65536)
                if not d: break
                buf += d
            so.close()
            head, _, body = buf.partition(b'\r\n\r\n')
            lines = head.decode('latin-1').split('\r\n')
            stt = int(lines[0].split()[1]) if lines and len(lines[0].split()) > 1 and lines[0].split()[1].isdigit() else 0
            hh = {l.split(':', 1)[0].strip().lower(): l.split(':', 1)[1].strip() for l in lines[1:] if ':' in l}
            return stt, hh, body
        kk = 100
        for (meth, target) in [('OPTIONS', '*'), ('GET', 'nothing'), ('GET', f'http://127.0.0.1:{port}/v1/client/snapshot'), ('GET', '//'), ('OPTIONS', '/v1/client/snapshot'), ('GET', '/v1/client/%2e%2e/x')]:
            kk += 1
            out.write(f"# i={kk} op=rawtarget\n")
            try:
                stt, hh, data = raw(meth, target)
                out.write('x' + req_line(meth, target, [], b'', '-', int(time.time())) + ' => ' + obs_line(stt, hh, data) + '\n')
            except Exception as e:
                out.write('x' + req_line(meth, target, [], b'', '-', int(time.time())) + f' => noanswer:{type(e).__name__}\n')
        how = rng.choice(['garbage', 'truncate', 'directory'])
        for f in os.listdir(datadir):
            fp = os.path.join(datadir, f)
            if f == DBFILE:
                if how == 'garbage':
                    open(fp, 'wb').write(bytes(rng.getrandbits(8) for _ in range(8192)))
                elif how == 'truncate':
                    open(fp, 'wb').write(b'SQLite format 3\x00' + b'\x00' * 50)
                else:
                    os.unlink(fp); os.mkdir(fp)
            else:
                os.unlink(fp)
        out.write(f"# i=2 op=destroy how={how}\n")
        k = 2
        for (m, meth, path, hdrs, body) in [
                ('index', 'GET', '/', [], b''),
                ('gcv', 'GET', f'/v1/client/get-child-version/{NIL}', [('X-Client-Id', c)], b''),
                ('gcv2', 'GET', f'/v1/client/get-child-version/{v}', [('X-Client-Id', c)], b''),
                ('av', 'POST', f'/v1/client/add-version/{v}', [('Content-Type', HS_CT), ('X-Client-Id', c)], b'B'),
                ('as', 'POST', f'/v1/client/add-snapshot/{v}', [('Content-Type', SNAP_CT), ('X-Client-Id', c)], b'S'),
                ('gs', 'GET', '/v1/client/snapshot', [('X-Client-Id', c)], b''),
                ('av-newclient', 'POST', f'/v1/client/add-version/{NIL}', [('Content-Type', HS_CT), ('X-Client-Id', str(uuid.UUID(int=rng.getrandbits(128), version=4)))], b'C'),
                ('unknown', 'GET', '/v1/client/nothing-here', [('X-Client-Id', c)], b''),
                ('bad-ct', 'POST', f'/v1/client/add-version/{v}', [('Content-Type', 'text/plain'), ('X-Client-Id', c)], b'B'),
                ('no-id', 'GET', '/v1/client/snapshot', [], b'')]:
            k += 1
            s.call(f"i={k} op=broken route={m}", meth, path, hdrs, body, kind='xhttp')
    finally:
        if proc is not None and proc.poll() is None:
            proc.kill(); proc.wait()
        shutil.rmtree(work, ignore_errors=True)
        out.write(f"end h={hi} dead=0\n")

def run_malformed(out, binp, rng, hi):
    """the real executable and requests with malformed client ids / paths / content types on every route: each must get a
    4xx ANSWER (the middleware `main` adds sees every request before the application does), and the server must survive"""
    base = os.environ.get('VERIF_SCRATCH', '/dev/shm')
    work = tempfile.mkdtemp(prefix='tcsc17m', dir=base if os.path.isdir(base) else None)
    datadir = os.path.join(work, 'data')
    port = free_ports(1)[0]
    proc = None
    try:
        log = rng.choice(['error', 'info', 'debug', ''])
        out.write(f"run h={hi} setup=binary-malformed backend=sql entry=http binary=1 days=14 versions=100 allow=none clients=\n")
        proc = start(binp, ['--listen', f'127.0.0.1:{port}', '--data-dir', datadir], {}, quiet=True, log=log)
        if not wait_ports(proc, [port]):
            out.write("# startup failed\n")
            return
        c = str(uuid.UUID(int=rng.getrandbits(128), version=4))
        s = Sess(out, port)
        st, h, _ = s.call("i=1 op=av", 'POST', f'/v1/client/add-version/{NIL}', [('Content-Type', HS_CT), ('X-Client-Id', c)], b'A')
        v = h.get('x-version-id', NIL)
        ids = ['', 'a', 'abc', '1234567', '12345678', c[:-1], c + '0', c.replace('-', ''), '{' + c + '}', 'urn:uuid:' + c, c.upper(), 'not-a-uuid-at-all-not-a-uuid-at-all', ' ' + c, c + ' ', 'z' * 36, '\u00e9' * 4]
        routes = [('GET', f'/v1/client/get-child-version/{v}', [], b''), ('POST', f'/v1/client/add-version/{v}', [('Content-Type', HS_CT)], b'B'),
                  ('POST', f'/v1/client/add-snapshot/{v}', [('Content-Type', SNAP_CT)], b'S'), ('GET', '/v1/client/snapshot', [], b''), ('GET', '/', [], b'')]
        k = 1
        # forms `Uuid::parse_str` accepts (simple, braced, urn, upper case) and surrounding blanks (trimmed by HTTP) may be served
        lenient = {c.replace('-', ''), '{' + c + '}', 'urn:uuid:' + c, c.upper(), ' ' + c, c + ' '}
        for cid in ids:
            meth, path, hdrs, body = routes[rng.randrange(len(routes))]
            k += 1
            out.write(f"# i={k} op=malformed cid={hexs(cid.encode())} route={path.split('/')[3] if path.count('/') > 2 else 'index'} want={'2xx-or-4xx' if path == '/' or cid in lenient else '4xx'}\n")
            try:
                stt, hh, data = http_req(port, meth, path, hdrs + [('X-Client-Id', cid.encode('utf-8').decode('latin-1'))], body)
                out.write('x' + req_line(meth, path, hdrs, body, '-', int(time.time())) + ' => ' + obs_line(stt, hh, data) + '\n')
            except Exception as e:
                out.write('x' + req_line(meth, path, hdrs, body, '-', int(time.time())) + f' => noanswer:{type(e).__name__}\n')
        # bad path ids and content types under a good client id
        for (meth, path, hdrs, body) in [('GET', '/v1/client/get-child-version/xyz', [('X-Client-Id', c)], b''), ('POST', f'/v1/client/add-version/{v}', [('Content-Type', 'text/plain'), ('X-Client-Id', c)], b'B'),
                                         ('POST', f'/v1/client/add-snapshot/{v}', [('Content-Type', SNAP_CT), ('X-Client-Id', c)], b''), ('DELETE', '/v1/client/snapshot', [('X-Client-Id', c)], b'')]:
            k += 1
            out.write(f"# i={k} op=malformed cid=ok route=other want=4xx\n")
            try:
                stt, hh, data = http_req(port, meth, path, hdrs, body)
                out.write('x' + req_line(meth, path, hdrs, body, '-', int(time.time())) + ' => ' + obs_line(stt, hh, data) + '\n')
            except Exception as e:
                out.write('x' + req_line(meth, path, hdrs, body, '-', int(time.time())) + f' => noanswer:{type(e).__name__}\n')
        # the server is still there and still serves what it had
        k += 1
        out.write(f"# i={k} op=alive want=200\n")
        try:
            stt, hh, data = http_req(port, 'GET', f'/v1/client/get-child-version/{NIL}', [('X-Client-Id', c)], b'')
            out.write('x' + req_line('GET', f'/v1/client/get-child-version/{NIL}', [('X-Client-Id', c)], b'', '-', int(time.time())) + ' => ' + obs_line(stt, hh, data) + '\n')
        except Exception as e:
            out.write(f"xhttp GET /alive 0 0 - 0 => noanswer:{type(e).__name__}\n")
    finally:
        if proc is not None and proc.poll() is None:
            proc.kill(); proc.wait()
        shutil.rmtree(work, ignore_errors=True)
        out.write(f"end h={hi} dead=0\n")

def run_crashbin(out, binp, rng, hi):
    """the real executable, killed while several clients are adding versions concurrently (so that the write-ahead log holds
    committed, not yet checkpointed transactions), and restarted through its own `main`: every acknowledged version must
    be served afterwards"""
    import threading
    base = os.environ.get('VERIF_SCRATCH', '/dev/shm')
    work = tempfile.mkdtemp(prefix='tcsc17k', dir=base if os.path.isdir(base) else None)
    datadir = os.path.join(work, 'data')
    port = free_ports(1)[0]
    proc = None
    hold = None
    try:
        out.write(f"run h={hi} setup=binary-crash backend=sql entry=http binary=1 days=14 versions=100 allow=none clients=\n")
        argv = ['--listen', f'127.0.0.1:{port}', '--data-dir', datadir]
        proc = start(binp, argv, {}, quiet=True)
        if not wait_ports(proc, [port]):
            out.write("# startup failed\n")
            return
        # every second run: another process keeps a read transaction open on the database for the whole run (a backup
        # tool, a second server instance): then no checkpoint can move the acknowledged commits out of the write-ahead
        # log, and their durability rests on the log alone. The connection is closed only after the restart was judged
        # (closing the last connection would checkpoint the log and repair what a faulty start-up lost).
        hold = None
        if hi % 2 == 1:
            try:
                http_req(port, 'GET', '/', [], b'')
                import sqlite3
                hold = sqlite3.connect(os.path.join(datadir, DBFILE), timeout=1, isolation_level=None)
                hold.execute('BEGIN'); hold.execute('SELECT count(*) FROM clients').fetchall()
            except Exception:
                hold = None
        nthreads = 4 + rng.randrange(5)
        target = 20 + rng.randrange(60)
        clients = [str(uuid.UUID(int=rng.getrandbits(128), version=4)) for _ in range(nthreads)]
        acked, lock, stop = [], threading.Lock(), threading.Event()
        def worker(c):
            latest = NIL
            while not stop.is_set():
                try:
                    st, h, _ = http_req(port, 'POST', f'/v1/client/add-version/{latest}', [('Content-Type', HS_CT), ('X-Client-Id', c)], os.urandom(40))
                except Exception:
                    return
                if st == 200 and 'x-version-id' in h:
                    with lock:
                        acked.append((c, latest, h['x-version-id']))
                    latest = h['x-version-id']
                else:
                    return
        ths = [threading.Thread(target=worker, args=(c,)) for c in clients]
        for t in ths: t.start()
        t0 = time.time()
        while time.time() - t0 < 20:
            with lock:
                if len(acked) >= target: break
            time.sleep(0.002)
        proc.send_signal(signal.SIGKILL); proc.wait()
        stop.set()
        for t in ths: t.join()
        with lock:
            got = list(acked)
        out.write(f"# i=1 op=kill acked={len(got)} held={int(hold is not None)} threads={nthreads} files={'|'.join(sorted(f + ':' + str(os.path.getsize(os.path.join(datadir, f))) for f in os.listdir(datadir)))}\n")
        proc = start(binp, argv, {}, quiet=True)
        ok = wait_ports(proc, [port])
        out.write(f"# i=2 op=restart\nrestart => {'ok' if ok else 'failed'}\n")
        if ok:
            s = Sess(out, port)
            for k, (c, parent, vid) in enumerate(got):
                s.call(f"i={k + 3} op=ackcheck want={vid}", 'GET', f'/v1/client/get-child-version/{parent}', [('X-Client-Id', c)], kind='xhttp')
    finally:
        try:
            if hold is not None: hold.close()
        except Exception:
            pass
        if proc is not None and proc.poll() is None:
            proc.kill(); proc.wait()
        if work: shutil.rmtree(work, ignore_errors=True)
        out.write(f"end h={hi} dead=0\n")

def main(out_path, seed, first, n, mode='config'):
    binp = BIN
    if not os.path.exists(binp):
        build_binary()
    with open(out_path, 'w', errors='backslashreplace') as out:       # directory names need not be UTF-8
        for hi in range(first, first + n):
            rng = random.Random(seed * 1000003 + hi)
            {'broken': run_broken, 'crashbin': run_crashbin, 'malformed': run_malformed}.get(mode, run_config)(out, binp, rng, hi)

if __name__ == '__main__':
    build_binary()
    main(sys.argv[1], int(sys.argv[2]) if len(sys.argv) > 2 else 0, 0, int(sys.argv[3]) if len(sys.argv) > 3 else 3)
