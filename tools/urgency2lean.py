"""Translate the two pure threshold functions of core/src/server.rs (`SnapshotUrgency::for_days`,
`for_versions_since`) from /repo's CURRENT source into a small deep-embedded Rust-integer expression AST (Lean), whose
semantics (fixed-width types, overflow = panic in the dev profile, truncating division, saturating / wrapping
variants, `as` / `from` conversions) is defined in Lean (Tcs/Model/RustInt.lean). The tie theorems of C12 are proved
about the GENERATED terms, so they are re-checked against what the code says now on every run.

Subset: `[let x = E;]* if C { U } [else if C { U }]* else { U }` with E over identifiers, `config.field`, integer
literals, `T::from(E)`, `E as T`, `+ - * /`, `.saturating_mul(E)`, `.wrapping_mul(E)`, `.saturating_add(E)`, parentheses;
C one comparison; U a `SnapshotUrgency::X`. Anything else: extraction fails, the stated AST is written instead and the
evidence says so (the behavioural correspondence remains the tie)."""
import re, os, sys, json

REPO = '/repo'
TYPES = {'i64', 'u32', 'u64', 'i128', 'u128', 'i32', 'usize', 'isize', 'u16', 'i16', 'u8', 'i8'}

class ParseError(Exception):
    pass

def tokenize(src):
    src = re.sub(r'//[^\n]*', '', src)
    toks = re.findall(r'[A-Za-z_][A-Za-z0-9_]*|\d[\d_]*|::|>=|<=|==|!=|[{}()<>;.,*/+\-=&]', src)
    return toks

class P:
    def __init__(self, toks, env):
        self.t, self.i, self.env = toks, 0, dict(env)
    def peek(self, k=0):
        return self.t[self.i + k] if self.i + k < len(self.t) else None
    def eat(self, x=None):
        tok = self.peek()
        if tok is None or (x is not None and tok != x):
            raise ParseError(f'expected {x!r}, found {tok!r} at {self.i}')
        self.i += 1
        return tok
    # ---- expressions: returns (ast, type) ; ast is a Lean term string; type None = untyped literal
    def primary(self):
        tok = self.peek()
        if tok == '(':
            self.eat('('); e = self.expr(); self.eat(')')
        elif tok == '&':
            self.eat('&'); e = self.primary(); return e
        elif tok is not None and re.fullmatch(r'\d[\d_]*', tok):
            self.eat(); e = (('lit', int(tok.replace('_', ''))), None)
        elif tok in TYPES and self.peek(1) == '::':
            ty = self.eat(); self.eat('::'); f = self.eat()
            if f == 'from':
                self.eat('('); (a, _ta) = self.expr(); self.eat(')')
                e = (('from', a, ty), ty)
            elif f in ('MAX', 'MIN'):
                e = (('lit', {'MAX': tymax(ty), 'MIN': tymin(ty)}[f]), ty)
            else:
                raise ParseError(f'unsupported {ty}::{f}')
        elif tok is not None and re.fullmatch(r'[A-Za-z_][A-Za-z0-9_]*', tok):
            name = self.eat()
            while self.peek() == '.' and re.fullmatch(r'[a-z_][a-z0-9_]*', self.peek(1) or '') and self.peek(2) != '(':
                self.eat('.'); name += '.' + self.eat()
            if name not in self.env:
                raise ParseError(f'unknown identifier {name}')
            v = self.env[name]
            e = v if isinstance(v, tuple) and isinstance(v[0], tuple) else (('var', name), v)
        else:
            raise ParseError(f'unexpected token {tok!r}')
        # postfix: method calls, `as T`
        while True:
            if self.peek() == '.' and self.peek(2) == '(':
                self.eat('.'); m = self.eat(); self.eat('('); (b, tb) = self.expr(); self.eat(')')
                if m not in ('saturating_mul', 'wrapping_mul', 'saturating_add', 'wrapping_add', 'saturating_sub'):
                    raise ParseError(f'unsupported method {m}')
                a, ta = e
                ty = ta or tb
                e = ((m, a, b, ty), ty)
            elif self.peek() == 'as':
                self.eat('as'); ty = self.eat()
                if ty not in TYPES: raise ParseError(f'cast to {ty}')
                e = (('as', e[0], e[1], ty), ty)
            else:
                return e
    def term(self):
        e = self.primary()
        while self.peek() in ('*', '/'):
            op = self.eat(); r = self.primary()
            ty = e[1] or r[1]
            e = (({'*': 'mul', '/': 'div'}[op], e[0], r[0], ty), ty)
        return e
    def expr(self):
        e = self.term()
        while self.peek() in ('+', '-'):
            op = self.eat(); r = self.term()
            ty = e[1] or r[1]
            e = (({'+': 'add', '-': 'sub'}[op], e[0], r[0], ty), ty)
        return e
    def cond(self):
        a = self.expr(); op = self.eat()
        if op not in ('>=', '<=', '==', '<', '>'): raise ParseError(f'comparison {op}')
        b = self.expr()
        ty = a[1] or b[1]
        return (op, a[0], b[0], ty)
    def urg(self):
        self.eat('{')
        if self.peek() == 'SnapshotUrgency' or self.peek() == 'Self':
            self.eat(); self.eat('::')
        u = self.eat()
        if u not in ('None', 'Low', 'High'): raise ParseError(f'urgency {u}')
        self.eat('}')
        return u
    def body(self):
        while self.peek() == 'let':
            self.eat('let'); name = self.eat()
            if self.peek() == ':':
                raise ParseError('typed let')
            self.eat('='); e = self.expr(); self.eat(';')
            self.env[name] = e
        return self.ifchain()
    def ifchain(self):
        self.eat('if'); c = self.cond(); u = self.urg(); self.eat('else')
        if self.peek() == 'if':
            rest = self.ifchain()
        else:
            rest = ('ret', self.urg())
        return ('ite', c, ('ret', u), rest)

def tymax(ty):
    bits = int(re.sub(r'\D', '', ty) or 64)
    return 2 ** (bits - 1) - 1 if ty[0] == 'i' else 2 ** bits - 1
def tymin(ty):
    bits = int(re.sub(r'\D', '', ty) or 64)
    return -(2 ** (bits - 1)) if ty[0] == 'i' else 0

def lean_ty(ty):
    if ty is None: raise ParseError('untyped expression')
    return '.' + {'usize': 'u64', 'isize': 'i64'}.get(ty, ty)

def lean_expr(a, ty_hint=None):
    k = a[0]
    if k == 'lit':
        return f'(.lit ({a[1]}))'
    if k == 'var':
        return f'(.var "{a[1]}")'
    if k == 'from':
        return lean_expr(a[1])                      # lossless by Rust's typing: the value is unchanged
    if k == 'as':
        return f'(.cast {lean_expr(a[1])} {lean_ty(a[3])})'
    if k in ('mul', 'div', 'add', 'sub'):
        return f'(.{k} {lean_expr(a[1])} {lean_expr(a[2])} {lean_ty(a[3])})'
    if k in ('saturating_mul', 'wrapping_mul', 'saturating_add', 'wrapping_add', 'saturating_sub'):
        nm = {'saturating_mul': 'satMul', 'wrapping_mul': 'wrapMul', 'saturating_add': 'satAdd', 'wrapping_add': 'wrapAdd', 'saturating_sub': 'satSub'}[k]
        return f'(.{nm} {lean_expr(a[1])} {lean_expr(a[2])} {lean_ty(a[3])})'
    raise ParseError(f'expr {k}')

def lean_body(b):
    if b[0] == 'ret':
        return f'(.ret .{ {"None": "none", "Low": "low", "High": "high"}[b[1]] })'
    _, (op, x, y, _ty), t, e = b
    opn = {'>=': 'ge', '<=': 'le', '==': 'eq', '<': 'lt', '>': 'gt'}[op]
    return f'(.ite (.{opn} {lean_expr(x)} {lean_expr(y)}) {lean_body(t)} {lean_body(e)})'

STATED = {
 'forDays': '(.ite (.ge (.var "days") (.div (.mul (.var "config.snapshot_days") (.lit (3)) .i128) (.lit (2)) .i128)) (.ret .high) (.ite (.ge (.var "days") (.var "config.snapshot_days")) (.ret .low) (.ret .none)))',
 'forVersionsSince': '(.ite (.ge (.var "versions_since") (.div (.mul (.var "config.snapshot_versions") (.lit (3)) .u64) (.lit (2)) .u64)) (.ret .high) (.ite (.ge (.var "versions_since") (.var "config.snapshot_versions")) (.ret .low) (.ret .none)))',
}

def fn_body(src, name):
    m = re.search(r'fn\s+' + name + r'\s*\(([^)]*)\)\s*->\s*Self\s*\{', src)
    if not m: raise ParseError(f'fn {name} not found')
    i = m.end(); depth = 1; j = i
    while depth and j < len(src):
        depth += {'{': 1, '}': -1}.get(src[j], 0); j += 1
    params = {}
    for p in m.group(1).split(','):
        p = p.strip()
        if ':' in p:
            n, t = [x.strip() for x in p.split(':', 1)]
            params[n] = t.lstrip('&').strip()
    return params, src[i:j - 1]

def config_fields(src):
    m = re.search(r'pub struct ServerConfig\s*\{(.*?)\n\}', src, re.S)
    out = {}
    if m:
        for n, t in re.findall(r'pub\s+(\w+)\s*:\s*(\w+)', m.group(1)):
            out['config.' + n] = t
    return out

def extract():
    res, source = {}, {}
    try:
        src = open(os.path.join(REPO, 'core/src/server.rs')).read()
        cfg = config_fields(src)
    except Exception as e:
        src, cfg = '', {}
    for lean_name, rust_name in (('forDays', 'for_days'), ('forVersionsSince', 'for_versions_since')):
        try:
            params, body = fn_body(src, rust_name)
            env = dict(cfg)
            for n, t in params.items():
                if t in TYPES: env[n] = t
            p = P(tokenize(body), env)
            ast = p.body()
            if p.peek() is not None: raise ParseError(f'trailing tokens at {p.i}: {p.t[p.i:p.i+5]}')
            res[lean_name] = lean_body(ast); source[lean_name] = 'translated'
        except Exception as e:
            res[lean_name] = STATED[lean_name]; source[lean_name] = f'not-translated ({e}); behavioural correspondence only'
    return res, source

def render(res):
    L = ["/- GENERATED by tools/urgency2lean.py from /repo's current core/src/server.rs on every check run. Do not edit. -/",
         'import Tcs.Model.RustInt', 'namespace Tcs', 'namespace UrgencySrc']
    for k, v in res.items():
        L.append(f'def {k} : RBody :=\n  {v}')
    L += ['end UrgencySrc', 'end Tcs', '']
    return '\n'.join(L)

def extract_and_write(path):
    res, source = extract()
    txt = render(res)
    os.makedirs(os.path.dirname(path), exist_ok=True)
    old = open(path).read() if os.path.exists(path) else None
    if old != txt:
        open(path, 'w').write(txt)
    return {'source': source, 'differs_from_stated': {k: v for k, v in res.items() if v != STATED[k]}}

if __name__ == '__main__':
    print(json.dumps(extract_and_write(sys.argv[1] if len(sys.argv) > 1 else '/verif/lean/Tcs/Generated/UrgencySrc.lean'), indent=1))
