"""Translate the four protocol operations of core/src/server.rs (`get_child_version`, `add_version`, `add_snapshot`,
`get_snapshot`) from /repo's CURRENT source into Lean definitions in the transaction monad `TxnM`
(Tcs/Generated/ServerSrc.lean), statement by statement:

  let x = txn.CALL(args)?;                     ->  .call (CALL args) fun x => …          (an error aborts: `?`)
  let c = txn.get_client()?.ok_or(NoSuchClient)?;  ->  .call .getClient fun r => match r with | none => .ret (.error .noSuchClient) | some c => …
  if C { A } else { B } ; rest                 ->  if C then ⟦A ; rest⟧ else ⟦B ; rest⟧
  if let Some(x) = E { A } else { B } ; rest   ->  match E with | some x => ⟦A ; rest⟧ | none => ⟦B ; rest⟧
  return Ok(e) / tail Ok(e)                    ->  .ret (.ok e)
  loop { … break … }  rest                     ->  a structurally recursive function over a fuel argument whose parameters
                                                   are the variables assigned in the loop; `break` continues with ⟦rest⟧
  Uuid::new_v4(), Utc::now()                   ->  the parameters `newId`, `now` (the values the server draws)

The tie theorems (Proofs/ServerSrcTie.lean) state that the generated definitions ARE the hand-written programs of
Model/Server.lean (on which every protocol theorem rests). Logging macros are dropped; `self.storage.txn(client_id)?`
is the transaction itself. Anything outside the subset: the function is reported `not-translated`, the stated text is
written, and the behavioural correspondence remains the only tie for it."""
import re, os, sys, json

REPO = '/repo'

class PE(Exception):
    pass

# ------------------------------------------------------------------------------------------------ tokenizer
TOK = re.compile(r'''
    (?P<ws>\s+|//[^\n]*)
  | (?P<str>"(?:[^"\\]|\\.)*")
  | (?P<num>\d[\d_]*)
  | (?P<id>[A-Za-z_][A-Za-z0-9_]*)
  | (?P<op>::|->|=>|==|!=|<=|>=|&&|\|\||-=|\+=|\.\.|[{}()\[\];,.:?|&!<>=+\-*/'#])
''', re.X)

def tokenize(src):
    out, i = [], 0
    while i < len(src):
        m = TOK.match(src, i)
        if not m:
            raise PE(f'cannot tokenize at {src[i:i+20]!r}')
        i = m.end()
        if m.lastgroup == 'ws':
            continue
        out.append((m.lastgroup, m.group(m.lastgroup)))
    return out

# ------------------------------------------------------------------------------------------------ parser (subset of Rust)
class Parser:
    def __init__(self, toks):
        self.t, self.i = toks, 0
    def peek(self, k=0):
        return self.t[self.i + k][1] if self.i + k < len(self.t) else None
    def kind(self, k=0):
        return self.t[self.i + k][0] if self.i + k < len(self.t) else None
    def eat(self, x=None):
        tok = self.peek()
        if tok is None or (x is not None and tok != x):
            raise PE(f'expected {x!r}, found {tok!r} (token {self.i})')
        self.i += 1
        return tok
    def at(self, x):
        return self.peek() == x
    # ---- blocks and statements
    def block(self):
        self.eat('{')
        stmts = []
        while not self.at('}'):
            stmts.append(self.stmt())
        self.eat('}')
        return stmts
    def skip_macro(self):
        # path ! ( ... ) ;
        while not self.at('!'):
            self.eat()
        self.eat('!')
        open_ch = self.eat()
        close = {'(': ')', '[': ']', '{': '}'}[open_ch]
        depth = 1
        while depth:
            tk = self.eat()
            if tk == open_ch: depth += 1
            elif tk == close: depth -= 1
        if self.at(';'): self.eat(';')
    def is_macro(self):
        k = 0
        while self.kind(k) == 'id' or self.peek(k) == '::':
            k += 1
        return self.peek(k) == '!' and self.peek(k + 1) in ('(', '[', '{')
    def stmt(self):
        if self.kind() == 'id' and self.is_macro():
            self.skip_macro(); return ('skip',)
        if self.at('let'):
            self.eat('let')
            mut = False
            if self.at('mut'): self.eat('mut'); mut = True
            pat = self.pattern()
            if self.at(':'):
                self.eat(':'); self.type_()
            self.eat('='); e = self.expr(); self.eat(';')
            return ('let', pat, e, mut)
        if self.at('return'):
            self.eat('return'); e = self.expr(); self.eat(';')
            return ('return', e)
        if self.at('break'):
            self.eat('break'); self.eat(';'); return ('break',)
        if self.at('loop'):
            self.eat('loop'); b = self.block(); return ('loop', b)
        if self.at('if'):
            e = self.if_expr()
            if self.at(';'): self.eat(';')
            return ('expr', e, True)
        if self.kind() == 'id' and self.peek(1) in ('=', '-=', '+='):
            name = self.eat(); op = self.eat(); e = self.expr(); self.eat(';')
            return ('assign', name, op, e)
        e = self.expr()
        if self.at(';'):
            self.eat(';'); return ('expr', e, True)
        return ('expr', e, False)          # tail expression
    def type_(self):
        depth = 0
        while True:
            tk = self.peek()
            if tk in ('=', ';', ')', ',', '{') and depth == 0: return
            if tk == '<': depth += 1
            if tk == '>': depth -= 1
            self.eat()
    def pattern(self):
        # ident | Path(pat) | Path { field, field: pat, .. } | (pat, pat)
        if self.at('('):
            self.eat('('); ps = []
            while not self.at(')'):
                ps.append(self.pattern())
                if self.at(','): self.eat(',')
            self.eat(')'); return ('ptuple', ps)
        name = self.path()
        if self.at('('):
            self.eat('('); inner = self.pattern(); self.eat(')')
            return ('pctor', name, inner)
        if self.at('{'):
            self.eat('{'); fields = []
            while not self.at('}'):
                if self.at('..'): self.eat('..')
                else:
                    f = self.eat()
                    if self.at(':'): self.eat(':'); fields.append((f, self.pattern()))
                    else: fields.append((f, ('pvar', f)))
                if self.at(','): self.eat(',')
            self.eat('}'); return ('pstruct', name, fields)
        return ('pvar', name)
    def path(self):
        p = self.eat()
        while self.at('::'):
            self.eat('::'); p += '::' + self.eat()
        return p
    # ---- expressions
    def if_expr(self):
        self.eat('if')
        if self.at('let'):
            self.eat('let'); pat = self.pattern(); self.eat('='); scrut = self.expr_nostruct()
            then = self.block()
            els = self.else_part()
            return ('iflet', pat, scrut, then, els)
        c = self.expr_nostruct(); then = self.block(); els = self.else_part()
        return ('if', c, then, els)
    def else_part(self):
        if self.at('else'):
            self.eat('else')
            if self.at('if'):
                return [('expr', self.if_expr(), False)]
            return self.block()
        return None
    def expr_nostruct(self):
        self.nostruct = True
        try:
            return self.expr()
        finally:
            self.nostruct = False
    nostruct = False
    def expr(self):
        return self.binop(0)
    LEVELS = [['||'], ['&&'], ['==', '!=', '<=', '>=', '<', '>'], ['+', '-'], ['*', '/']]
    def binop(self, lvl):
        if lvl == len(self.LEVELS):
            return self.unary()
        e = self.binop(lvl + 1)
        while self.peek() in self.LEVELS[lvl]:
            op = self.eat(); r = self.binop(lvl + 1)
            e = ('bin', op, e, r)
        return e
    def unary(self):
        if self.at('!'): self.eat('!'); return ('not', self.unary())
        if self.at('&'):
            self.eat('&')
            if self.at('mut'): self.eat('mut')
            return self.unary()
        if self.at('*'): self.eat('*'); return self.unary()
        return self.postfix(self.primary())
    def args(self):
        self.eat('('); a = []
        while not self.at(')'):
            a.append(self.expr())
            if self.at(','): self.eat(',')
        self.eat(')'); return a
    def postfix(self, e):
        while True:
            if self.at('?'):
                self.eat('?'); e = ('try', e)
            elif self.at('.') and self.kind(1) in ('id', 'num'):
                self.eat('.'); name = self.eat()
                if self.at('('):
                    e = ('method', e, name, self.args())
                else:
                    e = ('field', e, name)
            else:
                return e
    def primary(self):
        tk = self.peek()
        if tk == '(':
            self.eat('('); es = []
            while not self.at(')'):
                es.append(self.expr())
                if self.at(','): self.eat(',')
            self.eat(')')
            return es[0] if len(es) == 1 else ('tuple', es)
        if tk == '|':
            self.eat('|'); ps = []
            while not self.at('|'):
                ps.append(self.pattern())
                if self.at(','): self.eat(',')
            self.eat('|')
            return ('closure', ps, self.expr())
        if tk == 'if':
            return self.if_expr()
        if tk == 'match':
            self.eat('match'); scrut = self.expr_nostruct(); self.eat('{'); arms = []
            while not self.at('}'):
                p = self.pattern(); self.eat('=>')
                if self.at('{'):
                    body = ('blockexpr', self.block())
                else:
                    body = self.expr()
                if self.at(','): self.eat(',')
                arms.append((p, body))
            self.eat('}')
            return ('match', scrut, arms)
        if self.kind() == 'num':
            return ('num', int(self.eat().replace('_', '')))
        if self.kind() == 'str':
            return ('str', self.eat())
        if self.kind() == 'id':
            p = self.path()
            if self.at('('):
                return ('call', p, self.args())
            if self.at('{') and not self.nostruct and re.match(r'[A-Z]', p.split('::')[-1]):
                self.eat('{'); fields = []
                while not self.at('}'):
                    f = self.eat()
                    if self.at(':'): self.eat(':'); fields.append((f, self.expr()))
                    else: fields.append((f, ('var', f)))
                    if self.at(','): self.eat(',')
                self.eat('}')
                return ('struct', p, fields)
            return ('var', p)
        raise PE(f'unexpected token {tk!r} in expression')

# ------------------------------------------------------------------------------------------------ emitter
FIELD = {'latest_version_id': 'latest', 'snapshot': 'snap', 'version_id': None, 'parent_version_id': 'parent', 'history_segment': 'seg',
         'timestamp': 'ts', 'versions_since': 'since'}
CALLS = {'get_client': ('.getClient', 0), 'new_client': ('.newClient', 1), 'get_version_by_parent': ('.getByParent', 1), 'get_version': ('.getVersion', 1),
         'get_snapshot_data': ('.getSnapshotData', 1), 'add_version': ('.addVersion', 3), 'set_snapshot': ('.setSnapshot', 2), 'commit': ('.commit', 0)}

class Emit:
    def __init__(self, fname, params, consts):
        self.fname, self.params, self.consts = fname, params, consts
        self.types = {}            # variable -> 'client' | 'snapshot' | 'version' | 'int' | 'id' | ...
        self.loops = []            # generated helper definitions
        self.wrote = False
    def fresh(self, base):
        return base
    # ---- expressions (pure)
    def e(self, x):
        k = x[0]
        if k == 'num': return str(x[1])
        if k == 'var':
            n = x[1]
            if n in ('NIL_VERSION_ID', 'crate::NIL_VERSION_ID'): return 'Uuid.nil'
            if n == 'None': return 'none'
            if n in self.consts: return self.consts[n]
            if n.startswith('SnapshotUrgency::'): return '.' + n.split('::')[1].lower()
            if n.startswith('GetVersionResult::'): return {'NotFound': 'GetRes.notFound', 'Gone': 'GetRes.gone'}[n.split('::')[1]]
            if '::' in n: raise PE(f'unknown path {n}')
            return n
        if k == 'field':
            base = x[1]
            if base == ('var', 'self') and x[2] == 'config':
                return 'cfg'
            b = self.e(base); f = x[2]
            t = self.type_of(base)
            if f == 'version_id':
                if t == 'snapshot': return f'{b}.vid'
                if t == 'version': return f'{b}.id'
                raise PE(f'field version_id of {t}')
            if f in ('snapshot_days',) and b == 'cfg': return 'cfg.days'
            if f in ('snapshot_versions',) and b == 'cfg': return '(cfg.versions : Int)'
            if f in FIELD and FIELD[f]: return f'{b}.{FIELD[f]}'
            raise PE(f'unknown field {f}')
        if k == 'call':
            f, a = x[1], x[2]
            if f == 'Some': return f'(some {self.e(a[0])})'
            if f == 'Ok' or f == 'Err': raise PE('Ok/Err in expression position')
            if f == 'Uuid::new_v4' and not a: return 'newId'
            if f == 'Utc::now' and not a: return 'now'
            if f == 'std::cmp::max' or f == 'cmp::max' or f == 'max': return f'(Urgency.max {self.e(a[0])} {self.e(a[1])})'
            if f == 'SnapshotUrgency::for_days': return f'(lvl {self.e(a[1])} cfg.days)'
            if f == 'SnapshotUrgency::for_versions_since': return f'(lvl {self.e(a[1])} cfg.versions)'
            if f == 'AddVersionResult::Ok': return f'(AddRes.ok {self.e(a[0])})'
            if f == 'AddVersionResult::ExpectedParentVersion': return f'(AddRes.expected {self.e(a[0])})'
            raise PE(f'unknown function {f}')
        if k == 'method':
            recv, m, a = x[1], x[2], x[3]
            if m == 'map' and a and a[0][0] == 'closure' and len(a[0][1]) == 1 and a[0][1][0][0] == 'pvar':
                v = a[0][1][0][1]
                rt = self.type_of(recv)
                old = self.types.get(v); self.types[v] = {'opt-snapshot': 'snapshot', 'opt-version': 'version'}.get(rt, 'unknown')
                body = self.e(a[0][2])
                if old is None: self.types.pop(v, None)
                else: self.types[v] = old
                return f'({self.e(recv)}.map fun {v} => {body})'
            if m == 'num_days' and not a and recv[0] == 'bin' and recv[1] == '-':
                return f'(days {self.e(recv[2])} {self.e(recv[3])})'
            if m in ('clone', 'to_owned') and not a: return self.e(recv)
            raise PE(f'unknown method {m}')
        if k == 'bin':
            op, l, r = x[1], self.e(x[2]), self.e(x[3])
            if op == '==': return f'decide ({l} = {r})'
            if op == '!=': return f'decide ({l} ≠ {r})'
            if op in ('<=', '>=', '<', '>'): return f'decide ({l} {"≤" if op == "<=" else "≥" if op == ">=" else op} {r})'
            if op in ('&&', '||'): return f'({l} {op} {r})'
            if op in ('+', '-', '*'): return f'({l} {op} {r})'
            raise PE(f'operator {op}')
        if k == 'not': return f'(!{self.e(x[1])})'
        if k == 'tuple': return '(' + ', '.join(self.e(y) for y in x[1]) + ')'
        if k == 'struct':
            name, fs = x[1], dict(x[2])
            if name == 'GetVersionResult::Success':
                return f'(GetRes.found ⟨{self.e(fs["version_id"])}, {self.e(fs["parent_version_id"])}, {self.e(fs["history_segment"])}⟩)'
            if name == 'Snapshot':
                return f'(⟨{self.e(fs["version_id"])}, {self.e(fs["timestamp"])}, {self.e(fs["versions_since"])}⟩ : Snapshot)'
            raise PE(f'struct {name}')
        if k == 'match':
            scrut = x[1]; arms = x[2]
            st = self.type_of(scrut)
            out = f'(match {self.e(scrut)} with'
            for p, body in arms:
                if p == ('pvar', 'None'):
                    out += f' | none => {self.e(body)}'
                elif p[0] == 'pctor' and p[1] == 'Some':
                    inner = p[2]
                    if inner[0] == 'pstruct' and inner[1] == 'Snapshot':
                        # bind the named fields of the snapshot
                        v = '_snap'
                        binds = {}
                        for f, pp in inner[2]:
                            binds[pp[1]] = f'{v}.{ {"version_id": "vid", "timestamp": "ts", "versions_since": "since"}[f] }'
                        saved = dict(self.consts)
                        self.consts.update(binds)
                        b = self.e(body)
                        self.consts = saved
                        out += f' | some {v} => {b}'
                    elif inner[0] == 'pvar':
                        self.types[inner[1]] = {'opt-snapshot': 'snapshot', 'opt-version': 'version'}.get(st, 'unknown')
                        out += f' | some {inner[1]} => {self.e(body)}'
                    else:
                        raise PE('match pattern')
                else:
                    raise PE(f'match pattern {p}')
            return out + ')'
        if k == 'blockexpr':
            ss = [s for s in x[1] if s != ('skip',)]
            if len(ss) == 1 and ss[0][0] == 'expr' and not ss[0][2]:
                return self.e(ss[0][1])
            raise PE('block expression with statements')
        if k == 'if':
            # pure conditional expression
            def blk(b):
                ss = [s for s in b if s != ('skip',)]
                if len(ss) == 1 and ss[0][0] == 'expr' and not ss[0][2]: return self.e(ss[0][1])
                raise PE('if-expression branch with statements')
            if x[3] is None: raise PE('if-expression without else')
            return f'(if {self.e(x[1])} then {blk(x[2])} else {blk(x[3])})'
        raise PE(f'expression {k}')
    def type_of(self, x):
        if x[0] == 'num': return 'int'
        if x[0] == 'var' and x[1] in self.consts: return 'int'
        if x[0] == 'var': return self.types.get(x[1], 'unknown')
        if x[0] in ('cast', 'as'): return 'int'
        if x[0] == 'field' and self.type_of(x[1]) == 'version' and x[2] in ('parent_version_id', 'version_id'): return 'id'
        if x[0] == 'field':
            t = self.type_of(x[1])
            if t == 'client' and x[2] == 'snapshot': return 'opt-snapshot'
            if t == 'client' and x[2] == 'latest_version_id': return 'id'
        if x[0] == 'method' and x[2] == 'map': return 'opt'
        return 'unknown'
    # ---- statements with effects: returns a Lean term of type TxnM R
    def ret_ok(self, inner):
        if inner == ('tuple', []):
            return f'.ret (.ok {"true" if self.wrote else "false"})'
        return f'.ret (.ok {self.e(inner)})'
    def is_ok_unit(self, e):
        return e[0] == 'call' and e[1] == 'Ok'
    def txn_call(self, e):
        """e = txn.NAME(args)  ->  (lean call term, name)"""
        if e[0] == 'method' and e[1] == ('var', 'txn') and e[2] in CALLS:
            nm, ar = CALLS[e[2]]
            if len(e[3]) != ar: raise PE(f'arity of {e[2]}')
            return (f'({nm}' + ''.join(' ' + self.e(a) for a in e[3]) + ')') if ar else nm, e[2]
        return None
    def seq(self, stmts, after):
        """stmts followed by the continuation `after` (a thunk giving the Lean term for 'fall off the end')"""
        stmts = [s for s in stmts if s != ('skip',)]
        if not stmts:
            return after()
        s, rest = stmts[0], stmts[1:]
        cont = lambda: self.seq(rest, after)
        k = s[0]
        if k == 'let':
            pat, ex = s[1], s[2]
            if pat[0] != 'pvar': raise PE('let pattern')
            v = pat[1]
            # let mut txn = self.storage.txn(client_id)?;   -- the transaction itself
            if ex[0] == 'try' and ex[1][0] == 'method' and ex[1][2] == 'txn':
                return cont()
            # let client = txn.get_client()?.ok_or(ServerError::NoSuchClient)?;
            if ex[0] == 'try' and ex[1][0] == 'method' and ex[1][2] == 'ok_or' and ex[1][1][0] == 'try' and self.txn_call(ex[1][1][1]):
                c, nm = self.txn_call(ex[1][1][1])
                err = ex[1][3][0]
                if err != ('var', 'ServerError::NoSuchClient'): raise PE('ok_or with another error')
                self.types[v] = 'client' if nm == 'get_client' else 'unknown'
                return f'.call {c} fun _r => (match _r with\n  | none => .ret (.error .noSuchClient)\n  | some {v} =>\n  {self.seq(rest, after)})'
            if ex[0] == 'try' and self.txn_call(ex[1]):
                c, nm = self.txn_call(ex[1])
                self.types[v] = {'get_version': 'opt-version', 'get_version_by_parent': 'opt-version'}.get(nm, 'unknown')
                return f'.call {c} fun {v} =>\n  {self.seq(rest, after)}'
            # pure let
            val = self.e(ex)
            t = self.type_of(ex)
            if ex[0] == 'call' and ex[1] == 'Uuid::new_v4': t = 'id'
            self.types[v] = t if t != 'unknown' else self.types.get(v, 'unknown')
            if ex[0] == 'method' and ex[2] == 'map': self.types[v] = 'opt'
            return f'let {v} := {val}\n  {self.seq(rest, after)}'
        if k == 'assign':
            name, op, ex = s[1], s[2], s[3]
            val = self.e(ex)
            if op == '-=': val = f'{name} - {val}'
            if op == '+=': val = f'{name} + {val}'
            return f'let {name} := {val}\n  {self.seq(rest, after)}'
        if k == 'return':
            ex = s[1]
            if self.is_ok_unit(ex): return self.ret_ok(ex[2][0])
            raise PE('return of something other than Ok(..)')
        if k == 'break':
            if self.break_k is None: raise PE('break outside loop')
            return self.break_k()
        if k == 'loop':
            return self.loop(s[1], rest, after)
        if k == 'expr':
            ex, semi = s[1], s[2]
            if ex[0] == 'if':
                els = ex[3] if ex[3] is not None else []
                w = self.wrote
                a = self.seq(ex[2] + rest, after); self.wrote = w
                b = self.seq(els + rest, after); self.wrote = w
                return f'(if {self.e(ex[1])} then\n  {a}\n  else\n  {b})'
            if ex[0] == 'iflet':
                pat, scrut = ex[1], ex[2]
                if not (pat[0] == 'pctor' and pat[1] == 'Some' and pat[2][0] == 'pvar'): raise PE('if-let pattern')
                v = pat[2][1]
                els = ex[4] if ex[4] is not None else []
                w = self.wrote
                if scrut[0] == 'try' and self.txn_call(scrut[1]):
                    c, nm = self.txn_call(scrut[1])
                    self.types[v] = 'version' if nm in ('get_version', 'get_version_by_parent') else 'unknown'
                    a = self.seq(ex[3] + rest, after); self.wrote = w
                    b = self.seq(els + rest, after); self.wrote = w
                    return f'.call {c} fun _r => (match _r with\n  | some {v} =>\n  {a}\n  | none =>\n  {b})'
                self.types[v] = {'opt-snapshot': 'snapshot', 'opt-version': 'version'}.get(self.type_of(scrut), 'unknown')
                a = self.seq(ex[3] + rest, after); self.wrote = w
                b = self.seq(els + rest, after); self.wrote = w
                return f'(match {self.e(scrut)} with\n  | some {v} =>\n  {a}\n  | none =>\n  {b})'
            if ex[0] == 'try' and self.txn_call(ex[1]) and semi:
                c, nm = self.txn_call(ex[1])
                if nm in ('add_version', 'set_snapshot', 'new_client'): self.wrote = True
                return f'.call {c} fun _ =>\n  {self.seq(rest, after)}'
            if not semi and not rest:
                # tail expression
                if self.is_ok_unit(ex):
                    inner = ex[2][0]
                    if inner[0] == 'if':
                        return self.tail_if(inner)
                    if inner[0] == 'iflet':
                        return self.tail_iflet(inner)
                    return self.ret_ok(inner)
                raise PE('tail expression is not Ok(..)')
            raise PE(f'statement expression {ex[0]}')
        raise PE(f'statement {k}')
    def tail_if(self, x):
        def blk(b):
            ss = [s for s in b if s != ('skip',)]
            if len(ss) == 1 and ss[0][0] == 'expr' and not ss[0][2]: return f'.ret (.ok {self.e(ss[0][1])})'
            raise PE('Ok(if ..) branch')
        return f'(if {self.e(x[1])} then {blk(x[2])} else {blk(x[3])})'
    def tail_iflet(self, x):
        pat, scrut, then, els = x[1], x[2], x[3], x[4]
        if not (pat[0] == 'pctor' and pat[1] == 'Some' and pat[2][0] == 'pvar'): raise PE('Ok(if let ..) pattern')
        v = pat[2][1]
        self.types[v] = {'opt-snapshot': 'snapshot'}.get(self.type_of(scrut), 'unknown')
        ts = [s for s in then if s != ('skip',)]
        es = [s for s in (els or []) if s != ('skip',)]
        if not (len(ts) == 1 and ts[0][0] == 'expr' and len(es) == 1 and es[0][0] == 'expr'): raise PE('Ok(if let ..) branches')
        t, e = ts[0][1], es[0][1]
        # txn.CALL(..)?.map(|d| expr)
        if t[0] == 'method' and t[2] == 'map' and t[1][0] == 'try' and self.txn_call(t[1][1]) and t[3][0][0] == 'closure':
            c, nm = self.txn_call(t[1][1])
            cv = t[3][0][1][0][1]
            body = self.e(t[3][0][2])
            thn = f'.call {c} fun _r => .ret (.ok (_r.map fun {cv} => {body}))'
        else:
            thn = f'.ret (.ok {self.e(t)})'
        return f'(match {self.e(scrut)} with\n  | some {v} => {thn}\n  | none => .ret (.ok {self.e(e)}))'
    break_k = None
    def assigned(self, stmts, acc):
        for s in stmts:
            if s[0] == 'assign': acc.add(s[1])
            elif s[0] == 'expr' and s[1][0] in ('if', 'iflet'):
                x = s[1]
                self.assigned(x[2] if x[0] == 'if' else x[3], acc)
                els = x[3] if x[0] == 'if' else x[4]
                if els: self.assigned(els, acc)
            elif s[0] == 'loop': self.assigned(s[1], acc)
        return acc
    def loop(self, body, rest, after):
        mut = sorted(self.assigned(body, set()), key=lambda v: (0 if self.lean_type(v) == 'Int' else 1, v))
        if not mut: raise PE('loop without assigned variables')
        name = f'{self.fname}Loop'
        # free variables of the loop function: all parameters of the enclosing function + let-bound names seen so far
        frees = [p for p in self.params] + [v for v in self.lets if v not in mut]
        saved_break, saved_wrote = self.break_k, self.wrote
        self.break_k = lambda: self.seq(rest, after)
        body_term = self.seq(body, lambda: f'{name} ' + ' '.join(n for n, _ in frees) + ' _fuel ' + ' '.join(mut))
        self.break_k, self.wrote = saved_break, saved_wrote
        sig = ' '.join(f'({n} : {t})' for n, t in frees)
        mts = ' '.join(f'({m} : {self.lean_type(m)})' for m in mut)
        self.loops.append(f'def {name} {sig} : Nat → ' + ' → '.join(self.lean_type(m) for m in mut) + f' → TxnM {self.rtype}\n'
                          f'  | 0, ' + ', '.join('_' for _ in mut) + ' => .ret (.ok false)\n'
                          f'  | _fuel + 1, ' + ', '.join(mut) + ' =>\n  ' + body_term + '\n')
        return f'{name} ' + ' '.join(n for n, _ in frees) + f' {self.loop_fuel} ' + ' '.join(mut)
    def lean_type(self, v):
        return {'int': 'Int', 'id': 'Uuid'}.get(self.types.get(v), 'Int' if v.endswith('len') else 'Uuid')

# ------------------------------------------------------------------------------------------------ driver
SIGS = {
 'get_child_version': ('getChildVersion', [('parent_version_id', 'Uuid')], 'Except SrvErr GetRes'),
 'add_version': ('addVersion', [('cfg', 'Config'), ('parent_version_id', 'Uuid'), ('history_segment', 'Bytes'), ('newId', 'Uuid'), ('now', 'Int')], 'Except SrvErr (AddRes × Urgency)'),
 'add_snapshot': ('addSnapshot', [('searchLen', 'Nat'), ('version_id', 'Uuid'), ('data', 'Bytes'), ('now', 'Int')], 'Except SrvErr Bool'),
 'get_snapshot': ('getSnapshot', [], 'Except SrvErr (Option (Uuid × Bytes))'),
}

def fn_body_tokens(src, name):
    m = re.search(r'pub\s+fn\s+' + name + r'\b', src)
    if not m: raise PE(f'fn {name} not found')
    toks = tokenize(src[m.start():])
    p = Parser(toks)
    # skip to the body: signature up to the first '{' at paren depth 0 after '->' type
    depth = 0
    while True:
        tk = p.peek()
        if tk is None: raise PE('no body')
        if tk == '(': depth += 1
        if tk == ')': depth -= 1
        if tk == '{' and depth == 0: break
        p.eat()
    return p

def translate_fn(src, rust_name, search_const):
    lean_name, params, rtype = SIGS[rust_name]
    p = fn_body_tokens(src, rust_name)
    body = p.block()
    em = Emit(lean_name, params, {search_const: '(searchLen : Int)'} if search_const else {})
    em.rtype = f'({rtype})'
    em.loop_fuel = '(searchLen + 1)'
    em.lets = []
    for n, t in params:
        em.types[n] = {'Uuid': 'id', 'Int': 'int', 'Nat': 'int'}.get(t, 'unknown')
    # record pure lets (for loop closures) as we go: wrap seq to track
    orig_seq = em.seq
    def tracking_seq(stmts, after):
        for s in stmts:
            if s[0] == 'let' and s[1][0] == 'pvar' and s[1][1] != 'txn':
                v = s[1][1]
                ty = {'client': 'Client', 'last_snapshot': 'Option Uuid'}.get(v)
                if ty and (v, ty) not in em.lets: em.lets.append((v, ty))
            break
        return orig_seq(stmts, after)
    em.seq = tracking_seq
    term = em.seq(body, lambda: (_ for _ in ()).throw(PE('function body falls off the end')))
    sig = ' '.join(f'({n} : {t})' for n, t in params)
    defs = ''.join(em.loops)
    defs += f'def {lean_name} {sig} : TxnM ({rtype}) :=\n  {term}\n'
    return defs

STATED = {}   # filled from the committed reference file (tools/server_src_stated.lean) if a function cannot be translated

def extract(src_path=None):
    source, parts = {}, {}
    try:
        src = open(src_path or os.path.join(REPO, 'core/src/server.rs')).read()
        i = src.find('#[cfg(test)]')
        if i >= 0: src = src[:i]
    except Exception as e:
        src = ''
    m = re.search(r'const\s+(\w+)\s*:\s*\w+\s*=\s*[0-9_]+\s*;', src)
    search_const = None
    for cm in re.finditer(r'const\s+(\w+)\s*:\s*(i32|u32|usize|i64|u64)\s*=', src):
        search_const = cm.group(1)
    for rust_name in SIGS:
        try:
            parts[rust_name] = translate_fn(src, rust_name, search_const)
            source[SIGS[rust_name][0]] = 'translated'
        except Exception as e:
            parts[rust_name] = None
            source[SIGS[rust_name][0]] = f'not-translated ({type(e).__name__}: {e}); behavioural correspondence only'
    return parts, source

def render(parts, stated):
    L = ["/- GENERATED by tools/server2lean.py from /repo's current core/src/server.rs on every check run. Do not edit. -/",
         'import Tcs.Model.Server', 'namespace Tcs', 'namespace ServerSrc', '']
    for rust_name in SIGS:
        L.append(parts[rust_name] if parts[rust_name] is not None else stated[rust_name])
    L += ['end ServerSrc', 'end Tcs', '']
    return '\n'.join(L)

def load_stated():
    p = os.path.join(os.path.dirname(os.path.abspath(__file__)), 'server_src_stated.json')
    return json.load(open(p)) if os.path.exists(p) else {}

def extract_and_write(path, src_path=None):
    parts, source = extract(src_path)
    stated = load_stated()
    for k in SIGS:
        if parts[k] is None and k not in stated:
            raise RuntimeError(f'{k} cannot be translated and there is no stated text')
    txt = render(parts, stated)
    os.makedirs(os.path.dirname(path), exist_ok=True)
    old = open(path).read() if os.path.exists(path) else None
    if old != txt:
        open(path, 'w').write(txt)
    return {'source': source, 'differs_from_stated': {SIGS[k][0]: True for k in SIGS if parts[k] is not None and stated.get(k) is not None and parts[k] != stated[k]}}

if __name__ == '__main__':
    out = sys.argv[1] if len(sys.argv) > 1 else '/verif/lean/Tcs/Generated/ServerSrc.lean'
    srcp = sys.argv[2] if len(sys.argv) > 2 else None
    if '--write-stated' in sys.argv:
        parts, source = extract(srcp)
        json.dump(parts, open(os.path.join(os.path.dirname(os.path.abspath(__file__)), 'server_src_stated.json'), 'w'), indent=1)
    print(json.dumps(extract_and_write(out, srcp), indent=1))
